(* C17: the invariant of the product system  order object || reference exchange.

   Idea.  The report queue x2c is the output of a trace of exchange steps that the client has not
   seen yet.  `sync o x0 pre` relates the object o to the exchange state x0 *it has caught up with*
   (the state just before the oldest undelivered report was produced); pre = the requests o has
   sent that x0 had not received.  Delivering a report moves x0 one step along the trace
   (lemma catchup), receiving a request is silent (lemma sync_recv), building a request extends pre
   (lemma sync_build).  When both queues are empty x0 is the exchange itself and sync gives
   convergence. *)
From Coq Require Import ZArith NArith List Bool Lia ZifyBool.
From AF Require Import Base.Sx Py.Str Fix.OrderStatus Fix.Order Fix.Exchange Lemmas.OrderL.
Import ListNotations.
Open Scope N_scope.

(* ---------- the known-finding steps, on the exchange state alone *)
Definition xbad (x : exch) (a : xact) : bool :=
  match a with
  | XExpire => (x_base x =? SUSPENDED) && match x_pend x with None => true | Some _ => false end
  | XAcceptRpl => (x_base x =? SUSPENDED) && match xstep x XAcceptRpl with Some _ => true | None => false end
  | _ => false
  end.

Lemma bad_step_xdo s a : bad_step s (XDo a) = xbad (s_x s) a.
Proof. destruct a; reflexivity. Qed.

(* ---------- traces of exchange steps *)
Inductive titem := TRecv (r : req) | TEmit (a : xact).

Fixpoint replay (x : exch) (tr : list titem) : option (exch * list rep) :=
  match tr with
  | [] => Some (x, [])
  | TRecv r :: t => replay (xrecv x r) t
  | TEmit a :: t =>
      if xbad x a then None else
      match xstep x a with
      | Some (x1, r) =>
          match replay x1 t with Some (x2, rs) => Some (x2, r :: rs) | None => None end
      | None => None
      end
  end.

Fixpoint reqs (tr : list titem) : list req :=
  match tr with
  | [] => []
  | TRecv r :: t => r :: reqs t
  | TEmit _ :: t => reqs t
  end.

Lemma reqs_app a b : reqs (a ++ b) = reqs a ++ reqs b.
Proof. induction a as [|[r|x] a IH]; cbn; rewrite ?IH; reflexivity. Qed.

Lemma replay_snoc_recv tr : forall x x2 rs r,
  replay x tr = Some (x2, rs) -> replay x (tr ++ [TRecv r]) = Some (xrecv x2 r, rs).
Proof.
  induction tr as [|[r0|a] tr IH]; intros x x2 rs r H; cbn in *.
  - inversion H; subst. reflexivity.
  - apply IH, H.
  - destruct (xbad x a); [discriminate|]. destruct (xstep x a) as [[x1 r1]|]; [|discriminate].
    destruct (replay x1 tr) as [[x3 rs3]|] eqn:E; [|discriminate]. inversion H; subst.
    rewrite (IH _ _ _ r E). reflexivity.
Qed.

Lemma replay_snoc_emit tr : forall x x2 rs a x3 r,
  replay x tr = Some (x2, rs) -> xbad x2 a = false -> xstep x2 a = Some (x3, r) ->
  replay x (tr ++ [TEmit a]) = Some (x3, rs ++ [r]).
Proof.
  induction tr as [|[r0|a0] tr IH]; intros x x2 rs a x3 r H Hb Hs; cbn in *.
  - inversion H; subst. rewrite Hb, Hs. reflexivity.
  - eapply IH; eauto.
  - destruct (xbad x a0); [discriminate|]. destruct (xstep x a0) as [[x1 r1]|]; [|discriminate].
    destruct (replay x1 tr) as [[x4 rs4]|] eqn:E; [|discriminate]. inversion H; subst.
    rewrite (IH _ _ _ _ _ _ E Hb Hs). reflexivity.
Qed.

(* ---------- the synchronisation relation *)
Definition base_ok (b : N) : bool := mem b [NEW; PARTIALLY_FILLED; FILLED; CANCELED; EXPIRED; SUSPENDED].
Definition is_open (b : N) : bool := mem b [PENDING_NEW; NEW; PARTIALLY_FILLED; SUSPENDED].

Definition fields_ok (o : order) (x : exch) : Prop :=
  o_cum o = x_cum x /\ o_leaves o = x_leaves x /\
  (x_base x <> CREATED -> o_price o = x_price x /\ o_qty o = x_qty x) /\
  (x_base x = CREATED -> x_cum x = 0%Z /\ x_leaves x = 0%Z).

Definition kind_status (k : pkind) (o : order) (x : exch) : Prop :=
  match k with
  | PCancel => o_status o = PENDING_CANCEL \/ (o_status o = CANCELED /\ x_base x = CANCELED)
  | PReplace => o_status o = PENDING_REPLACE
  end.

(* the object waits for the answer to request (k, clid, orig) *)
Definition await (o : order) (x : exch) (k : pkind) (clid orig : str) : Prop :=
  o_clord o = clid /\ o_orig o = Some orig /\ orig = x_clord x /\ orig <> [] /\
  base_ok (x_base x) = true /\ kind_status k o x.

Definition ids_idle (legacy : bool) (o : order) (x : exch) : Prop :=
  is_open (x_base x) = true ->
  (o_clord o = x_clord x /\ o_orig o = None) \/
  (legacy = true /\ o_orig o = Some (x_clord x) /\ x_clord x <> []).

Inductive sync (legacy : bool) (o : order) (x : exch) : list req -> Prop :=
| SyIdle : x_pend x = None -> fields_ok o x -> o_status o = x_base x -> ids_idle legacy o x ->
           o_clord o <> [] -> (x_base x = CREATED -> o_orig o = None) -> sync legacy o x []
| SyPend p : x_pend x = Some p -> fields_ok o x -> await o x (p_kind p) (p_clid p) (p_orig p) ->
           o_clord o <> [] -> sync legacy o x []
| SyNew id px qty : x_base x = CREATED -> x_pend x = None -> o_status o = PENDING_NEW ->
           o_clord o = id -> id <> [] -> o_orig o = None -> o_price o = px -> o_qty o = qty ->
           o_cum o = 0%Z -> o_leaves o = 0%Z -> sync legacy o x [RNew id px qty]
| SyCxl id orig qty : x_pend x = None -> fields_ok o x -> await o x PCancel id orig ->
           o_clord o <> [] -> sync legacy o x [RCancel id orig qty]
| SyRpl id orig px qty : x_pend x = None -> fields_ok o x -> await o x PReplace id orig ->
           o_clord o <> [] -> sync legacy o x [RReplace id orig px qty].

(* ---------- receiving a request is silent *)
Lemma base_ok_not_created b : base_ok b = true -> b <> CREATED.
Proof. intros H E. subst. discriminate. Qed.

Lemma sync_recv legacy o x r rest :
  sync legacy o x (r :: rest) -> sync legacy o (xrecv x r) rest.
Proof.
  intro H. inversion H; subst; clear H.
  - (* new order *)
    match goal with Hb : x_base x = CREATED |- _ => rename Hb into Hbase end.
    cbn [xrecv]. rewrite Hbase. cbn.
    apply SyIdle; cbn; auto.
    + unfold fields_ok; cbn. repeat split; auto; intro; discriminate.
    + intros _. left. auto.
  - (* cancel *)
    match goal with Ha : await _ _ _ _ _ |- _ => destruct Ha as (Hc & Ho & Hl & Hn & Hb & Hk) end.
    match goal with Hp : x_pend x = None |- _ => rename Hp into Hpend end.
    cbn [xrecv]. rewrite Hpend. subst orig.
    replace (x_base x =? CREATED) with false
      by (symmetry; apply N.eqb_neq, base_ok_not_created, Hb).
    rewrite str_eqb_refl. cbn [negb andb].
    eapply SyPend with (p := mkP PCancel id (x_clord x) 0 qty); cbn; auto.
    repeat split; auto.
  - match goal with Ha : await _ _ _ _ _ |- _ => destruct Ha as (Hc & Ho & Hl & Hn & Hb & Hk) end.
    match goal with Hp : x_pend x = None |- _ => rename Hp into Hpend end.
    cbn [xrecv]. rewrite Hpend. subst orig.
    replace (x_base x =? CREATED) with false
      by (symmetry; apply N.eqb_neq, base_ok_not_created, Hb).
    rewrite str_eqb_refl. cbn [negb andb].
    eapply SyPend with (p := mkP PReplace id (x_clord x) px qty); cbn; auto.
    repeat split; auto.
Qed.

Lemma sync_len legacy o x pre : sync legacy o x pre -> (length pre <= 1)%nat.
Proof. intro H. inversion H; cbn; lia. Qed.

Lemma sync_pend_pre legacy o x pre : sync legacy o x pre -> pre <> [] -> x_pend x = None.
Proof. intros H Hn. inversion H; subst; auto; congruence. Qed.

(* ---------- building a request *)
Lemma accepts_clord o c : c = o_clord o -> accepts o c = true.
Proof. intro H. subst. unfold accepts. rewrite str_eqb_refl. reflexivity. Qed.
Lemma accepts_orig o c : o_orig o = Some c -> accepts o c = true.
Proof. intro H. unfold accepts, opt_str_eqb. rewrite H, str_eqb_refl. apply orb_true_r. Qed.

Lemma live_iff b : is_live b = true <-> (b = NEW \/ b = PARTIALLY_FILLED \/ b = SUSPENDED).
Proof. unfold is_live, mem. cbn [existsb]. rewrite !orb_true_iff, !N.eqb_eq. intuition discriminate. Qed.
Lemma live_base_ok b : is_live b = true -> base_ok b = true.
Proof. intro H. apply live_iff in H. destruct H as [H|[H|H]]; subst; reflexivity. Qed.
Lemma working_iff b : is_working b = true <-> (b = NEW \/ b = PARTIALLY_FILLED).
Proof. unfold is_working, mem. cbn [existsb]. rewrite !orb_true_iff, !N.eqb_eq. intuition discriminate. Qed.

Lemma truthy_cons (s : str) : s <> [] -> truthy (Some s) = true.
Proof. destruct s; [congruence|reflexivity]. Qed.

Lemma await_status o x k clid orig :
  await o x k clid orig -> o_status o = PENDING_CANCEL \/ o_status o = CANCELED \/ o_status o = PENDING_REPLACE.
Proof. intros (_ & _ & _ & _ & _ & Hk). destruct k; cbn in Hk; [destruct Hk as [Hk|[Hk _]]|]; auto. Qed.

Ltac await_new Hgate :=
  match goal with H : await _ _ _ _ _ |- _ =>
    destruct (await_status _ _ _ _ _ H) as [E|[E|E]]; rewrite E in Hgate; discriminate end.
Ltac await_can Hcan :=
  match goal with H : await _ _ _ _ _ |- _ =>
    destruct (await_status _ _ _ _ _ H) as [E|[E|E]]; rewrite E in Hcan;
    destruct Hcan as [E'|[E'|E']]; discriminate end.

Lemma sync_build legacy o x pre c ob r :
  sync legacy o x pre -> obuild o c = Some ob -> snd ob = Ok r ->
  pre = [] /\ x_pend x = None /\ sync legacy (fst ob) x [r].
Proof.
  intros Hs Hb Hr.
  destruct (build_cases o c ob Hb) as [[e He]|[r' [Hr' [Hid [Hf [Hgate Hk]]]]]].
  { subst ob. discriminate. }
  rewrite Hr in Hr'. inversion Hr'; subst r'; clear Hr'.
  assert (Hidne : snd (clord_next o) <> []) by (unfold clord_next; cbn [snd]; apply clord_id_nonempty).
  destruct c as [| |p q|rr]; try discriminate.
  - (* new *)
    inversion Hs; subst; clear Hs.
    + destruct r as [id px qty| |]; destruct Hk as [Hk1 Hk2]; try discriminate; try (destruct Hk1 as [? [? [? _]]]; discriminate).
      destruct Hk2 as [-> ->].
      match goal with H : o_status o = x_base x |- _ => rename H into Hst end.
      match goal with H : fields_ok o x |- _ => destruct H as (Hcum & Hlv & _ & Hz) end.
      rewrite Hgate in Hst. symmetry in Hst. destruct (Hz Hst) as [Hz1 Hz2].
      split; [reflexivity|]. split; [assumption|]. rewrite Hf. cbn [req_id] in Hid. subst id.
      apply SyNew; cbn; auto; try congruence.
    + await_new Hgate.
    + rewrite Hgate in *. discriminate.
    + await_new Hgate.
    + await_new Hgate.
  - (* cancel *)
    destruct Hgate as [Hcan Htr]. apply can_cancel_iff in Hcan.
    inversion Hs; subst; clear Hs.
    + destruct r as [|id orig qty|]; destruct Hk as [Hk1 Hk2]; try discriminate; try (destruct Hk1 as [? [? [? _]]]; discriminate).
      destruct Hk2 as [-> ->]. cbn [req_id] in Hid. subst id.
      match goal with H : o_status o = x_base x |- _ => rename H into Hst end.
      match goal with H : ids_idle legacy o x |- _ => rename H into Hids end.
      assert (Hlive : is_live (x_base x) = true) by (apply live_iff; rewrite <- Hst; exact Hcan).
      assert (Hopen : is_open (x_base x) = true).
      { apply live_iff in Hlive. destruct Hlive as [E|[E|E]]; rewrite E; reflexivity. }
      destruct (Hids Hopen) as [[Hc Ho]|[_ [Ho Hne]]].
      2:{ rewrite Ho, (truthy_cons _ Hne) in Htr. discriminate. }
      split; [reflexivity|]. split; [assumption|]. rewrite Hf.
      apply SyCxl; cbn; auto.
      unfold await; cbn. repeat split; auto. apply live_base_ok, Hlive.
    + await_can Hcan.
    + match goal with H : o_status o = PENDING_NEW |- _ => rewrite H in Hcan end.
      destruct Hcan as [E|[E|E]]; discriminate.
    + await_can Hcan.
    + await_can Hcan.
  - (* replace *)
    destruct Hgate as [Hcan Htr]. apply can_cancel_iff in Hcan.
    inversion Hs; subst; clear Hs.
    + destruct r as [| |id orig px qty]; try (destruct Hk as [Hk1 Hk2]; discriminate).
      destruct Hk as [_ ->]. cbn [req_id] in Hid. subst id.
      match goal with H : o_status o = x_base x |- _ => rename H into Hst end.
      match goal with H : ids_idle legacy o x |- _ => rename H into Hids end.
      assert (Hlive : is_live (x_base x) = true) by (apply live_iff; rewrite <- Hst; exact Hcan).
      assert (Hopen : is_open (x_base x) = true).
      { apply live_iff in Hlive. destruct Hlive as [E|[E|E]]; rewrite E; reflexivity. }
      destruct (Hids Hopen) as [[Hc Ho]|[_ [Ho Hne]]].
      2:{ rewrite Ho, (truthy_cons _ Hne) in Htr. discriminate. }
      split; [reflexivity|]. split; [assumption|]. rewrite Hf.
      apply SyRpl; cbn; auto.
      unfold await; cbn. repeat split; auto. apply live_base_ok, Hlive.
    + await_can Hcan.
    + match goal with H : o_status o = PENDING_NEW |- _ => rewrite H in Hcan end.
      destruct Hcan as [E|[E|E]]; discriminate.
    + await_can Hcan.
    + await_can Hcan.
Qed.

(* ---------- the object catches up with one exchange step *)
Lemma cs_exec_T st ex ms : exec_report st ex ms = T -> change_status st K_EXECUTIONREPORT ex ms false = T.
Proof. intro H. unfold change_status. change (K_EXECUTIONREPORT =? K_EXECUTIONREPORT) with true. cbv iota. rewrite H. reflexivity. Qed.

Lemma cs_exec_notT st ex ms : exec_report st ex ms <> T -> (change_status st K_EXECUTIONREPORT ex ms false =? T) = false.
Proof.
  intro H. unfold change_status. change (K_EXECUTIONREPORT =? K_EXECUTIONREPORT) with true. cbv iota.
  destruct (exec_report st ex ms =? ERR) eqn:E; cbn [andb negb]; [reflexivity|]. apply N.eqb_neq, H.
Qed.

Lemma row_cases entries d ms : row entries d ms = d \/ exists e, In e entries /\ row entries d ms = snd e.
Proof.
  unfold row. destruct (find _ entries) as [e|] eqn:E; [|left; reflexivity].
  right. exists e. split; [|reflexivity]. apply find_some in E. apply E.
Qed.

Lemma pending_replace_ignores ex ms : ex <> X_REPLACED -> exec_report PENDING_REPLACE ex ms <> T.
Proof.
  intro H. unfold exec_report. cbn [mem existsb]. cbv beta.
  change (PENDING_REPLACE =? CREATED) with false. change (PENDING_REPLACE =? PENDING_NEW) with false.
  change (PENDING_REPLACE =? NEW) with false. change (PENDING_REPLACE =? FILLED) with false.
  change (PENDING_REPLACE =? CANCELED) with false. change (PENDING_REPLACE =? REJECTED) with false.
  change (PENDING_REPLACE =? EXPIRED) with false. change (PENDING_REPLACE =? SUSPENDED) with false.
  change (PENDING_REPLACE =? PARTIALLY_FILLED) with false. change (PENDING_REPLACE =? PENDING_CANCEL) with false.
  change (PENDING_REPLACE =? PENDING_REPLACE) with true. cbn [orb]. cbv iota.
  apply N.eqb_neq in H. rewrite H.
  destruct (row_cases [(CREATED, ERR); (ACCEPTED_FOR_BIDDING, ERR)] IGN ms) as [E|[e [Hin E]]]; rewrite E.
  - discriminate.
  - destruct Hin as [<-|[<-|[]]]; discriminate.
Qed.

Lemma pending_cancel_row ex ms :
  exec_report PENDING_CANCEL ex ms = if ms =? CANCELED then T else if ms =? CREATED then ERR else IGN.
Proof.
  unfold exec_report. cbn [mem existsb]. cbv beta.
  change (PENDING_CANCEL =? CREATED) with false. change (PENDING_CANCEL =? PENDING_NEW) with false.
  change (PENDING_CANCEL =? NEW) with false. change (PENDING_CANCEL =? FILLED) with false.
  change (PENDING_CANCEL =? CANCELED) with false. change (PENDING_CANCEL =? REJECTED) with false.
  change (PENDING_CANCEL =? EXPIRED) with false. change (PENDING_CANCEL =? SUSPENDED) with false.
  change (PENDING_CANCEL =? PARTIALLY_FILLED) with false. change (PENDING_CANCEL =? PENDING_CANCEL) with true.
  cbn [orb]. cbv iota. unfold row. cbn [find fst snd].
  rewrite (N.eqb_sym CANCELED ms), (N.eqb_sym CREATED ms).
  destruct (ms =? CANCELED); [reflexivity|]. destruct (ms =? CREATED); reflexivity.
Qed.

Lemma canceled_row ex ms : exec_report CANCELED ex ms = IGN.
Proof. reflexivity. Qed.

Lemma base_ok_mem b : base_ok b = true -> mem b all_statuses = true.
Proof.
  unfold base_ok, mem. cbn [existsb]. rewrite !orb_true_iff, !N.eqb_eq.
  intros [H|[H|[H|[H|[H|[H|H]]]]]]; subst; try reflexivity. discriminate.
Qed.

Lemma base_ok_cases b : base_ok b = true ->
  b = NEW \/ b = PARTIALLY_FILLED \/ b = FILLED \/ b = CANCELED \/ b = EXPIRED \/ b = SUSPENDED.
Proof.
  unfold base_ok, mem. cbn [existsb]. rewrite !orb_true_iff, !N.eqb_eq. intuition discriminate.
Qed.

Lemma await_exec o x xb k clid orig rc ro ex :
  fields_ok o x -> await o x k clid orig -> o_clord o <> [] ->
  x_clord xb = x_clord x -> x_pend xb = x_pend x -> x_price xb = x_price x -> x_qty xb = x_qty x ->
  base_ok (x_base xb) = true -> (x_base x = CANCELED -> x_base xb = CANCELED) ->
  (rc = x_clord x \/ rc = clid) -> ex <> X_REPLACED ->
  (x_pend x = None \/ exists p, x_pend x = Some p /\ p_kind p = k) ->
  let o' := fst (process_execution_report o (exec_of xb rc ro ex false)) in
  fields_ok o' (bump xb) /\ await o' (bump xb) k clid orig /\ o_clord o' <> [].
Proof.
  intros (Hcum & Hlv & Hpq & Hz) (Hc & Ho & Hl & Hn & Hb & Hk) Hne Hxc Hxp Hxpx Hxq Hb' Hcc Hrc Hex Hpend.
  unfold exec_of. cbv beta iota.
  set (e := mkE rc ro (x_oid xb) ex (x_status xb) (x_cum xb) (x_leaves xb) (x_avg xb) None None).
  assert (Ha : accepts o (e_clid e) = true).
  { unfold e. cbn [e_clid]. destruct Hrc as [->| ->].
    - apply accepts_orig. rewrite Ho, Hl. reflexivity.
    - apply accepts_clord. auto. }
  destruct (per_accepted o e Ha) as [Pcl Por _ Pcum Plv _ Ppx Pqty _ Pst _ _].
  unfold exec_changes in Pst. subst e. cbn [e_ex e_cum e_leaves e_px e_qty e_st] in *.
  apply N.eqb_neq in Hex. rewrite Hex in *.
  cbv zeta. split; [|split].
  - unfold fields_ok. cbn [bump x_cum x_leaves x_base x_price x_qty]. rewrite Pcum, Plv, Ppx, Pqty.
    split; [reflexivity|]. split; [reflexivity|]. split.
    + intros _. rewrite Hxpx, Hxq. apply Hpq. apply base_ok_not_created, Hb.
    + intro E. rewrite E in Hb'. discriminate.
  - unfold await. cbn [bump x_clord x_base]. rewrite Pcl, Por, Hxc.
    split; [exact Hc|]. split; [exact Ho|]. split; [exact Hl|]. split; [exact Hn|]. split; [exact Hb'|].
    unfold kind_status. cbn [bump x_base]. rewrite Pst.
    assert (Hst : x_status xb = x_base xb \/ (k = PCancel /\ x_status xb = PENDING_CANCEL)
                  \/ (k = PReplace /\ x_status xb = PENDING_REPLACE)).
    { unfold x_status. rewrite Hxp. destruct Hpend as [->|[p [-> Hpk]]]; [left; reflexivity|].
      right. unfold pend_status. rewrite Hpk. destruct k; auto. }
    destruct k; cbn [kind_status] in Hk; cbv beta iota.
    + destruct Hk as [Hk|[Hk Hbx]].
      * rewrite Hk. unfold change_status. change (K_EXECUTIONREPORT =? K_EXECUTIONREPORT) with true. cbv iota.
        rewrite pending_cancel_row.
        destruct Hst as [Hst|[[_ Hst]|[Hst _]]]; [| |discriminate]; rewrite Hst.
        -- destruct (base_ok_cases _ Hb') as [E|[E|[E|[E|[E|E]]]]]; rewrite E; cbn; auto.
        -- cbn. auto.
      * rewrite Hk. rewrite cs_exec_notT by (rewrite canceled_row; discriminate). cbn [andb]. auto.
    + rewrite Hk. rewrite cs_exec_notT by (apply pending_replace_ignores; apply N.eqb_neq; exact Hex).
      reflexivity.
  - rewrite Pcl. exact Hne.
Qed.

Lemma open_not_created b : is_open b = true -> b <> CREATED.
Proof. intros H E. subst. discriminate. Qed.

Lemma idle_exec legacy o x xb ex :
  x_pend x = None -> fields_ok o x -> o_status o = x_base x -> ids_idle legacy o x -> o_clord o <> [] ->
  is_open (x_base x) = true ->
  x_clord xb = x_clord x -> x_pend xb = None -> x_price xb = x_price x -> x_qty xb = x_qty x ->
  x_base xb <> CREATED -> ex <> X_REPLACED ->
  ((exec_report (x_base x) ex (x_base xb) = T /\ mem (x_base xb) all_statuses = true) \/ x_base xb = x_base x) ->
  sync legacy (fst (process_execution_report o (exec_of xb (x_clord x) None ex false))) (bump xb) [].
Proof.
  intros Hp (Hcum & Hlv & Hpq & Hz) Hst Hids Hne Hopen Hxc Hxp Hxpx Hxq Hnc Hex Hstat.
  unfold exec_of. cbv beta iota.
  set (e := mkE (x_clord x) None (x_oid xb) ex (x_status xb) (x_cum xb) (x_leaves xb) (x_avg xb) None None).
  assert (Ha : accepts o (e_clid e) = true).
  { unfold e. cbn [e_clid]. destruct (Hids Hopen) as [[Hc _]|[_ [Ho _]]].
    - apply accepts_clord. auto.
    - apply accepts_orig. exact Ho. }
  destruct (per_accepted o e Ha) as [Pcl Por _ Pcum Plv _ Ppx Pqty _ Pst _ _].
  unfold exec_changes in Pst. subst e. cbn [e_ex e_cum e_leaves e_px e_qty e_st] in *.
  apply N.eqb_neq in Hex. rewrite Hex in *.
  assert (Hxs : x_status xb = x_base xb) by (unfold x_status; rewrite Hxp; reflexivity).
  apply SyIdle.
  - cbn. exact Hxp.
  - unfold fields_ok. cbn [bump x_cum x_leaves x_base x_price x_qty]. rewrite Pcum, Plv, Ppx, Pqty.
    split; [reflexivity|]. split; [reflexivity|]. split.
    + intros _. rewrite Hxpx, Hxq. apply Hpq. apply open_not_created, Hopen.
    + intro E. contradiction.
  - cbn [bump x_base]. rewrite Pst, Hxs, Hst. destruct Hstat as [[H1 H2]|H].
    + rewrite (cs_exec_T _ _ _ H1), H2. reflexivity.
    + rewrite H. match goal with |- (if ?c then _ else _) = _ => destruct c end; reflexivity.
  - unfold ids_idle. cbn [bump x_base x_clord]. rewrite Pcl, Por, Hxc. intros _. apply Hids, Hopen.
  - rewrite Pcl. exact Hne.
  - cbn [bump x_base]. intro E. contradiction.
Qed.

Lemma process_report_exec legacy o xb c oo ex t :
  process_report legacy o (exec_of xb c oo ex t) = process_execution_report o (exec_of xb c oo ex t).
Proof. reflexivity. Qed.

Lemma xstep_created x a : x_base x = CREATED -> x_pend x = None -> xstep x a = None.
Proof. intros Hb Hp. destruct a; cbn [xstep]; rewrite ?Hb, ?Hp; reflexivity. Qed.

Ltac base_cases H :=
  first [ apply working_iff in H; destruct H as [H|H]
        | apply live_iff in H; destruct H as [H|[H|H]]
        | apply N.eqb_eq in H ].

Lemma catchup_idle legacy o x a x1 r :
  x_pend x = None -> fields_ok o x -> o_status o = x_base x -> ids_idle legacy o x -> o_clord o <> [] ->
  (x_base x = CREATED -> o_orig o = None) ->
  xbad x a = false -> xstep x a = Some (x1, r) ->
  sync legacy (fst (process_report legacy o r)) x1 [].
Proof.
  intros Hp Hf Hst Hids Hne Hcr Hbad Hx.
  destruct a; cbn [xstep] in Hx; rewrite ?Hp in Hx; try discriminate.
  - (* pending new *)
    destruct (x_base x =? PENDING_NEW) eqn:Hb; [|discriminate]. apply N.eqb_eq in Hb.
    unfold emit in Hx. inversion Hx; subst x1 r; clear Hx. rewrite process_report_exec.
    apply idle_exec; auto; try (rewrite Hb; reflexivity || discriminate); try discriminate.
  - (* ack *)
    destruct (x_base x =? PENDING_NEW) eqn:Hb; [|discriminate]. apply N.eqb_eq in Hb.
    unfold emit in Hx. inversion Hx; subst x1 r; clear Hx. rewrite process_report_exec.
    apply idle_exec; auto; cbn; try (rewrite Hb; reflexivity || discriminate); try discriminate.
    left. rewrite Hb. split; reflexivity.
  - (* reject new *)
    destruct (x_base x =? PENDING_NEW) eqn:Hb; [|discriminate]. apply N.eqb_eq in Hb.
    unfold emit in Hx. inversion Hx; subst x1 r; clear Hx. rewrite process_report_exec.
    apply idle_exec; auto; cbn; try (rewrite Hb; reflexivity || discriminate); try discriminate.
    left. rewrite Hb. split; reflexivity.
  - (* fill *)
    destruct (is_working (x_base x)) eqn:Hb; cbn [andb] in Hx; [|discriminate].
    destruct ((0 <? f)%Z && (f <=? x_leaves x)%Z); [|discriminate].
    unfold emit in Hx. inversion Hx; subst x1 r; clear Hx. rewrite process_report_exec.
    apply working_iff in Hb.
    apply idle_exec; auto; cbn [set_book x_clord x_pend x_price x_qty x_base]; try discriminate.
    + destruct Hb as [Hb|Hb]; rewrite Hb; reflexivity.
    + destruct (_ =? 0)%Z; discriminate.
    + left. destruct Hb as [Hb|Hb]; rewrite Hb; destruct (_ =? 0)%Z; split; reflexivity.
  - (* unsolicited cancel *)
    destruct (is_live (x_base x)) eqn:Hb; [|discriminate].
    unfold emit in Hx. inversion Hx; subst x1 r; clear Hx. rewrite process_report_exec.
    apply live_iff in Hb.
    apply idle_exec; auto; cbn [set_book x_clord x_pend x_price x_qty x_base]; try discriminate.
    + destruct Hb as [Hb|[Hb|Hb]]; rewrite Hb; reflexivity.
    + left. destruct Hb as [Hb|[Hb|Hb]]; rewrite Hb; split; reflexivity.
  - (* expire *)
    destruct (is_live (x_base x)) eqn:Hb; [|discriminate].
    unfold emit in Hx. inversion Hx; subst x1 r; clear Hx. rewrite process_report_exec.
    apply live_iff in Hb. cbn [xbad] in Hbad. rewrite Hp in Hbad.
    apply idle_exec; auto; cbn [set_book x_clord x_pend x_price x_qty x_base]; try discriminate.
    + destruct Hb as [Hb|[Hb|Hb]]; rewrite Hb; reflexivity.
    + left. destruct Hb as [Hb|[Hb|Hb]]; rewrite Hb in *; try (split; reflexivity). discriminate.
  - (* suspend *)
    destruct (is_working (x_base x)) eqn:Hb; [|discriminate].
    unfold emit in Hx. inversion Hx; subst x1 r; clear Hx. rewrite process_report_exec.
    apply working_iff in Hb.
    apply idle_exec; auto; cbn [set_book x_clord x_pend x_price x_qty x_base]; try discriminate.
    + destruct Hb as [Hb|Hb]; rewrite Hb; reflexivity.
    + left. destruct Hb as [Hb|Hb]; rewrite Hb; split; reflexivity.
  - (* resume *)
    destruct (x_base x =? SUSPENDED) eqn:Hb; [|discriminate]. apply N.eqb_eq in Hb.
    unfold emit in Hx. inversion Hx; subst x1 r; clear Hx. rewrite process_report_exec.
    apply idle_exec; auto; cbn [set_book x_clord x_pend x_price x_qty x_base]; try discriminate.
    + rewrite Hb; reflexivity.
    + unfold open_status. destruct (_ =? 0)%Z; discriminate.
    + left. rewrite Hb. unfold open_status. destruct (_ =? 0)%Z; split; reflexivity.
Qed.

Definition is_answer (a : xact) : bool :=
  match a with XAcceptCxl | XAcceptRpl | XRejReq => true | _ => false end.

Lemma await_step o x k clid orig a x1 r :
  fields_ok o x -> await o x k clid orig -> o_clord o <> [] ->
  (x_pend x = None \/ exists p, x_pend x = Some p /\ p_kind p = k /\ p_clid p = clid) ->
  is_answer a = false ->
  xstep x a = Some (x1, r) ->
  fields_ok (fst (process_report false o r)) x1 /\ await (fst (process_report false o r)) x1 k clid orig
  /\ o_clord (fst (process_report false o r)) <> [] /\ x_pend x1 = x_pend x
  /\ forall legacy, process_report legacy o r = process_report false o r.
Proof.
  intros Hf Haw Hne Hpend Hans Hx.
  assert (Hb := Haw). destruct Hb as (_ & _ & _ & _ & Hb & _).
  assert (Hpend' : x_pend x = None \/ exists p, x_pend x = Some p /\ p_kind p = k).
  { destruct Hpend as [H|[p [H1 [H2 _]]]]; [left; exact H|right; exists p; auto]. }
  assert (Hnpn : (x_base x =? PENDING_NEW) = false).
  { destruct (base_ok_cases _ Hb) as [E|[E|[E|[E|[E|E]]]]]; rewrite E; reflexivity. }
  destruct a; try discriminate; cbn [xstep] in Hx; rewrite ?Hnpn in Hx; try discriminate.
  - (* fill *)
    destruct (is_working (x_base x)) eqn:Hw; cbn [andb] in Hx; [|discriminate].
    destruct ((0 <? f)%Z && (f <=? x_leaves x)%Z); [|discriminate].
    unfold emit in Hx. inversion Hx; subst x1 r; clear Hx. rewrite process_report_exec.
    apply working_iff in Hw.
    pose proof (await_exec o x (set_book x (if (x_leaves x - f =? 0)%Z then FILLED else PARTIALLY_FILLED)
                                         (x_cum x + f)%Z (x_leaves x - f)%Z avg) k clid orig (x_clord x) None X_TRADE
                           Hf Haw Hne) as H.
    cbn [set_book x_clord x_pend x_price x_qty x_base] in H.
    destruct H as (H1 & H2 & H3); auto; try discriminate.
    + destruct (_ =? 0)%Z; reflexivity.
    + intro E. destruct Hw as [Hw|Hw]; rewrite Hw in E; discriminate.
  - (* pending ack *)
    destruct (x_pend x) as [p|] eqn:Hp; [|discriminate].
    unfold emit in Hx. inversion Hx; subst x1 r; clear Hx. rewrite process_report_exec.
    destruct Hpend as [H|[p' [H1 [H2 H3]]]]; [discriminate|]. inversion H1; subst p'.
    pose proof (await_exec o x x k clid orig (p_clid p) (Some (p_orig p))
                  (match p_kind p with PCancel => X_PENDING_CANCEL | PReplace => X_PENDING_REPLACE end)
                  Hf Haw Hne) as H.
    destruct H as (H4 & H5 & H6); auto.
    + destruct (p_kind p); discriminate.
    + right. exists p. auto.
  - (* unsolicited cancel *)
    destruct (is_live (x_base x)) eqn:Hw; [|discriminate].
    unfold emit in Hx. inversion Hx; subst x1 r; clear Hx. rewrite process_report_exec.
    pose proof (await_exec o x (set_book x CANCELED (x_cum x) 0%Z (x_avg x)) k clid orig (x_clord x) None X_CANCELED
                           Hf Haw Hne) as H.
    cbn [set_book x_clord x_pend x_price x_qty x_base] in H.
    destruct H as (H1 & H2 & H3); auto; discriminate.
  - (* expire *)
    destruct (is_live (x_base x)) eqn:Hw; [|discriminate].
    unfold emit in Hx. inversion Hx; subst x1 r; clear Hx. rewrite process_report_exec.
    apply live_iff in Hw.
    pose proof (await_exec o x (set_book x EXPIRED (x_cum x) 0%Z (x_avg x)) k clid orig (x_clord x) None X_EXPIRED
                           Hf Haw Hne) as H.
    cbn [set_book x_clord x_pend x_price x_qty x_base] in H.
    destruct H as (H1 & H2 & H3); auto; try discriminate.
    intro E. destruct Hw as [Hw|[Hw|Hw]]; rewrite Hw in E; discriminate.
  - (* suspend *)
    destruct (is_working (x_base x)) eqn:Hw; [|discriminate].
    unfold emit in Hx. inversion Hx; subst x1 r; clear Hx. rewrite process_report_exec.
    apply working_iff in Hw.
    pose proof (await_exec o x (set_book x SUSPENDED (x_cum x) (x_leaves x) (x_avg x)) k clid orig (x_clord x) None X_SUSPENDED
                           Hf Haw Hne) as H.
    cbn [set_book x_clord x_pend x_price x_qty x_base] in H.
    destruct H as (H1 & H2 & H3); auto; try discriminate.
    intro E. destruct Hw as [Hw|Hw]; rewrite Hw in E; discriminate.
  - (* resume *)
    destruct (x_base x =? SUSPENDED) eqn:Hw; [|discriminate]. apply N.eqb_eq in Hw.
    unfold emit in Hx. inversion Hx; subst x1 r; clear Hx. rewrite process_report_exec.
    pose proof (await_exec o x (set_book x (open_status (x_cum x)) (x_cum x) (x_leaves x) (x_avg x)) k clid orig (x_clord x) None X_NEW
                           Hf Haw Hne) as H.
    cbn [set_book x_clord x_pend x_price x_qty x_base] in H.
    destruct H as (H1 & H2 & H3); auto; try discriminate.
    + unfold open_status. destruct (_ =? 0)%Z; reflexivity.
    + intro E. rewrite Hw in E. discriminate.
Qed.

(* a cancel reject moves an order that waits for an answer to the reported status ... *)
Lemma cancel_reject_T st ms :
  st = PENDING_CANCEL \/ st = PENDING_REPLACE -> base_ok ms = true ->
  change_status st K_ORDERCANCELREJECT 0 ms false = T.
Proof.
  intros Hs H. destruct (base_ok_cases _ H) as [E|[E|[E|[E|[E|E]]]]]; rewrite E;
    destruct Hs as [-> | ->]; reflexivity.
Qed.

(* ... and is ignored by a finished one (repaired table, round 7) *)
Lemma cancel_reject_finished st ms :
  OrderStatus.is_finished st = true -> (change_status st K_ORDERCANCELREJECT 0 ms false =? T) = false.
Proof.
  intro H. apply is_finished_iff in H. destruct H as [H|[H|[H|H]]]; rewrite H; reflexivity.
Qed.

Lemma catchup_answer legacy o x p a x1 r :
  x_pend x = Some p -> fields_ok o x -> await o x (p_kind p) (p_clid p) (p_orig p) -> o_clord o <> [] ->
  xbad x a = false -> is_answer a = true -> xstep x a = Some (x1, r) ->
  sync legacy (fst (process_report legacy o r)) x1 [].
Proof.
  intros Hp Hf Haw Hne Hbad Hans Hx.
  destruct Hf as (Hcum & Hlv & Hpq & Hz). destruct Haw as (Hc & Ho & Hl & Hn & Hb & Hk).
  destruct a; try discriminate; cbn [xstep] in Hx; rewrite Hp in Hx.
  - (* cancelled *)
    destruct (p_kind p) eqn:Hkind; [|discriminate].
    destruct (is_live (x_base x)) eqn:Hlive; [|discriminate].
    unfold emit in Hx. inversion Hx; subst x1 r; clear Hx. rewrite process_report_exec.
    unfold exec_of. cbv beta iota.
    match goal with |- context [RExec ?ee] => set (e := ee) end.
    assert (Ha : accepts o (e_clid e) = true) by (apply accepts_clord; unfold e; cbn; auto).
    destruct (per_accepted o e Ha) as [Pcl Por _ Pcum Plv _ Ppx Pqty _ Pst _ _].
    unfold exec_changes in Pst. subst e.
    cbn [e_ex e_cum e_leaves e_px e_qty e_st set_book set_pend set_clord x_cum x_leaves x_avg x_status x_pend x_base] in *.
    change (X_CANCELED =? X_REPLACED) with false in *. cbv iota in *.
    cbn [kind_status] in Hk. apply live_iff in Hlive.
    destruct Hk as [Hk|[_ Hk]]; [|destruct Hlive as [E|[E|E]]; rewrite E in Hk; discriminate].
    rewrite Hk in Pst. change (mem CANCELED all_statuses) with true in Pst.
    change (change_status PENDING_CANCEL K_EXECUTIONREPORT X_CANCELED CANCELED false =? T) with true in Pst.
    cbn [andb] in Pst.
    apply SyIdle; cbn [bump set_book set_pend set_clord x_pend x_base x_cum x_leaves x_price x_qty x_clord]; auto.
    + unfold fields_ok. cbn [bump set_book set_pend set_clord x_base x_cum x_leaves x_price x_qty].
      rewrite Pcum, Plv, Ppx, Pqty. repeat split; auto; try (apply Hpq, base_ok_not_created, Hb); discriminate.
    + intro H. discriminate.
    + rewrite Pcl. exact Hne.
    + discriminate.
  - (* replaced *)
    destruct (p_kind p) eqn:Hkind; [discriminate|].
    destruct ((0 <? p_qty p)%Z && (0 <? p_px p)%Z
              && (is_live (x_base x) || (x_base x =? FILLED) && (x_cum x <? p_qty p)%Z)) eqn:Hen; [|discriminate].
    cbn [xbad xstep] in Hbad. rewrite Hp, Hkind, Hen in Hbad. rewrite andb_true_r in Hbad.
    unfold emit in Hx. inversion Hx; subst x1 r; clear Hx. rewrite process_report_exec.
    rewrite Hbad. unfold exec_of. cbv beta iota.
    match goal with |- context [RExec ?ee] => set (e := ee) end.
    assert (Ha : accepts o (e_clid e) = true) by (apply accepts_clord; unfold e; cbn; auto).
    destruct (per_accepted o e Ha) as [Pcl Por _ Pcum Plv _ Ppx Pqty _ Pst _ _].
    unfold exec_changes in Pst. subst e.
    cbn [e_ex e_cum e_leaves e_px e_qty e_st set_book set_pend set_clord set_terms x_cum x_leaves x_avg x_status x_pend
         x_base x_price x_qty dflt] in *.
    change (X_REPLACED =? X_REPLACED) with true in *. cbv iota in *.
    cbn [kind_status] in Hk. rewrite Hk in Pst.
    set (b' := if (x_cum x =? 0)%Z then NEW
               else if (Z.max (p_qty p) (x_cum x) - x_cum x =? 0)%Z then FILLED else PARTIALLY_FILLED) in *.
    assert (Hb3 : b' = NEW \/ b' = PARTIALLY_FILLED \/ b' = FILLED).
    { unfold b'. destruct (_ =? 0)%Z; [auto|]. destruct (_ =? 0)%Z; auto. }
    assert (Hch : (change_status PENDING_REPLACE K_EXECUTIONREPORT X_REPLACED b' false =? T) && mem b' all_statuses = true).
    { destruct Hb3 as [E|[E|E]]; rewrite E; reflexivity. }
    rewrite Hch in Pst.
    apply SyIdle; cbn [bump set_book set_pend set_clord set_terms x_pend x_base x_cum x_leaves x_price x_qty x_clord]; auto.
    + unfold fields_ok. cbn [bump set_book set_pend set_clord set_terms x_base x_cum x_leaves x_price x_qty].
      rewrite Pcum, Plv, Ppx, Pqty. split; [reflexivity|]. split; [reflexivity|]. split; [intros _; split; reflexivity|].
      intro E; destruct Hb3 as [E'|[E'|E']]; rewrite E' in E; discriminate.
    + intros _. left. rewrite Pcl, Por. auto.
    + rewrite Pcl. exact Hne.
  - (* cancel reject *)
    inversion Hx; subst x1 r; clear Hx. cbn [process_report].
    destruct (pcr_post legacy o (p_clid p) (p_orig p) (x_base x)) as [Pcum Plv Ppx Pqty _ _ _ Pst _ Pids _].
    assert (Hnr : (x_base x =? REJECTED) = false).
    { destruct (base_ok_cases _ Hb) as [E|[E|[E|[E|[E|E]]]]]; rewrite E; reflexivity. }
    rewrite Hnr in Plv.
    assert (Hwait : (o_status o = PENDING_CANCEL \/ o_status o = PENDING_REPLACE)
                    \/ (o_status o = CANCELED /\ x_base x = CANCELED)).
    { destruct (p_kind p); cbn [kind_status] in Hk; [destruct Hk as [Hk|Hk]|]; auto. }
    destruct Hwait as [Hwait|[Hoc Hxc]].
    + (* the object waits for the answer: it takes the reported status and its ids back *)
      assert (Hrc : rej_changes legacy o (x_base x) = true).
      { unfold rej_changes. rewrite (cancel_reject_T _ _ Hwait Hb), (base_ok_mem _ Hb), orb_true_r. reflexivity. }
      rewrite Hrc in Pst, Pids. rewrite Ho, (truthy_cons _ Hn) in Pids.
      apply SyIdle; cbn [bump set_pend x_pend x_base x_cum x_leaves x_price x_qty x_clord]; auto.
      * unfold fields_ok. cbn [bump set_pend x_base x_cum x_leaves x_price x_qty].
        rewrite Pcum, Plv, Ppx, Pqty. split; [exact Hcum|]. split; [exact Hlv|].
        split; [intros _; apply Hpq, base_ok_not_created, Hb|]. intro E; rewrite E in Hb; discriminate.
      * unfold ids_idle. cbn [bump set_pend x_base x_clord]. intros _.
        destruct legacy; cbv [negb andb] in Pids; cbv iota in Pids.
        -- right. destruct Pids as [P1 P2]. rewrite P2, Hl. split; [reflexivity|]. split; [reflexivity|]. rewrite <- Hl. exact Hn.
        -- left. destruct Pids as [P1 P2]. rewrite P2, <- Hl. split; [congruence|reflexivity].
      * destruct legacy; cbv [negb andb] in Pids; cbv iota in Pids; destruct Pids as [P1 P2].
        -- rewrite P1. exact Hne.
        -- intro E. rewrite E in P1. apply Hn. congruence.
      * intro E. rewrite E in Hb. discriminate.
    + (* the order was cancelled meanwhile (unsolicited cancel crossing the request): the reject is ignored *)
      assert (Hrc : rej_changes legacy o (x_base x) = false).
      { unfold rej_changes. rewrite cancel_reject_finished by (rewrite Hoc; reflexivity). reflexivity. }
      rewrite Hrc in Pst, Pids. cbn [andb] in Pids. destruct Pids as [P1 P2].
      apply SyIdle; cbn [bump set_pend x_pend x_base x_cum x_leaves x_price x_qty x_clord]; auto.
      * unfold fields_ok. cbn [bump set_pend x_base x_cum x_leaves x_price x_qty].
        rewrite Pcum, Plv, Ppx, Pqty. split; [exact Hcum|]. split; [exact Hlv|].
        split; [intros _; apply Hpq, base_ok_not_created, Hb|]. intro E; rewrite E in Hb; discriminate.
      * congruence.
      * unfold ids_idle. cbn [bump set_pend x_base]. rewrite Hxc. intro E. discriminate.
      * rewrite P1. exact Hne.
      * intro E. rewrite E in Hb. discriminate.
Qed.

Lemma answer_needs_pend x a : is_answer a = true -> x_pend x = None -> xstep x a = None.
Proof. intros Ha Hp. destruct a; try discriminate; cbn [xstep]; rewrite Hp; reflexivity. Qed.

Lemma catchup legacy o x pre a x1 r :
  sync legacy o x pre -> xbad x a = false -> xstep x a = Some (x1, r) ->
  sync legacy (fst (process_report legacy o r)) x1 pre.
Proof.
  intros Hs Hbad Hx. inversion Hs; subst; clear Hs.
  - eapply catchup_idle; eauto.
  - destruct (is_answer a) eqn:Hans.
    + eapply catchup_answer; eauto.
    + match goal with Hf : fields_ok o x, Ha : await o x _ _ _, Hn : o_clord o <> [], Hp : x_pend x = Some ?p |- _ =>
        destruct (await_step o x _ _ _ a x1 r Hf Ha Hn
                    (or_intror (ex_intro _ p (conj Hp (conj eq_refl eq_refl)))) Hans Hx)
          as (K1 & K2 & K3 & K4 & K5); rewrite K5; apply SyPend with (p := p); [rewrite K4; exact Hp | exact K1 | exact K2 | exact K3] end.
  - match goal with Hb : x_base x = CREATED, Hp : x_pend x = None |- _ =>
      rewrite (xstep_created x a Hb Hp) in Hx; discriminate end.
  - destruct (is_answer a) eqn:Hans.
    + match goal with Hp : x_pend x = None |- _ => rewrite (answer_needs_pend x a Hans Hp) in Hx; discriminate end.
    + match goal with Hf : fields_ok o x, Ha : await o x _ _ _, Hn : o_clord o <> [], Hp : x_pend x = None |- _ =>
        destruct (await_step o x _ _ _ a x1 r Hf Ha Hn (or_introl Hp) Hans Hx)
          as (K1 & K2 & K3 & K4 & K5); rewrite K5; apply SyCxl; [rewrite K4; exact Hp | exact K1 | exact K2 | exact K3] end.
  - destruct (is_answer a) eqn:Hans.
    + match goal with Hp : x_pend x = None |- _ => rewrite (answer_needs_pend x a Hans Hp) in Hx; discriminate end.
    + match goal with Hf : fields_ok o x, Ha : await o x _ _ _, Hn : o_clord o <> [], Hp : x_pend x = None |- _ =>
        destruct (await_step o x _ _ _ a x1 r Hf Ha Hn (or_introl Hp) Hans Hx)
          as (K1 & K2 & K3 & K4 & K5); rewrite K5; apply SyRpl; [rewrite K4; exact Hp | exact K1 | exact K2 | exact K3] end.
Qed.

(* ---------- the invariant of the product system *)
Definition Inv (legacy : bool) (s : sys) : Prop :=
  exists x0 tr, replay x0 tr = Some (s_x s, s_x2c s) /\ sync legacy (s_o s) x0 (reqs tr ++ s_c2x s).

Lemma inv_deliver legacy tr : forall x0 o x r q c2x,
  replay x0 tr = Some (x, r :: q) -> sync legacy o x0 (reqs tr ++ c2x) ->
  exists x1 tr', replay x1 tr' = Some (x, q) /\ sync legacy (fst (process_report legacy o r)) x1 (reqs tr' ++ c2x).
Proof.
  induction tr as [|[rq|a] tr IH]; intros x0 o x r q c2x Hr Hs; cbn [replay reqs app] in *.
  - discriminate.
  - apply sync_recv in Hs. eapply IH; eauto.
  - destruct (xbad x0 a) eqn:Hb; [discriminate|].
    destruct (xstep x0 a) as [[x1 r1]|] eqn:Hx; [|discriminate].
    destruct (replay x1 tr) as [[x2 rs]|] eqn:Hr2; [|discriminate].
    inversion Hr; subst; clear Hr.
    exists x1, tr. split; [exact Hr2|]. eapply catchup; eauto.
Qed.

Lemma inv_step legacy s a : Inv legacy s -> bad_step s a = false -> Inv legacy (step legacy s a).
Proof.
  intros (x0 & tr & Hr & Hs) Hbad.
  assert (Hbuild : forall c ob, obuild (s_o s) c = Some ob -> Inv legacy (send s ob)).
  { intros c ob Hb. unfold send. destruct (snd ob) as [r|e] eqn:Hsnd.
    - destruct (sync_build legacy _ _ _ c ob r Hs Hb Hsnd) as (Hpre & _ & Hs').
      apply app_eq_nil in Hpre. destruct Hpre as [Hq1 Hq2].
      exists x0, tr. cbn [s_x s_x2c s_o s_c2x]. split; [exact Hr|]. rewrite Hq1, Hq2. exact Hs'.
    - destruct (build_cases _ c ob Hb) as [[e' He]|[r [Hr' _]]]; [|congruence].
      subst ob. exists x0, tr. cbn [s_x s_x2c s_o s_c2x fst]. auto. }
  destruct a as [| |p q| | |xa]; cbn [step].
  - apply (Hbuild CNew). reflexivity.
  - apply (Hbuild CCancel). reflexivity.
  - apply (Hbuild (CReplace p q)). reflexivity.
  - destruct (s_x2c s) as [|r q] eqn:Hq; [exists x0, tr; rewrite Hq; auto|].
    destruct (inv_deliver legacy tr x0 (s_o s) (s_x s) r q (s_c2x s) Hr Hs) as (x1 & tr' & H1 & H2).
    exists x1, tr'. cbn [s_x s_x2c s_o s_c2x]. auto.
  - destruct (s_c2x s) as [|r q] eqn:Hq; [exists x0, tr; rewrite Hq; auto|].
    exists x0, (tr ++ [TRecv r]). cbn [s_x s_x2c s_o s_c2x]. split.
    + apply replay_snoc_recv, Hr.
    + rewrite reqs_app. cbn [reqs]. rewrite <- app_assoc. exact Hs.
  - rewrite bad_step_xdo in Hbad.
    destruct (xstep (s_x s) xa) as [[x' r]|] eqn:Hx; [|exists x0, tr; auto].
    exists x0, (tr ++ [TEmit xa]). cbn [s_x s_x2c s_o s_c2x]. split.
    + eapply replay_snoc_emit; eauto.
    + rewrite reqs_app. cbn [reqs]. rewrite app_nil_r. exact Hs.
Qed.

Lemma inv_run legacy acts : forall s,
  Inv legacy s -> kf_hit legacy s acts = false -> Inv legacy (run_from legacy s acts).
Proof.
  induction acts as [|a acts IH]; intros s Hi Hk; [exact Hi|].
  cbn [kf_hit] in Hk. apply orb_false_elim in Hk. destruct Hk as [Hk1 Hk2].
  cbn [run_from fold_left]. apply IH; [apply inv_step; assumption|exact Hk2].
Qed.

Definition fresh_order (o : order) : Prop :=
  o_status o = CREATED /\ o_orig o = None /\ o_cum o = 0%Z /\ o_leaves o = 0%Z /\ o_clord o <> [].

Lemma inv_init legacy o oid : fresh_order o -> Inv legacy (init_sys o oid).
Proof.
  intros (Hst & Ho & Hc & Hl & Hn). exists (init_exch oid), []. split; [reflexivity|].
  cbn [reqs app init_sys s_o s_c2x]. apply SyIdle; cbn; auto.
  - unfold fields_ok; cbn. repeat split; auto; congruence.
  - intro H. discriminate.
Qed.

(* ---------- consequences *)
Definition agrees (o : order) (x : exch) : Prop :=
  (o_status o = x_status x \/ (x_pend x <> None /\ o_status o = x_base x)) /\
  o_cum o = x_cum x /\ o_leaves o = x_leaves x /\
  (x_base x <> CREATED -> o_price o = x_price x /\ o_qty o = x_qty x).

Lemma replay_quiet legacy o tr : forall x0 x,
  replay x0 tr = Some (x, []) -> sync legacy o x0 (reqs tr) -> sync legacy o x [].
Proof.
  induction tr as [|[rq|a] tr IH]; intros x0 x Hr Hs; cbn [replay reqs] in *.
  - inversion Hr; subst. exact Hs.
  - apply sync_recv in Hs. eapply IH; eauto.
  - destruct (xbad x0 a); [discriminate|]. destruct (xstep x0 a) as [[x1 r1]|]; [|discriminate].
    destruct (replay x1 tr) as [[x2 rs]|]; discriminate.
Qed.

Lemma sync_agrees legacy o x : sync legacy o x [] -> agrees o x.
Proof.
  intro H. inversion H; subst; clear H.
  - match goal with Hf : fields_ok o x |- _ => destruct Hf as (Hc & Hl & Hpq & _) end.
    unfold agrees, x_status. match goal with Hp : x_pend x = None |- _ => rewrite Hp end. auto.
  - match goal with Hf : fields_ok o x |- _ => destruct Hf as (Hc & Hl & Hpq & _) end.
    match goal with Ha : await _ _ _ _ _ |- _ => destruct Ha as (_ & _ & _ & _ & _ & Hk) end.
    unfold agrees, x_status, pend_status. match goal with Hp : x_pend x = Some _ |- _ => rewrite Hp end.
    split; [|auto]. destruct (p_kind p); cbn in Hk.
    + destruct Hk as [Hk|[Hk Hb]]; [left; exact Hk|]. right. split; [discriminate|congruence].
    + left. exact Hk.
Qed.

Lemma converges legacy s :
  Inv legacy s -> quiescent s = true -> agrees (s_o s) (s_x s).
Proof.
  intros (x0 & tr & Hr & Hs) Hq. unfold quiescent in Hq.
  destruct (s_c2x s) eqn:Hc; [|discriminate]. destruct (s_x2c s) eqn:Hx; [|discriminate].
  rewrite app_nil_r in Hs. eapply sync_agrees, replay_quiet; eauto.
Qed.

Lemma xstep_keeps x a x1 r :
  x_pend x = None -> xstep x a = Some (x1, r) ->
  x_pend x1 = None /\ x_clord x1 = x_clord x /\ (x_base x <> CREATED -> x_base x1 <> CREATED).
Proof.
  intros Hp Hx. destruct a; cbn [xstep] in Hx; rewrite ?Hp in Hx; try discriminate.
  all: repeat match type of Hx with (if ?c then _ else _) = _ => destruct c eqn:?; [|discriminate] end.
  all: unfold emit in Hx; inversion Hx; subst; cbn; repeat split; auto; try discriminate.
  all: intros _; try (destruct (_ =? 0)%Z; discriminate).
  unfold open_status. destruct (_ =? 0)%Z; discriminate.
Qed.

Lemma replay_norecv tr : forall x0 x rs,
  replay x0 tr = Some (x, rs) -> reqs tr = [] -> x_pend x0 = None ->
  x_pend x = None /\ x_clord x = x_clord x0 /\ (x_base x0 <> CREATED -> x_base x <> CREATED)
  /\ (x_base x0 = CREATED -> x = x0).
Proof.
  induction tr as [|[rq|a] tr IH]; intros x0 x rs Hr Hq Hp; cbn [replay reqs] in *.
  - inversion Hr; subst. auto.
  - discriminate.
  - destruct (xbad x0 a); [discriminate|]. destruct (xstep x0 a) as [[x1 r1]|] eqn:Hx; [|discriminate].
    destruct (replay x1 tr) as [[x2 rs2]|] eqn:Hr2; [|discriminate]. inversion Hr; subst; clear Hr.
    destruct (xstep_keeps _ _ _ _ Hp Hx) as (K1 & K2 & K3).
    destruct (IH _ _ _ Hr2 Hq K1) as (J1 & J2 & J3 & _).
    split; [exact J1|]. split; [congruence|]. split; [auto|].
    intro E. rewrite (xstep_created x0 a E Hp) in Hx. discriminate.
Qed.

(* at most one request between the two parties, and it is the one the exchange expects *)
Lemma one_outstanding legacy s :
  Inv legacy s ->
  (length (s_c2x s) <= 1)%nat /\ (s_c2x s <> [] -> x_pend (s_x s) = None).
Proof.
  intros (x0 & tr & Hr & Hs). pose proof (sync_len _ _ _ _ Hs) as Hl. rewrite app_length in Hl.
  split; [lia|]. intro Hne.
  assert (Hq : reqs tr = []) by (destruct (reqs tr); [reflexivity|destruct (s_c2x s); [congruence|cbn in Hl; lia]]).
  assert (Hp0 : x_pend x0 = None).
  { eapply sync_pend_pre; eauto. rewrite Hq. exact Hne. }
  eapply replay_norecv; eauto.
Qed.

Lemma request_expected legacy s r q :
  Inv legacy s -> s_c2x s = r :: q ->
  q = [] /\
  match r with
  | RNew _ _ _ => x_base (s_x s) = CREATED
  | RCancel _ orig _ | RReplace _ orig _ _ =>
      x_pend (s_x s) = None /\ orig = x_clord (s_x s) /\ x_base (s_x s) <> CREATED
  end.
Proof.
  intros (x0 & tr & Hr & Hs) Hc. rewrite Hc in Hs.
  pose proof (sync_len _ _ _ _ Hs) as Hl. rewrite app_length in Hl. cbn [length] in Hl.
  assert (Hq : reqs tr = []) by (destruct (reqs tr); [reflexivity|cbn in Hl; lia]).
  assert (Hq2 : q = []) by (destruct q; [reflexivity|cbn in Hl; lia]).
  rewrite Hq, Hq2 in Hs. cbn [app] in Hs. split; [exact Hq2|].
  inversion Hs; subst; clear Hs.
  - match goal with Hp : x_pend x0 = None, Hb : x_base x0 = CREATED |- _ =>
      destruct (replay_norecv _ _ _ _ Hr Hq Hp) as (_ & _ & _ & K); rewrite (K Hb); exact Hb end.
  - match goal with Hp : x_pend x0 = None, Ha : await _ _ _ _ _ |- _ =>
      destruct (replay_norecv _ _ _ _ Hr Hq Hp) as (K1 & K2 & K3 & _);
      destruct Ha as (_ & _ & A3 & _ & A5 & _) end.
    split; [exact K1|]. split; [congruence|]. apply K3, base_ok_not_created, A5.
  - match goal with Hp : x_pend x0 = None, Ha : await _ _ _ _ _ |- _ =>
      destruct (replay_norecv _ _ _ _ Hr Hq Hp) as (K1 & K2 & K3 & _);
      destruct Ha as (_ & _ & A3 & _ & A5 & _) end.
    split; [exact K1|]. split; [congruence|]. apply K3, base_ok_not_created, A5.
Qed.

(* whenever the (repaired) object says it can be cancelled / replaced, the builder succeeds, refers
   to the ClOrdID live at the exchange, and nothing else is outstanding *)
Lemma gate_idle s :
  Inv false s -> OrderStatus.can_cancel (o_status (s_o s)) = true ->
  s_c2x s = [] /\ x_pend (s_x s) = None /\ o_orig (s_o s) = None /\ o_clord (s_o s) = x_clord (s_x s).
Proof.
  intros (x0 & tr & Hr & Hs) Hcan. apply can_cancel_iff in Hcan.
  inversion Hs; subst; clear Hs.
  - match goal with H : [] = reqs tr ++ s_c2x s |- _ => symmetry in H; apply app_eq_nil in H; destruct H as [Hq Hc] end.
    match goal with Hst : o_status (s_o s) = x_base x0, Hids : ids_idle false _ _, Hp : x_pend x0 = None |- _ =>
      assert (Hopen : is_open (x_base x0) = true)
        by (rewrite <- Hst; destruct Hcan as [E|[E|E]]; rewrite E; reflexivity);
      destruct (Hids Hopen) as [[I1 I2]|[I1 _]]; [|discriminate];
      destruct (replay_norecv _ _ _ _ Hr Hq Hp) as (K1 & K2 & _) end.
    split; [exact Hc|]. split; [exact K1|]. split; [exact I2|]. congruence.
  - await_can Hcan.
  - match goal with H : o_status (s_o s) = PENDING_NEW |- _ => rewrite H in Hcan end.
    destruct Hcan as [E|[E|E]]; discriminate.
  - await_can Hcan.
  - await_can Hcan.
Qed.

Lemma cancel_wellformed s :
  Inv false s -> can_cancel (s_o s) = true ->
  let o := s_o s in
  snd (cancel_req o) = Ok (RCancel (clord_id_of (clord_root (o_clord o)) (o_cnt o + 1)) (x_clord (s_x s)) (o_qty o))
  /\ s_c2x s = [] /\ x_pend (s_x s) = None.
Proof.
  intros Hi Hcan. destruct (gate_idle s Hi Hcan) as (G1 & G2 & G3 & G4). cbv zeta.
  rewrite (cancel_req_ok (s_o s) Hcan) by (rewrite G3; reflexivity).
  cbn [snd clord_next]. rewrite G4. auto.
Qed.

Lemma replace_wellformed s p q :
  Inv false s -> can_replace (s_o s) = true ->
  let o := s_o s in
  (rpl_px o p <> o_price o \/ rpl_qty o q <> o_qty o) ->
  snd (replace_req o p q) = Ok (RReplace (clord_id_of (clord_root (o_clord o)) (o_cnt o + 1)) (x_clord (s_x s))
                                         (rpl_px o p) (rpl_qty o q))
  /\ s_c2x s = [] /\ x_pend (s_x s) = None.
Proof.
  intros Hi Hcan. assert (Hcan' := Hcan). unfold can_replace in Hcan'. rewrite can_replace_eq in Hcan'.
  destruct (gate_idle s Hi Hcan') as (G1 & G2 & G3 & G4). cbv zeta. intro Hch.
  rewrite (replace_req_ok (s_o s) p q Hcan).
  - cbn [snd clord_next]. rewrite G4. auto.
  - rewrite G3. reflexivity.
  - apply andb_false_iff. destruct Hch as [H|H]; [left|right]; apply Z.eqb_neq, H.
Qed.

(* the object inside the product only ever moves by the operations of OrderL.ostep *)
Lemma step_is_ostep legacy s a : s_o (step legacy s a) = s_o s \/ exists c, s_o (step legacy s a) = ostep legacy (s_o s) c.
Proof.
  destruct a as [| |p q| | |xa]; cbn [step].
  - right. exists CNew. unfold send. destruct (snd (new_req (s_o s))); reflexivity.
  - right. exists CCancel. unfold send. destruct (snd (cancel_req (s_o s))); reflexivity.
  - right. exists (CReplace p q). unfold send. destruct (snd (replace_req (s_o s) p q)); reflexivity.
  - destruct (s_x2c s) as [|r rs]; [left; reflexivity|]. right. exists (CRep r). reflexivity.
  - left. destruct (s_c2x s); reflexivity.
  - left. destruct (xstep (s_x s) xa) as [[x' r]|]; reflexivity.
Qed.

Lemma sys_owf legacy R acts : forall s, owf R (s_o s) -> owf R (s_o (run_from legacy s acts)).
Proof.
  induction acts as [|a acts IH]; intros s H; [exact H|]. cbn [run_from fold_left]. apply IH.
  destruct (step_is_ostep legacy s a) as [E|[c E]]; rewrite E; [exact H|apply owf_step, H].
Qed.

Lemma sys_senum acts : forall s, senum_ok (s_o s) -> senum_ok (s_o (run_from false s acts)).
Proof.
  induction acts as [|a acts IH]; intros s H; [exact H|]. cbn [run_from fold_left]. apply IH.
  destruct (step_is_ostep false s a) as [E|[c E]]; rewrite E; [exact H|apply senum_step, H].
Qed.

(* ================================================================== packaged statements (Props/C17.v) *)

Definition reach (legacy : bool) (o : order) (oid : str) (acts : list act) : sys :=
  run_from legacy (init_sys o oid) acts.
Definition clean (legacy : bool) (o : order) (oid : str) (acts : list act) : Prop :=
  kf_hit legacy (init_sys o oid) acts = false.

Lemma init_fresh clord ticker side price qty ordtype account target o :
  init_order clord ticker side price qty ordtype account target = Ok o -> fresh_order o.
Proof.
  intro H. destruct (init_owf _ _ _ _ _ _ _ _ _ H) as ((_ & _ & Hne & _) & _ & Hs & _ & Ho & Hc & Hl & _).
  repeat split; auto.
Qed.

Lemma reach_inv legacy clord ticker side price qty ordtype account target o oid acts :
  init_order clord ticker side price qty ordtype account target = Ok o ->
  clean legacy o oid acts -> Inv legacy (reach legacy o oid acts).
Proof. intros Hi Hc. apply inv_run; [apply inv_init; eapply init_fresh; eauto|exact Hc]. Qed.

Lemma converges_partial legacy clord ticker side price qty ordtype account target o oid acts :
  init_order clord ticker side price qty ordtype account target = Ok o ->
  clean legacy o oid acts ->
  let s := reach legacy o oid acts in
  quiescent s = true ->
  agrees (s_o s) (s_x s)
  /\ (x_pend (s_x s) = None -> OrderStatus.is_finished (x_base (s_x s)) = true ->
      is_finished (s_o s) = true
      /\ (exists e, new_req (s_o s) = (s_o s, Exc e)) /\ (exists e, cancel_req (s_o s) = (s_o s, Exc e))
      /\ (forall p q, exists e, replace_req (s_o s) p q = (s_o s, Exc e))).
Proof.
  intros Hi Hc s Hq. pose proof (converges legacy s (reach_inv _ _ _ _ _ _ _ _ _ _ _ _ Hi Hc) Hq) as Ha.
  split; [exact Ha|]. intros Hp Hf.
  assert (Hfin : is_finished (s_o s) = true).
  { destruct Ha as ([Hs|[Hn _]] & _); [|congruence]. unfold is_finished. rewrite Hs. unfold x_status. rewrite Hp. exact Hf. }
  split; [exact Hfin|]. apply finished_refuses, Hfin.
Qed.

Lemma requests_wellformed clord ticker side price qty ordtype account target o0 oid acts :
  init_order clord ticker side price qty ordtype account target = Ok o0 ->
  clean false o0 oid acts ->
  let s := reach false o0 oid acts in
  let o := s_o s in
  let next_id := clord_id_of (clord_root clord) (o_cnt o + 1) in
  (can_cancel o = true ->
     snd (cancel_req o) = Ok (RCancel next_id (x_clord (s_x s)) (o_qty o))
     /\ s_c2x s = [] /\ x_pend (s_x s) = None)
  /\ (forall p q, can_replace o = true -> (rpl_px o p <> o_price o \/ rpl_qty o q <> o_qty o) ->
     snd (replace_req o p q) = Ok (RReplace next_id (x_clord (s_x s)) (rpl_px o p) (rpl_qty o q))
     /\ s_c2x s = [] /\ x_pend (s_x s) = None)
  /\ senum_ok o.
Proof.
  intros Hi Hc s o next_id.
  pose proof (reach_inv _ _ _ _ _ _ _ _ _ _ _ _ Hi Hc) as Hinv.
  destruct (init_owf _ _ _ _ _ _ _ _ _ Hi) as (Hw & Hse & _).
  assert (Hroot : clord_root (o_clord o) = clord_root clord).
  { pose proof (sys_owf false _ acts (init_sys o0 oid) Hw) as (_ & H & _). exact H. }
  unfold next_id. rewrite <- Hroot. split; [|split].
  - intro H. apply cancel_wellformed; assumption.
  - intros p q H1 H2. apply replace_wellformed; assumption.
  - apply (sys_senum acts (init_sys o0 oid)). exact Hse.
Qed.

(* ---------- witnesses *)
Definition w_root : str := [111; 114; 100].                       (* "ord" *)
Definition w_order : order :=
  mkO w_root None None [84] [49] 800 40 0 0 None [50] [48] 0 CREATED true 800.
Definition w_sys : sys := init_sys w_order [88].

Lemma w_order_init : init_order w_root [84] [49] 800 40 [50] [48] None = Ok w_order.
Proof. reflexivity. Qed.

Definition w_open : list act := [ANew; XRecv; XDo XAck; ADeliver].
Definition w_k2 : list act := w_open ++ [XDo XSuspend; ADeliver; XDo XExpire; ADeliver].
Definition w_k3 : list act := w_open ++ [XDo XSuspend; ADeliver; AReplace (Some 804%Z) None; XRecv; XDo XAcceptRpl; ADeliver].
Definition w_d17 : list act := w_open ++ [ACancel; XRecv; XDo XRejReq; ADeliver].
(* replace accepted, partial fill racing with a cancel that is refused, second cancel accepted *)
Definition w_live : list act :=
  w_open ++ [AReplace (Some 804%Z) (Some 48%Z); XRecv; XDo XPendAck; XDo (XFill 2 800); XDo XAcceptRpl;
             ADeliver; ADeliver; ADeliver; ACancel; XDo (XFill 4 802); XRecv; XDo XRejReq; ADeliver; ADeliver;
             ACancel; XRecv; XDo XAcceptCxl; ADeliver].

Lemma k2_refuted :
  let s := run_from false w_sys w_k2 in
  quiescent s = true /\ x_pend (s_x s) = None /\ o_status (s_o s) = SUSPENDED /\ x_status (s_x s) = EXPIRED
  /\ can_cancel (s_o s) = true /\ is_finished (s_o s) = false.
Proof. vm_compute. repeat split. Qed.

Lemma k3_refuted :
  let s := run_from false w_sys w_k3 in
  quiescent s = true /\ x_pend (s_x s) = None /\ o_status (s_o s) = PENDING_REPLACE /\ x_status (s_x s) = SUSPENDED
  /\ can_cancel (s_o s) = false /\ can_replace (s_o s) = false.
Proof. vm_compute. repeat split. Qed.

Lemma d17_refuted :
  let s := run_from true w_sys w_d17 in
  kf_hit true w_sys w_d17 = false /\ quiescent s = true
  /\ can_cancel (s_o s) = true /\ snd (cancel_req (s_o s)) = Exc EAssertion
  /\ can_replace (s_o s) = true /\ snd (replace_req (s_o s) (Some 804%Z) None) = Exc EAssertion
  /\ o_senum (s_o s) = false.
Proof. vm_compute. repeat split. Qed.

Lemma d17_repaired :
  let s := run_from false w_sys w_d17 in
  can_cancel (s_o s) = true /\ (exists r, snd (cancel_req (s_o s)) = Ok r) /\ o_senum (s_o s) = true
  /\ o_orig (s_o s) = None.
Proof. vm_compute. repeat split. eexists. reflexivity. Qed.

Lemma nonvacuous :
  forall legacy, 
  let s := run_from legacy w_sys w_live in
  kf_hit legacy w_sys w_live = false /\ quiescent s = true /\
  (legacy = false -> o_status (s_o s) = CANCELED /\ o_price (s_o s) = 804%Z /\ o_qty (s_o s) = 48%Z
                     /\ o_cum (s_o s) = 6%Z /\ o_cnt (s_o s) = 4).
Proof.
  intros [|]; vm_compute; (split; [reflexivity|]); (split; [reflexivity|]); intro H;
    [discriminate H | repeat split].
Qed.

Lemma one_outstanding_reach legacy clord ticker side price qty ordtype account target o oid acts :
  init_order clord ticker side price qty ordtype account target = Ok o ->
  clean legacy o oid acts ->
  let s := reach legacy o oid acts in
  (length (s_c2x s) <= 1)%nat /\ (s_c2x s <> [] -> x_pend (s_x s) = None).
Proof. intros. eapply one_outstanding, reach_inv; eauto. Qed.

Lemma request_expected_reach legacy clord ticker side price qty ordtype account target o oid acts r q :
  init_order clord ticker side price qty ordtype account target = Ok o ->
  clean legacy o oid acts ->
  let s := reach legacy o oid acts in
  s_c2x s = r :: q ->
  q = [] /\
  match r with
  | RNew _ _ _ => x_base (s_x s) = CREATED
  | RCancel _ orig _ | RReplace _ orig _ _ =>
      x_pend (s_x s) = None /\ orig = x_clord (s_x s) /\ x_base (s_x s) <> CREATED
  end.
Proof. intros. eapply request_expected; [eapply reach_inv; eauto|eassumption]. Qed.
