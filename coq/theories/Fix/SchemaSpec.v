(* C15 specification: what it means for a message to be "built according to the dictionary".
   Written from the property text, independently of the validation algorithm (no indices, no
   previous-position variable, no dictionary lookups by name):

   * a plain member holds a string that single-value validation accepts (abstract, C19's subject);
     a group member holds a repeating group all of whose items conform;
   * an ITEM of a group with members m0, m1, ..., mk is a selection of those members IN DICTIONARY
     ORDER that begins with the first member m0, in which no required member is left out, nothing
     else occurs, and every selected member holds a conforming value ([conf_item]/[conf_entries]:
     walking down the member list, each member is either taken - the next entry of the item has its
     tag and a conforming value - or skipped, which is allowed only when it is not required);
   * a MESSAGE of type T conforms when T is a message type of the dictionary, every required member
     of T is present, every required header member is present if the message is framed (carries
     BeginString, tag 8), and every entry other than CheckSum (tag 10, the codec's business) is a
     member of the header or of T holding a conforming value.  Order at message level is free.

   Parametric in [value_check] like the model. *)
From Coq Require Import ZArith NArith List Bool.
From AF Require Import Base.Sx Py.Str Fix.SchemaModel.
Import ListNotations.

Section Spec.

Variable value_check : field -> str -> option exc.

Inductive conf_member : member -> value -> Prop :=
| CM_field : forall f r s,
    value_check f s = None -> conf_member (MField f r) (VStr s)
| CM_group : forall f r ms items,
    Forall (conf_item ms) items -> conf_member (MGroup f r ms) (VGrp items)
with conf_item : list member -> container -> Prop :=
| CI_first : forall m ms v es,
    conf_member m v -> conf_entries ms es -> conf_item (m :: ms) ((mtag m, v) :: es)
with conf_entries : list member -> container -> Prop :=
| CE_nil : conf_entries [] []
| CE_skip : forall m ms es,
    mreq m = false -> conf_entries ms es -> conf_entries (m :: ms) es
| CE_take : forall m ms v es,
    conf_member m v -> conf_entries ms es -> conf_entries (m :: ms) ((mtag m, v) :: es).

Definition present (t : str) (c : container) : Prop := exists v, In (t, v) c.

Definition conforms (Sc : schema) (m : message) : Prop :=
  exists M,
    In (msg_type m, M) (s_messages Sc)
    /\ (forall mem, In mem M -> mreq mem = true -> present (mtag mem) (tags m))
    /\ (present TAG8 (tags m) ->
        forall mem, In mem (s_header Sc) -> mreq mem = true -> present (mtag mem) (tags m))
    /\ (forall t v, In (t, v) (tags m) -> t <> TAG10 ->
        exists mem, In mem (s_header Sc ++ M) /\ mtag mem = t /\ conf_member mem v).

End Spec.

(* ---- single-fault mutations of the property text, as operations on containers ---- *)

(* drop a member (missing required field / group / first member) *)
Definition remove_tag (t : str) (c : container) : container :=
  filter (fun e => negb (str_eqb (fst e) t)) c.
(* insert an entry (unknown tag, tag not allowed, foreign member) after the first n entries *)
Definition insert_at (n : nat) (e : str * value) (c : container) : container :=
  firstn n c ++ e :: skipn n c.
(* replace the value of every entry with tag t (bad value, plain <-> group) *)
Definition set_value (t : str) (v : value) (c : container) : container :=
  map (fun e => if str_eqb (fst e) t then (fst e, v) else e) c.
