(* C12 - the heartbeat watchdog detects dead peers and spares live ones.
   Theorems only (proofs in AF.Lemmas.TimerL).  They are about the model Fix/Timer.v of
   heartbeat_timer_task / send_test_req / _process_testrequest / _process_heartbeat /
   _check_seqnum_gaps / _finalize_message / disconnect / the TESTREQUEST gate of send_msg, whose thresholds,
   sleep period and state numbers are the regenerated AFGen.GenTimer.  The model describes the library after the
   repairs R13a-R13d (TestRequest timeout needs 2 hb s without valid traffic; probing also while a resend is awaited;
   send_msg lets only the pending TestReqID through; the constructor refuses heartbeat_period < 1).

   Time is integer milliseconds, hb the heartbeat interval in seconds (an integer >= 1: smaller values are refused
   by the constructor).  `ticks p k` are k watchdog iterations one sleep period (1000 ms) apart starting at p: the
   phase p is arbitrary.  `trace s evs` is the run of a scenario (Tick | Recv t d m: valid message numbered
   next_num_in + d, d = 0 in sequence, d > 0 behind a gap | application send_test_req() | application
   send_msg(TestRequest)); `outs` its per-event outputs, `final` its last state.
   `up s`: connected and ACTIVE or RESENDREQ_AWAITING; `idle_up s hb t0`: up, no TestRequest outstanding, clock at
   t0 (time of the last finalized message); `idle_at`: the same with state ACTIVE; `live` / `awaiting`: connected and
   ACTIVE / RESENDREQ_AWAITING. *)
From Coq Require Import ZArith NArith List Bool.
From AF Require Import Base.Sx Py.Str Fix.Timer Lemmas.TimerL.
From AFGen Require Import GenTimer.
Import ListNotations.
Open Scope Z_scope.

(* the constants the code has today (re-derived from /repo on every run) *)
Theorem C12_constants :
  (forall hb, thr thr_probe hb = (hb - 1) * 1000) /\ (forall hb, thr thr_dead hb = 2 * hb * 1000)
  /\ (forall hb, thr thr_treq hb = 2 * hb * 1000) /\ (forall hb, thr thr_treq_silence hb = 2 * hb * 1000)
  /\ tick_ms = 1000.
Proof. exact constants. Qed.
Print Assumptions C12_constants.

(* Silent since t0 (ACTIVE, or awaiting a resend): the k iterations up to t0 + hb - 1 s emit nothing; the first
   iteration after t0 + hb - 1 s (at tp) writes TestRequest(112 = int(tp)) and nothing else; tp is in
   (t0 + hb - 1 s, t0 + hb s] provided the watchdog ran at all by then (tp - 1 s <= t0 + hb - 1 s). *)
Theorem C12_probe : forall hb s t0 p (k : nat),
  1 <= hb -> idle_up s hb t0 ->
  let tp := p + Z.of_nat k * 1000 in
  tp - 1000 - t0 <= (hb - 1) * 1000 < tp - t0 ->
  outs s (ticks p (k + 1)) = repeat [] k ++ [[testreq_frame (tp / 1000)]]
  /\ final s (ticks p (k + 1)) = probing_of s tp
  /\ t0 + (hb - 1) * 1000 < tp <= t0 + hb * 1000.
Proof. exact probe_run. Qed.
Print Assumptions C12_probe.

(* Still silent: exactly 2 hb further iterations emit nothing (no second probe) and the next one, at
   td = tp + 2 hb + 1 s, disconnects:  t0 + 3 hb s < td <= t0 + 3 hb + 1 s. *)
Theorem C12_dead_peer : forall hb s t0 p (k m : nat),
  1 <= hb -> idle_up s hb t0 -> 1000 <= p ->
  let tp := p + Z.of_nat k * 1000 in
  let td := tp + (2 * hb + 1) * 1000 in
  tp - 1000 - t0 <= (hb - 1) * 1000 < tp - t0 ->
  Z.of_nat m = 2 * hb ->
  outs s (ticks p (k + 1 + (m + 1))) =
    repeat [] k ++ [[testreq_frame (tp / 1000)]] ++ repeat [] m ++ [[ODisconnect]]
  /\ final s (ticks p (k + 1 + (m + 1))) = dead_st hb
  /\ t0 + 3 * hb * 1000 < td <= t0 + (3 * hb + 1) * 1000.
Proof. exact dead_peer_run. Qed.
Print Assumptions C12_dead_peer.

(* A live peer is never dropped by the watchdog - full strength, both readings of the property.
   (A) "keeps sending valid traffic": the clock is restarted by every finalized (in-sequence) message and by every
   TestRequest the watchdog writes; if no iteration finds the clock more than 2 hb s old, no iteration disconnects -
   whether or not TestRequests are answered, for every scenario (any order of times, application probes included). *)
Theorem C12_live_peer_traffic : forall hb evs s t0,
  1 <= hb -> ok hb s -> s_id s <> Some 0 -> s_mlt s = t0 -> Forall (fun e => 1000 <= ev_time e) evs ->
  clock_ok hb t0 (trace s evs) ->
  Forall (fun r => ~ wd_disconnect r) (trace s evs).
Proof. exact live_peer_clock. Qed.
Print Assumptions C12_live_peer_traffic.

(* (B) "answers each TestRequest": every TestRequest the watchdog writes at time t (id t/1000) is answered later in the
   time-ordered run by a Heartbeat echoing the id - numbered in sequence or behind a gap - that arrives no later
   than t + 2 hb s.  Out-of-sequence traffic and gap fills are allowed; no hypothesis about the gap being closed. *)
Theorem C12_live_peer_answers : forall hb evs s,
  1 <= hb -> ok hb s -> s_id s = None -> sorted evs -> Forall (fun e => 1000 <= ev_time e) evs ->
  Forall (fun e => is_app_probe e = false) evs -> Forall (fun e => s_mlt s <= ev_time e) evs ->
  answers hb (trace s evs) ->
  Forall (fun r => ~ wd_disconnect r) (trace s evs).
Proof. exact live_peer_answers. Qed.
Print Assumptions C12_live_peer_answers.

(* whenever the watchdog does drop a logged-on session, a TestRequest is outstanding and the clock is more than
   2 hb s old: a peer is never dropped unprobed, nor sooner than 2 hb s after its last valid message *)
Theorem C12_drop_characterised : forall hb s t s' o,
  0 <= hb -> ok hb s -> s_id s <> Some 0 -> tick t s = (s', o) -> In ODisconnect o ->
  exists n, s_id s = Some n /\ 2 * hb * 1000 < t - s_mlt s.
Proof. exact wd_step. Qed.
Print Assumptions C12_drop_characterised.

(* with traffic at most hb - 1 s apart the watchdog emits nothing at all, and nobody is disconnected *)
Theorem C12_quiet_traffic : forall hb G evs s t0,
  0 <= hb -> G <= (hb - 1) * 1000 -> idle_at s hb t0 -> fed G t0 evs ->
  Forall (fun r => is_tick (r_ev r) = true -> r_out r = []) (trace s evs)
  /\ Forall (fun r => ~ In ODisconnect (r_out r) /\ writes_testreq r = false) (trace s evs).
Proof. exact fed_quiet. Qed.
Print Assumptions C12_quiet_traffic.

(* At most one TestReqID outstanding, in every scenario (any state, any hb, times >= 1 s, application calls of
   send_test_req() and send_msg(TestRequest) included): of two TestRequest frames the later one repeats the id of the
   earlier one unless a Heartbeat (in sequence or behind a gap) echoing that id was received in between. *)
Theorem C12_single_outstanding : forall evs s i k ri rk fi fk,
  s_id s <> Some 0 -> Forall (fun e => 1000 <= ev_time e) evs ->
  (i < k)%nat ->
  nth_error (trace s evs) i = Some ri -> nth_error (trace s evs) k = Some rk ->
  In fi (r_out ri) -> is_testreq fi = true -> In fk (r_out rk) -> is_testreq fk = true ->
  exists n, fi = testreq_frame n /\
    (fk = fi \/
     exists j rj ta da v, (i < j < k)%nat /\ nth_error (trace s evs) j = Some rj
                          /\ r_ev rj = Recv ta da (MHeartbeat (Some v)) /\ parse_id v = n).
Proof. exact single_outstanding. Qed.
Print Assumptions C12_single_outstanding.

(* every inbound TestRequest is answered by one Heartbeat carrying the same TestReqID, "0" when absent *)
Theorem C12_testreq_answered : forall now rid s, live s ->
  recv now 0 (MTestRequest rid) s =
  (set_mlt s now, [OWire KHeartbeat (Some (match rid with Some v => v | None => [48%N] end))]).
Proof. exact testreq_answered. Qed.
Print Assumptions C12_testreq_answered.

(* a Heartbeat whose TestReqID (int(), non-numeric read as 0) differs from the outstanding one: Logout + disconnect *)
Theorem C12_wrong_id_logout : forall now v s n, live s -> s_id s = Some n -> parse_id v <> n ->
  recv now 0 (MHeartbeat (Some v)) s =
  (set_mlt (dead_st (s_hb s)) now, [OWire KLogout None; ODisconnect]).
Proof. exact wrong_id_logout. Qed.
Print Assumptions C12_wrong_id_logout.

Theorem C12_matching_id_clears : forall now v s, live s -> s_id s = Some (parse_id v) ->
  recv now 0 (MHeartbeat (Some v)) s = (set_mlt (set_id s None) now, []).
Proof. exact matching_id_clears. Qed.
Print Assumptions C12_matching_id_clears.

Theorem C12_heartbeat_without_id_ignored : forall now s, live s ->
  recv now 0 (MHeartbeat None) s = (set_mlt s now, []).
Proof. exact heartbeat_without_id_ignored. Qed.
Print Assumptions C12_heartbeat_without_id_ignored.

(* A Heartbeat echoing the outstanding TestReqID that arrives BEHIND A SEQUENCE GAP (numbered above the expected
   number) clears the outstanding probe: from ACTIVE it also sends the ResendRequest and enters RESENDREQ_AWAITING,
   while a resend is already awaited it does nothing else.  The clock is not restarted. *)
Theorem C12_answer_behind_gap_counts : forall now d v s, 0 < d -> s_id s = Some (parse_id v) ->
  (live s -> recv now d (MHeartbeat (Some v)) s
             = (set_id (set_state s ST_RESENDREQ_AWAITING d) None, [OWire KResendRequest None]))
  /\ (awaiting s -> recv now d (MHeartbeat (Some v)) s = (set_id s None, [])).
Proof. exact answer_behind_gap_counts. Qed.
Print Assumptions C12_answer_behind_gap_counts.

(* an inbound TestRequest behind a gap is still answered with the same TestReqID *)
Theorem C12_testreq_behind_gap_answered : forall now d rid s, 0 < d ->
  let hbt := OWire KHeartbeat (Some (match rid with Some v => v | None => [48%N] end)) in
  (live s -> recv now d (MTestRequest rid) s
             = (set_state s ST_RESENDREQ_AWAITING d, [OWire KResendRequest None; hbt]))
  /\ (awaiting s -> recv now d (MTestRequest rid) s = (s, [hbt])).
Proof. exact testreq_behind_gap_answered. Qed.
Print Assumptions C12_testreq_behind_gap_answered.

(* ... and a wrong TestReqID behind a gap still ends the session with a Logout *)
Theorem C12_wrong_id_behind_gap_logout : forall now d v s n, 0 < d -> s_id s = Some n -> parse_id v <> n ->
  (live s -> recv now d (MHeartbeat (Some v)) s
             = (dead_st (s_hb s), [OWire KResendRequest None; OWire KLogout None; ODisconnect]))
  /\ (awaiting s -> recv now d (MHeartbeat (Some v)) s = (dead_st (s_hb s), [OWire KLogout None; ODisconnect])).
Proof. exact wrong_id_behind_gap_logout. Qed.
Print Assumptions C12_wrong_id_behind_gap_logout.

(* closing the gap: a SequenceReset in sequence whose NewSeqNo passes the number that opened the gap (nw - 1 >= gap)
   returns the session to ACTIVE and restarts the clock; a shorter one only shrinks the gap *)
Theorem C12_gap_fill_closes : forall now nw s, awaiting s -> 1 <= nw ->
  recv now 0 (MGapFill nw) s =
  ((if s_gap s <=? nw - 1 then set_mlt (set_state s ST_ACTIVE 0) now
    else set_mlt (set_state s ST_RESENDREQ_AWAITING (s_gap s - nw)) now), []).
Proof. exact gap_fill_closes. Qed.
Print Assumptions C12_gap_fill_closes.

(* While a resend is awaited the watchdog probes exactly as in ACTIVE: traffic behind the gap leaves state and clock
   untouched, and once the clock is more than hb - 1 s old a TestRequest is written.  (With C12_probe, C12_dead_peer
   and C12_live_peer_answers, all stated for `up` / `ok`: a peer whose traffic is all behind an unfilled gap IS
   probed and, if it answers the probes, not dropped; if it does not, it is dropped 2 hb + 1 s after the probe.) *)
Theorem C12_awaiting_probed : forall now s hb t0,
  awaiting s -> s_hb s = hb -> s_id s = None -> s_mlt s = t0 -> 0 <= hb -> (hb - 1) * 1000 < now - t0 ->
  tick now s = (probing_of s now, [testreq_frame (now / 1000)]).
Proof. exact awaiting_probed. Qed.
Print Assumptions C12_awaiting_probed.

Theorem C12_behind_gap_keeps_clock : forall now d m s, awaiting s -> 0 < d -> plain m = true -> s_id s = None ->
  fst (recv now d m s) = s.
Proof. exact behind_gap_keeps_clock. Qed.
Print Assumptions C12_behind_gap_keeps_clock.

(* outside the logged-on states (handshake) only the last-message test applies; nothing received yet => never dropped *)
Theorem C12_handshake_silence : forall now s,
  s_conn s = true -> session_up s = false -> ST_DISCONNECTED_BROKEN_CONN < s_state s -> s_id s = None ->
  tick now s =
  if negb (s_mlt s =? 0) && (2 * s_hb s * 1000 <? now - s_mlt s)
  then (dead_st (s_hb s), [ODisconnect]) else (s, []).
Proof. exact nonactive_tick. Qed.
Print Assumptions C12_handshake_silence.

(* the hypothesis `1000 <= time` above is needed: with int(time.time()) = 0 the timer loop spins *)
Theorem C12_epoch_spin : forall now s,
  up s -> s_id s = Some 0 -> (s_hb s - 1) * 1000 < now - s_mlt s -> tick now s = (s, [OSpin]).
Proof. exact epoch_spin. Qed.
Print Assumptions C12_epoch_spin.

(* ---- the former *_refuted witnesses, now positive: the same scenarios on the repaired model ---- *)

(* D19: hb = 30, application messages every 29.5 s, the TestRequest written at +29.25 s is never answered: not dropped *)
Example C12_unanswered_probe_spared :
  sorted d19_evs /\ only_app d19_evs = true /\ gap_le (30 * 1000) 1000000000 d19_evs = true
  /\ clock_ok 30 1000000000 (trace (active0 30 1000000000) d19_evs)
  /\ (length (filter writes_testreq (trace (active0 30 1000000000) d19_evs)) = 1)%nat
  /\ Forall (fun r => ~ wd_disconnect r) (trace (active0 30 1000000000) d19_evs).
Proof. exact unanswered_probe_spared. Qed.
Print Assumptions C12_unanswered_probe_spared.

Example C12_unanswered_probe_hb1_spared :
  sorted d19_hb1_evs /\ only_app d19_hb1_evs = true /\ gap_le 500 1000000000 d19_hb1_evs = true
  /\ (length (filter writes_testreq (trace (active0 1 1000000000) d19_hb1_evs)) = 1)%nat
  /\ Forall (fun r => ~ wd_disconnect r) (trace (active0 1 1000000000) d19_hb1_evs).
Proof. exact unanswered_probe_hb1_spared. Qed.
Print Assumptions C12_unanswered_probe_hb1_spared.

(* send_msg(TestRequest) while the watchdog's probe is outstanding: another id is refused, the pending id passes *)
Example C12_raw_testrequest_refused :
  map r_out (skipn 5 (trace (active0 5 1000000000) raw_evs)) =
  [[testreq_frame 1000005]; [ORaise]; [testreq_frame 1000005]].
Proof. exact raw_testrequest_refused. Qed.
Print Assumptions C12_raw_testrequest_refused.

(* all traffic behind an unfilled gap: probed three times while RESENDREQ_AWAITING, every probe answered behind the
   gap, never dropped *)
Example C12_unfilled_gap_probed_and_spared :
  sorted gap_all_evs /\ forallb behind_gapb gap_all_evs = true
  /\ answers 30 (trace (active0 30 1000000000) gap_all_evs)
  /\ (length (filter writes_testreq (trace (active0 30 1000000000) gap_all_evs)) = 3)%nat
  /\ s_state (final (active0 30 1000000000) gap_all_evs) = ST_RESENDREQ_AWAITING
  /\ Forall (fun r => ~ wd_disconnect r) (trace (active0 30 1000000000) gap_all_evs).
Proof. exact unfilled_gap_probed_and_spared. Qed.
Print Assumptions C12_unfilled_gap_probed_and_spared.

(* non-vacuity: concrete reachable runs meeting the hypotheses *)
Example C12_dead_peer_instance :
  outs (active0 30 1000000000) (ticks 1000000250 (29 + 1 + (60 + 1))) =
    repeat [] 29 ++ [[testreq_frame 1000029]] ++ repeat [] 60 ++ [[ODisconnect]]
  /\ final (active0 30 1000000000) (ticks 1000000250 (29 + 1 + (60 + 1))) = dead_st 30.
Proof. exact dead_peer_instance. Qed.
Print Assumptions C12_dead_peer_instance.

Example C12_live_peer_nonvacuous :
  sorted answering_evs /\ answers 30 (trace (active0 30 1000000000) answering_evs)
  /\ (length (filter writes_testreq (trace (active0 30 1000000000) answering_evs)) = 2)%nat
  /\ Forall (fun r => ~ wd_disconnect r) (trace (active0 30 1000000000) answering_evs).
Proof. exact live_peer_nonvacuous. Qed.
Print Assumptions C12_live_peer_nonvacuous.

Example C12_answer_behind_gap_instance :
  sorted gap_answer_evs
  /\ answers 30 (trace (active0 30 1000000000) gap_answer_evs)
  /\ (2 <= length (filter writes_testreq (trace (active0 30 1000000000) gap_answer_evs)))%nat
  /\ Forall (fun r => ~ wd_disconnect r) (trace (active0 30 1000000000) gap_answer_evs).
Proof. exact answer_behind_gap_instance. Qed.
Print Assumptions C12_answer_behind_gap_instance.

Example C12_traffic_instance :
  let evs := merge (ticks 1000000250 12) (app_msgs 1000004000 4000 3) in
  fed ((5 - 1) * 1000) 1000000000 evs
  /\ Forall (fun r => is_tick (r_ev r) = true -> r_out r = []) (trace (active0 5 1000000000) evs).
Proof. exact traffic_instance. Qed.
Print Assumptions C12_traffic_instance.
