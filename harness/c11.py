"""C11 - nothing passes to or from the application outside an established session.

Theorems (Props/C11.v) are about coq/theories/Fix/Session.v; this harness ties that model to
asyncfix/connection.py on the exhaustive product  connection state (all 19) x role x inbound message
class x integrity defect / number x send attempt of every type, followed by further input after the
disconnect, plus random histories; and runs an independent monitor of the gates of the property."""
import itertools
import json
import random

from harness import session_common as sc

META = {
    "level": "proof",
    "tables": ["GenEnums"],
    "files": ["asyncfix/connection.py", "asyncfix/session.py", "asyncfix/journaler.py", "asyncfix/codec.py"],
    "rule": "exhaustive product: ConnectionState (19 values, set directly) x role (initiator client / acceptor server object) x "
            "inbound message (8 classes) x integrity variant (correct, each CompID missing / wrong / swapped, MsgSeqNum missing / "
            "garbled / below / at / above expectation, MsgType missing) x send attempt of each type (Logon, Logout, application, "
            "Heartbeat, TestRequest (with and without a pending probe; with the probe's id, a near miss, none), ResendRequest, "
            "SequenceReset), each followed by further inbound traffic and a send; the same "
            "with the send attempt first; the same on the second connection of the same object (it was ACTIVE before, "
            "disconnected, connected again: flag set directly and through the real life cycle) for every pre-logon / dead state; "
            "random histories to length 25 from every state. A case is one history; non-trivial "
            "when a gate refused something or the connection was dropped; distinct by start state + concrete operations",
    "trusted_base": [
        "message-level abstraction (frames decoded by the real Codec; a wrong BeginString never reaches _process_message: the "
        "decoder discards the frame, checked here at byte level); flat messages only",
        "application hooks modelled as non-raising, non-sending event recorders; atomic semantics (no interleaving inside a handler)",
        "abstract journal; harness/session_common.py (driver over a fake stream writer, frame builder, generators), oracle below",
    ],
    "assumptions": ["the writer is present exactly while the state is above DISCONNECTED_BROKEN_CONN (as the library maintains it)",
                    "ConnectionState values the library never assigns (0, 4, 5, 9, 13-16, 18: C11_reachable_states) and the "
                    "combinations LOGON_INITIAL_SENT with a non-initiator / LOGON_INITIAL_RECV with a non-acceptor (the role is "
                    "assigned together with these states) are driven for the correspondence but are outside the oracle"],
}

MOD = "harness.c11"
REACHABLE = {1, 2, 3, 6, 7, 8, 10, 11, 12, 17}
ESTABLISHED = {10, 11, 12, 17}

CLASSES = [{"cls": "app"}, {"cls": "hb", "id": "none"}, {"cls": "tr"}, {"cls": "rr", "b": "first", "e": "inf"},
           {"cls": "gf", "new": "fwd"}, {"cls": "rs", "new": "fwd3"}, {"cls": "logon"}, {"cls": "logout"}]
VARIANTS = [{"rel": "at"}, {"rel": "below"}, {"rel": "plus1"}, {"rel": "far"},
            {"rel": "at", "defect": "no49"}, {"rel": "at", "defect": "no56"}, {"rel": "at", "defect": "bad49"},
            {"rel": "at", "defect": "bad56"}, {"rel": "at", "defect": "swap"}, {"rel": "at", "defect": "no34"},
            {"rel": "at", "defect": "g34", "g34": "abc"}, {"rel": "at", "defect": "no35"}]
SENDS = [{"t": "A"}, {"t": "5"}, {"t": "D"}, {"t": "0"}, {"t": "1"}, {"t": "2"}, {"t": "4", "seq": "nout", "plain": True}]
# application-built TestRequests (R13c): with the id of the pending probe (the only one that may go out), a near miss, no id
SENDS_X = SENDS + [{"t": "1", "id": "match"}, {"t": "1", "id": "near"}, {"t": "1", "id": "none"}]
STATES = list(range(19))
ROLES = [2, 1]


def start_of(st, role, treq=None):
    return {"role": role, "st": st, "nin": 5, "nout": 3, "maxres": 9 if st == 12 else 0, "treq": treq,
            "wasact": st in ESTABLISHED, "wr": st > 3}


def make_jobs(spec):
    kind = spec[0]
    if kind == "prod":
        _, lo, hi = spec
        jobs = []
        combos = itertools.islice(itertools.product(STATES, ROLES, range(len(CLASSES)), range(len(VARIANTS)), range(len(SENDS))), lo, hi)
        for st, role, ci, vi, si in combos:
            sym = dict(CLASSES[ci])
            sym.update(VARIANTS[vi])
            items = [("in", sym), ("send", SENDS[si]), ("in", {"cls": "app", "rel": "at"}), ("in", {"cls": "hb", "rel": "at", "id": "none"}),
                     ("send", {"t": "D"})]
            jobs.append((start_of(st, role, sc.NOW0 - 5 if (ci + vi + si) % 3 == 0 else None), items))
        return jobs
    if kind == "sendfirst":
        jobs = []
        for st, role, si, ci in itertools.product(STATES, ROLES, range(len(SENDS_X)), range(len(CLASSES))):
            sym = dict(CLASSES[ci])
            sym["rel"] = "at"
            items = [("send", SENDS_X[si]), ("in", sym), ("in", {"cls": "logon", "rel": "at"}), ("in", {"cls": "app", "rel": "at"}),
                     ("send", {"t": "D"}), ("disc", 3, None), ("in", {"cls": "app", "rel": "at"})]
            jobs.append((start_of(st, role, sc.NOW0 - 5 if si % 2 else None), items))
        return jobs
    if kind == "reconn":
        # the SAME connection object on its second connection: it was ACTIVE once (_connection_was_active is a
        # per-object fact, never cleared), was disconnected and is connected again.  Every pre-logon / dead state x
        # role x send attempt of every type, then inbound traffic and further sends.
        # (a) the flag set directly; (b) through the real life cycle: Logon exchange, disconnect, state set again
        jobs = []
        sends = SENDS_X + [{"t": "8"}, {"t": "D", "extra": [["97", "Y"]]}, {"t": "D", "pd": True, "seq": "below"}]
        for st, role, si, ci in itertools.product((1, 2, 3, 6, 7, 8), ROLES, range(len(sends)), range(len(CLASSES))):
            sym = dict(CLASSES[ci])
            sym["rel"] = "at"
            items = [("send", sends[si]), ("in", sym), ("send", {"t": "D"}), ("in", {"cls": "logon", "rel": "at"}),
                     ("in", {"cls": "app", "rel": "at"}), ("send", {"t": "D"}), ("send", {"t": "0"})]
            jobs.append((dict(start_of(st, role, sc.NOW0 - 5 if si % 2 else None), wasact=True), items))
        for st, role, si in itertools.product((6, 7, 8), ROLES, range(len(sends))):
            start = start_of(st, role, None)
            start["wasact"] = None          # keep what the life cycle below left in the object
            start["prelude"] = [("in", {"cls": "logon", "rel": "at"}), ("send", {"t": "D"}), ("disc", 3, None)]
            items = [("send", sends[si]), ("send", {"t": "D"}), ("in", {"cls": "logon", "rel": "at"}), ("send", {"t": "D"})]
            jobs.append((start, items))
        return jobs
    if kind == "rand":
        from harness import c04
        _, seed, n, maxlen = spec
        rng = random.Random(seed)
        jobs = []
        for _ in range(n):
            st = rng.choice(STATES if rng.random() < 0.5 else [6, 6, 7, 8, 17, 12])
            start = start_of(st, rng.choice(ROLES), rng.choice([None, None, sc.NOW0 - 5]))
            if rng.random() < 0.1:
                start["wr"] = not start["wr"]
            if rng.random() < 0.3:
                start["wasact"] = True          # a reconnected object
            items = []
            for _ in range(rng.randrange(1, maxlen + 1)):
                r = rng.random()
                if r < 0.62:
                    s = c04.rand_sym(rng)
                    if rng.random() < 0.25:
                        s["defect"] = rng.choice(["no49", "no56", "bad49", "bad56", "swap", "no34", "g34", "no35", "bad8"])
                        if s["defect"] == "g34":
                            s["g34"] = rng.choice(["abc", " 5", "5_0", "+5", "", "5\x85", "1e3"])
                    items.append(("in", s))
                elif r < 0.9:
                    t = rng.choice(["A", "5", "D", "0", "1", "2", "4", "8"])
                    s = {"t": t}
                    if t == "1":
                        s["id"] = rng.choice([None, "match", "match", "near", "none"])
                    if t == "4":
                        s["seq"] = rng.choice(["nout", "below", "above", "garbled", "missing"])
                        s["plain"] = rng.random() < 0.5
                    if rng.random() < 0.1:
                        s["pd"] = True
                        s["seq"] = rng.choice(["nout", "below", "above", "garbled", "missing"])
                    items.append(("send", s))
                elif r < 0.95:
                    items.append(("treq",))
                else:
                    items.append(("disc", rng.choice([2, 3]), rng.choice([None, None, "", "bye"])))
            jobs.append((start, items))
        return jobs
    if kind == "cases":
        return [(dict(c["start"], prelude=[tuple(x) for x in c.get("prelude", [])]),
                 [("op", op, bytes.fromhex(fr) if fr else None) for op, fr in zip(c["ops"], c["frames"])],
                 c.get("declined", [])) for c in spec[1]]
    raise ValueError(spec)


# ------------------------------------------------------------------------------------------
# property oracle
# ------------------------------------------------------------------------------------------

def _tag(msg, t):
    for k, v in msg[1]:
        if k == t:
            return v
    return None


def _int(v):
    try:
        return int(v)
    except (TypeError, ValueError):
        return None


def integrity(msg, nin):
    """The monitor's own reading of the header: ok | nocomp | badcomp | noseq | garbled | low"""
    s49, s56 = _tag(msg, "49"), _tag(msg, "56")
    if s49 is None or s56 is None:
        return "nocomp"
    if s49 != sc.TARGET or s56 != sc.SENDER:
        return "badcomp"
    v = _tag(msg, "34")
    if v is None:
        return "noseq"
    n = _int(v)
    if n is None:
        return "garbled"
    if n < nin:
        return "low"
    return "ok"


def oracle(h):
    fails = []
    w0 = h.worlds[0]
    if w0["st"] not in REACHABLE:
        return fails
    if (w0["st"] > 3) != w0["wr"]:
        return fails           # the writer exists exactly while the connection is up (assumption)
    if (w0["st"] == 7 and w0["role"] != 1) or (w0["st"] == 8 and w0["role"] != 2):
        return fails           # LOGON_INITIAL_SENT / _RECV are entered together with the role assignment
    established = w0["st"] in ESTABLISHED
    raw_sent = False       # the application sent a plain SequenceReset, numbered by itself and journaled (D20)
    ndisc = 0
    for i, (op, step) in enumerate(zip(h.ops, h.steps)):
        before, after = h.worlds[i], h.worlds[i + 1]
        evs = step[1]
        apps = [e for e in evs if e[0] == 1]
        wires = [sc.msg_uncodes(e[1]) for e in evs if e[0] == 0]
        logons = [e for e in evs if e[0] == 2]
        ndisc += sum(1 for e in evs if e[0] == 4)
        dead = before["st"] <= 3
        same = all(before[k] == after[k] for k in ("st", "nin", "nout", "sout", "sin", "in_rows")) and \
            [n for n, _ in before["out_rows"]] == [n for n, _ in after["out_rows"]]
        jcls = "D20-app-raw-seqnum" if (step[0] == 5 and raw_sent) else None
        if op[0] == 0:
            msg = op[1]
            mtype = msg[0]
            if dead:
                if evs or not same:
                    fails.append((i, "disconnected connection reacted to an inbound message", None))
                continue
            integ = integrity(msg, before["nin"])
            if integ != "ok":
                cls = None
                if integ == "low" and mtype == "4":
                    cls = "D11-seqreset-any"
                elif integ == "low" and before["st"] == 12:
                    cls = "D28-low-tolerated-while-awaiting"
                cls = cls or jcls
                logouts = [w for w in wires if w[0] == "5"]
                want_logout = integ in ("badcomp", "noseq", "garbled", "low")
                if apps:
                    fails.append((i, "message failing the integrity check (%s) was handed to the application" % integ, cls))
                elif after["nin"] != before["nin"]:
                    fails.append((i, "message failing the integrity check (%s) moved the expected number" % integ, cls))
                elif after["st"] > 3:
                    fails.append((i, "integrity failure (%s) left the connection in state %d" % (integ, after["st"]), cls))
                elif want_logout and (len(logouts) != 1 or not _tag(logouts[0], "58")):
                    fails.append((i, "integrity failure (%s): expected one Logout with a reason, got %r" % (integ, logouts), cls))
                elif not want_logout and wires:
                    fails.append((i, "unidentifiable counterparty (%s) but frames were written" % integ, cls))
                if after["st"] > 3:
                    established = after["st"] in ESTABLISHED
                continue
            if established and mtype == "5":
                # the peer's Logout ends the session whatever happens to its journaling (regression: R3b)
                if not any(e[0] == 3 for e in evs) or after["st"] > 3:
                    fails.append((i, "peer Logout was not processed (on_logout %s, state %d -> %d)" % (
                        "called" if any(e[0] == 3 for e in evs) else "not called", before["st"], after["st"]), None))
            if not established:
                # the Logon exchange is not complete (NETWORK_CONN_ESTABLISHED, LOGON_INITIAL_SENT, LOGON_INITIAL_RECV):
                # nothing is delivered; anything but a Logon (and, once the exchange has begun, a Logout) drops the
                # connection without a frame and without being counted (R8b)
                if apps:
                    fails.append((i, "on_message before the Logon exchange completed (state %d)" % before["st"], None))
                elif mtype != "A":
                    counted = after["nin"] != before["nin"] or after["in_rows"] != before["in_rows"]
                    if after["st"] > 3 or wires:
                        fails.append((i, "inbound %s before the Logon exchange completed: connection not dropped silently "
                                         "(state %d -> %d, %d frames)" % (mtype, before["st"], after["st"], len(wires)), None))
                    elif counted and not (mtype == "5" and before["st"] in (7, 8)):
                        fails.append((i, "inbound %s before the Logon exchange completed was counted" % mtype, None))
                if logons:
                    established = True
                elif after["st"] in ESTABLISHED:
                    established = True
                    fails.append((i, "session established without on_logon (state %d -> %d)" % (before["st"], after["st"]), None))
        elif op[0] == 1:
            t = op[1][0]
            raw = t == "4" and _tag(op[1], "123") != "Y" and _tag(op[1], "43") != "Y"
            must_refuse = dead or (not established and t not in ("A", "5"))
            if t == "1" and not must_refuse:
                # R13c: a TestRequest goes out only while a probe is pending and only with that probe's id
                probe = before["treq"]
                if probe is None or _tag(op[1], "112") != str(probe):
                    if step[0] != 4 or evs or not same:
                        fails.append((i, "TestRequest with TestReqID %r while the pending probe is %r was not refused cleanly: "
                                         "outcome %r" % (_tag(op[1], "112"), probe, step[0]), None))
            if must_refuse:
                if step[0] != 4 or evs or not same:
                    fails.append((i, "send of %s in state %d (session not established) was not refused cleanly: outcome %r" % (
                        t, before["st"], step[0]), None))
            elif step[0] == 4 and (evs or not same):
                fails.append((i, "send refused with FIXConnectionError consumed something", None))
            if raw and step[0] == 0:
                raw_sent = True
        elif op[0] == 2:
            if dead and (step[0] != 4 or evs or any(before[k] != after[k] for k in ("st", "nin", "nout", "sout", "sin"))):
                fails.append((i, "TestRequest probe on a disconnected connection was not refused cleanly", None))
        elif op[0] == 3:
            if dead and (evs or not same):
                fails.append((i, "disconnect() on a disconnected connection did something", None))
        if after["st"] <= 3:
            established = False
        if ndisc > 1:
            fails.append((i, "on_disconnect reported %d times" % ndisc, None))
            break
        if len(fails) >= 3:
            break
    return fails


def nontrivial(h):
    return any(s[0] == 4 for s in h.steps) or any(e[0] == 4 for s in h.steps for e in s[1])


def distribution(h):
    keys = ["start_state_%d" % h.world0["st"], "role_%d" % h.world0["role"]]
    for o, s in zip(h.ops, h.steps):
        if o[0] == 0:
            keys.append("in_" + integrity(o[1], 0).replace("low", "ok"))
        elif o[0] == 1:
            keys.append("send_%s_%s" % (o[1][0], "refused" if s[0] == 4 else ("ok" if s[0] == 0 else "exc%s" % (s[0],))))
    return keys


# ------------------------------------------------------------------------------------------
# wrong BeginString: at byte level (the decoder, not the session layer, discards it)
# ------------------------------------------------------------------------------------------

def check_beginstring(ctx):
    ad = sc.Adapter(2)
    try:
        n = 0
        for cls in ("app", "logon", "hb"):
            fr = sc.resolve({"cls": cls, "rel": "at", "defect": "bad8"}, ad)
            m, raw = ad.decode(fr)
            n += 1
            if m is not None:
                ctx.fail({"frame": fr.hex()}, "a frame with BeginString FIX.4.2 was returned by the decoder of a FIX.4.4 connection", None)
        ctx.count("wrong_beginstring_frames_discarded_by_decoder", n)
    finally:
        ad.close()


# ------------------------------------------------------------------------------------------
# entry points
# ------------------------------------------------------------------------------------------

def _chunks(total, n):
    step = max(1, (total + n - 1) // n)
    return [(lo, min(total, lo + step)) for lo in range(0, total, step)]


def run(ctx):
    check_beginstring(ctx)
    total = len(STATES) * len(ROLES) * len(CLASSES) * len(VARIANTS) * len(SENDS)
    specs = [("prod", lo, hi) for lo, hi in _chunks(total, 30)]
    specs.append(("sendfirst",))
    specs.append(("reconn",))
    nrand = ctx.scale(1600, 40000)
    for _ in range(16):
        specs.append(("rand", ctx.rng.randrange(1 << 30), nrand // 16, 25))
    cp = corpus()
    if cp:
        specs = [("cases", cp)] + specs
    tot = sc.run_specs(ctx, MOD, specs, timeout=ctx.scale(400, 3000))
    ctx.extra["histories"] = tot["n"]
    ctx.extra["operations"] = tot["steps"]
    ctx.extra["product_tuples"] = total
    ctx.extra["cpu_impl_s"] = round(tot["impl_s"], 1)
    ctx.extra["cpu_model_s"] = round(tot["model_s"], 1)


def corpus():
    import glob
    import os
    out = []
    for f in sorted(glob.glob(os.path.join(os.path.dirname(__file__), "..", "corpus", "C11", "*.json"))):
        out.append(json.load(open(f)))
    return out


def search(ctx, cases):
    saved, ctx.model = ctx.model, None
    try:
        specs = []
        if cases:
            specs.append(("cases", [c for c in cases if c and "ops" in c]))
        rng = random.Random(ctx.seed + 1)
        specs += [("rand", rng.randrange(1 << 30), ctx.scale(300, 3000), 25) for _ in range(16)]
        sc.run_specs(ctx, MOD, specs, timeout=ctx.scale(120, 600))
    finally:
        ctx.model = saved


def replay(path):
    rec = json.load(open(path))
    case = rec.get("input")
    if not case or "ops" not in case:
        print("replay: no concrete input; broken:", rec.get("broken"))
        return 1
    h = sc.replay_case(case)
    fails = oracle(h)
    for i, (op, st) in enumerate(zip(h.ops, h.steps)):
        ev = [[e[0], sc.uncodes(e[1][0]), [tv for tv in sc.msg_uncodes(e[1])[1] if tv[0] in ("34", "58")]] if e[0] in (0, 1) else e for e in st[1]]
        print("step %d %s -> exc=%s events=%s state=%s nin=%s nout=%s" % (
            i, [op[0], op[1][0], [tv for tv in op[1][1] if tv[0] in ("34", "49", "56", "35")]] if op[0] == 0 else op,
            st[0], ev, st[2][0], st[2][2], st[2][3]))
    for i, what, cls in fails:
        print("property oracle: step %d: %s [class %s]" % (i, what, cls))
    return 1 if fails else 0
