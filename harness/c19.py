"""C19 - field value validation matches the FIX 4.4 datatype lexical spaces.

Theorems (Props/C19.v) relate the model Fix/ValidateValue.v of `SchemaField.validate_value` to the
specification Fix/Lex.v.  This harness ties the model to asyncfix/protocol/schema.py by running both on the same
(field, string) pairs, and runs an independent Python statement of the FIX 4.4 lexical spaces (regular
expressions + calendar) as the property oracle on the implementation's observable behaviour
(accept / exception class)."""
import calendar
import itertools
import json
import os
import re
import warnings
from concurrent.futures import ThreadPoolExecutor

from vlib import core

META = {
    "level": "proof",
    "tables": ["GenLex"],
    "files": ["asyncfix/protocol/schema.py", "tests/FIX44.xml", "tests/TT-FIX44.xml"],
    "rule": "a case is one (tag, datatype name, enumerators, string) validation; per datatype name used by either dictionary "
            "(plus the remaining names of the dispatch): every string of length 0..4 (quick; 0..5 for the narrow alphabets in "
            "thorough) over a type-specific alphabet (digits, '-', '+', '.', '_', ' ', 'e', U+0663, TAB, ...), boundary values "
            "(calendar limits, 4300/4301 digits, 2^1024-2^970), random members and one-edit near-misses of the lexical space; per "
            "enumerated field of both dictionaries every enumerator and its near-misses; a case is non-trivial when the string is "
            "non-empty and not a single character; distinct by (tag, datatype, enum-id, string)",
    "trusted_base": [
        "Fix/ValidateValue.v models int() through Py/Str.py_int, and float(), datetime.strptime and re.fullmatch/re.search only "
        "on the strict ASCII layouts that the patched validators let through (outside the layout every outcome of the CPython "
        "parser ends in the same FIXMessageError); float overflow is the exact comparison |v| >= 2^1024 - 2^970; str.upper is "
        "modelled for ASCII type names",
        "oracle: independent Python re-statement of the FIX 4.4 datatype definitions (regular expressions + calendar.monthrange)",
    ],
    "assumptions": ["values are str objects (validate_value asserts it)",
                    "datatype names in dictionaries are ASCII"],
}

# ------------------------------------------------------------------------------------------------
# Oracle: FIX 4.4 lexical spaces, stated independently of the code (Volume 1, "FIX datatypes")
# ------------------------------------------------------------------------------------------------

# dictionary datatype name -> FIX 4.4 datatype
DATATYPE_OF = {
    "INT": "int", "LENGTH": "Length", "NUMINGROUP": "NumInGroup", "SEQNUM": "SeqNum", "DAYOFMONTH": "DayOfMonth",
    "FLOAT": "float", "QTY": "float", "PRICE": "float", "PRICEOFFSET": "float", "AMT": "float", "PERCENTAGE": "float",
    "CHAR": "char", "BOOLEAN": "Boolean", "STRING": "String",
    "MULTIPLEVALUESTRING": "MultipleValueString", "MULTIPLESTRINGVALUE": "MultipleValueString",
    "COUNTRY": "Country", "CURRENCY": "Currency", "EXCHANGE": "Exchange",
    "MONTHYEAR": "month-year", "UTCTIMESTAMP": "UTCTimestamp", "UTCTIMEONLY": "UTCTimeOnly",
    "UTCDATEONLY": "UTCDateOnly", "LOCALMKTDATE": "LocalMktDate", "DATA": "data",
}
TYPE_NAMES = list(DATATYPE_OF)

RE_INT = re.compile(r"-?[0-9]+\Z")
RE_POSITIVE = re.compile(r"[0-9]*[1-9][0-9]*\Z")
RE_DAY = re.compile(r"0*([1-9]|[12][0-9]|3[01])\Z")
RE_FLOAT = re.compile(r"-?(?=\.?[0-9])[0-9]*\.?[0-9]*\Z")
RE_DATE = re.compile(r"([0-9]{4})([0-9]{2})([0-9]{2})\Z")
RE_TIME = re.compile(r"([0-9]{2}):([0-9]{2}):([0-9]{2})(\.[0-9]{3})?\Z")
RE_MY = re.compile(r"([0-9]{4})([0-9]{2})(?:([0-9]{2})|w[1-5])?\Z")
RE_CODE = re.compile(r"[0-9A-Za-z]+\Z")
SOH = "\x01"


def _date_ok(y, m, d):
    if not 1 <= m <= 12:
        return False
    leap = (y % 4 == 0 and y % 100 != 0) or y % 400 == 0          # proleptic Gregorian, year 0000 included
    dim = 29 if (m == 2 and leap) else calendar.mdays[m]
    return 1 <= d <= dim


def _lex_date(s):
    m = RE_DATE.match(s)
    return bool(m) and _date_ok(int(m.group(1)), int(m.group(2)), int(m.group(3)))


def _lex_time(s):
    m = RE_TIME.match(s)
    return bool(m) and int(m.group(1)) <= 23 and int(m.group(2)) <= 59 and int(m.group(3)) <= 60


def lex(d, s):
    """Is the string s in the lexical space of FIX 4.4 datatype d?  (Field values are never empty.)"""
    if s == "":
        return False
    if d == "int":
        return bool(RE_INT.match(s))
    if d in ("Length", "NumInGroup", "SeqNum"):          # "int field ... value must be positive"
        return bool(RE_POSITIVE.match(s))
    if d == "DayOfMonth":                                # "int field ... values 1 to 31"
        return bool(RE_DAY.match(s))
    if d == "float":
        return bool(RE_FLOAT.match(s))
    if d == "char":
        return len(s) == 1 and s != SOH
    if d == "Boolean":
        return s in ("Y", "N")
    if d == "String":
        return SOH not in s
    if d == "MultipleValueString":
        return SOH not in s and all(tok != "" for tok in s.split(" "))
    if d in ("Country", "Currency", "Exchange"):
        n = {"Country": 2, "Currency": 3, "Exchange": 4}[d]
        return len(s) <= n and bool(RE_CODE.match(s))
    if d in ("UTCDateOnly", "LocalMktDate"):
        return _lex_date(s)
    if d == "UTCTimeOnly":
        return _lex_time(s)
    if d == "UTCTimestamp":
        return len(s) >= 9 and s[8] == "-" and _lex_date(s[:8]) and _lex_time(s[9:])
    if d == "month-year":
        m = RE_MY.match(s)
        if not m or not 1 <= int(m.group(2)) <= 12:
            return False
        return m.group(3) is None or _date_ok(int(m.group(1)), int(m.group(2)), int(m.group(3)))
    if d == "data":
        return True
    raise KeyError(d)


FLOAT_INF = 2 ** 1024 - 2 ** 970        # decimal strings at or above this magnitude become inf in float()
FLOAT_INF_DIGITS = len(str(FLOAT_INF))  # 309


def kf_class(d, s, inl=None):
    """Known-finding class of a deviation on (datatype, string), or None.  Each class is decided on the input alone
    and is exactly the set of strings on which acceptance differs from the lexical space."""
    if inl is None:
        inl = lex(d, s)
    if d == "Length":
        return "C19-length-unchecked" if (not inl and s != "") else None
    if d in ("int", "NumInGroup", "SeqNum", "DayOfMonth"):
        return "C19-huge-number" if inl and sum(c in "0123456789" for c in s) > 4300 else None
    if d == "float":
        if inl:
            ip = s.lstrip("-").split(".")[0].lstrip("0")          # integer part; the fraction cannot reach the next integer
            if len(ip) > FLOAT_INF_DIGITS or (len(ip) == FLOAT_INF_DIGITS and int(ip) >= FLOAT_INF):
                return "C19-huge-number"
        return None
    if d in ("String", "char", "MultipleValueString"):
        return "C19-equals-sign-refused" if inl and "=" in s else None
    if d in ("UTCDateOnly", "LocalMktDate", "month-year"):
        return "C19-year-0000-refused" if inl and s[:4] == "0000" else None
    if d in ("UTCTimestamp", "UTCTimeOnly"):
        if inl:
            if d == "UTCTimestamp" and s[:4] == "0000":
                return "C19-year-0000-refused"
            t = s[9:] if d == "UTCTimestamp" else s
            return "C19-leap-second-refused" if t[6:8] == "60" else None
        # microseconds: a valid value with a millisecond part followed by three more digits
        if len(s) > 3 and "." in s[:-6] and s[-3:].isascii() and s[-3:].isdigit() and lex(d, s[:-3]):
            base = s[:-3]
            t = base[9:] if d == "UTCTimestamp" else base
            if t[6:8] != "60" and not (d == "UTCTimestamp" and base[:4] == "0000"):
                return "C19-microseconds-accepted"
        return None
    return None


# ------------------------------------------------------------------------------------------------
# Case generation
# ------------------------------------------------------------------------------------------------

ARABIC3 = "٣"      # ARABIC-INDIC DIGIT THREE: int(), float(), strptime and \d / \w accept it
ALPHA_NUM = ["0", "1", "2", "3", "9", "-", "+", ".", "_", " ", "e", ARABIC3, "\t", "\n"]
ALPHA_STR = ["Y", "N", "a", "Z", "0", "=", SOH, " ", "\t", "é", "_", "-", ".", "\x00"]
ALPHA_CODE = ["A", "Z", "a", "0", "9", "_", "é", ARABIC3, "=", SOH, " ", "-", "@", "."]
ALPHA_DATE = ["0", "1", "2", "3", "5", "6", "9", "-", ":", ".", "w", " ", ARABIC3, "\t"]


def alphabet(d):
    if d in ("int", "Length", "NumInGroup", "SeqNum", "DayOfMonth", "float"):
        return ALPHA_NUM
    if d in ("char", "Boolean", "String", "MultipleValueString", "data"):
        return ALPHA_STR
    if d in ("Country", "Currency", "Exchange"):
        return ALPHA_CODE
    return ALPHA_DATE


DIG = "0123456789"


def exhaustive(alpha, maxlen):
    for n in range(0, maxlen + 1):
        for tup in itertools.product(alpha, repeat=n):
            yield "".join(tup)


def one_edits(s, alpha):
    """Every string at edit distance one from s over the alphabet (substitute, delete, insert)."""
    out = set()
    for i in range(len(s)):
        out.add(s[:i] + s[i + 1:])
        for a in alpha:
            out.add(s[:i] + a + s[i + 1:])
    for i in range(len(s) + 1):
        for a in alpha:
            out.add(s[:i] + a + s[i:])
    out.discard(s)
    return out


def rand_edit(rng, s, alpha):
    k = rng.randrange(3)
    i = rng.randrange(len(s) + (1 if k == 2 else 0)) if (s or k == 2) else 0
    if not s:
        return rng.choice(alpha)
    if k == 0:
        return s[:i] + rng.choice(alpha) + s[i + 1:]
    if k == 1:
        return s[:i] + s[i + 1:]
    return s[:i] + rng.choice(alpha) + s[i:]


def rdigits(rng, n):
    return "".join(rng.choice(DIG) for _ in range(n))


YEARS = ["0000", "0001", "0004", "0100", "0400", "1600", "1900", "1999", "2000", "2023", "2024", "2100", "9999"]
FRACS = ["", ".", ".0", ".00", ".000", ".999", ".0000", ".00000", ".000000", ".123456", ".0000000", ".12a", ".123456789",
         ".٣٣٣", ".123.456"]


def rand_date(rng):
    y = rng.choice(YEARS) if rng.random() < 0.3 else "%04d" % rng.randrange(0, 10000)
    m = rng.randrange(1, 13)
    d = rng.randrange(1, 32) if rng.random() < 0.2 else rng.randrange(1, calendar.mdays[m] + 1)
    return "%s%02d%02d" % (y, m, d)


def rand_time(rng):
    s = "%02d:%02d:%02d" % (rng.randrange(24), rng.randrange(60), rng.choice([0, 59, 60, rng.randrange(60), rng.randrange(60)]))
    r = rng.random()
    if r < 0.4:
        s += "." + rdigits(rng, 3)
    elif r < 0.55:
        s += "." + rdigits(rng, 6)
    elif r < 0.6:
        s += "." + rdigits(rng, rng.randrange(1, 10))
    return s


def rand_member(rng, d):
    """A random string that is (usually) in the lexical space of d."""
    if d == "int":
        return rng.choice(["", "-"]) + rdigits(rng, rng.randrange(1, 21))
    if d in ("Length", "NumInGroup", "SeqNum"):
        return "0" * rng.randrange(0, 3) + str(rng.randrange(1, 10 ** rng.randrange(1, 12)))
    if d == "DayOfMonth":
        return "0" * rng.randrange(0, 3) + str(rng.randrange(1, 32))
    if d == "float":
        ip, fp = rdigits(rng, rng.randrange(0, 12)), rdigits(rng, rng.randrange(0, 12))
        dot = "." if (fp or rng.random() < 0.3) else ""
        return rng.choice(["", "-"]) + ((ip + dot + fp) if (ip or fp) else "0")
    if d == "char":
        return chr(rng.choice([rng.randrange(32, 127), rng.randrange(0, 0x3000)]))
    if d == "Boolean":
        return rng.choice("YN")
    if d in ("String", "data"):
        return "".join(chr(rng.choice([rng.randrange(32, 127), rng.randrange(32, 127), rng.randrange(0, 0x500)]))
                       for _ in range(rng.randrange(1, 20)))
    if d == "MultipleValueString":
        return " ".join("".join(rng.choice("ABab019=") for _ in range(rng.randrange(1, 4))) for _ in range(rng.randrange(1, 6)))
    if d in ("Country", "Currency", "Exchange"):
        n = {"Country": 2, "Currency": 3, "Exchange": 4}[d]
        return "".join(rng.choice("ABCXYZabz0189") for _ in range(rng.randrange(1, n + 1)))
    if d in ("UTCDateOnly", "LocalMktDate"):
        return rand_date(rng)
    if d == "UTCTimeOnly":
        return rand_time(rng)
    if d == "UTCTimestamp":
        return rand_date(rng) + "-" + rand_time(rng)
    if d == "month-year":
        base = rand_date(rng)
        r = rng.random()
        return base[:6] if r < 0.3 else (base if r < 0.6 else base[:6] + "w" + rng.choice("123451234506"))
    raise KeyError(d)


def heavy(d):
    """Very long boundary strings (thousands of digits): costly in the extracted model, used for one name per family."""
    if d in ("int", "Length", "NumInGroup", "SeqNum", "DayOfMonth"):
        return ["-" + "1" * 4300, "-" + "1" * 4301, "0" * 4300, "0" * 4301, "0" * 4299 + "1", "0" * 4300 + "1", "0" * 4298 + "31",
                "0" * 4299 + "31", "0" * 4299 + "32", "1" * 4300 + " ", "1" * 4299 + "_1", "1" * 5000, "-" + "0" * 4301, "+" + "1" * 4300]
    if d == "float":
        return ["0" * 5000 + "1", "0" * 5000 + ".1", "1" * 4301 + ".0", "1" * 308 + "." + "1" * 5000, "1" * 309 + "." + "0" * 3000]
    return []


HEAVY_NAMES = ("INT", "SEQNUM", "DAYOFMONTH", "FLOAT", "PRICE")


def boundary(d):
    """Boundary members and non-members of the lexical space of d."""
    out = []
    if d in ("int", "Length", "NumInGroup", "SeqNum", "DayOfMonth"):
        out += ["0", "-0", "00", "000", "1", "01", "007", "9", "10", "30", "31", "32", "031", "0032", "-1", "-31", "+1", "+0",
                " 1", "1 ", "1\n", "\t1", "1_0", "1__0", "_1", "1_", "1.0", "10.2", "1e1", "0x1", "0b1", "0o1", "١", "１",
                "٣1", "as", "-", "--1", "-+1", "- 1", "1-", "2147483647", "2147483648", "9223372036854775808",
                "-9223372036854775809", "1" * 50, "1\x00", "\x001", "1\xa0", "\xa01", "\x851", "1\x1f", "1 ", "﻿1",
                "1" * 4300, "1" * 4301]
    if d == "float":
        t = FLOAT_INF
        out += ["0", "-0", "0.0", "-0.0", "1", "1.", ".1", "-.1", "-1.", ".", "-.", "-", "+1", "+.1", "1.1.", "1..1", "..1", "1.1.1",
                "1e5", "1E5", "1e-5", "1.e1", ".1e1", "inf", "-inf", "+inf", "Inf", "INF", "infinity", "nan", "-nan", "NaN", "1_0", "1_0.0",
                "1._0", " 1.0", "1.0 ", "1.0\n", "\t1", "0x1p3", "0x10", "1,5", "1.5f", "١.٥", "１", "1\x00", "as", "--1", "-+1", "- 1",
                "1-", "00023.23", "23.0000", "1.1231", "-1.12310923810281", "1" * 50, "0." + "0" * 400 + "1", "-0." + "0" * 400 + "1",
                str(t), str(t - 1), str(t + 1), "-" + str(t), "-" + str(t - 1), str(t) + ".0", str(t - 1) + ".9999999999", str(t)[:-1] + "." + str(t)[-1],
                str(t - 1)[:-1] + "." + str(t - 1)[-1] + "999", str(t * 10)[:-1] + "." + str(t * 10)[-1], str(t * 10 - 1)[:-1] + "." + str(t * 10 - 1)[-1],
                "000" + str(t), "000" + str(t - 1), str(t) + "." + "0" * 50, str(t - 1) + "." + "9" * 50,
                "1" + "0" * 308, "1" + "0" * 309, "9" * 308, "9" * 309, "1" + "0" * 400, "1" + "0" * 400 + ".5", "-1" + "0" * 400,
                "1e400", "1e309", "1e308",
                "1.7976931348623157e308", "1.7976931348623159e308", "17976931348623157" + "0" * 292, "17976931348623158" + "0" * 292,
                "17976931348623159" + "0" * 292]
    if d in ("char", "Boolean", "String", "MultipleValueString", "data"):
        out += ["Y", "N", "y", "n", "Z", "YN", "Y ", " Y", "Y\n", "1", "A", "z", "!", "=", "a=b", SOH, "a" + SOH + "s", "a" + SOH, " ", "  ", "a b",
                "a  b", " a", "a ", "a b c", "a\tb", "a\nb", "Y AS NA za", "N N 2 1 n", "as some tag=values", "é", "日本", "\x00", "\x7f",
                "\ud800", "x" * 300, "Hey this is alphanum string ! Also, some @tags, #test", "202309" + SOH, "-202309", "a = b", "=" * 3,
                "a b", "a\xa0b", " ", "１"]
    if d in ("Country", "Currency", "Exchange"):
        out += ["RU", "US", "ZAR", "RUB", "USD", "EURU", "EU@", "NYSE", "NQ", "EUREx", "EUREX", "X", "x", "0", "00", "U_", "_", "U S", "US ", " US",
                "US\n", "é", "Ué", "٣", "U٣", "ＵＳ", "u-", "A=", "A" + SOH, "ABCDE", "abcd", "abcde", "1234", "12345", "A\x00", "µ", "ª", "²", "ß",
                "ǅ", "Á", "A.B"]
    if d in ("UTCDateOnly", "LocalMktDate", "month-year", "UTCTimestamp"):
        dates = []
        for y in YEARS:
            for m in range(0, 14):
                for dd in (0, 1, 9, 10, 27, 28, 29, 30, 31, 32, 99):
                    dates.append("%s%02d%02d" % (y, m, dd))
        dates += ["20230921", "20230231", "EUREx", "20230921 14:00:00.12312", "2023921", "202309211", "2023-09-21", "2023/09/21", "2023 921",
                  "20230 21", "202309 1", "2023091", "+2023921", "-2023921", "٢٠٢٣0921", "２０２３0921", "2023092１", "20230921\n", " 20230921",
                  "20230921 ", "2023_921", "2023092١", "1e230921", "0x230921", "00010101", "00000101", "00000229", "00000230", "99991231",
                  "10000101", "19000229", "20000229", "21000229", "20240229", "20230229", "-0010101", "2023.921"]
        if d in ("UTCDateOnly", "LocalMktDate"):
            out += dates
        if d == "month-year":
            out += dates
            for y in YEARS:
                for m in range(0, 14):
                    out.append("%s%02d" % (y, m))
                    for w in ("w0", "w1", "w2", "w3", "w4", "w5", "w6", "W1", "w", "ww", "1w", "w11", " w1", "w1 ", "w١"):
                        out.append("%s%02d%s" % (y, m, w))
            out += ["202309", "20230921", "202309w1", "202309w5", "20230925w5", "202309w6", "2023w1", "20w309w1", "w1", "w", "2023009w1", "20239w1",
                    "2023 9", "2023٠9", "20239", "2023091", "202309211", "w12023", "202309w1w1", "2023w9w1", "202309W1", "٢٠٢٣09", "2023-09", "20230"]
        if d == "UTCTimestamp":
            tparts = ["00:00:00", "23:59:59", "23:59:60", "23:59:61", "24:00:00", "14:00:00", "14:00:00.123", "14:00:00.123456", "14:00:00.123456789",
                      "1:2:3", "01:02:03.1", "01:02:03.12", "01:02:03.1234", "01:02:03.12345", "23:59:60.123", "23:59:60.123456", "12:60:00", "14:00",
                      "140000", "14:00:00.", "14-00-00", "14:00:00,123", "00:00:60.000000", "23:59:59.999999"]
            for dt in ["20230921", "00000101", "00010101", "20230231", "20240229", "99991231", "2023921", "20231301", "00000229", "19000229"]:
                for tp in tparts:
                    for sep in ("-", " ", "T", "", "--", "_"):
                        out.append(dt + sep + tp)
            out += [x + "-00:00:00" for x in dates[::7]]
            out += ["20230921-14:00:00", "20230921-14:00:00.123", "20230921-14:00:00.123456", "20230921-14:00:00.123456789", "20230101-1:2:3",
                    "2023011-01:02:03", "٢٠٢٣0921-14:00:00", "20230921-14:00:00Z", "20230921-14:00:00 ", " 20230921-14:00:00", "20230921-14:00:00\n",
                    "20230921-14:00:00+00", "20230921-14:00:0٠", "20230921-14:00:00.٠٠٠", "20230921-14:00:00.000000\n"]
    if d in ("UTCTimeOnly", "UTCTimestamp"):
        hs = list(range(0, 26)) + [29, 30, 99]
        ms = [0, 1, 9, 10, 59, 60, 61, 99]
        ss = [0, 9, 10, 59, 60, 61, 62, 69, 99]
        pre = "20230921-" if d == "UTCTimestamp" else ""
        for h in hs:
            for m in ms:
                for sec in ss:
                    base = "%s%02d:%02d:%02d" % (pre, h, m, sec)
                    out.append(base)
                    if h in (0, 23, 24) or (m in (59, 60) and sec in (59, 60, 61)):
                        out += [base + f for f in FRACS]
        if d == "UTCTimeOnly":
            out += ["14:00:00", "14:00:00.123", "14:00:00.123456", "14:00:00.123456789", "EUREx", "20230921 14:00:00.123456789", "1:2:3", "1:02:03",
                    "01:2:03", "01:02:3", "010203", "01:02", "01:02:03:04", "01-02-03", " 01:02:03", "01:02:03 ", "01:02:03\n", "٠١:02:03", "01:02:٠3",
                    "0１:02:03", "01:02:03.", "01:02:03.1", "01:02:03.12", "01:02:03.1234", "01:02:03.12345", "01:02:03.1234567", "+1:02:03",
                    "01:02:03.+12", "01:02:03.-12", "01:02:03. 12", "01:02:03.12 ", "01:02:03.1_2", "01:02:03,123", "01.02.03", "24:00:00", "23:60:00",
                    "23:59:60", "23:59:60.000", "23:59:60.000000", "23:59:61", "00:00:00.000000", "23:59:59.999999", "00:00:60"]
    return out


# ------------------------------------------------------------------------------------------------
# Groups of cases: one field (tag, datatype name, enumerators) with many strings
# ------------------------------------------------------------------------------------------------

class Group:
    __slots__ = ("tag", "ftype", "values", "label", "strings", "obj", "in_dict")

    def __init__(self, tag, ftype, values=(), label="", strings=(), obj=None, in_dict=False):
        self.tag, self.ftype, self.values, self.label = tag, ftype, tuple(values), label
        self.strings = list(dict.fromkeys(strings))      # distinct, order kept
        self.obj = obj                                   # the real SchemaField of a parsed dictionary, if any
        self.in_dict = in_dict

    def field(self):
        from asyncfix.protocol.schema import SchemaField
        if self.obj is not None:
            return self.obj
        return SchemaField(self.tag, "t", self.ftype, {v: "d" for v in self.values})

    def case(self, s):
        return {"tag": self.tag, "ftype": self.ftype, "values": list(self.values), "s": s, "src": self.label}


def load_dictionaries():
    from asyncfix.protocol.schema import FIXSchema
    out = {}
    for stem, rel in (("fix44", "tests/FIX44.xml"), ("tt", "tests/TT-FIX44.xml")):
        out[stem] = FIXSchema(os.path.join(core.REPO, rel))
    return out


def type_groups(ctx, maxlen):
    """Per datatype name: exhaustive short strings, boundary values with all their one-edit neighbours (short ones) or
    random edits (long ones), random members and near-misses."""
    rng = ctx.rng
    names = TYPE_NAMES + ["int", "Price", "UtcTimeStamp", "UNSUPPORTED", "TAGNUM", "TIME", "MULTIPLEVALUESTRINGS"]
    groups = []
    n_rand = ctx.scale(1500, 20000)
    for name in names:
        d = DATATYPE_OF.get(name.upper())
        if d is None:
            groups.append(Group("1", name, label="unsupported-name", strings=["1", "a", "=", SOH, " ", "202309", "x" * 50]))
            continue
        alpha = alphabet(d)
        strs = []
        if name in TYPE_NAMES:
            strs += list(exhaustive(alpha, maxlen))
            if d in ("Country", "Currency", "Exchange"):
                strs += ["".join(t) for t in itertools.product(["A", "z", "0", "_", "é", "@"], repeat=5)]
            if d == "month-year":
                strs += ["".join(t) for t in itertools.product(["0", "1", "2", "9", "w", ARABIC3], repeat=6)]
                strs += [b + "".join(t) for b in ("202309", "000002", "202402", "202313") for t in itertools.product(alpha, repeat=2)]
        bnd = boundary(d)
        strs += bnd
        if name not in TYPE_NAMES:          # other spellings of a name (ftype.upper()): boundary values only
            groups.append(Group("1", name, label="type:" + name, strings=strs))
            continue
        if name in HEAVY_NAMES:
            hv = heavy(d)
            strs += hv + [rand_edit(rng, b, alpha) for b in hv[:ctx.scale(4, 14)]]
        p_all = ctx.scale(0.25, 1.0) if len(bnd) < 500 else ctx.scale(0.03, 0.4)
        for b in bnd:
            if len(b) <= 24:
                strs += one_edits(b, alpha) if rng.random() < p_all else [rand_edit(rng, b, alpha) for _ in range(4)]
            elif len(b) <= 1000:
                strs += [rand_edit(rng, b, alpha) for _ in range(3)]
        for _ in range(n_rand):
            m = rand_member(rng, d)
            strs.append(m)
            e = rand_edit(rng, m, alpha)
            strs.append(e)
            if rng.random() < 0.3:
                strs.append(rand_edit(rng, e, alpha))
        groups.append(Group("1", name, label="type:" + name, strings=strs))
        # EndSeqNo special case: same datatype under tag 16
        sp = ["0", "00", "-0", "0 ", " 0", "0\n", "+0", "0.0", "", "1", "-1", "٠", "０"] + [m for m in bnd[:40]] + list(exhaustive(alpha, 2))
        groups.append(Group("16", name, label="tag16:" + name, strings=sp))
    return groups


def dictionary_groups(ctx, dicts):
    """Every field of both parsed dictionaries, through the real SchemaField objects."""
    rng = ctx.rng
    groups = []
    per_plain = ctx.scale(12, 60)
    for stem, schema in dicts.items():
        allvals = sorted({v for f in schema._tag2field.values() for v in f.values})
        for tag, f in schema._tag2field.items():
            d = DATATYPE_OF.get(f.ftype.upper())
            if f.values:
                vals = list(f.values)
                alpha = sorted({c for v in vals for c in v} | {" ", "0", "=", "a"})
                strs = list(vals) + [""]
                for v in vals:
                    strs += one_edits(v, alpha) if len(v) <= 3 else [rand_edit(rng, v, alpha) for _ in range(8)]
                    strs += [v.lower(), v.upper(), v + " " + vals[0], " " + v, v + " ", v + "\n", v + SOH, "0" + v, v + "0", v + ".0", "+" + v]
                strs += list(exhaustive(alpha[:8], 2))
                strs += [rng.choice(allvals) for _ in range(10)]
                if d is not None:
                    strs += [rand_member(rng, d) for _ in range(5)]
                groups.append(Group(f.tag, f.ftype, vals, "enum:%s:%s" % (stem, tag), strs, obj=f, in_dict=True))
            else:
                strs = ["", "0", "1", "-1", "a", "=", SOH, " "]
                if d is not None:
                    bnd = boundary(d)
                    for _ in range(per_plain):
                        m = rand_member(rng, d)
                        strs += [m, rand_edit(rng, m, alphabet(d)), rng.choice(bnd)]
                if tag == "16":
                    strs += ["0", "00", "-0", "0 ", "+0", "1", "2", "0.0"] + list(exhaustive(ALPHA_NUM, 2))
                groups.append(Group(f.tag, f.ftype, (), "field:%s:%s" % (stem, tag), strs, obj=f, in_dict=True))
    return groups


# ------------------------------------------------------------------------------------------------
# Implementation driver, model driver, oracle
# ------------------------------------------------------------------------------------------------

def run_impl(groups):
    """codes per group: 0 accept, 1 accept + warning, 2 FIXMessageError, 3 AssertionError, 4 ValueError, else class name."""
    from asyncfix.errors import FIXMessageError
    res = []
    with warnings.catch_warnings(record=True) as w:
        warnings.simplefilter("always")
        for g in groups:
            f = g.field()
            vv = f.validate_value
            codes = []
            for s in g.strings:
                try:
                    r = vv(s)
                    c = 0 if r is True else "returned %r" % (r,)
                except FIXMessageError:
                    c = 2
                except AssertionError:
                    c = 3
                except ValueError:
                    c = 4
                except Exception as e:      # noqa: BLE001 - the class is the observation
                    c = type(e).__name__
                if w:
                    if c == 0:
                        c = 1
                    del w[:]
                codes.append(c)
            res.append(codes)
    return res


LINE_STRINGS = 150      # Coq's List.rev is quadratic: keep the lists parsed by Sx short


def model_lines(groups):
    lines, index = [], []
    for gi, g in enumerate(groups):
        head = "[%s,%s,%s]" % (core.sx(g.tag), core.sx(g.ftype), core.sx(list(g.values)))
        for i in range(0, len(g.strings), LINE_STRINGS):
            chunk = g.strings[i:i + LINE_STRINGS]
            lines.append("[%s,[%s]]" % (head, ",".join(core.sx(s) for s in chunk)))
            index.append((gi, i, len(chunk)))
    return lines, index


def run_model(ctx, groups, workers=8):
    lines, index = model_lines(groups)
    if not lines:
        return [[] for _ in groups]
    # balance by size, keep order inside each worker
    order = sorted(range(len(lines)), key=lambda i: -len(lines[i]))
    buckets = [[] for _ in range(workers)]
    loads = [0] * workers
    for i in order:
        b = loads.index(min(loads))
        buckets[b].append(i)
        loads[b] += len(lines[i])
    out = [None] * len(lines)

    def work(idx):
        return idx, ctx.model.batch([lines[i] for i in idx], timeout=900)

    with ThreadPoolExecutor(max_workers=workers) as ex:
        for idx, res in ex.map(work, [b for b in buckets if b]):
            for i, r in zip(idx, res):
                out[i] = r
    res = [[None] * len(g.strings) for g in groups]
    for (gi, start, n), r in zip(index, out):
        if not isinstance(r, list) or len(r) != n:
            raise RuntimeError("model reply malformed for group %s: %r" % (groups[gi].label, r if not isinstance(r, list) else len(r)))
        res[gi][start:start + n] = r
    return res


def expected(g, s):
    """Oracle: (accept?, datatype, in lexical space?) demanded by the property for this field and string; None = not defined."""
    if g.values:
        return (s != "" and s in g.values), None, None
    d = DATATYPE_OF.get(g.ftype.upper())
    if d is None:
        return None, None, None
    inl = lex(d, s)
    ok = inl or (g.tag == "16" and s == "0")       # EndSeqNo = 0 means "infinity" and is part of that field's space
    return ok, d, inl


def judge(ctx, g, s, code):
    """Property oracle on one observation of the implementation."""
    if code not in (0, 1, 2):
        ctx.fail(g.case(s), "rejection/return is not the library's message error: %s" % (
            {3: "AssertionError", 4: "ValueError"}.get(code, code)), None)
        return
    want, d, inl = expected(g, s)
    if want is None:
        if g.in_dict:
            ctx.fail(g.case(s), "datatype %s is used by a dictionary but is not validated (unsupported datatype)" % g.ftype, None)
        return
    got = code in (0, 1)
    cls = kf_class(d, s, inl) if (d is not None and not (g.tag == "16" and s == "0")) else None
    if code == 1:
        ctx.fail(g.case(s), "datatype %s (%s) falls through to the unsupported-datatype warning" % (g.ftype, d), None)
    elif got != want:
        ctx.fail(g.case(s), "%s %r: implementation %s, FIX lexical space of %s says %s" % (
            g.ftype, s[:60], "accepts" if got else "refuses", d or "the enumeration", "member" if want else "not a member"), cls)
    elif cls is not None:
        ctx.extra.setdefault("known_classes_not_reproduced", {}).setdefault(cls, 0)
        ctx.extra["known_classes_not_reproduced"][cls] += 1


def evaluate(ctx, groups, use_model=True):
    import time
    t0 = time.time()
    impl = run_impl(groups)
    t1 = time.time()
    model = run_model(ctx, groups) if (use_model and ctx.model) else None
    t2 = time.time()
    tm = ctx.extra.setdefault("harness_seconds", {"implementation": 0.0, "model": 0.0})
    tm["implementation"] = round(tm["implementation"] + t1 - t0, 1)
    tm["model"] = round(tm["model"] + t2 - t1, 1)
    for gi, g in enumerate(groups):
        kind = g.label.split(":")[0]
        ic = impl[gi]
        mc = model[gi] if model else None
        ctx.count(kind, len(g.strings))
        key = (g.tag, g.ftype, g.label if g.values else "")
        for i, s in enumerate(g.strings):
            ctx.case((key, s), len(s) > 1)
            c = ic[i]
            judge(ctx, g, s, c)
            if mc is not None and mc[i] != c:
                if len(ctx.disagreements) < 200:
                    ctx.disagree(g.case(s), c, mc[i], "accept/exception-class")
                else:
                    ctx.extra["more_disagreements"] = ctx.extra.get("more_disagreements", 0) + 1
        ctx.traces += 1
    return impl


def dictionary_facts(ctx, dicts):
    """Informational: datatypes used, and enumerators that lie outside the lexical space of their declared datatype."""
    odd = []
    for stem, schema in dicts.items():
        used = sorted(schema._types)
        ctx.extra.setdefault("datatypes_used", {})[stem] = used
        for f in schema._tag2field.values():
            d = DATATYPE_OF.get(f.ftype.upper())
            for v in f.values:
                if d is not None and not lex(d, v):
                    odd.append("%s tag %s (%s): enumerator %r" % (stem, f.tag, f.ftype, v))
    if odd:
        ctx.notes.append("dictionary enumerators outside the lexical space of their declared datatype (accepted through the "
                         "enumeration, as the property asks): " + "; ".join(odd))


def xml_enum_oracle(ctx, dicts):
    """'fields with enumerated values accept exactly the enumerated values': the enumerations are read from the
    XML text itself (not through the library's parser) and checked on the library's real field objects."""
    import warnings
    import xml.etree.ElementTree as ET

    def accepts(f, v):
        try:
            with warnings.catch_warnings():
                warnings.simplefilter("ignore")
                f.validate_value(v)
            return True
        except Exception:
            return False

    for stem, rel in (("fix44", "tests/FIX44.xml"), ("tt", "tests/TT-FIX44.xml")):
        root = ET.parse(os.path.join(core.REPO, rel)).getroot()
        for el in root.find("fields"):
            enum = [v.attrib["enum"] for v in el if v.tag == "value"]
            f = dicts[stem]._tag2field.get(el.attrib["number"])
            if f is None or f.ftype != el.attrib["type"]:
                ctx.fail({"dictionary": rel, "tag": el.attrib["number"]}, "field of the XML dictionary missing or retyped in the parsed schema")
                continue
            if not enum:
                continue
            ctx.count("xml-enumerated-fields")
            for e in enum:
                if e and not accepts(f, e):
                    ctx.fail({"dictionary": rel, "tag": f.tag, "s": e}, "enumerator of the XML dictionary refused")
            for bad in ("~~", enum[0] + "~", "5", "9", "0", "Z"):
                if bad not in enum and accepts(f, bad):
                    ctx.fail({"dictionary": rel, "tag": f.tag, "s": bad, "enumeration": enum[:12]}, "value outside the XML enumeration accepted")


def run(ctx):
    import time
    t_start = time.time()
    dicts = load_dictionaries()
    dictionary_facts(ctx, dicts)
    xml_enum_oracle(ctx, dicts)
    groups = corpus() + type_groups(ctx, ctx.scale(4, 4)) + dictionary_groups(ctx, dicts)
    if ctx.tier == "thorough":
        for name in ("INT", "FLOAT", "SEQNUM", "DAYOFMONTH"):
            groups.append(Group("1", name, label="type5:" + name, strings=exhaustive(ALPHA_NUM[:11], 5)))
    evaluate(ctx, groups)
    g0 = next(g for g in groups if g.label == "type:UTCTIMESTAMP")
    ctx.samples.append({"field": ["1", "UTCTIMESTAMP", []], "strings": g0.strings[-4:], "impl": run_impl([Group("1", "UTCTIMESTAMP", strings=g0.strings[-4:])])[0]})
    ctx.extra["groups"] = len(groups)
    ctx.extra["harness_seconds"]["total"] = round(time.time() - t_start, 1)


def corpus():
    import glob
    out = []
    for f in sorted(glob.glob(os.path.join(os.path.dirname(__file__), "..", "corpus", "C19", "*.json"))):
        c = json.load(open(f))
        out.append(Group(c["tag"], c["ftype"], c.get("values", ()), "corpus:" + os.path.basename(f), [c["s"]]))
    return out


def search(ctx, cases):
    """A proof, the translator or the correspondence broke: look for an input on which the implementation itself
    leaves the lexical spaces (the oracle needs no model)."""
    groups = [Group(c["tag"], c["ftype"], c.get("values", ()), "search:case", [c["s"]]) for c in cases if c]
    dicts = load_dictionaries()
    for stem, schema in dicts.items():
        for t in sorted(schema._types):
            if t.upper() not in DATATYPE_OF:
                f = next(f for f in schema._tag2field.values() if f.ftype == t and not f.values) if any(
                    f.ftype == t and not f.values for f in schema._tag2field.values()) else None
                groups.append(Group(f.tag if f else "1", t, (), "search:newtype", ["1", "a", SOH], obj=f, in_dict=True))
    evaluate(ctx, groups, use_model=False)
    if ctx.failures:
        return
    evaluate(ctx, type_groups(ctx, 3) + dictionary_groups(ctx, dicts), use_model=False)


def replay(path):
    rec = json.load(open(path))
    case = rec.get("input")
    if not case:
        print("replay: no concrete input; broken:", rec.get("broken"))
        return 1
    g = Group(case["tag"], case["ftype"], case.get("values", ()), "replay", [case["s"]])
    code = run_impl([g])[0][0]
    want, d, _ = expected(g, case["s"])
    names = {0: "accepted", 1: "accepted with unsupported-datatype warning", 2: "FIXMessageError", 3: "AssertionError", 4: "ValueError"}
    print("field tag=%s type=%s values=%s value=%r" % (g.tag, g.ftype, list(g.values)[:8], case["s"]))
    print("implementation: %s" % names.get(code, code))
    print("FIX lexical space (%s): %s" % (d or "enumeration", {True: "member", False: "not a member", None: "undefined"}[want]))
    bad = code not in (0, 1, 2) or code == 1 or (want is not None and (code == 0) != want)
    return 1 if bad else 0
