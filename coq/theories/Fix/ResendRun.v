(* Sx front end of the resend model (C06).
   request:  [cstate, initiator, testreq_id?, nout, sout, clock, rows, begin?, end?, declined]
               rows     = [[seq, type, time, [[tag, value], ...]], ...]   (rowid order)
               begin?   = [] (tag absent) | [text]
               declined = numbers the application's should_replay declines
   answer:   [exc, cstate, nout, sout, clock, rows, wire, calls, states]
               exc = 0 none | 1 Assertion | 2 DuplicatedTag | 3 TagNotFound | 4 Value | 5 DuplicateSeqNo
                     | 6 FIXConnection | 7 Overflow | 8 Encoding *)
From Coq Require Import ZArith NArith List Bool.
From AF Require Import Base.Sx Py.Str Fix.Resend.
Import ListNotations.
Open Scope Z_scope.

Definition sx_exc (e : option exc) : sx :=
  SI (match e with
      | None => 0
      | Some EAssertion => 1
      | Some EDuplicatedTag => 2
      | Some ETagNotFound => 3
      | Some EValue => 4
      | Some EDuplicateSeqNo => 5
      | Some EConnection => 6
      | Some EOverflow => 7
      | Some EEncoding => 8
      end).

Definition sx_field (f : field) : sx := SL [sx_of_str (fst f); sx_of_str (snd f)].
Definition sx_row (r : row) : sx :=
  SL [SI (r_seq r); sx_of_str (r_type r); sx_of_str (r_time r); sx_of_list sx_field (r_body r)].

Definition get_field (s : sx) : option field :=
  match s with
  | SL [a; b] => match get_str a, get_str b with Some a, Some b => Some (a, b) | _, _ => None end
  | _ => None
  end.
Definition get_row (s : sx) : option row :=
  match s with
  | SL [SI n; t; tm; b] =>
      match get_str t, get_str tm, get_list get_field b with
      | Some t, Some tm, Some b => Some (mkRow n t tm b)
      | _, _, _ => None
      end
  | _ => None
  end.

Definition filter_of (declined : list Z) (r : row) : bool := negb (existsb (Z.eqb (r_seq r)) declined).

Definition run (req : sx) : sx :=
  match req with
  | SL [SI cs; ini; tp; SI no; SI so; SI ck; rs; b; e; decl] =>
      match get_bool ini, get_opt get_str tp, get_list get_row rs, get_opt get_str b, get_opt get_str e,
            get_list get_z decl with
      | Some ini, Some tp, Some rs, Some b, Some e, Some decl =>
          let s0 := mkSt cs ini tp no so ck rs [] [] [] in
          let (s, x) := serve_resend (filter_of decl) b e s0 in
          SL [sx_exc x; SI (cstate s); SI (nout s); SI (sout s); SI (clock s);
              sx_of_list sx_row (rows s); sx_of_list sx_row (wire s);
              sx_of_list SI (calls s); sx_of_list SI (states s)]
      | _, _, _, _, _, _ => err_sx 1
      end
  | _ => err_sx 2
  end.

Definition entry (line : str) : str := run_line run line.
