"""Enums by reflection: FTag, FMsg, ConnectionState/Role numbers, order enums, sys.maxsize."""
import sys

from .coqfmt import HEADER, clist, cstr

NAME = "GenEnums"
SOURCES = ["asyncfix/fixtags.py", "asyncfix/msgtype.py", "asyncfix/connection.py", "asyncfix/protocol/common.py"]


def pairs(enum, numeric=False):
    out = []
    for name, m in enum.__members__.items():
        v = m.value
        out.append("(%s, %s)" % (cstr(name), (str(int(v)) if numeric else cstr(v))))
    return clist(out, per_line=4)


def generate():
    from asyncfix import FMsg, FTag
    from asyncfix.connection import ConnectionRole, ConnectionState
    from asyncfix.protocol.common import FExecType, FOrdSide, FOrdStatus, FOrdType

    t = HEADER
    t += "Definition ftag : list (list N * list N) :=\n  %s.\n\n" % pairs(FTag)
    t += "Definition fmsg : list (list N * list N) :=\n  %s.\n\n" % pairs(FMsg)
    t += "Definition conn_state : list (list N * N) :=\n  %s.\n\n" % pairs(ConnectionState, True)
    t += "Definition conn_role : list (list N * N) :=\n  %s.\n\n" % pairs(ConnectionRole, True)
    t += "Definition ord_status : list (list N * list N) :=\n  %s.\n\n" % pairs(FOrdStatus)
    t += "Definition exec_type : list (list N * list N) :=\n  %s.\n\n" % pairs(FExecType)
    t += "Definition ord_side : list (list N * list N) :=\n  %s.\n\n" % pairs(FOrdSide)
    t += "Definition ord_type : list (list N * list N) :=\n  %s.\n\n" % pairs(FOrdType)
    t += "Definition sys_maxsize : Z := %d%%Z.\n" % sys.maxsize
    return t
