(* C17 - an order object converges to the exchange's view of the order.
   Theorems only (proofs in AF.Lemmas.OrderL / OrderSysL).

   Models: Fix/Order.v (FIXNewOrderSingle, parameter `legacy`: true = process_cancel_rej_report as
   found, false = with fixes/C17-cancel-reject-restores-ids.patch), Fix/Exchange.v (reference
   exchange following the FIX 4.4 order state change matrices; FIFO queue per direction; product
   system `step`, `run_from`).  Status transitions are OrderStatus.change_status, proved equal to
   the regenerated graph of the real function by C16_model_is_code.

   Known-finding classes (Exchange.bad_step / kf_hit), see *_refuted below:
     K2  the exchange expires the order while it is SUSPENDED and no request is pending there;
     K3  the exchange accepts a replace request while the order is SUSPENDED;
     D17 (legacy code only) a cancel / replace request was rejected earlier in the history.
   `clean legacy o oid acts` = no K2 / K3 step occurs while the actions `acts` run. *)
From Coq Require Import ZArith NArith List Bool.
From AF Require Import Base.Sx Py.Str Fix.OrderStatus Fix.Order Fix.Exchange Lemmas.OrderL Lemmas.OrderSysL.
Import ListNotations.
Open Scope N_scope.

(* ------------------------------------------------------------------ the object alone,
   under EVERY sequence of builder calls and reports (not only those of the reference exchange) *)

(* the status is the fold of change_status over the requests built and the reports processed *)
Theorem C17_status_is_fold : forall legacy cs o,
  o_status (orun legacy o cs) = fold_left ev_status (events legacy o cs) (o_status o).
Proof. exact status_fold. Qed.
Print Assumptions C17_status_is_fold.

(* ... and (repaired code) always a member of the status enum, held as an enum object *)
Theorem C17_status_in_enum : forall cs o, senum_ok o -> senum_ok (orun false o cs).
Proof. exact senum_run. Qed.
Print Assumptions C17_status_in_enum.

(* cum / avg / order id / leaves are those of the last execution report that passed the ClOrdID
   check (leaves zeroed by a later cancel reject carrying REJECTED); price and qty change exactly on
   such reports with ExecType REPLACED, to the reported values *)
Theorem C17_fields_follow_last_report : forall legacy cs o g,
  follows o g -> follows (orun legacy o cs) (grun legacy o g cs).
Proof. exact follows_run. Qed.
Print Assumptions C17_fields_follow_last_report.

(* a finished order refuses every request, unchanged, and ignores the status of every execution report *)
Theorem C17_finished_refuses : forall o,
  is_finished o = true ->
  (exists e, new_req o = (o, Exc e)) /\ (exists e, cancel_req o = (o, Exc e))
  /\ (forall p q, exists e, replace_req o p q = (o, Exc e)).
Proof. exact finished_refuses. Qed.
Print Assumptions C17_finished_refuses.

Theorem C17_finished_absorbs : forall o e,
  is_finished o = true -> o_status (fst (process_execution_report o (RExec e))) = o_status o.
Proof. exact finished_absorbs. Qed.
Print Assumptions C17_finished_absorbs.

(* ... and (round 7 table) every cancel reject: it returns False, status and ids stay as they are *)
Theorem C17_finished_ignores_reject : forall legacy o clid orig st,
  is_finished o = true ->
  let ob := process_cancel_rej_report legacy o (RRej clid orig st) in
  snd ob = Ok false /\ o_status (fst ob) = o_status o /\ o_senum (fst ob) = o_senum o
  /\ o_clord (fst ob) = o_clord o /\ o_orig (fst ob) = o_orig o.
Proof. exact finished_ignores_reject. Qed.
Print Assumptions C17_finished_ignores_reject.

(* ClOrdID chain: the root of root--k is root; every id ever built is root--k with k = the counter,
   which grows by exactly one per request, so ids are pairwise distinct (fresh) *)
Theorem C17_clord_root_chain : forall root k, root <> [] -> clord_root (clord_id_of root k) = root.
Proof. exact clord_root_next. Qed.
Print Assumptions C17_clord_root_chain.

Theorem C17_ids_chain : forall legacy R cs o,
  owf R o ->
  ids_run legacy o cs = map (clord_id_of R) (nseq (o_cnt o + 1) (length (ids_run legacy o cs))).
Proof. exact ids_chain. Qed.
Print Assumptions C17_ids_chain.

Theorem C17_ids_fresh : forall legacy R cs o, owf R o -> NoDup (ids_run legacy o cs).
Proof. exact ids_fresh. Qed.
Print Assumptions C17_ids_fresh.

Theorem C17_init_wellformed : forall clord ticker side price qty ordtype account target o,
  init_order clord ticker side price qty ordtype account target = Ok o ->
  owf (clord_root clord) o /\ senum_ok o /\ o_status o = CREATED /\ o_cnt o = 0 /\ o_orig o = None
  /\ o_cum o = 0%Z /\ o_leaves o = 0%Z /\ o_price o = price /\ o_qty o = qty /\ o_clord o = clord.
Proof. exact init_owf. Qed.
Print Assumptions C17_init_wellformed.

(* ------------------------------------------------------------------ the product system,
   for EVERY interleaving (action list) of client and exchange actions, both code variants *)

(* when both queues are empty the object agrees with the exchange: status (the reported status, or
   the order's own status while a request is pending there), cum, leaves, price, qty; and an order
   the exchange has finished is finished in the object and refuses every request *)
Theorem C17_converges_partial :
  forall legacy clord ticker side price qty ordtype account target o oid acts,
  init_order clord ticker side price qty ordtype account target = Ok o ->
  clean legacy o oid acts ->
  let s := reach legacy o oid acts in
  quiescent s = true ->
  agrees (s_o s) (s_x s)
  /\ (x_pend (s_x s) = None -> OrderStatus.is_finished (x_base (s_x s)) = true ->
      is_finished (s_o s) = true
      /\ (exists e, new_req (s_o s) = (s_o s, Exc e)) /\ (exists e, cancel_req (s_o s) = (s_o s, Exc e))
      /\ (forall p q, exists e, replace_req (s_o s) p q = (s_o s, Exc e))).
Proof. exact converges_partial. Qed.
Print Assumptions C17_converges_partial.

(* repaired code: whenever can_cancel / can_replace holds the builder succeeds, the new ClOrdID is
   root--(counter+1), OrigClOrdID is the ClOrdID live at the exchange, nothing is in flight or
   pending; and the status is an enum member *)
Theorem C17_requests_wellformed_partial :
  forall clord ticker side price qty ordtype account target o0 oid acts,
  init_order clord ticker side price qty ordtype account target = Ok o0 ->
  clean false o0 oid acts ->
  let s := reach false o0 oid acts in
  let o := s_o s in
  let next_id := clord_id_of (clord_root clord) (o_cnt o + 1) in
  (can_cancel o = true ->
     snd (cancel_req o) = Ok (RCancel next_id (x_clord (s_x s)) (o_qty o))
     /\ s_c2x s = [] /\ x_pend (s_x s) = None)
  /\ (forall p q, can_replace o = true -> (rpl_px o p <> o_price o \/ rpl_qty o q <> o_qty o) ->
     snd (replace_req o p q) = Ok (RReplace next_id (x_clord (s_x s)) (rpl_px o p) (rpl_qty o q))
     /\ s_c2x s = [] /\ x_pend (s_x s) = None)
  /\ senum_ok o.
Proof. exact requests_wellformed. Qed.
Print Assumptions C17_requests_wellformed_partial.

(* at most one request is on its way, and none while the exchange still holds one *)
Theorem C17_one_outstanding :
  forall legacy clord ticker side price qty ordtype account target o oid acts,
  init_order clord ticker side price qty ordtype account target = Ok o ->
  clean legacy o oid acts ->
  let s := reach legacy o oid acts in
  (length (s_c2x s) <= 1)%nat /\ (s_c2x s <> [] -> x_pend (s_x s) = None).
Proof. exact one_outstanding_reach. Qed.
Print Assumptions C17_one_outstanding.

(* the request on its way names the ClOrdID live at the exchange (the exchange never drops one) *)
Theorem C17_request_expected :
  forall legacy clord ticker side price qty ordtype account target o oid acts r q,
  init_order clord ticker side price qty ordtype account target = Ok o ->
  clean legacy o oid acts ->
  let s := reach legacy o oid acts in
  s_c2x s = r :: q ->
  q = [] /\
  match r with
  | RNew _ _ _ => x_base (s_x s) = CREATED
  | RCancel _ orig _ | RReplace _ orig _ _ =>
      x_pend (s_x s) = None /\ orig = x_clord (s_x s) /\ x_base (s_x s) <> CREATED
  end.
Proof. exact request_expected_reach. Qed.
Print Assumptions C17_request_expected.

(* ------------------------------------------------------------------ refuted parts (known findings) *)

(* K2: expired while suspended - the object stays SUSPENDED, says it can be cancelled *)
Theorem C17_converges_suspended_expire_refuted :
  let s := run_from false w_sys w_k2 in
  quiescent s = true /\ x_pend (s_x s) = None /\ o_status (s_o s) = SUSPENDED /\ x_status (s_x s) = EXPIRED
  /\ can_cancel (s_o s) = true /\ is_finished (s_o s) = false.
Proof. exact k2_refuted. Qed.
Print Assumptions C17_converges_suspended_expire_refuted.

(* K3: replaced while suspended - the object stays PENDING_REPLACE for ever *)
Theorem C17_converges_suspended_replace_refuted :
  let s := run_from false w_sys w_k3 in
  quiescent s = true /\ x_pend (s_x s) = None /\ o_status (s_o s) = PENDING_REPLACE
  /\ x_status (s_x s) = SUSPENDED /\ can_cancel (s_o s) = false /\ can_replace (s_o s) = false.
Proof. exact k3_refuted. Qed.
Print Assumptions C17_converges_suspended_replace_refuted.

(* D17 (code as found): after a cancel reject, in a history without K2 / K3, can_cancel and
   can_replace hold but both builders fail the internal assertion, and the status is a plain str *)
Theorem C17_legacy_after_reject_refuted :
  let s := run_from true w_sys w_d17 in
  kf_hit true w_sys w_d17 = false /\ quiescent s = true
  /\ can_cancel (s_o s) = true /\ snd (cancel_req (s_o s)) = Exc EAssertion
  /\ can_replace (s_o s) = true /\ snd (replace_req (s_o s) (Some 804%Z) None) = Exc EAssertion
  /\ o_senum (s_o s) = false.
Proof. exact d17_refuted. Qed.
Print Assumptions C17_legacy_after_reject_refuted.

(* ... and the same history on the repaired code *)
Example C17_after_reject_repaired :
  let s := run_from false w_sys w_d17 in
  can_cancel (s_o s) = true /\ (exists r, snd (cancel_req (s_o s)) = Ok r) /\ o_senum (s_o s) = true
  /\ o_orig (s_o s) = None.
Proof. exact d17_repaired. Qed.
Print Assumptions C17_after_reject_repaired.

(* non-vacuity: a clean history (replace accepted while a fill races, a cancel refused after another
   fill, a second cancel accepted) reaches a quiescent state; on the repaired code the object ends
   CANCELED with the replaced price / qty, cum 1.5 and four ids issued *)
Example C17_nonvacuous :
  forall legacy,
  let s := run_from legacy w_sys w_live in
  kf_hit legacy w_sys w_live = false /\ quiescent s = true /\
  (legacy = false -> o_status (s_o s) = CANCELED /\ o_price (s_o s) = 804%Z /\ o_qty (s_o s) = 48%Z
                     /\ o_cum (s_o s) = 6%Z /\ o_cnt (s_o s) = 4).
Proof. exact nonvacuous. Qed.
Print Assumptions C17_nonvacuous.
