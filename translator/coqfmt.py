"""Helpers to print Python data as Coq terms (strings are `list N` of code points)."""


def n(i):
    return str(int(i))


def cstr(s):
    s = str(s)
    return "[" + "; ".join(str(ord(c)) for c in s) + "]"


def clist(items, per_line=12):
    items = list(items)
    if not items:
        return "[]"
    lines = []
    for i in range(0, len(items), per_line):
        lines.append("; ".join(items[i:i + per_line]))
    return "[" + ";\n   ".join(lines) + "]"


HEADER = "From Coq Require Import ZArith NArith List.\nImport ListNotations.\nOpen Scope N_scope.\n\n"
