(* C02 - every frame put on the wire is a well-formed FIX frame.
   Theorems only (proofs in AF.Lemmas.FramingL / StrA).
   `well_framedb` / `well_framed` (Fix/Framing.v) is an independent length-prefixed reference
   grammar; `encode` is the validated model of Codec.encode (Fix/Codec.v); `wire` is what
   AsyncFIXConnection.send_msg hands to the transport: frame.encode("latin-1"), None = refused
   with UnicodeEncodeError before anything is written. *)
From Coq Require Import ZArith NArith List Bool.
From AF Require Import Base.Sx Py.Str Py.Utf8 Fix.Codec Fix.Framing Lemmas.StrA Lemmas.FramingL.
Import ListNotations.
Open Scope N_scope.

(* the boolean reference parser decides exactly the declarative grammar *)
Theorem C02_grammar_iff : forall s, well_framedb s = true <-> well_framed s.
Proof. exact well_framedb_iff. Qed.
Print Assumptions C02_grammar_iff.

(* Full strength, every message / session / time string / numbering mode / group nesting:
   single-byte inputs give a frame that is handed to the transport unchanged and that the
   reference parser accepts.  Forced hypotheses: BeginString is a proper field value, MsgType
   does not start with SOH and is not empty. *)
Theorem C02_encode_well_framed : forall bs m sess t raw frame sess',
  encode bs m sess t raw = Ok (frame, sess') ->
  nonempty bs = true -> soh_free bs = true -> starts_printable (msg_type m) = true ->
  inputs_bytes bs m sess t = true ->
  exists w, wire frame = Some w /\ well_framedb w = true.
Proof. exact encode_well_framed. Qed.
Print Assumptions C02_encode_well_framed.

(* Observed at the transport, no hypothesis on the text at all: whatever send_msg writes is
   well formed ... *)
Theorem C02_wire_well_framed : forall bs m sess t raw frame sess' w,
  encode bs m sess t raw = Ok (frame, sess') ->
  nonempty bs = true -> soh_free bs = true -> starts_printable (msg_type m) = true ->
  wire frame = Some w -> well_framedb w = true.
Proof. exact wire_well_framed. Qed.
Print Assumptions C02_wire_well_framed.

(* ... and text that cannot be represented (a code point above 255) is refused, not transmitted *)
Theorem C02_refused_when_unrepresentable : forall frame,
  forallb is_byte frame = false -> wire frame = None.
Proof. exact wire_refuses. Qed.
Print Assumptions C02_refused_when_unrepresentable.

Theorem C02_refusal_reachable : exists frame sess',
  encode FIX44 ex_wide ex_sess ex_time false = Ok (frame, sess') /\ wire frame = None.
Proof. exact wide_refused. Qed.
Print Assumptions C02_refusal_reachable.

(* what the encoder computes (its BodyLength / CheckSum arithmetic read on code points as bytes) *)
Theorem C02_latin1_consistent : forall bs m sess t raw frame sess',
  encode bs m sess t raw = Ok (frame, sess') ->
  nonempty bs = true -> soh_free bs = true -> starts_printable (msg_type m) = true ->
  forallb is_byte frame = true ->
  well_framedb frame = true.
Proof. exact encode_well_framed_bytes. Qed.
Print Assumptions C02_latin1_consistent.

Theorem C02_inputs_bytes_frame_bytes : forall bs m sess t raw frame sess',
  encode bs m sess t raw = Ok (frame, sess') ->
  inputs_bytes bs m sess t = true -> forallb is_byte frame = true.
Proof. exact encode_bytes. Qed.
Print Assumptions C02_inputs_bytes_frame_bytes.

(* Domain condition, not a finding: the empty string is not a message type.  The hypothesis on
   MsgType cannot be dropped: an empty MsgType is encoded and written as "35=<SOH>". *)
Theorem C02_msgtype_hypothesis_necessary : exists m frame sess' w,
  inputs_bytes FIX44 m ex_sess ex_time = true
  /\ encode FIX44 m ex_sess ex_time false = Ok (frame, sess')
  /\ wire frame = Some w /\ well_framedb w = false.
Proof. exact empty_msgtype_refuted. Qed.
Print Assumptions C02_msgtype_hypothesis_necessary.

(* With field structure (what a SOH-splitting FIX parser needs; the harness oracle
   codec_common.well_framed is the Python twin of well_framed_fieldsb): on the domain of C01/C02 -
   tags non-empty, SOH-free, not starting with "="; values, CompIDs, time, MsgType SOH-free -
   every piece of the frame is tag=value with a non-empty tag as well. *)
Theorem C02_encode_well_framed_fields : forall bs m sess t raw frame sess',
  encode bs m sess t raw = Ok (frame, sess') ->
  nonempty bs = true -> nonempty (msg_type m) = true ->
  inputs_bytes bs m sess t = true -> inputs_fields_ok bs m sess t = true ->
  exists w, wire frame = Some w /\ well_framed_fieldsb w = true.
Proof. exact encode_well_framed_fields. Qed.
Print Assumptions C02_encode_well_framed_fields.

(* outside that domain (SOH inside a value) the frame-level grammar still holds, the field
   structure does not *)
Theorem C02_soh_in_value_breaks_fields : exists frame sess',
  encode FIX44 ex_soh_value ex_sess ex_time false = Ok (frame, sess')
  /\ inputs_bytes FIX44 ex_soh_value ex_sess ex_time = true
  /\ inputs_fields_ok FIX44 ex_soh_value ex_sess ex_time = false
  /\ well_framedb frame = true /\ well_framed_fieldsb frame = false.
Proof. exact soh_in_value_breaks_fields. Qed.
Print Assumptions C02_soh_in_value_breaks_fields.

Theorem C02_fields_nonvacuous :
  inputs_fields_ok FIX44 ex_nested ex_sess ex_time = true
  /\ exists frame sess', encode FIX44 ex_nested ex_sess ex_time false = Ok (frame, sess')
       /\ well_framed_fieldsb frame = true.
Proof. exact ex_nested_fields. Qed.
Print Assumptions C02_fields_nonvacuous.

(* non-vacuity: a three-level nested group message with a latin-1 value meets every hypothesis *)
Theorem C02_nonvacuous :
  nonempty FIX44 = true /\ soh_free FIX44 = true /\ starts_printable (msg_type ex_nested) = true
  /\ inputs_bytes FIX44 ex_nested ex_sess ex_time = true
  /\ exists frame sess', encode FIX44 ex_nested ex_sess ex_time false = Ok (frame, sess')
       /\ (length frame = 130)%nat /\ wire frame = Some frame /\ well_framedb frame = true.
Proof. exact ex_nested_hyps. Qed.
Print Assumptions C02_nonvacuous.

(* SOH inside a value does not disturb the length-delimited grammar *)
Theorem C02_soh_in_value_framed : exists frame sess',
  encode FIX44 ex_soh_value ex_sess ex_time false = Ok (frame, sess') /\ well_framedb frame = true.
Proof. exact ex_soh_value_ok. Qed.
Print Assumptions C02_soh_in_value_framed.

(* the repaired defect D9, kept as a remark: the same text transmitted as UTF-8 (send_msg before
   the repair) is not a well-formed frame as soon as one code point is >= 128 *)
Theorem C02_utf8_would_break : exists frame sess' w,
  encode FIX44 ex_latin ex_sess ex_time false = Ok (frame, sess')
  /\ wire frame = Some frame /\ well_framedb frame = true
  /\ utf8 frame = Some w /\ well_framedb w = false.
Proof. exact utf8_would_break. Qed.
Print Assumptions C02_utf8_would_break.
