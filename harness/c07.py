"""C07 - no application message is lost, duplicated or reordered across connection loss.

Two REAL connection objects (AsyncFIXClient = initiator A, AsyncFIXDummyServer = acceptor B, FIXProtocol44,
each with its own in-memory Journaler) live in one event loop, without sockets: the stream writer of each is
a fake that appends every written frame to a per-direction queue, and the HARNESS decides when the head of a
queue is delivered (real Codec.decode, then the receiver's _process_message as socket_read_task does), when
the link breaks (both queues dropped, both ends run disconnect(DISCONNECTED_BROKEN_CONN) as socket_read_task
does on ConnectionError; variant: write() raises on the next send and the break follows) and when the same two
objects get a new transport (state NETWORK_CONN_ESTABLISHED as connect()/_handle_accept() set it, initiator
sends Logon through the public send_msg).  All private-name access is in class End.

What is checked
 (i)  EXPLORATION (not proof) of the extracted model coq/theories/Fix/Net.v (= two Session.v worlds + two FIFO
      channels): breadth-first over all interleavings of {send A, send B, deliver->A, deliver->B, break,
      reconnect} with exact state hashing up to a bound on sends / breaks / depth; every explored state is
      settled (drain; reconnect + Logon + drain when the link is down) and decided by the property;
 (ii) the IMPLEMENTATION is run on the schedules of the exploration tree (every explored state of the quick
      bound is visited) and on long random walks, compared with the model after every action (states,
      counters, journals keys, every frame in flight, deliveries, accepted sends) and after settling, and
      decided by an independent oracle written from the property text.
The theorems (Props/C07.v) cover, for all sizes: the single-break family in each direction and in BOTH directions at
once (C07_single_break_both), the A -> B family followed by any number of further breaks during the retransmission
(C07_repeated_breaks), a break inside a send (C07_failed_write), a break during the first Logon exchange
(C07_logon_cut); general interleavings (sends and deliveries interleaved with the recovery, further breaks with
traffic in both directions, breaks at other moments of the recovery) are explored only.  The model describes the code WITH the D10 and D12 repairs.

Schedule syntax: words  sA sB (application send)  fA fB (send on a dead transport, then break)
                        dA dB (deliver next item towards A / B)  BRK  REC
"""
import asyncio
import faulthandler
import json
import logging
import multiprocessing as mp
import os
import random
import sys
import time

from vlib import core

META = {
    "level": "proof",
    "tables": ["GenEnums", "GenGroups"],
    "files": ["asyncfix/connection.py", "asyncfix/session.py", "asyncfix/journaler.py", "asyncfix/codec.py",
              "asyncfix/connection_client.py", "asyncfix/connection_server.py"],
    "rule": "a case is one schedule (word list over sA sB fA fB dA dB BRK REC) executed on two real connection objects "
            "and on the extracted model, then settled (drain; reconnect + Logon + drain if the link is down); schedules = "
            "every leaf of the model's breadth-first exploration tree with exact state hashing (so every explored state is "
            "visited on the implementation) + random walks of length 60; non-trivial when it contains an accepted "
            "application send and a break; distinct by schedule text",
    "trusted_base": [
        "two-endpoint driver harness/c07.py: fake stream writers feeding per-direction frame queues, harness-controlled "
        "delivery through the real Codec.decode + _process_message, break = both ends run disconnect(DISCONNECTED_BROKEN_CONN), "
        "reconnect = new writers + NETWORK_CONN_ESTABLISHED on the same objects + initiator Logon via send_msg",
        "the session model Fix/Session.v (atomic handlers, message level) that Fix/Net.v is built on; tied to the code by "
        "this harness after every action and by the C04/C05/C11 correspondence",
        "general interleavings are EXPLORED (model BFS with state hashing + implementation runs), not proved; the theorems "
        "cover the single-break families (each direction) and the A->B family with any number of further breaks during the retransmission",
    ],
    "assumptions": [
        "frames are delivered whole (byte-level reassembly is C03), handlers run atomically (no task interleaving inside "
        "_process_message / send_msg: C14), no timers (heartbeat, TestRequest, reconnect delay: C12)",
        "a break is seen by both ends at once; the write-error variant raises from write() and the break follows before any other event",
        "should_replay is the default (always True); sequence numbers fit 64 bits",
    ],
}

CID_A, CID_B = "CLI", "SRV"
TIME = "20230101-10:00:00.000"
FUEL = 80               # settle: max deliveries per drain (model and implementation alike)
# the class of the former finding D13 (repaired by the D12 fix of _process_resend): a resend reply is in flight at a
# break.  Still computed per schedule (input distribution: how often the situation is exercised); a failure inside it is
# suppressed only if known_findings.jsonl lists the class, which it no longer does.
KF_CLASS = "C07-break-loses-resend-reply"

WORDS = {"sA": [0, 0], "sB": [0, 1], "fA": [1, 0], "fB": [1, 1], "dA": [2, 0], "dB": [2, 1], "BRK": [3], "REC": [4]}
NAMES = {tuple(v): k for k, v in WORDS.items()}

_quiet = logging.getLogger("verif.c07.quiet")
_quiet.addHandler(logging.NullHandler())
_quiet.propagate = False
_quiet.setLevel(logging.CRITICAL + 10)


def show(acts):
    return " ".join(NAMES[tuple(a)] for a in acts)


def parse(text):
    return [WORDS[w] for w in text.split()]


def codes(s):
    return [ord(c) for c in s]


def uncodes(l):
    return "".join(chr(c) for c in l)


def sx_req(acts, fuel=FUEL, verbose=1):
    return "[0,[%s],%d,%d]" % (",".join("[%s]" % ",".join(str(x) for x in a) for a in acts), fuel, verbose)


# ------------------------------------------------------------------------------------------
# implementation driver
# ------------------------------------------------------------------------------------------

class FakeWriter:
    def __init__(self, sink):
        self.sink = sink
        self.fail = False
        self.closed = False

    def write(self, data):
        if self.fail:
            raise ConnectionResetError("link is dead")
        self.sink.append(bytes(data))

    async def drain(self):
        return None

    def close(self):
        self.closed = True

    async def wait_closed(self):
        return None

    def get_extra_info(self, *a, **k):
        return None


class End:
    """One endpoint: a real connection object.  Every private name of asyncfix used by C07 is in this class."""

    _patched = False

    @classmethod
    def patch(cls):
        if cls._patched:
            return
        from asyncfix.codec import Codec
        Codec.current_datetime = staticmethod(lambda: TIME)
        cls._patched = True

    def __init__(self, initiator, outq):
        from asyncfix import AsyncFIXClient, AsyncFIXDummyServer, Journaler
        from asyncfix.codec import Codec
        from asyncfix.protocol import FIXProtocol44
        End.patch()
        self.got = []          # Text(58) of every on_message
        self.outq = outq       # frames this end has written and that are still in flight
        end = self

        class Hooks:
            async def on_message(self, msg):
                end.got.append(msg.get(58, None))

            async def on_connect(self):
                pass

        base = AsyncFIXClient if initiator else AsyncFIXDummyServer
        cls = type("C07" + base.__name__, (Hooks, base), {})
        self.proto = FIXProtocol44()
        self.codec = Codec(self.proto)
        self.journal = Journaler()
        me, peer = (CID_A, CID_B) if initiator else (CID_B, CID_A)
        self.conn = cls(self.proto, me, peer, self.journal, "localhost", 0, heartbeat_period=30, logger=_quiet)

    # --- private attribute access ---------------------------------------------------------
    @property
    def state(self):
        return int(self.conn._connection_state)

    @property
    def down(self):
        return self.state <= 3

    @property
    def has_writer(self):
        return self.conn._socket_writer is not None

    @property
    def nin(self):
        return self.conn._session.next_num_in

    @property
    def nout(self):
        return self.conn._session.next_num_out

    def new_transport(self):
        """what connect() (initiator) / _handle_accept() (acceptor) do once the transport exists"""
        from asyncfix.connection import ConnectionState
        self.conn._socket_reader = object()
        self.conn._socket_writer = FakeWriter(self.outq)
        self.conn._connection_state = ConnectionState.NETWORK_CONN_ESTABLISHED

    def kill_writer(self):
        if self.conn._socket_writer is not None:
            self.conn._socket_writer.fail = True

    async def process(self, frame):
        """the body of socket_read_task for one complete frame; whatever escapes is logged there and the loop goes on"""
        msg, _, raw = self.codec.decode(frame)
        if msg is None:
            return
        try:
            await self.conn._process_message(msg, raw)
        except asyncio.CancelledError:
            raise
        except Exception:  # noqa: BLE001
            pass

    async def lost(self):
        """socket_read_task on ConnectionError (EOF / reset)"""
        from asyncfix.connection import ConnectionState
        await self.conn.disconnect(ConnectionState.DISCONNECTED_BROKEN_CONN)

    def out_rows(self):
        return len([r for r in self.journal.get_all_msgs() if r[2] == 1])

    def wproj(self):
        c = self.conn
        s = c._session
        stored = self.journal.sessions()[(s.target_comp_id, s.sender_comp_id)]
        allm = self.journal.get_all_msgs()
        return [int(c._connection_state), s.next_num_in, s.next_num_out, c._max_seq_num_resend,
                1 if c._socket_writer is not None else 0, stored.next_num_out - 1, stored.next_num_in - 1,
                [r[0] for r in allm if r[2] == 1], [r[0] for r in allm if r[2] == 0]]

    # --- public API -----------------------------------------------------------------------
    async def send_app(self, text):
        from asyncfix import FIXMessage
        await self.conn.send_msg(FIXMessage("D", {58: text}))

    async def send_logon(self):
        from asyncfix import FIXMessage, FMsg
        await self.conn.send_msg(FIXMessage(FMsg.LOGON, {98: 0, 108: 30}))

    def frame_proj(self, data):
        m, _, _ = self.codec.decode(data, silent=False)
        tags = [[codes(t), codes(v)] for t, v in m.tags.items() if t not in ("8", "9", "35", "10")]
        return [codes(str(m.msg_type)), tags]

    def frame_is_reply(self, data):
        m, _, _ = self.codec.decode(data, silent=False)
        return m.get(43, None) == "Y" or (str(m.msg_type) == "4" and m.get(123, None) == "Y")

    def close(self):
        try:
            self.journal.cursor.close()
            self.journal.conn.close()
        except Exception:  # noqa: BLE001
            pass

        class _D:
            def close(self):
                pass
        self.journal.cursor = _D()
        self.journal.conn = _D()


class ImplNet:
    """Two endpoints and the link between them."""

    def __init__(self, loop):
        self.loop = loop
        self.q = [[], []]                      # q[s] = frames in flight TOWARDS side s (0 = A, 1 = B)
        self.ends = [End(True, self.q[1]), End(False, self.q[0])]
        self.accepted = [[], []]            # send calls that returned
        self.committed = [[], []]           # accepted, or raised from the dead transport after the journal write
        self.attempted_failed = [[], []]
        self.nid = 1
        self.reply_lost = False                # class predicate: a resend reply was in flight at a break

    def wait(self, coro):
        return self.loop.run_until_complete(asyncio.wait_for(coro, 10))

    def link_down(self):
        return self.ends[0].down and self.ends[1].down

    def pending(self, s):
        if self.q[s]:
            return True
        return (not self.ends[1 - s].has_writer) and not self.ends[s].down

    def do_break(self):
        if self.link_down():
            return
        for s in (0, 1):
            for f in self.q[s]:
                if self.ends[0].frame_is_reply(f):
                    self.reply_lost = True
        del self.q[0][:]
        del self.q[1][:]
        self.wait(self.ends[0].lost())
        self.wait(self.ends[1].lost())
        del self.q[0][:]
        del self.q[1][:]

    def do_send(self, s, fail):
        """accepted: the call returned.  committed: accepted, or it raised from the dead transport AFTER the message
        had been journaled (send_msg journals first): the session layer owns it, the peer's ResendRequest recovers it."""
        text = "m%d" % self.nid
        self.nid += 1
        if fail:
            self.ends[s].kill_writer()
        rows_before = self.ends[s].out_rows()
        try:
            self.wait(self.ends[s].send_app(text))
            self.accepted[s].append(text)
            self.committed[s].append(text)
        except asyncio.TimeoutError:
            raise
        except Exception:  # noqa: BLE001 - refused (state gate, dead transport, journal error)
            self.attempted_failed[s].append(text)
            if fail and self.ends[s].out_rows() > rows_before:
                self.committed[s].append(text)

    def do_deliver(self, s):
        if self.q[s]:
            f = self.q[s].pop(0)
            if not self.ends[s].down:
                self.wait(self.ends[s].process(f))
        elif (not self.ends[1 - s].has_writer) and not self.ends[s].down:
            self.wait(self.ends[s].lost())

    def do_reconnect(self):
        if not self.link_down():
            return
        del self.q[0][:]
        del self.q[1][:]
        self.ends[0].new_transport()
        self.ends[1].new_transport()
        try:
            self.wait(self.ends[0].send_logon())
        except asyncio.TimeoutError:
            raise
        except Exception:  # noqa: BLE001
            pass

    def step(self, a):
        k = a[0]
        if k == 0:
            self.do_send(a[1], False)
        elif k == 1:
            self.do_send(a[1], True)
            self.do_break()
        elif k == 2:
            self.do_deliver(a[1])
        elif k == 3:
            self.do_break()
        elif k == 4:
            self.do_reconnect()

    def drain(self, fuel):
        for _ in range(fuel):
            if self.pending(1):
                self.do_deliver(1)
            elif self.pending(0):
                self.do_deliver(0)
            else:
                return

    def settle(self, fuel):
        self.drain(fuel)
        if self.link_down():
            self.do_reconnect()
            self.drain(fuel)

    def proj(self):
        e = self.ends
        opt = lambda l: [([codes(x)] if x is not None else []) for x in l]  # noqa: E731
        return [e[0].wproj(), e[1].wproj(),
                [e[0].frame_proj(f) for f in self.q[1]], [e[0].frame_proj(f) for f in self.q[0]],
                opt(e[0].got), opt(e[1].got),
                [codes(x) for x in self.committed[0]], [codes(x) for x in self.committed[1]],
                [1 if self.pending(0) else 0, 1 if self.pending(1) else 0, 1 if self.link_down() else 0]]

    def oracle(self):
        """The property, decided on the implementation's observable state after settling.  None = holds."""
        e = self.ends
        if self.pending(0) or self.pending(1):
            return "no quiescence within %d deliveries (livelock)" % FUEL
        bad = []
        if e[0].state != 17 or e[1].state != 17:
            bad.append("not both ACTIVE (A=%d, B=%d)" % (e[0].state, e[1].state))
        if e[0].nin != e[1].nout:
            bad.append("A expects %d, B's next outbound is %d" % (e[0].nin, e[1].nout))
        if e[1].nin != e[0].nout:
            bad.append("B expects %d, A's next outbound is %d" % (e[1].nin, e[0].nout))
        for who, got, acc, com in (("B", e[1].got, self.accepted[0], self.committed[0]),
                                   ("A", e[0].got, self.accepted[1], self.committed[1])):
            # every accepted message exactly once and in sending order; anything else that is delivered must be a
            # send that raised from the dead transport after it had been journaled (in doubt for the caller, owned by
            # the session layer), also at most once and in sending order: got = the committed sends, in order
            lost = [x for x in acc if x not in got]
            dup = sorted({x for x in got if got.count(x) > 1})
            if lost or dup or [x for x in got if x in acc] != acc:
                bad.append("%s's application received %r, the peer's accepted sends are %r%s%s" % (
                    who, got, acc, (" lost=%r" % lost) if lost else "", (" duplicated=%r" % dup) if dup else ""))
            elif got != com:
                bad.append("%s's application received %r, the peer's committed sends (accepted, or journaled before the "
                           "write failed) are %r" % (who, got, com))
        return "; ".join(bad) if bad else None

    def close(self):
        for e in self.ends:
            e.close()


_LOOP = None


def _loop():
    global _LOOP
    if _LOOP is None:
        _LOOP = asyncio.new_event_loop()
    return _LOOP


def impl_run(acts, verbose=True):
    """Run one schedule on the implementation.  Returns a dict (see keys below)."""
    net = ImplNet(_loop())
    projs = []
    try:
        for a in acts:
            net.step(a)
            if verbose:
                projs.append(net.proj())
        if not verbose:
            projs.append(net.proj())
        lost_before_settle = net.reply_lost
        net.settle(FUEL)
        return {"projs": projs, "settled": net.proj(), "oracle": net.oracle(), "in_class": net.reply_lost,
                "in_class_schedule": lost_before_settle, "error": None}
    except Exception as e:  # noqa: BLE001 - timeouts and driver errors are reported, not raised
        return {"projs": projs, "settled": None, "oracle": "driver error %s: %s" % (type(e).__name__, e),
                "in_class": net.reply_lost, "in_class_schedule": net.reply_lost, "error": type(e).__name__}
    finally:
        net.close()


def impl_walk(seed, length, max_breaks):
    """A random walk guided by the implementation's own enabledness; returns (actions, impl result)."""
    rng = random.Random(seed)
    net = ImplNet(_loop())
    acts, projs = [], []
    breaks = 0
    try:
        for _ in range(length):
            if net.link_down():
                a = [4] if rng.random() < 0.85 else [0, rng.randrange(2)]
            else:
                opts = []
                for s in (0, 1):
                    if net.pending(s):
                        opts += [[2, s]] * 5
                opts += [[0, 0]] * 2 + [[0, 1]] * 2
                if breaks < max_breaks:
                    opts += [[3]]
                    if rng.random() < 0.3:
                        opts += [[1, rng.randrange(2)]]
                a = rng.choice(opts)
            if a[0] in (1, 3):
                breaks += 1
            net.step(a)
            acts.append(a)
            projs.append(net.proj())
        lost_before_settle = net.reply_lost
        net.settle(FUEL)
        res = {"projs": projs, "settled": net.proj(), "oracle": net.oracle(), "in_class": net.reply_lost,
               "in_class_schedule": lost_before_settle, "error": None}
    except Exception as e:  # noqa: BLE001
        res = {"projs": projs, "settled": None, "oracle": "driver error %s: %s" % (type(e).__name__, e),
               "in_class": net.reply_lost, "in_class_schedule": net.reply_lost, "error": type(e).__name__}
    finally:
        net.close()
    return acts, res


def _work(job):
    faulthandler.dump_traceback_later(120, exit=True)
    try:
        if job[0] == "run":
            return [impl_run(a) for a in job[1]]
        return [impl_walk(seed, job[2], job[3]) for seed in job[1]]
    finally:
        faulthandler.cancel_dump_traceback_later()


def parallel(jobs, timeout=600):
    """jobs: list of ('run', [schedules]) / ('walk', [seeds], length, breaks).  Results in order."""
    if not jobs:
        return []
    ctxm = mp.get_context("fork")
    with ctxm.Pool(min(core.NPROC, len(jobs))) as pool:
        r = pool.map_async(_work, jobs)
        try:
            return r.get(timeout)
        except mp.TimeoutError:
            pool.terminate()
            raise RuntimeError("implementation runs did not finish within %d s" % timeout)


def chunks(l, n):
    k = max(1, (len(l) + n - 1) // n)
    return [l[i:i + k] for i in range(0, len(l), k)]


# ------------------------------------------------------------------------------------------
# model exploration (i)
# ------------------------------------------------------------------------------------------

def frame_is_reply_codes(f):
    t = uncodes(f[0])
    d = {uncodes(k): uncodes(v) for k, v in f[1]}
    return d.get("43") == "Y" or (t == "4" and d.get("123") == "Y")


def model_in_class(acts, projs):
    """class predicate on the model's verbose trace: a resend reply is in flight when the link breaks"""
    prev = None
    for a, p in zip(acts, projs):
        if a[0] in (1, 3) and prev is not None:
            if any(frame_is_reply_codes(f) for f in prev[2]) or any(frame_is_reply_codes(f) for f in prev[3]):
                return True
        prev = p
    return False


def explore(model, max_sends, max_breaks, depth, fails_too=False, deadline=None):
    """Breadth-first exploration of the extracted model with exact state hashing.
    Returns (states: {key: schedule}, leaves: [schedule], failing: [schedule], truncated)."""
    seen = {}
    parents = set()
    failing = []
    frontier = [[]]
    truncated = False
    for d in range(depth + 1):
        if not frontier:
            break
        if deadline and time.time() > deadline:
            truncated = True
            break
        res = model.batch([sx_req(a, FUEL, 0) for a in frontier])
        nxt = []
        for acts, r in zip(frontier, res):
            ns = sum(1 for a in acts if a[0] in (0, 1))
            nb = sum(1 for a in acts if a[0] in (1, 3))
            key = (json.dumps([r[0][-1], r[1]]), ns, nb)
            if key in seen:
                continue
            seen[key] = acts
            if acts:
                parents.add(show(acts[:-1]))
            if not r[2][1]:
                failing.append(acts)
            if d == depth:
                continue
            pa, pb, down = r[0][-1][8]
            if not acts:
                down = 1
            opts = []
            if down:
                opts.append([4])
            else:
                if pa:
                    opts.append([2, 0])
                if pb:
                    opts.append([2, 1])
                if nb < max_breaks:
                    opts.append([3])
                    if fails_too and ns < max_sends:
                        opts += [[1, 0], [1, 1]]
            if ns < max_sends:
                opts += [[0, 0], [0, 1]]
            for a in opts:
                nxt.append(acts + [a])
        frontier = nxt
    leaves = [a for a in seen.values() if show(a) not in parents]
    return seen, leaves, failing, truncated


# ------------------------------------------------------------------------------------------
# comparison
# ------------------------------------------------------------------------------------------

def nontrivial(acts, impl):
    return any(a[0] in (1, 3) for a in acts) and bool(impl["settled"] and (impl["settled"][6] or impl["settled"][7]))


def check(ctx, acts, impl, model_res, kind):
    """One schedule: implementation vs model after every action and after settling; oracle on the implementation."""
    text = show(acts)
    ctx.case(text, nontrivial(acts, impl),
             sample={"schedule": text, "oracle": impl["oracle"], "in_class": impl["in_class"]} if len(ctx.samples) < 3 else None)
    ctx.count(kind)
    ctx.count("breaks=%d" % sum(1 for a in acts if a[0] in (1, 3)))
    ctx.traces += 1
    cls = KF_CLASS if impl["in_class"] else None
    if impl["oracle"] is not None:
        ctx.count("oracle-fail" + ("-in-class" if cls else ""))
        ctx.fail({"schedule": text}, impl["oracle"], cls)
    elif impl["in_class"]:
        ctx.count("reply-lost-at-a-break-and-recovered")
    if model_res is None:
        return
    mprojs, _, msettled = model_res
    diff = None
    for i, (a, b) in enumerate(zip(impl["projs"], mprojs)):
        if norm(a) != norm(b):
            diff = ("after action %d (%s)" % (i, NAMES[tuple(acts[i])]), a, b)
            break
    if diff is None and len(impl["projs"]) != len(mprojs):
        diff = ("trace length", len(impl["projs"]), len(mprojs))
    if diff is None and norm(impl["settled"]) != norm(msettled[0]):
        diff = ("after settling", impl["settled"], msettled[0])
    if diff is None and (impl["oracle"] is None) != bool(msettled[1]):
        diff = ("verdict", impl["oracle"], msettled[1])
    if diff is not None:
        if cls and any(k.get("class") == cls for k in ctx.known):
            # inside a listed finding the correspondence is informational (DESIGN.md section 4)
            ctx.count("in-class-difference")
            ctx.notes.append("note: inside class %s implementation and model differ %s on %s" % (cls, diff[0], text))
        else:
            ctx.disagree({"schedule": text, "where": diff[0]}, brief(diff[1]), brief(diff[2]), "net-step-projection")


def norm_frame(f):
    """the Text(58) of a Logout is a reason text, not behaviour: compared as present / absent"""
    if f[0] == [53]:
        return [f[0], [[t, ([120] if (t == [53, 56] and v) else v)] for t, v in f[1]]]
    return f


def norm(p):
    if not isinstance(p, list) or len(p) != 9:
        return p
    return p[:2] + [[norm_frame(f) for f in p[2]], [norm_frame(f) for f in p[3]]] + p[4:]


def brief(p):
    """readable form of a projection for the replay file"""
    if not isinstance(p, list) or len(p) != 9:
        return p
    fr = lambda f: "%s %s" % (uncodes(f[0]), " ".join("%s=%s" % (uncodes(t), uncodes(v)) for t, v in f[1] if uncodes(t) not in ("49", "56", "52")))  # noqa: E731
    txt = lambda l: [uncodes(x[0]) if x else None for x in l]  # noqa: E731
    return {"A": p[0], "B": p[1], "A->B": [fr(f) for f in p[2]], "B->A": [fr(f) for f in p[3]],
            "gotA": txt(p[4]), "gotB": txt(p[5]), "acceptedA": [uncodes(x) for x in p[6]], "acceptedB": [uncodes(x) for x in p[7]],
            "pendingA,pendingB,down": p[8]}


WITNESSES = [
    # the theorems' witnesses, always run first (also the corpus of this property)
    "REC dB dA sA BRK REC dB dA dA BRK",          # C07_double_break_recovers (D13 before the D12 repair)
    "REC BRK REC dB dA dA sA BRK",                # C07_gap_fill_lost_recovers (the former silent loss)
    "REC dB dA sA sA sA dB BRK REC",              # single-break family n=3 k=2 (C07_single_break)
    "REC dB dA sB sB sB dA BRK REC",              # mirror family n=3 k=2 (C07_single_break_B_to_A)
    "REC dB dA sA sB BRK REC",                    # both directions in flight
    # C07_single_break_both_instance: A sends 3, B sends 2; two of A's and one of B's in flight (two ResendRequests cross)
    "REC dB dA sA sA sA sB sB dB dA BRK REC",
    "REC dB dA sA sA sB sB dB dB BRK REC",        # ... only A misses something
    "REC dB dA sA sA sB sB dA dA BRK REC",        # ... only B misses something
    # C07_repeated_breaks_with_B_traffic_instance: A sends 4, B sends 2 (delivered); three more breaks after 1, 0, 1 retransmissions
    "REC dB dA sA sA sA sA sB sB dB dA dA BRK REC dB dA dA dB BRK REC dB dA dA BRK REC dB dA dA dB BRK REC",
    # C07_logon_cut: the first Logon exchange is cut (Logon in flight / Logon reply in flight), repaired, then traffic
    "REC BRK REC dB dA dA dB sA sA dB dB",
    "REC dB BRK REC dB dA dB dA sA sA dB dB",
    # C07_repeated_breaks_instance: n = 5, four in flight, then breaks after 1, 0 and 2 retransmissions
    "REC dB dA sA sA sA sA sA dB BRK REC dB dA dA dB BRK REC dB dA dA BRK REC dB dA dA dB dB BRK REC",
    "REC dB dA sA fA REC",                        # write error variant: m2 journaled, write raises, recovered (C07_failed_write)
    "REC dB dA sA sA dB fA REC",                  # ... with one more frame in flight
    "REC dB dA sB fB REC",                        # the acceptor's send meets the dead transport
]


def corpus():
    import glob
    out = [parse(w) for w in WITNESSES]
    for f in sorted(glob.glob(os.path.join(os.path.dirname(__file__), "..", "corpus", "C07", "*.json"))):
        try:
            out.append(parse(json.load(open(f))["schedule"]))
        except Exception:  # noqa: BLE001
            pass
    return out


def run(ctx):
    t0 = time.time()
    model = ctx.model
    thorough = ctx.tier == "thorough"

    # ---- (i) exploration of the model: the bound of the property text --------------------------------------
    explored = {}
    ft_leaves = []
    if model:
        bounds = [(3, 2, ctx.scale(12, 14), False)]
        if thorough:
            bounds += [(3, 2, 12, True), (2, 3, 14, False), (4, 1, 20, False)]
        else:
            bounds += [(2, 2, 10, True), (3, 1, 16, False)]
        for (ms, mb, dp, ft) in bounds:
            seen, leaves, failing, trunc = explore(model, ms, mb, dp, ft, deadline=t0 + ctx.scale(45, 900))
            name = "sends<=%d breaks<=%d depth<=%d%s" % (ms, mb, dp, " +write-errors" if ft else "")
            outside = []
            if failing:
                res = model.batch([sx_req(a, FUEL, 1) for a in failing])
                outside = [a for a, r in zip(failing, res) if not model_in_class(a, r[0])]
            explored[name] = {"states": len(seen), "failing_states": len(failing), "failing_outside_class": len(outside),
                              "truncated": trunc}
            ctx.count("model-states", len(seen))
            # a model failure outside the class: decide it on the implementation
            for a in outside[:20]:
                impl = impl_run(a)
                check(ctx, a, impl, model.call(sx_req(a)), "model-failure-outside-class")
            if ms == 3 and mb == 2 and not ft:
                main_leaves, main_failing = leaves, failing
            if ft:
                # the tree with a break point inside a send (write()/drain() raise after the journal write)
                ft_leaves = leaves + failing[:100]
        ctx.extra["model_exploration"] = explored
        ctx.extra["model_exploration_note"] = "exploration with exact state hashing, NOT a proof; every state settled and decided"
    else:
        main_leaves, main_failing = [], []

    # ---- (ii) the implementation ---------------------------------------------------------------------------
    scheds = corpus()
    if model:
        # quick: the exploration tree of a smaller bound (every state of it is visited), all its leaves;
        # thorough: the tree of the property-text bound
        # the exploration tree of the main bound (quick: depth 12, thorough: the property-text bound, depth 14):
        # every explored state is visited on the implementation; plus any failing state of the model
        tree = main_leaves + main_failing[:300] + ft_leaves
        scheds += tree
    seen_txt, uniq = set(), []
    for a in scheds:
        t = show(a)
        if t not in seen_txt:
            seen_txt.add(t)
            uniq.append(a)
    scheds = uniq
    jobs = [("run", c) for c in chunks(scheds, core.NPROC * 2)]
    nwalks = ctx.scale(160, 2000)
    seeds = [ctx.rng.randrange(1 << 30) for _ in range(nwalks)]
    half = len(seeds) // 2
    jobs += [("walk", c, 60, 1) for c in chunks(seeds[:half], core.NPROC)]      # single break: the theorems' side
    jobs += [("walk", c, 60, 6) for c in chunks(seeds[half:], core.NPROC)]
    results = parallel(jobs, timeout=ctx.scale(300, 3000))
    flat_runs, flat_walks = [], []
    for job, res in zip(jobs, results):
        if job[0] == "run":
            flat_runs += list(zip(job[1], res))
        else:
            flat_walks += res
    all_cases = [(a, r, "tree") for a, r in flat_runs] + [(a, r, "walk") for a, r in flat_walks]
    model_out = [None] * len(all_cases)
    if model:
        model_out = model.batch([sx_req(a) for a, _, _ in all_cases])
    for (a, r, kind), mr in zip(all_cases, model_out):
        check(ctx, a, r, mr, kind)
    ctx.extra["implementation_schedules"] = {"tree": len(flat_runs), "walks": len(flat_walks)}
    ctx.extra["wall_harness_s"] = round(time.time() - t0, 1)


def search(ctx, cases):
    """A proof / translator / the correspondence broke: look for a schedule on which the implementation itself
    breaks the property outside the known class."""
    for c in cases:
        a = parse(c["schedule"])
        check(ctx, a, impl_run(a), None, "search-case")
        for i in range(1, len(a)):
            check(ctx, a[:i], impl_run(a[:i]), None, "search-prefix")
        if ctx.failures:
            return
    rng = random.Random(ctx.seed + 7)
    t0 = time.time()
    box = ctx.scale(30, 300)
    while time.time() - t0 < box and not ctx.failures:
        seeds = [rng.randrange(1 << 30) for _ in range(64)]
        jobs = [("walk", c, 40, 1 + i % 3) for i, c in enumerate(chunks(seeds, core.NPROC))]
        for res in parallel(jobs, timeout=200):
            for a, r in res:
                check(ctx, a, r, None, "search-walk")


def replay(path):
    rec = json.load(open(path))
    case = rec.get("input")
    if not case:
        print("replay: no concrete input; broken:", rec.get("broken"))
        return 1
    acts = parse(case["schedule"])
    r = impl_run(acts)
    for a, p in zip(acts, r["projs"]):
        print("%-4s %s" % (NAMES[tuple(a)], json.dumps(brief(p))))
    print("settled:", json.dumps(brief(r["settled"])) if r["settled"] else None)
    print("oracle :", r["oracle"] or "holds", "| resend reply lost at a break:", r["in_class"])
    return 1 if r["oracle"] is not None else 0


if __name__ == "__main__":
    sys.path.insert(0, core.REPO)
    r = impl_run(parse(" ".join(sys.argv[1:])))
    for a, p in zip(parse(" ".join(sys.argv[1:])), r["projs"]):
        print("%-4s %s" % (NAMES[tuple(a)], json.dumps(brief(p))))
    print("settled:", json.dumps(brief(r["settled"])) if r["settled"] else None)
    print("oracle :", r["oracle"] or "holds", "| in class:", r["in_class"])
