(* Extraction of the validate_value model (C19).  ExtrOcamlBasic only; Z/N/positive/nat stay Coq datatypes.
   The path is relative to coq/, where make and coqc are run. *)
From Coq Require Extraction.
From Coq Require Import ExtrOcamlBasic.
From AF Require Import Fix.ValidateValueRun.
Extraction Language OCaml.
Extraction "../ocaml/build/C19/model.ml" entry.
