(* C03 - stream reassembly is independent of how the byte stream is chunked (round 9: full strength).
   Theorems only (proofs in AF.Lemmas.ReaderL, on top of AF.Lemmas.RoundTripL).
   Model: reader_loop / reader_step / reader_run of Fix/Codec.v (the body of socket_read_task between
   two read() calls, folded over the reads) with the round-9 decoder (partial-marker tail kept, frame
   candidate ends at its CheckSum field, completeness tested against len(raw) - valid_idx).

   encoder_frame G bs (F, dm) - F is an encoder frame under the hypotheses of C01_roundtrip (wf_msg,
                                no_marker = negation of D5, small_frame) and dm is its decoded message.
   enc_seg G bs (J, (F, dm))  - such a frame preceded by junk J with no occurrence of "8=FIX." (J may be empty,
                                may end in a proper prefix of the marker, may contain SOH, "10=", anything else).
   stream_of segs tail        - J1 ++ F1 ++ J2 ++ F2 ++ ... ++ Jn ++ Fn ++ tail.
   delivered (F, dm)          - (dm, F): what the reader hands to _process_message.
   status 0                   - the read ended in "wait for more bytes" (no exception, no fuel exhaustion).
   No hypothesis on the chunking: cuts inside the marker, inside BodyLength, inside CheckSum, inside the
   junk, one-byte reads, empty reads.  The former class hypotheses (no_cut_inside_marker, junk only in
   junk-only reads at frame boundaries, |junk| + |prefix| < |frame|) are gone. *)
From Coq Require Import ZArith NArith List Bool.
From AF Require Import Base.Sx Py.Str Fix.Codec Fix.WfMsg Fix.ReaderHooks Lemmas.RoundTripL Lemmas.ReaderL Lemmas.ReaderHooksL.
From AFGen Require Import GenGroups.
Import ListNotations.
Open Scope N_scope.

(* deliver lemma: marker-free junk, a frame, then ANY bytes (nothing, garbage, part of the next frame):
   the frame is decoded to its message and exactly junk + frame are consumed *)
Theorem C03_complete_prefix : forall G bs J fm R silent, wf_table G = true -> no_mark J -> encoder_frame G bs fm ->
  decode G bs (J ++ fst fm ++ R) silent = Ok (Some (snd fm), (zlen J + zlen (fst fm))%Z, Some (fst fm)).
Proof. exact complete_prefix. Qed.
Print Assumptions C03_complete_prefix.

(* wait lemma: marker-free junk and ANY proper prefix P of a frame: no byte of the frame is consumed.
   |P| >= 1: exactly the junk is consumed; P empty: all of the junk but a trailing proper marker prefix *)
Theorem C03_wait : forall G bs J fm P Q, wf_table G = true -> no_mark J -> encoder_frame G bs fm ->
  fst fm = P ++ Q -> Q <> [] ->
  ((6 <= length P)%nat -> decode G bs (J ++ P) true = Ok (None, zlen J, None))
  /\ ((1 <= length P <= 5)%nat -> decode G bs (J ++ P) true = Ok (None, zlen J, None))
  /\ (P = [] -> exists k, (k <= 5)%nat /\ decode G bs J true = Ok (None, (zlen J - Z.of_nat k)%Z, None)
                 /\ exists pre, J = pre ++ firstn k MARK).
Proof. exact wait_for_more. Qed.
Print Assumptions C03_wait.

(* THE PROPERTY: for every stream of valid frames with marker-free junk before, between and after them,
   and EVERY partition of the stream into reads, the reader hands over exactly the frames, in order,
   never raises, and what stays in the buffer is a proper prefix of the marker (0..5 bytes) that ends
   the trailing junk *)
Theorem C03_chunk_independent : forall G bs segs tail chunks,
  wf_table G = true -> Forall (enc_seg G bs) segs -> no_mark tail ->
  concat chunks = stream_of segs tail ->
  exists resid,
    reader_run G bs [] chunks = (resid, map delivered (map snd segs), map (fun _ => 0) chunks)
    /\ marker_prefix resid /\ exists pre, tail = pre ++ resid.
Proof. exact chunk_independent. Qed.
Print Assumptions C03_chunk_independent.

(* no junk: the buffer ends empty *)
Theorem C03_chunk_independent_frames : forall G bs fms chunks,
  wf_table G = true -> Forall (encoder_frame G bs) fms -> concat chunks = concat (map fst fms) ->
  reader_run G bs [] chunks = ([], map delivered fms, map (fun _ => 0) chunks).
Proof. exact chunk_independent_frames. Qed.
Print Assumptions C03_chunk_independent_frames.

(* non-vacuity: "xyz" FA "x8=FI" FB "zz8=" satisfies the hypotheses; in one-byte reads and in two reads cut
   3 bytes into FB both frames are delivered and "8=" stays *)
Theorem C03_nonvacuous :
  (Forall (enc_seg GenGroups.table beginstring) ex_segs /\ no_mark ex_tail)
  /\ reader_run GenGroups.table beginstring [] (map (fun c => [c]) (stream_of ex_segs ex_tail))
     = ([56; 61], ex_both, map (fun _ => 0) (stream_of ex_segs ex_tail))
  /\ reader_run GenGroups.table beginstring []
       [ex_garbage ++ ex_FA ++ ex_junk2 ++ firstn 3 ex_FB; skipn 3 ex_FB ++ ex_tail] = ([56; 61], ex_both, [0; 0]).
Proof. exact (conj ex_segs_encoder ex_run_junk). Qed.
Print Assumptions C03_nonvacuous.

(* the former refuted witnesses, now positive (classes D6-cut-in-marker, D6-garbage-after-frame,
   one-byte reads, D8-junk-prefix-counted-in-length: fixed by R9a, R9b, R9c) *)
Theorem C03_cut_in_marker_ok : forall k, In k [1; 2; 3; 4; 5]%nat ->
  reader_run GenGroups.table beginstring [] [ex_FA ++ firstn k ex_FB; skipn k ex_FB] = ([], ex_both, [0; 0])
  /\ reader_run GenGroups.table beginstring [] [ex_FA; firstn k ex_FB; skipn k ex_FB] = ([], ex_both, [0; 0; 0]).
Proof. exact cut_in_marker_ok. Qed.
Print Assumptions C03_cut_in_marker_ok.

Theorem C03_garbage_ok :
  reader_run GenGroups.table beginstring [] [ex_FA ++ ex_garbage; ex_FB] = ([], ex_both, [0; 0])
  /\ reader_run GenGroups.table beginstring [] [ex_FA ++ ex_garbage ++ ex_FB] = ([], ex_both, [0]).
Proof. exact garbage_ok. Qed.
Print Assumptions C03_garbage_ok.

Theorem C03_one_byte_reads_ok :
  reader_run GenGroups.table beginstring [] (map (fun c => [c]) (ex_FA ++ ex_FB))
  = ([], ex_both, map (fun _ => 0) (ex_FA ++ ex_FB)).
Proof. exact one_byte_reads_ok. Qed.
Print Assumptions C03_one_byte_reads_ok.

Theorem C03_junk_prefix_cut_ok : forall k, In k [1; 2; 3; 4; 5]%nat ->
  reader_run GenGroups.table beginstring []
    [ex_garbage ++ firstn (87 - k) ex_FA; skipn (87 - k) ex_FA ++ ex_FB] = ([], ex_both, [0; 0]).
Proof. exact junk_prefix_cut_ok. Qed.
Print Assumptions C03_junk_prefix_cut_ok.

(* --- a dispatcher that RAISES (Fix/ReaderHooks.v: `raises k` - the dispatch of the k-th message of this pass raises; the
   reader task logs the exception and goes back to read()).  For ARBITRARY buffer contents, group tables and hook
   behaviours: either nothing raised and the pass is the model's pass, or the pass ended (status 1) right after the failing
   dispatch, and decoding what it left in the buffer completes exactly the deliveries of the pass whose dispatcher never
   raises - same messages, same order, same final buffer and status: the failing frame is consumed (the buffer is advanced
   BEFORE the dispatch) and nothing behind it is lost or handed over twice. *)
Theorem C03_raising_dispatcher_loses_nothing : forall raises G bs f buf acc b1 o1 s1,
  reader_loop_h raises G bs f buf acc = (b1, o1, s1) ->
  reader_loop G bs f buf acc = (b1, o1, s1)
  \/ exists f' b2 o2 s2, (f' <= f)%nat /\ s1 = 1 /\ reader_loop G bs f' b1 [] = (b2, o2, s2)
                         /\ reader_loop G bs f buf acc = (b2, o1 ++ o2, s2).
Proof. exact reader_loop_h_loses_nothing. Qed.
Print Assumptions C03_raising_dispatcher_loses_nothing.

Theorem C03_dispatcher_never_raises : forall raises G bs f buf acc,
  (forall k, raises k = false) -> reader_loop_h raises G bs f buf acc = reader_loop G bs f buf acc.
Proof. exact reader_loop_h_never. Qed.
Print Assumptions C03_dispatcher_never_raises.

(* both example frames in one read, the dispatch of the first one raises: frame A is consumed, the next pass delivers B *)
Example C03_raising_dispatch_example :
  let r1 := reader_loop_h (fun k => Nat.eqb k 0) GenGroups.table beginstring (S (length (ex_FA ++ ex_FB))) (ex_FA ++ ex_FB) [] in
  r1 = (ex_FB, firstn 1 ex_both, 1)
  /\ reader_loop GenGroups.table beginstring (S (length ex_FB)) (fst (fst r1)) [] = ([], skipn 1 ex_both, 0).
Proof. exact raising_dispatch_example. Qed.
Print Assumptions C03_raising_dispatch_example.
