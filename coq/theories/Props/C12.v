(* C12 - the heartbeat watchdog detects dead peers and spares live ones.
   Theorems only (proofs in AF.Lemmas.TimerL).  They are about the model Fix/Timer.v of
   heartbeat_timer_task / send_test_req / _process_testrequest / _process_heartbeat /
   _finalize_message / disconnect / the TESTREQUEST gate of send_msg, whose thresholds, sleep
   period and state numbers are the regenerated AFGen.GenTimer.

   Time is integer milliseconds, hb the heartbeat interval in seconds (any integer >= 1 unless
   stated).  `ticks p k` are k watchdog iterations one sleep period (1000 ms) apart starting at
   p: the phase p is arbitrary.  `trace s evs` is the run of a time-ordered scenario
   (Tick | Recv t d m: valid message numbered next_num_in + d, d = 0 in sequence, d > 0 behind a gap |
   application send_test_req() | application send_msg(TestRequest));
   `outs` its per-event outputs, `final` its last state.
   `idle_at s hb t0`: connected, ACTIVE, no TestRequest outstanding, last in-sequence message at t0.
   `live s`: connected and ACTIVE; `awaiting s`: connected and RESENDREQ_AWAITING (a ResendRequest is out). *)
From Coq Require Import ZArith NArith List Bool.
From AF Require Import Base.Sx Py.Str Fix.Timer Lemmas.TimerL.
From AFGen Require Import GenTimer.
Import ListNotations.
Open Scope Z_scope.

(* the constants the code has today (re-derived from /repo on every run) *)
Theorem C12_constants :
  (forall hb, thr thr_probe hb = (hb - 1) * 1000) /\ (forall hb, thr thr_dead hb = 2 * hb * 1000)
  /\ (forall hb, thr thr_treq hb = 2 * hb * 1000) /\ tick_ms = 1000.
Proof. exact constants. Qed.
Print Assumptions C12_constants.

(* Silent since t0: the k iterations up to t0 + hb - 1 s emit nothing; the first iteration after
   t0 + hb - 1 s (at tp) writes TestRequest(112 = int(tp)) and nothing else; tp is in
   (t0 + hb - 1 s, t0 + hb s] provided the watchdog ran at all by then (tp - 1 s <= t0 + hb - 1 s). *)
Theorem C12_probe : forall hb s t0 p (k : nat),
  1 <= hb -> idle_at s hb t0 -> 1000 <= p ->
  let tp := p + Z.of_nat k * 1000 in
  tp - 1000 - t0 <= (hb - 1) * 1000 < tp - t0 ->
  outs s (ticks p (k + 1)) = repeat [] k ++ [[testreq_frame (tp / 1000)]]
  /\ final s (ticks p (k + 1)) = probing_st hb tp
  /\ t0 + (hb - 1) * 1000 < tp <= t0 + hb * 1000.
Proof. exact probe_run. Qed.
Print Assumptions C12_probe.

(* Still silent: nothing further is emitted (no second probe) until the first iteration after
   n + 2 hb s, n = int(tp) the TestReqID; that iteration (at td) disconnects.  Exact bound:
   td in (n + 2 hb s, n + 2 hb + 1 s], hence t0 + 3 hb - 1 s < td <= t0 + 3 hb + 1 s. *)
Theorem C12_dead_peer : forall hb s t0 p (k m : nat),
  1 <= hb -> idle_at s hb t0 -> 1000 <= p ->
  let tp := p + Z.of_nat k * 1000 in
  let n := tp / 1000 in
  let td := tp + Z.of_nat (S m) * 1000 in
  tp - 1000 - t0 <= (hb - 1) * 1000 < tp - t0 ->
  td - 1000 <= (n + 2 * hb) * 1000 < td ->
  outs s (ticks p (k + 1 + (m + 1))) =
    repeat [] k ++ [[testreq_frame n]] ++ repeat [] m ++ [[ODisconnect]]
  /\ final s (ticks p (k + 1 + (m + 1))) = dead_st hb
  /\ t0 + (3 * hb - 1) * 1000 < td <= t0 + (3 * hb + 1) * 1000.
Proof. exact dead_peer_run. Qed.
Print Assumptions C12_dead_peer.

(* A live peer is never dropped by the watchdog, for every scenario whose inbound traffic is in sequence (any
   phase, any arrival pattern, application-initiated probes included), if EITHER valid traffic never pauses longer
   than hb - 1 s before an iteration (`fed`: then no TestRequest is ever needed) OR every TestRequest written at
   time t (id t/1000) is answered later in the run by a Heartbeat echoing the id that arrives no later than
   id + 2 hb s (`answers`).  This is the part of the literal property that holds: its hypotheses are the negation
   of the known-finding class of C12_unanswered_probe_refuted. *)
Theorem C12_live_peer : forall hb evs s t0,
  1 <= hb -> idle_at s hb t0 -> Forall (fun e => 1000 <= ev_time e) evs ->
  (fed ((hb - 1) * 1000) t0 evs \/ (sorted evs /\ Forall inseq_ev evs /\ answers hb (trace s evs))) ->
  Forall (fun r => ~ wd_disconnect r) (trace s evs).
Proof. exact live_peer. Qed.
Print Assumptions C12_live_peer.

(* The same with out-of-sequence traffic (messages behind a gap, gap fills): an answer counts wherever it is
   numbered (`is_answer` asks only 0 <= d), provided no iteration that runs while a resend is awaited finds the
   last in-sequence message more than 2 hb s old (`gap_ok`: the negation of the class of C12_unfilled_gap_refuted). *)
Theorem C12_live_peer_gaps : forall hb evs s,
  1 <= hb -> ok hb s -> s_id s = None -> sorted evs -> Forall (fun e => 1000 <= ev_time e) evs ->
  gap_ok hb s evs -> answers hb (trace s evs) ->
  Forall (fun r => ~ wd_disconnect r) (trace s evs).
Proof. exact live_peer_gaps. Qed.
Print Assumptions C12_live_peer_gaps.

(* A Heartbeat echoing the outstanding TestReqID that arrives BEHIND A SEQUENCE GAP (numbered above the expected
   number) clears the outstanding probe: from ACTIVE it also sends the ResendRequest and enters RESENDREQ_AWAITING,
   while a resend is already awaited it does nothing else.  The last-message clock is not refreshed. *)
Theorem C12_answer_behind_gap_counts : forall now d v s, 0 < d -> s_id s = Some (parse_id v) ->
  (live s -> recv now d (MHeartbeat (Some v)) s
             = (set_id (set_state s ST_RESENDREQ_AWAITING d) None, [OWire KResendRequest None]))
  /\ (awaiting s -> recv now d (MHeartbeat (Some v)) s = (set_id s None, [])).
Proof. exact answer_behind_gap_counts. Qed.
Print Assumptions C12_answer_behind_gap_counts.

(* an inbound TestRequest behind a gap is still answered with the same TestReqID *)
Theorem C12_testreq_behind_gap_answered : forall now d rid s, 0 < d ->
  let hbt := OWire KHeartbeat (Some (match rid with Some v => v | None => [48%N] end)) in
  (live s -> recv now d (MTestRequest rid) s
             = (set_state s ST_RESENDREQ_AWAITING d, [OWire KResendRequest None; hbt]))
  /\ (awaiting s -> recv now d (MTestRequest rid) s = (s, [hbt])).
Proof. exact testreq_behind_gap_answered. Qed.
Print Assumptions C12_testreq_behind_gap_answered.

(* ... and a wrong TestReqID behind a gap still ends the session with a Logout *)
Theorem C12_wrong_id_behind_gap_logout : forall now d v s n, 0 < d -> s_id s = Some n -> parse_id v <> n ->
  (live s -> recv now d (MHeartbeat (Some v)) s
             = (dead_st (s_hb s), [OWire KResendRequest None; OWire KLogout None; ODisconnect]))
  /\ (awaiting s -> recv now d (MHeartbeat (Some v)) s = (dead_st (s_hb s), [OWire KLogout None; ODisconnect])).
Proof. exact wrong_id_behind_gap_logout. Qed.
Print Assumptions C12_wrong_id_behind_gap_logout.

(* closing the gap: a SequenceReset in sequence whose NewSeqNo passes the number that opened the gap (nw - 1 >= gap)
   returns the session to ACTIVE and refreshes the clock; a shorter one only shrinks the gap *)
Theorem C12_gap_fill_closes : forall now nw s, awaiting s -> 1 <= nw ->
  recv now 0 (MGapFill nw) s =
  ((if s_gap s <=? nw - 1 then set_mlt (set_state s ST_ACTIVE 0) now
    else set_mlt (set_state s ST_RESENDREQ_AWAITING (s_gap s - nw)) now), []).
Proof. exact gap_fill_closes. Qed.
Print Assumptions C12_gap_fill_closes.

(* The silence clock while a resend is awaited.  Traffic that is all behind the unfilled gap does not refresh it,
   the watchdog writes no TestRequest (its probe test applies to ACTIVE only) and nothing at all happens as long
   as the clock t0 (last in-sequence message) is at most 2 hb s old ... *)
Theorem C12_behind_gap_silence : forall hb t0 evs s,
  awaiting s -> s_hb s = hb -> s_id s = None -> s_mlt s = t0 ->
  Forall (behind_gap_ev hb t0) evs ->
  final s evs = s
  /\ Forall (fun r => writes_testreq r = false /\ ~ In ODisconnect (r_out r)
                      /\ (is_tick (r_ev r) = true -> r_out r = [])) (trace s evs).
Proof. exact behind_gap_quiet. Qed.
Print Assumptions C12_behind_gap_silence.

(* ... and the first iteration later than t0 + 2 hb s drops the peer, unprobed *)
Theorem C12_gap_timeout : forall now s,
  awaiting s -> s_id s = None -> s_mlt s <> 0 -> 2 * s_hb s * 1000 < now - s_mlt s ->
  tick now s = (dead_st (s_hb s), [ODisconnect]).
Proof. exact gap_timeout. Qed.
Print Assumptions C12_gap_timeout.

(* REFUTED: "a peer whose traffic is all behind an unfilled gap is probed and, if it answers, not dropped".
   hb = 30, Heartbeats every 10 s, every one numbered above the expected number: no TestRequest is ever written
   (`answers` holds vacuously) and the watchdog drops the peer at +60.25 s. *)
Theorem C12_unfilled_gap_refuted :
  exists evs,
    sorted evs /\ forallb behind_gapb evs = true /\ gap_le 10000 1000000000 evs = true
    /\ answers 30 (trace (active0 30 1000000000) evs)
    /\ forallb (fun r => negb (writes_testreq r)) (trace (active0 30 1000000000) evs) = true
    /\ exists r, In r (trace (active0 30 1000000000) evs) /\ wd_disconnect r.
Proof. exact unfilled_gap_refuted. Qed.
Print Assumptions C12_unfilled_gap_refuted.

(* ... in particular an answer within 2 hb - 1 s of the moment the probe was written is in time *)
Theorem C12_answer_deadline : forall hb t ta,
  ta <= t + (2 * hb - 1) * 1000 -> ta <= (t / 1000 + 2 * hb) * 1000.
Proof. exact answer_deadline. Qed.
Print Assumptions C12_answer_deadline.

(* with traffic at most hb - 1 s apart the watchdog emits nothing at all, and nobody is disconnected *)
Theorem C12_quiet_traffic : forall hb G evs s t0,
  0 <= hb -> G <= (hb - 1) * 1000 -> idle_at s hb t0 -> fed G t0 evs ->
  Forall (fun r => is_tick (r_ev r) = true -> r_out r = []) (trace s evs)
  /\ Forall (fun r => ~ In ODisconnect (r_out r) /\ writes_testreq r = false) (trace s evs).
Proof. exact fed_quiet. Qed.
Print Assumptions C12_quiet_traffic.

(* REFUTED part of the literal statement (D19): a peer whose valid traffic never pauses longer than one
   interval but that does not answer an outstanding TestRequest IS dropped.  hb = 30, application
   messages every 29.5 s: probe at +29.25 s, watchdog disconnect at +89.25 s. *)
Theorem C12_unanswered_probe_refuted :
  exists hb t0 evs,
    2 <= hb /\ sorted evs /\ only_app evs = true /\ gap_le (hb * 1000) t0 evs = true /\
    exists r, In r (trace (active0 hb t0) evs) /\ wd_disconnect r.
Proof. exact unanswered_probe_refuted. Qed.
Print Assumptions C12_unanswered_probe_refuted.

(* hb = 1 (probe threshold hb - 1 = 0): traffic every 0.5 s, probe at the first iteration, dropped at +2.25 s *)
Theorem C12_unanswered_probe_hb1_refuted :
  exists evs,
    sorted evs /\ only_app evs = true /\ gap_le 500 1000000000 evs = true /\
    exists r, In r (trace (active0 1 1000000000) evs) /\ wd_disconnect r.
Proof. exact unanswered_probe_hb1_refuted. Qed.
Print Assumptions C12_unanswered_probe_hb1_refuted.

(* At most one TestRequest outstanding: in every scenario without application calls of
   send_msg(TestRequest) (any state, any hb, any times >= 1 s), between two steps that write a
   TestRequest there is a received Heartbeat (in sequence or behind a gap) echoing the id int(t_i) of the first one. *)
Theorem C12_single_outstanding : forall evs s i k ri rk,
  s_id s <> Some 0 -> no_raw evs -> Forall (fun e => 1000 <= ev_time e) evs ->
  (i < k)%nat ->
  nth_error (trace s evs) i = Some ri -> nth_error (trace s evs) k = Some rk ->
  writes_testreq ri = true -> writes_testreq rk = true ->
  exists j rj ta da v, (i < j < k)%nat /\ nth_error (trace s evs) j = Some rj
                    /\ r_ev rj = Recv ta da (MHeartbeat (Some v))
                    /\ parse_id v = ev_time (r_ev ri) / 1000.
Proof. exact single_outstanding. Qed.
Print Assumptions C12_single_outstanding.

(* REFUTED without that restriction: send_msg lets an application TestRequest through exactly when a
   probe is outstanding (rows 5 and 6 of the witness both write a TestRequest, nothing in between) *)
Theorem C12_raw_testrequest_refuted :
  exists evs i k ri rk,
    (i < k)%nat /\ nth_error (trace (active0 5 1000000000) evs) i = Some ri
    /\ nth_error (trace (active0 5 1000000000) evs) k = Some rk
    /\ writes_testreq ri = true /\ writes_testreq rk = true
    /\ forall j rj, (i < j < k)%nat -> nth_error (trace (active0 5 1000000000) evs) j = Some rj ->
                    is_tick (r_ev rj) = true.
Proof. exact raw_testrequest_refuted. Qed.
Print Assumptions C12_raw_testrequest_refuted.

(* every inbound TestRequest is answered by one Heartbeat carrying the same TestReqID, "0" when absent *)
Theorem C12_testreq_answered : forall now rid s, live s ->
  recv now 0 (MTestRequest rid) s =
  (set_mlt s now, [OWire KHeartbeat (Some (match rid with Some v => v | None => [48%N] end))]).
Proof. exact testreq_answered. Qed.
Print Assumptions C12_testreq_answered.

(* a Heartbeat whose TestReqID (int(), non-numeric read as 0) differs from the outstanding one: Logout + disconnect *)
Theorem C12_wrong_id_logout : forall now v s n, live s -> s_id s = Some n -> parse_id v <> n ->
  recv now 0 (MHeartbeat (Some v)) s =
  (set_mlt (dead_st (s_hb s)) now, [OWire KLogout None; ODisconnect]).
Proof. exact wrong_id_logout. Qed.
Print Assumptions C12_wrong_id_logout.

Theorem C12_matching_id_clears : forall now v s, live s -> s_id s = Some (parse_id v) ->
  recv now 0 (MHeartbeat (Some v)) s = (set_mlt (set_id s None) now, []).
Proof. exact matching_id_clears. Qed.
Print Assumptions C12_matching_id_clears.

Theorem C12_heartbeat_without_id_ignored : forall now s, live s ->
  recv now 0 (MHeartbeat None) s = (set_mlt s now, []).
Proof. exact heartbeat_without_id_ignored. Qed.
Print Assumptions C12_heartbeat_without_id_ignored.

(* hb = 0: the first iteration at a time that is not a whole second probes and disconnects at once *)
Theorem C12_hb0_immediate_disconnect : forall now s t0,
  idle_at s 0 t0 -> 1000 <= now -> -1000 < now - t0 -> now mod 1000 <> 0 ->
  tick now s = (dead_st 0, [testreq_frame (now / 1000); ODisconnect]).
Proof. exact hb0_immediate. Qed.
Print Assumptions C12_hb0_immediate_disconnect.

(* outside ACTIVE (handshake states) only the last-message test applies; nothing received yet => never dropped *)
Theorem C12_handshake_silence : forall now s,
  s_conn s = true -> s_state s <> ST_ACTIVE -> ST_DISCONNECTED_BROKEN_CONN < s_state s -> s_id s = None ->
  tick now s =
  if negb (s_mlt s =? 0) && (2 * s_hb s * 1000 <? now - s_mlt s)
  then (dead_st (s_hb s), [ODisconnect]) else (s, []).
Proof. exact nonactive_tick. Qed.
Print Assumptions C12_handshake_silence.

(* the hypothesis `1000 <= time` above is needed: with int(time.time()) = 0 the timer loop spins *)
Theorem C12_epoch_spin : forall now s,
  live s -> s_id s = Some 0 -> (s_hb s - 1) * 1000 < now - s_mlt s -> tick now s = (s, [OSpin]).
Proof. exact epoch_spin. Qed.
Print Assumptions C12_epoch_spin.

(* non-vacuity: concrete reachable runs meeting the hypotheses *)
Example C12_dead_peer_instance :
  outs (active0 30 1000000000) (ticks 1000000250 (29 + 1 + (59 + 1))) =
    repeat [] 29 ++ [[testreq_frame 1000029]] ++ repeat [] 59 ++ [[ODisconnect]]
  /\ final (active0 30 1000000000) (ticks 1000000250 (29 + 1 + (59 + 1))) = dead_st 30.
Proof. exact dead_peer_instance. Qed.
Print Assumptions C12_dead_peer_instance.

Example C12_live_peer_nonvacuous :
  sorted answering_evs /\ answers 30 (trace (active0 30 1000000000) answering_evs)
  /\ (length (filter writes_testreq (trace (active0 30 1000000000) answering_evs)) = 2)%nat
  /\ Forall (fun r => ~ wd_disconnect r) (trace (active0 30 1000000000) answering_evs).
Proof. exact live_peer_nonvacuous. Qed.
Print Assumptions C12_live_peer_nonvacuous.

Example C12_answer_behind_gap_instance :
  sorted gap_answer_evs /\ gap_ok 30 (active0 30 1000000000) gap_answer_evs
  /\ answers 30 (trace (active0 30 1000000000) gap_answer_evs)
  /\ (2 <= length (filter writes_testreq (trace (active0 30 1000000000) gap_answer_evs)))%nat
  /\ Forall (fun r => ~ wd_disconnect r) (trace (active0 30 1000000000) gap_answer_evs).
Proof. exact answer_behind_gap_instance. Qed.
Print Assumptions C12_answer_behind_gap_instance.

Example C12_traffic_instance :
  let evs := merge (ticks 1000000250 12) (app_msgs 1000004000 4000 3) in
  fed ((5 - 1) * 1000) 1000000000 evs
  /\ Forall (fun r => ~ wd_disconnect r) (trace (active0 5 1000000000) evs).
Proof. exact traffic_instance. Qed.
Print Assumptions C12_traffic_instance.
