(* Sx front end of the schema-validation model (C15).

   request  [dict, msg_type, entries, verdicts]
     dict      0 = tests/FIX44.xml, 1 = tests/TT-FIX44.xml (the regenerated AFGen.GenSchema dumps)
     msg_type  text
     entries   [entry, ...]   entry = [tag, 0, text]  |  [tag, 1, [item, ...]]   item = [entry, ...]
     verdicts  [[tag, text, code], ...]  what the REAL SchemaField.validate_value did for the field
               with that tag on that text: 0 returned, 1 FIXMessageError, 2 AssertionError,
               n >= 3 another exception class (numbered by the harness)
   answer    0 validate returned | 1 FIXMessageError | 2 AssertionError | n other class
             | [-1, k] malformed request.
   request  [2, schema, msg_type, entries, verdicts] carries the schema itself (see parse_schema);
   answer    [wf_schema of it (0/1), outcome as above].
   A (tag, text) pair the harness did not supply counts as exception class 99, so that a value
   check the model performs and the harness did not foresee shows up as a disagreement. *)
From Coq Require Import ZArith NArith List Bool.
From AF Require Import Base.Sx Py.Str Fix.SchemaModel.
From AFGen Require Import GenSchema.
Import ListNotations.
Open Scope Z_scope.

Fixpoint parse_entry (fuel : nat) (s : sx) : option (str * value) :=
  match fuel with
  | O => None
  | S fuel' =>
      match s with
      | SL [t; SI k; body] =>
          match get_str t with
          | None => None
          | Some tag =>
              if k =? 0 then option_map (fun v => (tag, VStr v)) (get_str body)
              else
                match body with
                | SL items =>
                    option_map (fun its => (tag, VGrp its))
                      (opt_all (map (fun it => match it with
                                               | SL es => opt_all (map (parse_entry fuel') es)
                                               | _ => None
                                               end) items))
                | _ => None
                end
          end
      | _ => None
      end
  end.

Definition parse_entries (s : sx) : option container :=
  match s with
  | SL es => opt_all (map (parse_entry 64) es)
  | _ => None
  end.

Definition exc_of_code (n : N) : option exc :=
  if N.eqb n 0 then None else if N.eqb n 1 then Some EFIXMessage
  else if N.eqb n 2 then Some EAssertion else Some (EOther n).

Definition parse_verdict (s : sx) : option (str * str * N) :=
  match s with
  | SL [t; v; c] =>
      match get_str t, get_str v, get_N c with
      | Some t', Some v', Some c' => Some (t', v', c')
      | _, _, _ => None
      end
  | _ => None
  end.

Definition check_from (tbl : list (str * str * N)) (f : field) (s : str) : option exc :=
  match find (fun r => str_eqb (fst (fst r)) (f_tag f) && str_eqb (snd (fst r)) s) tbl with
  | Some r => exc_of_code (snd r)
  | None => Some (EOther 99)
  end.

Definition sx_res (r : res) : sx :=
  match r with
  | Ok => SI 0
  | Exc EFIXMessage => SI 1
  | Exc EAssertion => SI 2
  | Exc (EOther n) => SI (Z.of_N n)
  end.

Definition dict (d : Z) : option schema :=
  if d =? 0 then Some FIX44.schema else if d =? 1 then Some TT.schema else None.

(* ---- a schema given in the request (synthetic dictionaries parsed by the real FIXSchema) ----
   schema  [fields, header, messages]
     fields    [[tag, name code, type code, has enum], ...]
     member    [0, tag, required]  |  [1, tag, required, [member, ...]]   (field looked up by tag)
     messages  [[msg_type, [member, ...]], ...] *)
Definition parse_field (s : sx) : option field :=
  match s with
  | SL [t; n; y; e] =>
      match get_str t, get_N n, get_N y, get_bool e with
      | Some t', Some n', Some y', Some e' => Some (mkField t' n' y' e')
      | _, _, _, _ => None
      end
  | _ => None
  end.

Definition field_by_tag (flds : list field) (t : sx) : option field :=
  match get_str t with
  | Some tag => find (fun f => str_eqb (f_tag f) tag) flds
  | None => None
  end.

Fixpoint parse_member (fuel : nat) (flds : list field) (s : sx) : option member :=
  match fuel with
  | O => None
  | S fuel' =>
      match s with
      | SL [SI k; t; r] =>
          if k =? 0 then
            match field_by_tag flds t, get_bool r with
            | Some f, Some r' => Some (MField f r')
            | _, _ => None
            end
          else None
      | SL [SI k; t; r; SL ms] =>
          if k =? 1 then
            match field_by_tag flds t, get_bool r, opt_all (map (parse_member fuel' flds) ms) with
            | Some f, Some r', Some ms' => Some (MGroup f r' ms')
            | _, _, _ => None
            end
          else None
      | _ => None
      end
  end.

Definition parse_schema (s : sx) : option schema :=
  match s with
  | SL [fs; SL hs; SL msgs] =>
      match get_list parse_field fs with
      | None => None
      | Some flds =>
          match opt_all (map (parse_member 64 flds) hs),
                opt_all (map (fun m => match m with
                                       | SL [mt; SL ms] =>
                                           match get_str mt, opt_all (map (parse_member 64 flds) ms) with
                                           | Some mt', Some ms' => Some (mt', ms')
                                           | _, _ => None
                                           end
                                       | _ => None
                                       end) msgs) with
          | Some hs', Some msgs' => Some (mkSchema flds hs' msgs')
          | _, _ => None
          end
      end
  | _ => None
  end.

Definition run (s : sx) : sx :=
  match s with
  | SL [SI 2; sch; mt; es; vs] =>
      (* answer [wf_schema, outcome] for a schema carried by the request *)
      match parse_schema sch, get_str mt, parse_entries es, get_list parse_verdict vs with
      | Some Sc, Some mt', Some es', Some tbl =>
          SL [sx_of_bool (wf_schema Sc); sx_res (validate (check_from tbl) Sc (mkMsg mt' es'))]
      | None, _, _, _ => err_sx 1
      | _, None, _, _ => err_sx 2
      | _, _, None, _ => err_sx 3
      | _, _, _, None => err_sx 4
      end
  | SL [SI d; mt; es; vs] =>
      match dict d, get_str mt, parse_entries es, get_list parse_verdict vs with
      | Some Sc, Some mt', Some es', Some tbl => sx_res (validate (check_from tbl) Sc (mkMsg mt' es'))
      | None, _, _, _ => err_sx 1
      | _, None, _, _ => err_sx 2
      | _, _, None, _ => err_sx 3
      | _, _, _, None => err_sx 4
      end
  | _ => err_sx 5
  end.

Definition entry (line : str) : str := run_line run line.
