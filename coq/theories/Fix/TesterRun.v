(* Sx front end of the tester model (C20).  Every request is one helper call with the tester state
   passed explicitly (the harness reads the implementation's counters and registered keys before
   each call, so a divergence shows at the call where it arises).

   order  = [clord, [orig]?, [order_id]?, qty, cum, leaves, price, side, ticker, account, status]
   args   = [[clord]?, exec, status, [cum]?, [leaves]?, [last]?, [price]?, [order_qty]?, [orig]?, avg]
   state  = [order_id counter, exec_id counter, [registered keys], [[root ClOrdID, OrderID] ...]]
   msg    = [[tag, 0, text] | [tag, 1, number] ...]

   [1, u, state, order, args]       -> [1, msg, oid', eid', oids'] | [0, [], oid', eid', oids']   (AssertionError)
   [2, msg_type, [clord]?, [orig]?, status] -> [1, msg] | [2] (TagNotFoundError) | [3] (AssertionError)
   [3, k, ...]                      -> [msg_type, msg]   session message factories
   [4, order, msg]                  -> [outcome, order'] process_execution_report
   [5, state, key]                  -> [registered keys']
   [7, k, msg]                      -> [[tag text, value text] ...]   the message rendered with print_q k
   [8, state, kind]                 -> state'   a bookkeeping method (0 reset_messages, 1 set_next_num, 2 query,
                                       3 factory, 4 cancel reject, 5 acceptor traffic) *)
From Coq Require Import ZArith NArith List Bool.
From AF Require Import Base.Sx Py.Str Fix.OrderStatus Fix.Tester Fix.TesterPrint.
Import ListNotations.
Open Scope Z_scope.

Definition sx_val (f : N * val) : sx :=
  match snd f with
  | VS s => SL [sx_of_N (fst f); SI 0; sx_of_str s]
  | VQ z => SL [sx_of_N (fst f); SI 1; SI z]
  end.
Definition sx_msg (m : msg) : sx := SL (map sx_val m).

Definition get_field (s : sx) : option (N * val) :=
  match s with
  | SL [t; SI 0; v] => match get_N t, get_str v with Some t, Some v => Some (t, VS v) | _, _ => None end
  | SL [t; SI 1; SI z] => option_map (fun t => (t, VQ z)) (get_N t)
  | _ => None
  end.

Definition get_order (s : sx) : option order :=
  match s with
  | SL [clord; orig; oid; SI qty; SI cum; SI leaves; SI price; side; ticker; account; status] =>
      match get_str clord, get_opt get_str orig, get_opt get_str oid, get_str side, get_str ticker,
            get_str account, get_N status with
      | Some clord, Some orig, Some oid, Some side, Some ticker, Some account, Some status =>
          Some (mkOrder clord orig oid qty cum leaves price side ticker account status)
      | _, _, _, _, _, _, _ => None
      end
  | _ => None
  end.

Definition sx_order (o : order) : sx :=
  SL [sx_of_str (o_clord o); sx_of_opt sx_of_str (o_orig o); sx_of_opt sx_of_str (o_oid o);
      SI (o_qty o); SI (o_cum o); SI (o_leaves o); SI (o_price o);
      sx_of_str (o_side o); sx_of_str (o_ticker o); sx_of_str (o_account o); sx_of_N (o_status o)].

Definition get_args (s : sx) : option eargs :=
  match s with
  | SL [clord; ex; st; cum; leaves; last; price; oqty; orig; SI avg] =>
      match get_opt get_str clord, get_N ex, get_N st, get_opt get_z cum, get_opt get_z leaves,
            get_opt get_z last, get_opt get_z price, get_opt get_z oqty, get_opt get_str orig with
      | Some clord, Some ex, Some st, Some cum, Some leaves, Some last, Some price, Some oqty, Some orig =>
          Some (mkArgs clord ex st cum leaves last price oqty orig avg)
      | _, _, _, _, _, _, _, _, _ => None
      end
  | _ => None
  end.

Definition get_oid_entry (s : sx) : option (str * Z) :=
  match s with
  | SL [k; SI v] => option_map (fun k => (k, v)) (get_str k)
  | _ => None
  end.

Definition get_state (s : sx) : option tstate :=
  match s with
  | SL [SI oid; SI eid; reg; oids] =>
      match get_list get_str reg, get_list get_oid_entry oids with
      | Some reg, Some oids => Some (mkT oid eid reg oids)
      | _, _ => None
      end
  | _ => None
  end.

Definition sx_oids (t : tstate) : sx := SL (map (fun e => SL [sx_of_str (fst e); SI (snd e)]) (t_oids t)).

Definition sx_outcome (r : outcome) : sx :=
  match r with
  | RetTrue => SI 1 | RetFalse => SI 0 | RaisedFIXError => SI 2 | RaisedValueError => SI 3
  | RaisedTagNotFound => SI 4
  end.

Definition get_pair (s : sx) : option (N * str) :=
  match s with
  | SL [t; v] => match get_N t, get_str v with Some t, Some v => Some (t, v) | _, _ => None end
  | _ => None
  end.

Definition sx_factory (r : str * msg) : sx := SL [sx_of_str (fst r); sx_msg (snd r)].

Definition run (req : sx) : sx :=
  match req with
  | SL [SI 1; SI u; st; o; a] =>
      match get_state st, get_order o, get_args a with
      | Some st, Some o, Some a =>
          match fix_exec_report_msg u st o a with
          | Ok m t' => SL [SI 1; sx_msg m; SI (t_oid t'); SI (t_eid t'); sx_oids t']
          | AssertionFailed t' => SL [SI 0; SL []; SI (t_oid t'); SI (t_eid t'); sx_oids t']
          end
      | _, _, _ => err_sx 1
      end
  | SL [SI 2; mt; clord; orig; st] =>
      match get_str mt, get_opt get_str clord, get_opt get_str orig, get_N st with
      | Some mt, Some clord, Some orig, Some st =>
          match fix_cxlrep_reject_msg mt clord orig st with
          | ROk m => SL [SI 1; sx_msg m]
          | RTagNotFound => SL [SI 2]
          | RAssertion => SL [SI 3]
          end
      | _, _, _, _ => err_sx 1
      end
  | SL [SI 3; SI 0; tags] =>
      match get_list get_pair tags with Some tags => sx_factory (msg_logon tags) | None => err_sx 1 end
  | SL [SI 3; SI 1] => sx_factory msg_logout
  | SL [SI 3; SI 2; id] =>
      match get_opt get_str id with Some id => sx_factory (msg_heartbeat id) | None => err_sx 1 end
  | SL [SI 3; SI 3; id] =>
      match get_str id with Some id => sx_factory (msg_test_request id) | None => err_sx 1 end
  | SL [SI 3; SI 4; SI n; SI new; g] =>
      match get_bool g with Some g => sx_factory (msg_sequence_reset n new g) | None => err_sx 1 end
  | SL [SI 3; SI 5; SI b; SI e] => sx_factory (msg_resend_request b e)
  | SL [SI 4; o; m] =>
      match get_order o, get_list get_field m with
      | Some o, Some m =>
          let '(o', r) := process_execution_report o m in SL [sx_outcome r; sx_order o']
      | _, _ => err_sx 1
      end
  | SL [SI 5; st; key] =>
      match get_state st, get_str key with
      | Some st, Some key => sx_of_list sx_of_str (t_reg (register st key))
      | _, _ => err_sx 1
      end
  | SL [SI 8; st; SI kind] =>
      match get_state st with
      | Some st =>
          let b := if kind =? 0 then BResetMessages else if kind =? 1 then BSetNextNum None None
                   else if kind =? 2 then BQuery else if kind =? 3 then BFactory
                   else if kind =? 4 then BCancelReject else BAcceptor in
          let t' := bookkeeping st b in
          SL [SI (t_oid t'); SI (t_eid t'); sx_of_list sx_of_str (t_reg t'); sx_oids t']
      | None => err_sx 1
      end
  | SL [SI 7; SI k; m] =>
      match get_list get_field m with
      | Some m => SL (map (fun e => SL [sx_of_str (fst e); sx_of_str (snd e)]) (flat (print_q (Z.to_nat k)) m))
      | None => err_sx 1
      end
  | _ => err_sx 2
  end.

Definition entry (line : str) : str := run_line run line.
