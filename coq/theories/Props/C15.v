(* C15 - schema validation accepts exactly the messages the FIX dictionary allows.
   Theorems only; proofs in AF.Lemmas.SchemaL.

   [validate vc Sc m] (Fix/SchemaModel.v) is the model of FIXSchema.validate - with
   fixes/C15-required-groups-header-members.patch applied - over a parsed schema [Sc];
   [conforms vc Sc m] (Fix/SchemaSpec.v) is the declarative reading of "built according to the
   dictionary".  Everything is parametric in [vc f s], the exception class the single-value check
   SchemaField.validate_value raises for field f on text s (None: accepted) - that check is C19's
   subject.  [wf_schema] is computable and holds of both regenerated dictionaries;
   [keys_unique] is the representation invariant of FIXContainer (an OrderedDict per level).

   The dictionary parse (component resolution with its retry loop, merge, header and message
   parsing) is modelled in Fix/SchemaParse.v over the raw declarations xml.etree gives; its
   theorems are at the end of this file (proofs in AF.Lemmas.SchemaParseL).  Outside every model:
   the XML tokenisation by xml.etree. *)
From Coq Require Import NArith List Bool.
From Coq Require Import Permutation.
From AF Require Import Base.Sx Py.Str Fix.SchemaModel Fix.SchemaSpec Fix.SchemaParse Lemmas.SchemaL Lemmas.SchemaParseL.
From AFGen Require GenSchema.
Import ListNotations.

(* ---- the two regenerated dictionaries are well formed ---- *)
Theorem C15_fix44_wf : wf_schema GenSchema.FIX44.schema = true.
Proof. exact fix44_wf. Qed.
Print Assumptions C15_fix44_wf.

Theorem C15_tt_wf : wf_schema GenSchema.TT.schema = true.
Proof. exact tt_wf. Qed.
Print Assumptions C15_tt_wf.

(* ---- validate accepts exactly the conforming messages, for EVERY well-formed schema ---- *)
Theorem C15_sound : forall vc Sc, wf_schema Sc = true -> forall m,
  keys_unique (tags m) = true ->
  validate vc Sc m = Ok -> conforms vc Sc m.
Proof. exact validate_sound. Qed.
Print Assumptions C15_sound.

Theorem C15_complete : forall vc Sc, wf_schema Sc = true -> forall m,
  conforms vc Sc m -> validate vc Sc m = Ok.
Proof. exact validate_complete. Qed.
Print Assumptions C15_complete.

(* ---- the only exception validate adds to those of the single-value check is the message error ---- *)
Theorem C15_error_class : forall vc Sc m,
  (forall f s e, In s (msg_strs m) -> vc f s = Some e -> e = EFIXMessage) ->
  validate vc Sc m = Ok \/ validate vc Sc m = Exc EFIXMessage.
Proof. exact validate_class. Qed.
Print Assumptions C15_error_class.

(* ... so every non-conforming message is rejected with the message error and nothing else *)
Theorem C15_nonconforming_rejected : forall vc Sc m,
  wf_schema Sc = true -> keys_unique (tags m) = true ->
  (forall f s e, In s (msg_strs m) -> vc f s = Some e -> e = EFIXMessage) ->
  ~ conforms vc Sc m -> validate vc Sc m = Exc EFIXMessage.
Proof. exact nonconforming_rejected. Qed.
Print Assumptions C15_nonconforming_rejected.

(* the value-class hypothesis is needed: whatever class the single-value check raises escapes
   (ledger D23: validate_value fails an assertion on the empty string) *)
Theorem C15_error_class_needs_value_class :
  exists vc Sc m, wf_schema Sc = true /\ keys_unique (tags m) = true /\ validate vc Sc m = Exc EAssertion.
Proof. exact ex_value_class_escapes. Qed.
Print Assumptions C15_error_class_needs_value_class.

(* the unique-keys hypothesis of C15_sound is needed (and always met by FIXContainer) *)
Theorem C15_sound_needs_unique_keys :
  exists Sc m, wf_schema Sc = true /\ validate accept_all Sc m = Ok /\ ~ conforms accept_all Sc m.
Proof. exact ex_unique_keys_needed. Qed.
Print Assumptions C15_sound_needs_unique_keys.

(* ---- single-fault mutations: a conforming message/item stops conforming (hence, by
        C15_nonconforming_rejected, is refused with the message error) ---- *)

(* message level *)
Theorem C15_fault_unknown_msg_type : forall vc Sc m,
  ~ In (msg_type m) (map fst (s_messages Sc)) -> ~ conforms vc Sc m.
Proof. exact msg_unknown_type. Qed.
Print Assumptions C15_fault_unknown_msg_type.

(* missing required field OR group *)
Theorem C15_fault_missing_required : forall vc Sc, wf_schema Sc = true -> forall mt c M mem,
  In (mt, M) (s_messages Sc) -> In mem M -> mreq mem = true ->
  ~ conforms vc Sc (mkMsg mt (remove_tag (mtag mem) c)).
Proof. exact msg_missing_required. Qed.
Print Assumptions C15_fault_missing_required.

Theorem C15_fault_missing_required_header : forall vc Sc mt c mem,
  In mem (s_header Sc) -> mreq mem = true -> mtag mem <> TAG8 -> present TAG8 c ->
  ~ conforms vc Sc (mkMsg mt (remove_tag (mtag mem) c)).
Proof. exact msg_missing_required_header. Qed.
Print Assumptions C15_fault_missing_required_header.

(* tag unknown to the dictionary, or not allowed in that message *)
Theorem C15_fault_foreign_tag : forall vc Sc, wf_schema Sc = true -> forall mt c M t v n,
  In (mt, M) (s_messages Sc) -> t <> TAG10 ->
  (forall mem, In mem (s_header Sc ++ M) -> mtag mem <> t) ->
  ~ conforms vc Sc (mkMsg mt (insert_at n (t, v) c)).
Proof. exact msg_foreign_tag. Qed.
Print Assumptions C15_fault_foreign_tag.

(* a member holding a non-conforming value: refused value, wrong kind, or a group with a bad item *)
Theorem C15_fault_bad_member_value : forall vc Sc, wf_schema Sc = true -> forall mt c M mem v,
  In (mt, M) (s_messages Sc) -> In mem (s_header Sc ++ M) -> mtag mem <> TAG10 ->
  In (mtag mem) (map fst c) -> ~ conf_member vc mem v ->
  ~ conforms vc Sc (mkMsg mt (set_value (mtag mem) v c)).
Proof. exact msg_bad_member_value. Qed.
Print Assumptions C15_fault_bad_member_value.

Theorem C15_fault_refused_value : forall vc f r s e,
  vc f s = Some e -> ~ conf_member vc (MField f r) (VStr s).
Proof. exact bad_value_nonconf. Qed.
Print Assumptions C15_fault_refused_value.

Theorem C15_fault_group_for_plain : forall vc f r items, ~ conf_member vc (MField f r) (VGrp items).
Proof. exact group_for_plain_nonconf. Qed.
Print Assumptions C15_fault_group_for_plain.

Theorem C15_fault_plain_for_group : forall vc f r ms s, ~ conf_member vc (MGroup f r ms) (VStr s).
Proof. exact plain_for_group_nonconf. Qed.
Print Assumptions C15_fault_plain_for_group.

(* any nesting depth: a fault in one item makes the group value non-conforming, which is a bad
   member value of the enclosing item (C15_fault_item_bad_member_value) or message *)
Theorem C15_fault_propagates : forall vc f r ms a it b,
  ~ conf_item vc ms it -> ~ conf_member vc (MGroup f r ms) (VGrp (a ++ it :: b)).
Proof. exact bad_item_nonconf. Qed.
Print Assumptions C15_fault_propagates.

(* inside an item of a group with members ms *)
Theorem C15_fault_item_missing_required : forall vc ms mem it,
  In mem ms -> mreq mem = true -> ~ conf_item vc ms (remove_tag (mtag mem) it).
Proof. exact item_missing_required. Qed.
Print Assumptions C15_fault_item_missing_required.

Theorem C15_fault_item_missing_first : forall vc m0 ms it,
  ~ conf_item vc (m0 :: ms) (remove_tag (mtag m0) it).
Proof. exact item_missing_first. Qed.
Print Assumptions C15_fault_item_missing_first.

Theorem C15_fault_item_foreign_member : forall vc ms t v n it,
  (forall mem, In mem ms -> mtag mem <> t) -> ~ conf_item vc ms (insert_at n (t, v) it).
Proof. exact item_foreign_member. Qed.
Print Assumptions C15_fault_item_foreign_member.

Theorem C15_fault_item_bad_member_value : forall vc ms mem v a b,
  NoDup (map mtag ms) -> In mem ms -> ~ conf_member vc mem v ->
  ~ conf_item vc ms (a ++ (mtag mem, v) :: b).
Proof. exact item_bad_member_value. Qed.
Print Assumptions C15_fault_item_bad_member_value.

Theorem C15_fault_item_out_of_order : forall vc ms a e1 e2 b,
  NoDup (map mtag ms) ->
  conf_item vc ms (a ++ e1 :: e2 :: b) -> ~ conf_item vc ms (a ++ e2 :: e1 :: b).
Proof. exact item_out_of_order. Qed.
Print Assumptions C15_fault_item_out_of_order.

(* ---- non-vacuity and the repaired ledger items, on the regenerated FIX44 dictionary ---- *)

(* a NewOrderList with NoOrders > NoPartyIDs > NoPartySubIDs (depth 3) has unique keys and conforms *)
Theorem C15_nonvacuous :
  keys_unique (tags ex_msg) = true /\ conforms accept_all GenSchema.FIX44.schema ex_msg.
Proof. exact ex_msg_conforms. Qed.
Print Assumptions C15_nonvacuous.

(* ledger D3, repaired: NewOrderList without its required group NoOrders is refused *)
Theorem C15_required_group_enforced :
  validate accept_all GenSchema.FIX44.schema (mkMsg [69%N] ex_head) = Exc EFIXMessage
  /\ ~ conforms accept_all GenSchema.FIX44.schema (mkMsg [69%N] ex_head).
Proof. exact ex_required_group_enforced. Qed.
Print Assumptions C15_required_group_enforced.

(* a plain member of a group item given as a group is a message error (was an AssertionError) *)
Theorem C15_group_for_plain_in_item_rejected :
  validate accept_all GenSchema.FIX44.schema
    (mkMsg [69%N] (ex_head ++ [(T 73, VGrp [[(T 11, VStr [99%N]); (T 67, VGrp [[(T 1, VStr [97%N])]]); (T 54, VStr [49%N])]])]))
  = Exc EFIXMessage.
Proof. exact ex_group_for_plain_in_item. Qed.
Print Assumptions C15_group_for_plain_in_item_rejected.

(* header members met in a message are checked (were skipped) *)
Theorem C15_header_member_checked :
  validate refuse_43 GenSchema.FIX44.schema
    (mkMsg [69%N] ((T 43, VStr [81%N]) :: ex_head ++ [(T 73, VGrp [ex_item])])) = Exc EFIXMessage.
Proof. exact ex_header_member_checked. Qed.
Print Assumptions C15_header_member_checked.

(* first-member rule at nesting depth 3 *)
Theorem C15_fault_at_depth3_rejected :
  validate accept_all GenSchema.FIX44.schema (mkMsg [69%N] (ex_head ++ [(T 73, VGrp [ex_item_bad_depth3])]))
  = Exc EFIXMessage.
Proof. exact ex_fault_at_depth3. Qed.
Print Assumptions C15_fault_at_depth3_rejected.

(* ---- the outcome does not depend on the order in which components are declared ---- *)

(* tie of the parse model to the real parser on the real inputs: run on the raw declarations of
   the XML files it returns exactly the dump of the objects FIXSchema built from them *)
Theorem C15_parse_fix44 : parse GenSchema.FIX44.decls = inr GenSchema.FIX44.schema.
Proof. exact fix44_parse. Qed.
Print Assumptions C15_parse_fix44.

Theorem C15_parse_tt : parse GenSchema.TT.decls = inr GenSchema.TT.schema.
Proof. exact tt_parse. Qed.
Print Assumptions C15_parse_tt.

(* for every declaration list without duplicate names and every permutation of it: parsing
   succeeds for one iff for the other, with EQUAL schemas *)
Theorem C15_component_order_independent : forall r cs',
  NoDup (map fst (r_comps r)) -> Permutation (r_comps r) cs' ->
  forall s, parse r = inr s <-> parse_with r cs' = inr s.
Proof. exact parse_order_iff. Qed.
Print Assumptions C15_component_order_independent.

(* ... the component tables agree on every name ... *)
Theorem C15_component_table_order_independent : forall r cs',
  NoDup (map fst (r_comps r)) -> Permutation (r_comps r) cs' ->
  forall cm, components_of r (r_comps r) = inr cm ->
  exists cm', components_of r cs' = inr cm' /\ forall n, lookup cm n = lookup cm' n.
Proof. exact components_order_independent. Qed.
Print Assumptions C15_component_table_order_independent.

(* ... hence validate gives the same outcome for every message *)
Theorem C15_validate_order_independent : forall r cs',
  NoDup (map fst (r_comps r)) -> Permutation (r_comps r) cs' ->
  forall s, parse r = inr s ->
  exists s', parse_with r cs' = inr s' /\ forall vc m, validate vc s' m = validate vc s m.
Proof. exact validate_order_independent. Qed.
Print Assumptions C15_validate_order_independent.

(* a dictionary the parser refuses (circular / undeclared reference, duplicate member, ...) is refused in every order *)
Theorem C15_parse_failure_order_independent : forall r cs',
  NoDup (map fst (r_comps r)) -> Permutation (r_comps r) cs' ->
  (exists e, parse r = inl e) <-> (exists e, parse_with r cs' = inl e).
Proof. exact parse_failure_order_independent. Qed.
Print Assumptions C15_parse_failure_order_independent.

(* the fuel of the retry loop (number of declarations) is never what stops it *)
Theorem C15_resolve_fuel_sufficient : forall flds grp fuel cm pending,
  (length pending <= fuel)%nat ->
  resolve flds grp fuel cm pending = resolve flds grp (length pending) cm pending.
Proof. exact resolve_fuel. Qed.
Print Assumptions C15_resolve_fuel_sufficient.

(* instance: every one of the 104! declaration orders of tests/FIX44.xml parses to the dumped schema *)
Theorem C15_fix44_any_component_order : forall cs',
  Permutation (r_comps GenSchema.FIX44.decls) cs' ->
  parse_with GenSchema.FIX44.decls cs' = inr GenSchema.FIX44.schema.
Proof. exact fix44_any_order. Qed.
Print Assumptions C15_fix44_any_component_order.
