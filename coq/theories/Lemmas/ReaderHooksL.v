(* A dispatcher that raises loses nothing: what the raising pass leaves in the buffer, decoded by a later pass,
   completes exactly the deliveries of the pass whose dispatcher never raises. *)
From Coq Require Import ZArith NArith List Bool Lia.
From AF Require Import Base.Sx Py.Str Fix.Container Fix.Codec Fix.ReaderHooks.
Import ListNotations.
Open Scope N_scope.

Lemma reader_loop_acc : forall G bs f buf acc,
  reader_loop G bs f buf acc =
  (fst (fst (reader_loop G bs f buf [])), rev acc ++ snd (fst (reader_loop G bs f buf [])), snd (reader_loop G bs f buf [])).
Proof.
  intros G bs f. induction f as [|f IH]; intros buf acc.
  - cbn. rewrite app_nil_r. reflexivity.
  - cbn [reader_loop]. destruct (decode G bs buf true) as [[[m n] raw]|e].
    + destruct m as [m|]; [destruct raw as [r|]|].
      * rewrite (IH _ ((m, r) :: acc)), (IH _ [(m, r)]). cbn [fst snd rev app]. rewrite <- app_assoc. reflexivity.
      * rewrite (IH _ ((m, []) :: acc)), (IH _ [(m, [])]). cbn [fst snd rev app]. rewrite <- app_assoc. reflexivity.
      * destruct (0 <? n)%Z; [apply IH|]. cbn. rewrite app_nil_r. reflexivity.
    + cbn. rewrite app_nil_r. reflexivity.
Qed.

Theorem reader_loop_h_loses_nothing : forall raises G bs f buf acc b1 o1 s1,
  reader_loop_h raises G bs f buf acc = (b1, o1, s1) ->
  reader_loop G bs f buf acc = (b1, o1, s1)
  \/ exists f' b2 o2 s2, (f' <= f)%nat /\ s1 = 1 /\ reader_loop G bs f' b1 [] = (b2, o2, s2)
                         /\ reader_loop G bs f buf acc = (b2, o1 ++ o2, s2).
Proof.
  intros raises G bs f. induction f as [|f IH]; intros buf acc b1 o1 s1 H.
  - left. exact H.
  - cbn [reader_loop_h] in H. cbn [reader_loop].
    destruct (decode G bs buf true) as [[[m n] raw]|e]; [|left; exact H].
    destruct m as [m|].
    + destruct raw as [r0|];
      (destruct (raises (length acc));
       [ right; inversion H; subst b1 o1 s1;
         match goal with |- context [reader_loop G bs f ?B (?x :: acc)] =>
           destruct (reader_loop G bs f B []) as [[b2 o2] s2] eqn:E2;
           exists f, b2, o2, s2; split; [lia|]; split; [reflexivity|]; split; [exact E2|];
           rewrite reader_loop_acc, E2; reflexivity
         end
       | destruct (IH _ _ _ _ _ H) as [L|[f' [b2 [o2 [s2 [Hle [Hs [H2 H3]]]]]]]]; [left; exact L|];
         right; exists f', b2, o2, s2; repeat split; try assumption; lia ]).
    + destruct (0 <? n)%Z; [|left; exact H].
      destruct (IH _ _ _ _ _ H) as [L|[f' [b2 [o2 [s2 [Hle [Hs [H2 H3]]]]]]]]; [left; exact L|].
      right. exists f', b2, o2, s2. repeat split; try assumption. lia.
Qed.

(* refinement: a dispatcher that never raises is the model of Fix/Codec.v *)
Theorem reader_loop_h_never : forall raises G bs f buf acc,
  (forall k, raises k = false) -> reader_loop_h raises G bs f buf acc = reader_loop G bs f buf acc.
Proof.
  intros raises G bs f. induction f as [|f IH]; intros buf acc Hn; [reflexivity|].
  cbn [reader_loop_h reader_loop]. destruct (decode G bs buf true) as [[[m n] raw]|e]; [|reflexivity].
  destruct m as [m|].
  - rewrite Hn. destruct raw; apply IH; exact Hn.
  - destruct (0 <? n)%Z; [apply IH; exact Hn|reflexivity].
Qed.

(* example: both frames of ReaderL's example stream arrive in one read and the dispatch of the FIRST one raises: the pass
   ends with status 1 (exception logged) having consumed frame A; the next pass over what is left delivers frame B *)
From AF Require Import Lemmas.ReaderL.
From AFGen Require Import GenGroups.
Lemma raising_dispatch_example :
  let r1 := reader_loop_h (fun k => Nat.eqb k 0) GenGroups.table beginstring (S (length (ex_FA ++ ex_FB))) (ex_FA ++ ex_FB) [] in
  r1 = (ex_FB, firstn 1 ex_both, 1)
  /\ reader_loop GenGroups.table beginstring (S (length ex_FB)) (fst (fst r1)) [] = ([], skipn 1 ex_both, 0).
Proof. vm_compute. split; reflexivity. Qed.
