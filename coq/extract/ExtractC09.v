(* Extraction of the counter-ledger / restart model (C09).  ExtrOcamlBasic only; Z/N/positive/nat stay Coq
   datatypes.  The path is relative to coq/, where make and coqc are run. *)
From Coq Require Extraction.
From Coq Require Import ExtrOcamlBasic.
From AF Require Import Fix.RestartRun.
Extraction Language OCaml.
Extraction "../ocaml/build/C09/model.ml" entry.
