(* Model of the heartbeat watchdog of asyncfix/connection.py (C12).  No proofs here.

   Follows, line by line and including their quirks:
     heartbeat_timer_task (one loop iteration = tick), send_test_req, the TESTREQUEST gate of
     send_msg, disconnect, _process_testrequest, _process_heartbeat, and - for the part of
     _process_message that decides whether the heartbeat protocol sees a message at all -
     _check_seqnum_gaps (ResendRequest / RESENDREQ_AWAITING), the dispatch that follows it and
     _finalize_message (_message_last_time, return to ACTIVE when the gap is closed).

   Time is Z milliseconds since the Unix epoch (time.time() * 1000); int(time.time()) is
   now / 1000 (floor).  The heartbeat interval hb is in seconds, as in the constructor.
   The thresholds, the sleep period and the ConnectionState numbers come from the regenerated
   AFGen.GenTimer.

   Sequence numbers are relative: an inbound message carries d = MsgSeqNum - next_num_in
   (0 = in sequence, > 0 = behind a gap); the state carries s_gap = _max_seq_num_resend -
   next_num_in while a resend is awaited (0 otherwise). *)
From Coq Require Import ZArith NArith List Bool.
From AF Require Import Base.Sx Py.Str.
From AFGen Require Import GenTimer.
Import ListNotations.
Open Scope Z_scope.

(* the watchdog-relevant fields of a connection object *)
Record st := mkSt {
  s_state : Z;            (* _connection_state (IntEnum number) *)
  s_hb : Z;               (* _heartbeat_period, seconds *)
  s_mlt : Z;              (* _message_last_time in ms; 0 = the falsy 0.0 *)
  s_id : option Z;        (* _test_req_id *)
  s_conn : bool;          (* _socket_writer and _socket_reader are set *)
  s_gap : Z               (* _max_seq_num_resend - next_num_in while RESENDREQ_AWAITING, else 0 *)
}.

Inductive kind := KHeartbeat | KTestRequest | KLogout | KResendRequest.

Inductive out :=
| OWire (k : kind) (rid : option str)   (* frame handed to the transport; rid = its tag 112 *)
| ODisconnect                           (* socket closed, state set, on_disconnect called *)
| OSpin                                 (* the timer loop raises before its sleep: it spins *)
| ORaise                                (* exception raised to the calling application code *)
| OUnmodelled.                          (* combination outside this model *)

(* valid inbound messages, by what the watchdog distinguishes *)
Inductive msg :=
| MHeartbeat (rid : option str)
| MTestRequest (rid : option str)
| MApp
| MGapFill (nw : Z).              (* SequenceReset, NewSeqNo = next_num_in + nw *)

Inductive ev :=
| Tick (t : Z)                    (* one iteration of heartbeat_timer_task with time.time() = t *)
| Recv (t : Z) (d : Z) (m : msg)  (* _process_message at t of a valid message numbered next_num_in + d *)
| AppProbe (t : Z)                (* application calls send_test_req() at t *)
| AppRaw (t : Z) (rid : str).     (* application calls send_msg(TestRequest(112 = rid)) at t *)

Definition ev_time (e : ev) : Z :=
  match e with Tick t => t | Recv t _ _ => t | AppProbe t => t | AppRaw t _ => t end.

Definition thr (c : Z * Z) (hb : Z) : Z := fst c * hb * 1000 + snd c.

(* Python truthiness of _test_req_id: None and 0 are falsy *)
Definition truthy (i : option Z) : bool :=
  match i with Some z => negb (z =? 0) | None => false end.

Definition set_mlt (s : st) (m : Z) : st := mkSt (s_state s) (s_hb s) m (s_id s) (s_conn s) (s_gap s).
Definition set_id (s : st) (i : option Z) : st := mkSt (s_state s) (s_hb s) (s_mlt s) i (s_conn s) (s_gap s).
Definition set_state (s : st) (x g : Z) : st := mkSt x (s_hb s) (s_mlt s) (s_id s) (s_conn s) g.

(* the session is logged on and the reader dispatches heartbeat-protocol messages *)
Definition session_up (s : st) : bool :=
  (s_state s =? ST_ACTIVE) || (s_state s =? ST_RESENDREQ_AWAITING).

(* disconnect(DISCONNECTED_BROKEN_CONN, logout_message): only when the state is above BROKEN_CONN *)
Definition disconnect (s : st) (logout : bool) : st * list out :=
  if ST_DISCONNECTED_BROKEN_CONN <? s_state s then
    (mkSt ST_DISCONNECTED_BROKEN_CONN (s_hb s) 0 None false 0,
     (if logout then [OWire KLogout None] else []) ++ [ODisconnect])
  else (s, []).

Definition testreq_frame (n : Z) : out := OWire KTestRequest (Some (z_to_dec n)).

(* one iteration of the `while True` body of heartbeat_timer_task *)
Definition tick (now : Z) (s : st) : st * list out :=
  if negb (s_conn s) then (s, [])                 (* not connected: sleep, continue *)
  else
    (* if state in (ACTIVE, RESENDREQ_AWAITING): if tm - last > hb - 1: if not id: send_test_req(); last = tm
       (the clock is moved only when the probe is sent) *)
    let r1 :=
      if session_up s && (thr thr_probe (s_hb s) <? now - s_mlt s) then
        if truthy (s_id s) then Some (s, [])
        else match s_id s with
             | Some _ => None                     (* id 0: `is not None` -> FIXConnectionError *)
             | None =>
                 let n := now / 1000 in           (* int(time.time()) *)
                 Some (set_mlt (set_id s (Some n)) now, [testreq_frame n])
             end
      else Some (s, []) in
    match r1 with
    | None => (s, [OSpin])
    | Some (s1, o1) =>
        (* if last and tm - last > hb * 2: disconnect *)
        let '(s2, o2) :=
          if negb (s_mlt s1 =? 0) && (thr thr_dead (s_hb s1) <? now - s_mlt s1)
          then disconnect s1 false else (s1, []) in
        (* if id and tm - id > hb * 2 and tm - last > hb * 2: disconnect *)
        let '(s3, o3) :=
          match s_id s2 with
          | Some n =>
              if negb (n =? 0) && (thr thr_treq (s_hb s2) <? now - n * 1000)
                 && (thr thr_treq_silence (s_hb s2) <? now - s_mlt s2)
              then disconnect s2 false else (s2, [])
          | None => (s2, [])
          end in
        (s3, o1 ++ o2 ++ o3)
    end.

(* int(hbt_msg.get(112, "0")) with `except: 0` *)
Definition parse_id (v : str) : Z := match py_int v with Some z => z | None => 0 end.

(* _check_seqnum_gaps: a number above the expected one asks for a resend once and is not valid *)
Definition check_gap (d : Z) (s : st) : st * list out * bool :=
  if 0 <? d then
    if s_state s =? ST_RESENDREQ_AWAITING then (s, [], false)
    else (set_state s ST_RESENDREQ_AWAITING d, [OWire KResendRequest None], false)
  else (s, [], true).

(* the TESTREQUEST / HEARTBEAT / application branches of the dispatch: they do not look at validity *)
Definition dispatch (m : msg) (s : st) : st * list out :=
  match m with
  | MTestRequest rid =>
      (s, [OWire KHeartbeat (Some (match rid with Some v => v | None => [48%N] end))])
  | MHeartbeat rid =>
      match s_id s, rid with
      | Some n, Some v =>
          if n =? parse_id v then (set_id s None, [])
          else disconnect s true
      | _, _ => (s, [])
      end
  | MApp => (s, [])
  | MGapFill _ => (s, [])
  end.

(* _finalize_message of a message that advances next_num_in by adv (1, or nw for a gap fill):
   the resend wait ends when the finalized number reaches _max_seq_num_resend *)
Definition finalize (now adv : Z) (s : st) : st :=
  let s1 :=
    if s_state s =? ST_RESENDREQ_AWAITING then
      if s_gap s <=? adv - 1 then set_state s ST_ACTIVE 0 else set_state s (s_state s) (s_gap s - adv)
    else s in
  set_mlt s1 now.

(* a valid message numbered next_num_in + d arrives at `now` (socket_read_task -> _process_message) *)
Definition recv (now d : Z) (m : msg) (s : st) : st * list out :=
  if negb (s_conn s) || (s_state s <=? ST_DISCONNECTED_BROKEN_CONN) then (s, [])   (* nothing is read *)
  else if negb (session_up s) || (d <? 0) then (s, [OUnmodelled])
  else
    match m with
    | MGapFill nw =>
        (* _process_seqreset moves next_num_in to NewSeqNo first; only the in-sequence form is modelled *)
        if negb (d =? 0) || (nw <? 1) then (s, [OUnmodelled])
        else (finalize now nw s, [])
    | _ =>
        let '(s0, o0, valid) := check_gap d s in
        let '(s1, o1) := dispatch m s0 in
        ((if valid then finalize now 1 s1 else s1), o0 ++ o1)   (* finally: if is_valid_msg_num *)
    end.

(* send_test_req() called by application code *)
Definition app_probe (now : Z) (s : st) : st * list out :=
  match s_id s with
  | Some _ => (s, [ORaise])                        (* "Another test request already pending" *)
  | None =>
      let n := now / 1000 in
      let s' := set_id s (Some n) in               (* the id is set before send_msg may raise *)
      if negb (s_conn s) || (s_state s <? ST_NETWORK_CONN_ESTABLISHED) then (s', [ORaise])
      else if session_up s then (s', [testreq_frame n])
      else (s', [OUnmodelled])
  end.

(* send_msg(FIXMessage(TESTREQUEST, {112: rid})) called by application code: only the pending id may go out *)
Definition app_raw (now : Z) (rid : str) (s : st) : st * list out :=
  if negb (s_conn s) || (s_state s <? ST_NETWORK_CONN_ESTABLISHED) then (s, [ORaise])
  else if session_up s then
    match s_id s with
    | None => (s, [ORaise])                        (* the TESTREQUEST gate *)
    | Some n => if str_eqb rid (z_to_dec n) then (s, [OWire KTestRequest (Some rid)]) else (s, [ORaise])
    end
  else (s, [OUnmodelled]).

Definition step (s : st) (e : ev) : st * list out :=
  match e with
  | Tick t => tick t s
  | Recv t d m => recv t d m s
  | AppProbe t => app_probe t s
  | AppRaw t rid => app_raw t rid s
  end.

Record row := mkRow { r_ev : ev; r_out : list out; r_st : st }.

(* the run of a scenario: per event, what was emitted and the state afterwards *)
Fixpoint trace (s : st) (evs : list ev) : list row :=
  match evs with
  | [] => []
  | e :: r => let '(s', o) := step s e in mkRow e o s' :: trace s' r
  end.

Definition final (s : st) (evs : list ev) : st := fold_left (fun s e => fst (step s e)) evs s.
