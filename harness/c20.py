"""C20 - the bundled test helper (asyncfix/fix_tester.py : FIXTester) fabricates valid, consistent
counterparty traffic.

Theorems (Props/C20.v) are about coq/theories/Fix/Tester.v.  This harness

 1. ties Tester.v to fix_tester.py: histories of helper calls on real FIXTester / FIXNewOrderSingle objects
    (orders driven through new / ack / fills / cancel / replace / reject sequences by the helper itself, with
    sensible, perturbed and random argument combinations, including those the helper's assertions refuse);
    every fix_exec_report_msg / fix_cxlrep_reject_msg / session-factory call and every
    process_execution_report of a fabricated report is compared with the extracted model (message tags and
    values in order, AssertionError-or-not, id counters, registered keys, the order's fields afterwards);
 2. runs the property oracle on every fabricated message: the REAL FIXSchema(tests/FIX44.xml).validate, an
    independent FIX float-layout check of the numeric tags, the arithmetic constraints, ExecID freshness,
    OrderID stability, mandatory tags, and the REAL process_execution_report / process_cancel_rej_report on
    a copy of the order (differential part of the property: no theorem about the dictionary);
 3. a separate non-exact stream (0.1+0.2, 1e-05, 1e16, inf, nan ...) goes to the oracle only;
 4. session fidelity (differential, two-way): clean scripts are run once with an AsyncFIXClient object
    against FIXTester(connection=...) and once against a real AsyncFIXDummyServer object whose fake writer is
    cross-wired in memory (every frame decoded with the real codec and fed to the peer's _process_message);
    Codec.current_datetime and time.time are constant; the initiator's frames both ways, states, counters and
    callbacks are compared after every step.  Runs in a child process under asyncio.wait_for + hard timeouts.

Numbers: a model value z stands for the float z / U, U = 4096 (binary fractions; smallest non-zero magnitude
1/4096 > 1e-4, so float arithmetic, comparison, float(str) and str(float) are exact and in plain notation)."""
import copy
import json
import math
import os
import random
import re
import subprocess
import sys
import time

from vlib import core
from vlib.core import sx

META = {
    "level": "proof",
    "tables": [],
    "files": ["asyncfix/fix_tester.py", "asyncfix/protocol/order_single.py", "asyncfix/protocol/schema.py",
              "asyncfix/connection.py"],
    "rule": "histories of helper calls (1-3 orders; new/register, fabricated reports delivered or not, cancel / replace "
            "requests, cancel rejects, and the non-fabricating public methods reset_messages / set_next_num / queries / msg_* "
            "factories / process_msg_acceptor / reply between fabrications, 30% of the testers built around a connection) with scenario-derived, perturbed and random arguments; a case is one helper call in its "
            "history (order snapshot + arguments + counters), non-trivial when the call passed the registration / ClOrdID "
            "assertions (so ids were allocated); plus session-factory calls, a non-exact float stream (oracle only) and clean "
            "session scripts of 3-11 steps replayed against the helper's acceptor and against a real AsyncFIXDummyServer",
    "trusted_base": [
        "Fix/Tester.v models fix_tester.py by hand (tied by this correspondence); OrderStatus.change_status is proved equal to the "
        "regenerated graph of the real function (C16)",
        "quantities/prices are exact multiples of 1/4096 in the correspondence stream, so Python float arithmetic, comparison, "
        "round(x, 3), float(str) and str(float) are exact and in plain notation; the model does not render str(float) "
        "(numeric tags are compared by value); separately the model's exact binary-fraction printer print_q 12 (the renderer "
        "of theorem C20_exec_report_validates_printed) is compared with the texts str(float) produced, on every accepted "
        "fabrication of the exact stream (projection rendered-text); nan is None in the model",
        "dictionary validity has theorems on the composition of C15's validate model with C19's validate_value model over "
        "the regenerated FIX44 tables (Props/C20.v, last section); the oracle keeps deciding it on the real "
        "FIXSchema.validate for every fabricated message; processing by the real order object is decided by the oracle",
        "session fidelity is differential (implementation vs implementation, in-memory transport, no timer tasks)",
    ],
    "assumptions": [
        "the code under check is fix_tester.py / order_single.py with fixes/R12a-R12e applied (the model describes the repaired helper)",
        "distinct orders have distinct root ClOrdIDs (the helper remembers one OrderID per root)",
        "exec_type / ord_status are members of FExecType / FOrdStatus (the declared argument types)",
        "the order is a FIXNewOrderSingle built by its constructor with non-empty ticker, str account, a FOrdSide side and finite "
        "numbers; set_instrument / set_price_qty / set_account are the base-class methods",
        "order fields and numeric arguments are not NaN (NaN arguments mean 'omitted')",
    ],
}

U = 4096
QUARTER = U // 4
NUMTAGS = {"14", "151", "32", "44", "38", "6"}
MANDATORY = {"11", "37", "17", "150", "39", "54", "14", "151", "55", "44", "38", "6", "1"}
FINISHED = {"2", "4", "8", "C"}
FIX_FLOAT = re.compile(r"^-?(\d+\.?\d*|\.\d+)$")

K_FOREIGN = "C20-foreign-clordid"      # pinned by tests/test_protocol_order_single.py::test_exec_report_clord_mismatch
# repaired (fixes/R12a-R12e, `fixed` records in notes/C20.findings.jsonl): C20-status-created, C20-orderid-open-loop,
# C20-float-notation, C20-reply-after-logout - any such breach is now an unlisted failure

_LIB = {}


def lib():
    if not _LIB:
        from asyncfix import FIXMessage, FMsg, FTag
        from asyncfix.errors import FIXError, TagNotFoundError
        from asyncfix.fix_tester import FIXTester
        from asyncfix.protocol import FIXSchema
        from asyncfix.protocol.common import FExecType, FOrdStatus
        from asyncfix.protocol.order_single import FIXNewOrderSingle
        _LIB.update(FIXMessage=FIXMessage, FMsg=FMsg, FTag=FTag, FIXError=FIXError, TagNotFoundError=TagNotFoundError,
                    FIXTester=FIXTester, FExecType=FExecType, FOrdStatus=FOrdStatus, FIXNewOrderSingle=FIXNewOrderSingle,
                    SCHEMA=FIXSchema(os.path.join(core.REPO, "tests", "FIX44.xml")),
                    EXECS=[e.value for e in FExecType], STATS=[s.value for s in FOrdStatus])
    return _LIB


# --------------------------------------------------------------------------------------------
# canonical projections (shapes mirror TesterRun.v)
# --------------------------------------------------------------------------------------------

def codes(s):
    return [ord(c) for c in str(s)]


def num(v):
    """float / int / numeric text -> multiples of 1/U; anything else is reported as such."""
    try:
        f = float(v)
    except (TypeError, ValueError):
        return ["notnum", repr(v)]
    if math.isnan(f) or math.isinf(f):
        return ["nonfinite", repr(v)]
    z = f * U
    if z != int(z) or abs(z) > 2 ** 52:
        return ["inexact", repr(v)]
    return int(z)


def fl(z):
    """model number -> Python float (None -> nan)"""
    return math.nan if z is None else z / U


def opt(v):
    return [] if v is None else [v]


def stcode(st):
    v = getattr(st, "value", st)
    return ord(v) if isinstance(v, str) and len(v) == 1 else 0


def snap_order(o):
    return [str(o.clord_id), opt(None if o.orig_clord_id is None else str(o.orig_clord_id)),
            opt(None if o.order_id is None else str(o.order_id)),
            num(o.qty), num(o.cum_qty), num(o.leaves_qty), num(o.price),
            str(o.side), str(o.ticker), str(o.account), stcode(o.status)]


def snap_exact(s):
    return all(isinstance(x, int) for x in s[3:7])


def snap_codes(s):
    """the shape TesterRun.sx_order prints"""
    return [codes(s[0]), [codes(x) for x in s[1]], [codes(x) for x in s[2]]] + s[3:7] + [codes(s[7]), codes(s[8]), codes(s[9]), s[10]]


def proj_msg(m):
    out = []
    for t, v in m.tags.items():
        if t in NUMTAGS:
            out.append([int(t), 1, num(v)])
        else:
            out.append([int(t), 0, codes(v)])
    return out


def rendered(m):
    out = []
    for t, v in m.tags.items():
        if t in NUMTAGS and re.fullmatch(r"-?\d+", v):
            v = v + ".0"
        out.append([codes(t), codes(v)])
    return out


def args_sx(a):
    clord, ex, st, cum, leaves, last, price, oqty, orig, avg = a
    return [opt(clord), ord(ex), ord(st), opt(cum), opt(leaves), opt(last), opt(price), opt(oqty), opt(orig), avg]


def unstr(v):
    return "".join(chr(c) for c in v)


# --------------------------------------------------------------------------------------------
# history executor (implementation side) + oracle
# --------------------------------------------------------------------------------------------

def mkcase(c):
    if isinstance(c, tuple):
        h, n, extra = c
        return {"kind": "hist", "exact": h.exact, "actions": list(h.actions[:n]), "at": extra}
    return c


class _Quiet:
    """context stand-in used while shrinking / replaying: collects failures, lists no known class"""
    def __init__(self):
        self.failures, self.known, self.samples = [], [], [0] * 9

    def fail(self, case, what, cls=None):
        self.failures.append({"case": case, "what": what, "class": cls})

    def case(self, *a, **k):
        pass

    def count(self, *a, **k):
        pass


def shrink_hist(case, what):
    """delta-debug the action list: a shorter history on which the same kind of breach still occurs"""
    key = what[:25]

    def still_fails(actions):
        q = _Quiet()
        h = Hist(q, exact=case.get("exact", True))
        h.shrinking = True
        try:
            for a in actions:
                h.do(a)
        except Exception:  # noqa: BLE001  (an action that no longer applies, e.g. order k never created)
            pass
        return any(f["what"][:25] == key for f in q.failures)
    try:
        acts = core.ddmin(case["actions"], still_fails, max_tests=150)
        if still_fails(acts):
            return dict(case, actions=acts, shrunk_from=len(case["actions"]))
    except Exception:  # noqa: BLE001
        pass
    return case


class Hist:
    """Executes a history of helper calls on a fresh FIXTester and fresh orders.

    actions:  ["conn"] (first action only: tester built around an initiator connection), ["reset"] reset_messages,
              ["setnum", in, out] set_next_num, ["query", which, index], ["factory", which] msg_*,
              ["traffic", which] process_msg_acceptor / reply - the non-fabricating public methods;
              ["new", k, root, ticker, side, price, qty, account, mode]   mode 0: new_req + register, 1: register only,
                                                                         2: new_req only (unregistered)
              ["fab", k, args, deliver]     args = [clord, exec, status, cum, leaves, last, price, order_qty, orig, avg]
              ["cxl", k] / ["rep", k, price, qty]      fix_cxl_request / fix_rep_request
              ["rej", k, status, deliver, variant]     fix_cxlrep_reject_msg on the last request (variant 0) or a crafted one
    numbers are multiples of 1/U; ["f", text] is a raw float (non-exact stream)."""

    def __init__(self, ctx, exact=True):
        L = lib()
        self.ctx, self.exact = ctx, exact
        self.t = L["FIXTester"](schema=L["SCHEMA"])
        self.orders = {}
        self.reqs = {}
        self.first_oid = {}      # order k -> first OrderID fabricated for it
        self.fab_count = {}      # order k -> accepted fabrications so far
        self.max_exec = None
        self.exec_seen = set()
        self.oid_owner = {}      # fabricated OrderID text -> order k
        self.actions = []
        self.model_reqs = []     # (request line, impl projection, case, projection name)
        self.n_breach = 0
        self.shrinking = False

    # ---- helpers
    def val(self, z):
        if isinstance(z, list) and z and z[0] == "f":
            return float(z[1])
        return fl(z)

    def oids(self):
        return [[str(k), v] for k, v in getattr(self.t, "_order_ids", {}).items()]

    def state(self):
        return [self.t._order_id, self.t._exec_id, [str(k) for k in self.t.registered_orders.keys()], self.oids()]

    def oids_codes(self):
        return [[codes(k), v] for k, v in self.oids()]

    def case(self, extra):
        """lazy: (history, prefix length, position); materialised by mkcase only when reported"""
        return (self, len(self.actions), extra)

    def breach(self, what, cls=None, extra=None):
        self.n_breach += 1
        case = mkcase(self.case(extra))
        listed = cls is not None and any(k.get("class") == cls for k in self.ctx.known)
        if not listed and not self.shrinking and len(self.ctx.failures) < 3:
            case = shrink_hist(case, what)
        self.ctx.fail(case, what, cls)

    # ---- actions
    def do(self, act):
        self.actions.append(act)
        k = act[0]
        self.ctx.count("act:" + k)
        return getattr(self, "do_" + k)(*act[1:])

    def do_new(self, k, root, ticker, side, price, qty, account, mode):
        L = lib()
        o = L["FIXNewOrderSingle"](root, ticker, side, self.val(price), self.val(qty), account=account)
        self.orders[k] = o
        if mode in (0, 2):
            o.new_req()
        if mode in (0, 1):
            before = self.state()
            self.t.order_register_single(o)
            self.model_reqs.append((sx([5, before, str(o.clord_id)]), [codes(x) for x in self.state()[2]], self.case("register"), "registered-keys"))
        return o

    # ---- the helper's non-fabricating public methods (Tester.book): each is followed by a comparison of the whole
    #      fabrication state (counters, registered keys, root -> OrderID map) with the model, and the ExecID / OrderID
    #      oracle keeps running across them
    def state_codes(self):
        st = self.state()
        return [st[0], st[1], [codes(x) for x in st[2]], self.oids_codes()]

    def book(self, kind, call, what):
        before = self.state()
        exc = None
        try:
            call()
        except Exception as e:  # noqa: BLE001   (e.g. IndexError of a query on an empty list; never affects the state)
            exc = type(e).__name__
        self.ctx.count("book:%s%s" % (what, ":raised-" + exc if exc else ""))
        self.model_reqs.append((sx([8, before, kind]), self.state_codes(), self.case(what), "bookkeeping-state"))

    def do_conn(self):
        """must be the first action: the tester is built around an initiator connection (simulated acceptor wired)"""
        import logging
        from asyncfix.connection import AsyncFIXConnection, ConnectionState
        from asyncfix.journaler import Journaler
        from asyncfix.protocol import FIXProtocol44
        L = lib()
        log = logging.getLogger("c20hist")
        if not log.handlers:
            log.addHandler(logging.NullHandler())
            log.propagate = False
            log.setLevel(logging.CRITICAL + 1)
        self.conn = AsyncFIXConnection(FIXProtocol44(), "INITIATOR", "ACCEPTOR", Journaler(), "localhost", 64444, 30, log)
        self.conn._connection_state = ConnectionState.NETWORK_CONN_ESTABLISHED
        self.t = L["FIXTester"](schema=L["SCHEMA"], connection=self.conn)

    def do_reset(self):
        self.book(0, self.t.reset_messages, "reset_messages")

    def do_setnum(self, num_in, num_out):
        self.book(1, lambda: self.t.set_next_num(num_in, num_out), "set_next_num")

    def do_query(self, which, index):
        f = self.t.acceptor_sent_query if which == 0 else self.t.initiator_sent_query
        self.book(2, lambda: f((35, 34), index), "query")

    def do_factory(self, which):
        t = self.t
        calls = [lambda: t.msg_logon(), t.msg_logout, lambda: t.msg_heartbeat("T1"), lambda: t.msg_test_request("T2"),
                 lambda: t.msg_sequence_reset(3, 7, True), lambda: t.msg_resend_request(2, 0)]
        self.book(3, calls[which % len(calls)], "factory")

    def do_traffic(self, which):
        """session traffic through the simulated acceptor (process_msg_acceptor / reply); needs ["conn"]"""
        import asyncio
        t, conn = self.t, getattr(self, "conn", None)

        async def go():
            if conn is None:
                await t.reply(t.msg_heartbeat())          # AttributeError: no simulated acceptor
            elif int(conn.connection_state) == 6:         # NETWORK_CONN_ESTABLISHED: log on
                await conn.send_msg(t.msg_logon())
                await t.process_msg_acceptor()
            elif which == 0:
                await conn.send_msg(t.msg_heartbeat())
                await t.process_msg_acceptor()
            else:
                await t.reply(t.msg_heartbeat())
        self.book(5, lambda: asyncio.run(asyncio.wait_for(go(), 5)), "acceptor-traffic")

    def do_cxl(self, k):
        o = self.orders[k]
        try:
            before = self.state()
            self.reqs[k] = self.t.fix_cxl_request(o)
            self.model_reqs.append((sx([5, before, str(o.clord_id)]), [codes(x) for x in self.state()[2]], self.case("cxl"), "registered-keys"))
            return True
        except AssertionError:
            return False

    def do_rep(self, k, price, qty):
        L = lib()
        o = self.orders[k]
        try:
            before = self.state()
            self.reqs[k] = self.t.fix_rep_request(o, self.val(price), self.val(qty))
            self.model_reqs.append((sx([5, before, str(o.clord_id)]), [codes(x) for x in self.state()[2]], self.case("rep"), "registered-keys"))
            return True
        except (AssertionError, L["FIXError"]):
            return False

    def do_fab(self, k, a, deliver):
        L = lib()
        o = self.orders[k]
        clord, ex, st, cum, leaves, last, price, oqty, orig, avg = a
        snap, before = snap_order(o), self.state()
        had_oid = o.order_id
        kw = dict(cum_qty=self.val(cum), leaves_qty=self.val(leaves), last_qty=self.val(last), price=self.val(price),
                  order_qty=self.val(oqty), orig_clord_id=orig, avg_price=self.val(avg))
        self.t.schema = None          # observe the fabricated message itself; the oracle validates it below
        try:
            m = self.t.fix_exec_report_msg(o, clord, L["FExecType"](ex), L["FOrdStatus"](st), **kw)
            impl = [1, proj_msg(m), self.t._order_id, self.t._exec_id, self.oids_codes()]
        except AssertionError:
            m, impl = None, [0, [], self.t._order_id, self.t._exec_id, self.oids_codes()]
        except Exception as e:  # noqa: BLE001
            m, impl = None, ["exc", type(e).__name__]
        finally:
            self.t.schema = L["SCHEMA"]
        allocated = impl[3] != before[1] if impl[0] != "exc" else False
        canon = (tuple(map(repr, snap)), repr(a), before[0], before[1])
        self.ctx.case(canon, nontrivial=bool(allocated),
                      sample={"order": snap, "args": a, "impl": impl} if (m is not None and len(self.ctx.samples) < 3) else None)
        self.ctx.count("fab:" + ("accepted" if m is not None else "refused-late" if allocated else "refused-early"))
        self.ctx.count("fab-exec:" + ex)
        self.ctx.count("fab-order-status:" + chr(snap[10]) if snap[10] else "fab-order-status:?")
        if self.exact and snap_exact(snap):
            self.model_reqs.append((sx([1, U, before, snap, args_sx(a)]), impl, self.case({"fab": a, "order": snap}),
                                    "exec-report"))
        if impl[0] == "exc":
            self.breach("fix_exec_report_msg raised %s (neither a message nor AssertionError)" % impl[1], None, {"fab": a})
        if m is None:
            return None
        if self.exact and snap_exact(snap) and all(isinstance(f[2], int) or f[1] == 0 for f in impl[1]):
            # tie of the model's renderer (Fix/TesterPrint.v: tag text = str(tag), numbers by print_q 12, the printer of
            # theorem C20_exec_report_validates_printed) to the texts Python put into the message: str(float) on the exact
            # stream; a value that is a Python int (leaves_qty = 0 after a REJECTED cancel reject) prints without ".0"
            self.ctx.count("rendered-text-compared")
            self.model_reqs.append((sx([7, 12, impl[1]]), rendered(m), self.case({"fab": a, "order": snap}), "rendered-text"))
        self.oracle_fab(k, o, snap, a, m, had_oid)
        if deliver:
            osnap = snap_order(o)
            try:
                r = o.process_execution_report(m)
                pim = [1 if r else 0, snap_codes(snap_order(o))]
            except L["FIXError"]:
                pim = [2, snap_codes(snap_order(o))]
            except ValueError:
                pim = [3, snap_codes(snap_order(o))]
            except Exception as e:  # noqa: BLE001
                pim = ["exc", type(e).__name__]
            if self.exact and snap_exact(osnap):
                self.model_reqs.append((sx([4, osnap, proj_msg(m)]), pim, self.case({"deliver": a, "order": osnap}),
                                        "process-report"))
        return m

    def do_rej(self, k, status, deliver, variant):
        L = lib()
        o = self.orders[k]
        FIXMessage = L["FIXMessage"]
        if variant == 0 and k in self.reqs:
            req = self.reqs[k]
        elif variant == 1:
            req = FIXMessage("D", {11: "a--1", 41: "a"})                 # wrong request type
        elif variant == 2:
            req = FIXMessage("F", {11: "a--2"})                          # OrigClOrdID missing
        elif variant == 3:
            req = FIXMessage("G", {41: "a"})                             # ClOrdID missing
        else:
            req = FIXMessage("G" if variant == 4 else "F", {11: "b--3", 41: "b--2"})
        mt = str(getattr(req.msg_type, "value", req.msg_type))
        line = sx([2, mt, opt(req.get(11, None)), opt(req.get(41, None)), ord(status)])
        self.t.schema = None
        try:
            m = self.t.fix_cxlrep_reject_msg(req, L["FOrdStatus"](status))
            impl = [1, proj_msg(m)]
        except AssertionError:
            m, impl = None, [3]
        except L["TagNotFoundError"]:
            m, impl = None, [2]
        except Exception as e:  # noqa: BLE001
            m, impl = None, ["exc", type(e).__name__]
        finally:
            self.t.schema = L["SCHEMA"]
        self.model_reqs.append((sx([8, self.state(), 4]), self.state_codes(), self.case("cancel-reject"), "bookkeeping-state"))
        self.ctx.case(("rej", line), nontrivial=m is not None)
        self.ctx.count("rej:" + ("ok" if m is not None else "refused"))
        self.model_reqs.append((line, impl, self.case({"rej": status, "variant": variant}), "cancel-reject"))
        if m is None:
            return None
        # oracle: dictionary, 434, processing
        try:
            L["SCHEMA"].validate(m)
        except Exception as e:  # noqa: BLE001
            self.breach("fabricated OrderCancelReject fails FIXSchema.validate: %s: %s" % (type(e).__name__, e),
                        None, {"rej": status})
        want = {"F": "1", "G": "2"}.get(mt)
        tags = dict(m.tags)
        if tags.get("434") != want or tags.get("11") != req.get(11) or tags.get("41") != req.get(41) or \
                tags.get("39") != status or "37" not in tags or len(tags) != 5:
            self.breach("cancel reject does not carry 37/11/41/39/434 as specified: %r" % (tags,), None, {"rej": status})
        try:
            copy.deepcopy(o).process_cancel_rej_report(m)
        except Exception as e:  # noqa: BLE001
            self.breach("process_cancel_rej_report raised %s on the fabricated reject" % type(e).__name__, None, {"rej": status})
        if deliver and variant == 0:
            try:
                o.process_cancel_rej_report(m)
            except Exception:  # noqa: BLE001
                pass
            self.reqs.pop(k, None)
        return m

    # ---- the property, decided on the real message
    def oracle_fab(self, k, o, snap, a, m, had_oid):
        L = lib()
        clord, ex, st, cum, leaves, last, price, oqty, orig, avg = a
        tags = dict(m.tags)
        at = {"fab": a, "order": snap}
        # (a) FIX 4.4 dictionary: the real validator, and the FIX float layout of the numeric tags
        bad_text = [t for t in sorted(NUMTAGS & set(tags)) if not FIX_FLOAT.match(tags[t])]
        try:
            L["SCHEMA"].validate(m)
        except Exception as e:  # noqa: BLE001
            self.breach("fabricated ExecutionReport fails FIXSchema(FIX44.xml).validate: %s: %s" % (type(e).__name__, e), None, at)
        if bad_text:
            self.breach("numeric tag(s) %s outside the FIX float layout: %r" % (bad_text, [tags[t] for t in bad_text]), None, at)
        # (f) mandatory tags, LastQty iff TRADE, OrigClOrdID iff given
        missing = MANDATORY - set(tags)
        if missing:
            self.breach("mandatory tags missing: %s" % sorted(missing), None, at)
        if ("32" in tags) != (ex == "F"):
            self.breach("LastQty present=%s but exec_type=%s" % ("32" in tags, ex), None, at)
        if ("41" in tags) != bool(orig):
            self.breach("OrigClOrdID presence does not follow the argument", None, at)
        # (b) arithmetic (float semantics of the receiving side)
        try:
            c, lv, q = float(tags["14"]), float(tags["151"]), float(tags["38"])
            if not (c + lv <= q):
                self.breach("CumQty %s + LeavesQty %s > OrderQty %s" % (tags["14"], tags["151"], tags["38"]), None, at)
            if not (c >= 0 and lv >= 0):
                self.breach("negative CumQty/LeavesQty: %s / %s" % (tags["14"], tags["151"]), None, at)
            if st in FINISHED and lv != 0:
                self.breach("finished status %s with LeavesQty %s" % (st, tags["151"]), None, at)
        except (KeyError, ValueError):
            pass
        # (c) ExecID fresh
        e = tags.get("17")
        try:
            ei = int(e)
        except (TypeError, ValueError):
            ei = None
        if ei is None or e in self.exec_seen or (self.max_exec is not None and ei <= self.max_exec):
            self.breach("ExecID %r is not greater than every ExecID issued before (max %r)" % (e, self.max_exec), None, at)
        self.exec_seen.add(e)
        if ei is not None:
            self.max_exec = ei if self.max_exec is None else max(self.max_exec, ei)
        # (d) OrderID stable per order, fresh otherwise
        oid = tags.get("37")
        if had_oid is not None:
            if oid != str(had_oid):
                self.breach("OrderID %r differs from the order's order_id %r" % (oid, had_oid), None, at)
        else:
            if oid in self.oid_owner and self.oid_owner[oid] != k:
                self.breach("OrderID %r was already given to another order" % oid, None, at)
        self.oid_owner.setdefault(oid, k)
        if k in self.first_oid and self.first_oid[k] != oid and (had_oid is None or str(had_oid) == self.first_oid[k]):
            self.breach("OrderID %r differs from the OrderID %r fabricated earlier for the same order" % (oid, self.first_oid[k]),
                        None, at)
        self.first_oid.setdefault(k, oid)
        self.fab_count[k] = self.fab_count.get(k, 0) + 1
        # (e) the order object processes it without error
        oc = copy.deepcopy(o)
        try:
            oc.process_execution_report(m)
        except L["FIXError"] as e2:
            foreign = clord != o.clord_id and clord != o.orig_clord_id
            self.breach("process_execution_report raised FIXError(%s) on the fabricated report" % e2,
                        K_FOREIGN if foreign else None, at)
        except Exception as e2:  # noqa: BLE001
            self.breach("process_execution_report raised %s on the fabricated report" % type(e2).__name__, None, at)


# --------------------------------------------------------------------------------------------
# generators
# --------------------------------------------------------------------------------------------

# root ClOrdIDs, distinct per order k (two orders sharing a ClOrdID chain would be a user error); "o{k}--7" looks like a
# chained id whose root is "o{k}"
ROOTS = ["ord%d", "X1%d", "a--b%d", "o%d--7", "Z%d"]
TICKERS = ["TICK", "VOD.L", "ES"]
ACCOUNTS = ["000000", "ACC1"]


def gen_new(rng, k):
    price = rng.randrange(1, 60) * QUARTER
    qty = rng.choice([1, 2, 4, 8, 10, 100]) * 4 * QUARTER // rng.choice([1, 1, 1, 2, 4])
    mode = 0 if rng.random() < 0.88 else rng.choice([1, 2])
    return ["new", k, rng.choice(ROOTS) % k, rng.choice(TICKERS), rng.choice(["1", "2", "5"]), price, qty,
            rng.choice(ACCOUNTS), mode]


def scenario_args(rng, o):
    """a report that makes sense for the order's current state"""
    s = snap_order(o)
    clord, orig, qty, cum, leaves, price, st = s[0], (s[1] or [None])[0], s[3], s[4], s[5], s[6], chr(s[10]) if s[10] else "0"
    a = dict(clord=clord, ex="0", st="0", cum=None, leaves=None, last=None, price=None, oqty=None, orig=None, avg=0)
    room = qty - cum
    r = rng.random()
    if st == "Z":
        a.update(ex="A", st="A")
    elif st == "A":
        if r < 0.15:
            a.update(ex="A", st="A")
        elif r < 0.93:
            a.update(ex="0", st="0", cum=0, leaves=qty)
        else:
            a.update(ex="8", st="8", leaves=0)
    elif st in ("0", "1", "9"):
        if r < 0.45 and room > 0:
            f = min(room, rng.choice([1, 2, 4]) * QUARTER)
            c2 = cum + f
            a.update(ex="F", st="2" if c2 == qty else "1", cum=c2, leaves=qty - c2, last=f, avg=price)
        elif r < 0.52 and room > 0:
            a.update(ex="F", st="2", cum=qty, leaves=0, last=room, avg=price)
        elif r < 0.57:
            a.update(ex="4", st="4", leaves=0)
        elif r < 0.61:
            a.update(ex="C", st="C", leaves=0)
        elif r < 0.67:
            a.update(ex="9", st="9")
        elif r < 0.70:
            a.update(ex="3", st="3")
        elif r < 0.85:
            a.update(ex=rng.choice(["D", "I", "B"]), st=st)
        else:
            a.update(ex="0", st="1" if cum > 0 else "0", cum=cum, leaves=room)
    elif st == "6":
        if r < 0.45:
            a.update(ex="6", st="6", orig=orig)
        elif r < 0.85:
            a.update(ex="4", st="4", leaves=0, orig=orig)
        elif room > 0:
            f = min(room, QUARTER)
            a.update(ex="F", st="6", cum=cum + f, leaves=room - f, last=f)
    elif st == "E":
        if r < 0.35:
            a.update(ex="E", st="E", orig=orig)
        else:
            nq = max(cum + QUARTER, qty + rng.choice([-4, 4, 8]) * QUARTER)
            a.update(ex="5", st="1" if cum > 0 else "0", price=price + rng.choice([-1, 1, 2]) * QUARTER, oqty=nq,
                     leaves=nq - cum, cum=rng.choice([None, cum]), orig=orig)
    else:
        a.update(ex=rng.choice(["I", "D"]), st=st if st in lib()["STATS"] else "0")
    return a


def perturb(rng, o, a):
    s = snap_order(o)
    qty, cum, leaves = s[3], s[4], s[5]
    pool = [0, QUARTER, -QUARTER, qty, qty + QUARTER, cum, leaves, qty - cum, cum + QUARTER, None]
    what = rng.randrange(13)
    if what == 0:
        a["cum"] = rng.choice(pool)
    elif what == 1:
        a["leaves"] = rng.choice(pool)
    elif what == 2:
        a["last"] = rng.choice(pool)
    elif what == 3 and a["last"] is not None:
        a["last"] += rng.choice([-3, -2, -1, 1, 2, 3])          # around round(x, 3) == 0: 2/4096 < 0.0005 < 3/4096
    elif what == 4 and a["cum"] is not None:
        a["cum"] += rng.choice([-3, -2, -1, 1, 2, 3])
    elif what == 5:
        a["price"] = rng.choice([None, QUARTER * rng.randrange(1, 50)])
    elif what == 6:
        a["oqty"] = rng.choice([0, -QUARTER, qty, qty + 4 * QUARTER, cum, None, max(cum - QUARTER, QUARTER)])
    elif what == 7:
        a["ex"] = rng.choice(lib()["EXECS"])
    elif what == 8:
        a["st"] = rng.choice(lib()["STATS"])
    elif what == 9:
        a["clord"] = rng.choice([None, "", "foreign", (s[1] or ["nope"])[0], s[0]])
    elif what == 10:
        a["orig"] = rng.choice([None, "", "x--1", (s[1] or [None])[0]])
    elif what == 11:
        a["avg"] = rng.randrange(0, 40) * QUARTER
    elif what == 12 and a["leaves"] is not None:
        a["leaves"] += rng.choice([-1, 1, QUARTER])
    return a


def random_args(rng, o):
    s = snap_order(o)
    qty, cum, leaves = s[3], s[4], s[5]
    pool = [0, QUARTER, 2 * QUARTER, -QUARTER, qty, qty + QUARTER, cum, leaves, qty - cum, cum + QUARTER, 1, qty - 1]

    def pick(p_none):
        return None if rng.random() < p_none else rng.choice(pool)
    L = lib()
    return dict(clord=rng.choice([s[0], s[0], s[0], (s[1] or [s[0]])[0], "foreign", "", None]),
                ex=rng.choice(L["EXECS"] + ["F", "5", "6", "0"]), st=rng.choice(L["STATS"] + ["6", "2", "4"]),
                cum=pick(0.4), leaves=pick(0.4), last=pick(0.6), price=pick(0.75), oqty=pick(0.75),
                orig=rng.choice([None, None, "", "x--1", (s[1] or [None])[0]]), avg=rng.choice([0, 0, QUARTER * 7]))


def as_list(a):
    return [a["clord"], a["ex"], a["st"], a["cum"], a["leaves"], a["last"], a["price"], a["oqty"], a["orig"], a["avg"]]


def gen_history(ctx, rng, h=None):
    """generate and execute one history"""
    h = h or Hist(ctx)
    n = rng.randrange(4, 18)
    connected = rng.random() < 0.3
    if connected:
        h.do(["conn"])
    h.do(gen_new(rng, 0))
    for _ in range(n):
        k = rng.choice(list(h.orders))
        o = h.orders[k]
        if rng.random() < 0.12:
            # a non-fabricating public method between fabrications (multi-phase test shape)
            b = rng.random()
            if b < 0.45:
                h.do(["reset"])
            elif b < 0.6:
                h.do(["setnum", rng.choice([None, 1, 5, 20]), rng.choice([None, 1, 7])] if connected else ["reset"])
            elif b < 0.7:
                h.do(["query", rng.randrange(2), rng.choice([-1, 0])])
            elif b < 0.85:
                h.do(["factory", rng.randrange(6)])
            else:
                h.do(["traffic", rng.randrange(2)])
            continue
        r = rng.random()
        if len(h.orders) < 3 and (r < 0.04 or (o.is_finished() and r < 0.5)):
            h.do(gen_new(rng, len(h.orders)))
        elif r < 0.14:
            h.do(["cxl", k])
        elif r < 0.23:
            s = snap_order(o)
            h.do(["rep", k, rng.choice([None, s[6] + QUARTER]), rng.choice([None, s[3] + 4 * QUARTER, max(s[4], QUARTER)])])
        elif r < 0.30:
            h.do(["rej", k, rng.choice(lib()["STATS"]), 1 if rng.random() < 0.7 else 0,
                  0 if (k in h.reqs and rng.random() < 0.7) else rng.randrange(1, 6)])
        else:
            q = rng.random()
            if q < 0.5:
                a = scenario_args(rng, o)
            elif q < 0.8:
                a = perturb(rng, o, scenario_args(rng, o))
            else:
                a = random_args(rng, o)
            h.do(["fab", k, as_list(a), 1 if rng.random() < 0.8 else 0])
    return h


NONEXACT = ["0.1", "0.2", "0.30000000000000004", "1e-05", "1e16", "1e22", "0.3333333333333333", "123456789.12345679",
            "5e-324", "0.0001", "9999999999999998.0", "inf", "2.5e-07", "0.7", "1.1"]


def gen_nonexact(ctx, rng):
    """order quantities / arguments on which float printing or arithmetic is not exact: oracle only"""
    h = Hist(ctx, exact=False)
    q = rng.choice(NONEXACT)
    h.do(["new", 0, "nx", "TICK", "1", ["f", rng.choice(["10.0", "0.1", "1e-05", "1e16"])], ["f", q], "000000", 0])
    for _ in range(rng.randrange(2, 6)):
        o = h.orders[0]
        r = rng.random()
        f = lambda x: None if x is None else ["f", repr(float(x))]   # noqa: E731
        if r < 0.35:
            a = ["nx--1", "0", "0", ["f", "0.0"], f(o.qty), None, None, None, None, ["f", "0.0"]]
        elif r < 0.6:
            part = float(rng.choice(NONEXACT[:11]))
            c = o.cum_qty + part
            a = ["nx--1", "F", "1", f(c), f(max(o.qty - c, 0.0)), f(part), None, None, None, f(rng.choice(["0.0", "1e-05", "nan", "inf", "3.3"]))]
        elif r < 0.8:
            a = ["nx--1", "4", "4", None, ["f", "0.0"], None, None, None, None, ["f", "0.0"]]
        else:
            a = ["nx--1", "5", "0", None, None, None, f(rng.choice(NONEXACT)), f(rng.choice(NONEXACT)), None, ["f", "0.0"]]
        h.do(["fab", 0, a, 1 if rng.random() < 0.7 else 0])
    return h


# --------------------------------------------------------------------------------------------
# session message factories
# --------------------------------------------------------------------------------------------

def run_factories(ctx, rng, n):
    L = lib()
    t = L["FIXTester"](schema=None)
    reqs = []
    for _ in range(n):
        k = rng.randrange(6)
        if k == 0:
            pool = [(98, "0"), (108, str(rng.choice([1, 30, 60]))), (141, "Y"), (553, "user"), (554, "pw")]
            tags = [p for p in pool if rng.random() < 0.4]
            rng.shuffle(tags)
            m = t.msg_logon({a: b for a, b in tags} if tags or rng.random() < 0.5 else None)
            line = sx([3, 0, [[a, b] for a, b in tags]])
            case = {"kind": "factory", "call": ["msg_logon", tags]}
        elif k == 1:
            m, line, case = t.msg_logout(), sx([3, 1]), {"kind": "factory", "call": ["msg_logout"]}
        elif k == 2:
            i = rng.choice([None, "TEST", 12345, "1000000"])
            m = t.msg_heartbeat(i)
            line, case = sx([3, 2, opt(None if i is None else str(i))]), {"kind": "factory", "call": ["msg_heartbeat", i]}
        elif k == 3:
            i = rng.choice(["TEST", 777, "a b"])
            m, line, case = t.msg_test_request(i), sx([3, 3, str(i)]), {"kind": "factory", "call": ["msg_test_request", i]}
        elif k == 4:
            a, b, g = rng.randrange(1, 500), rng.randrange(1, 500), rng.random() < 0.5
            m, line = t.msg_sequence_reset(a, b, g), sx([3, 4, a, b, g])
            case = {"kind": "factory", "call": ["msg_sequence_reset", a, b, g]}
        else:
            a, b = rng.randrange(1, 500), rng.choice([0, 0, rng.randrange(1, 600)])
            m, line = t.msg_resend_request(a, b), sx([3, 5, a, b])
            case = {"kind": "factory", "call": ["msg_resend_request", a, b]}
        impl = [codes(getattr(m.msg_type, "value", m.msg_type)), [[int(tg), 0, codes(v)] for tg, v in m.tags.items()]]
        ctx.case(("factory", line), nontrivial=True)
        ctx.count("factory:%s" % case["call"][0])
        reqs.append((line, impl, case, "session-factory"))
        try:
            L["SCHEMA"].validate(m)
        except Exception as e:  # noqa: BLE001
            ctx.fail(case, "session message fails FIXSchema.validate: %s: %s" % (type(e).__name__, e), None)
    return reqs


# --------------------------------------------------------------------------------------------
# session fidelity (child process)
# --------------------------------------------------------------------------------------------

MID = ["I_new", "I_cxl", "I_rep", "A_ack", "A_fill", "A_done", "A_rej", "I_hb", "A_hb", "I_treq", "A_treq", "I_hb_id"]


def gen_script(rng):
    """clean script: logon, then application traffic both ways / test requests / heartbeats, optionally a logout
    (and, rarely, one more step after it).  A rough order status steers towards steps that are not skipped."""
    n = rng.randrange(1, 10)
    sc = ["I_logon"]
    st = None          # None: no order sent, A: pending new, L: live, P: request pending, F: finished
    for _ in range(n):
        if rng.random() < 0.55:
            s = {None: ["I_new"], "A": ["A_ack"], "L": ["A_fill", "A_fill", "I_cxl", "I_rep"], "P": ["A_done", "A_rej", "A_fill"],
                 "F": ["I_hb", "A_hb"]}[st]
            s = rng.choice(s)
        else:
            s = rng.choice(MID)
        if s == "I_new":
            if st is None:
                st = "A"
            else:
                s = "I_hb_id"
        elif s == "A_ack" and st == "A":
            st = "L"
        elif s in ("I_cxl", "I_rep") and st == "L":
            st = "P"
        elif s in ("A_done", "A_rej") and st == "P":
            st = "L" if s == "A_rej" or rng.random() < 0.5 else "F"
        sc.append(s)
    r = rng.random()
    if r < 0.35:
        sc.append("I_logout")
    elif r < 0.7:
        sc.append("A_logout")
    if r < 0.7 and rng.random() < 0.2:
        sc.append(rng.choice(["I_hb", "A_hb", "A_ack", "I_treq", "A_treq"]))
    return sc


def child_main():
    """runs in a child process: executes scripts against both set-ups, prints one JSON line"""
    import asyncio
    import faulthandler
    import logging
    from unittest.mock import AsyncMock, MagicMock
    faulthandler.dump_traceback_later(int(os.environ.get("C20_CHILD_TIMEOUT", "150")), exit=True)
    import asyncfix.connection as connmod
    from asyncfix.codec import Codec
    from asyncfix.connection import ConnectionState
    from asyncfix.connection_client import AsyncFIXClient
    from asyncfix.connection_server import AsyncFIXDummyServer
    from asyncfix.journaler import Journaler
    from asyncfix.protocol import FIXProtocol44
    L = lib()
    FIXTester, FIXNewOrderSingle, FExecType, FOrdStatus = L["FIXTester"], L["FIXNewOrderSingle"], L["FExecType"], L["FOrdStatus"]
    SCHEMA = L["SCHEMA"]
    const_t = "20230919-07:13:26.808"
    Codec.current_datetime = staticmethod(lambda: const_t)
    FIXNewOrderSingle.current_datetime = staticmethod(lambda: const_t)

    class _Time:
        @staticmethod
        def time():
            return 1000000.0
    connmod.time = _Time
    log = logging.getLogger("c20child")
    log.addHandler(logging.NullHandler())
    log.propagate = False
    log.setLevel(logging.CRITICAL + 1)

    class Init(AsyncFIXClient):
        def __init__(self):
            super().__init__(FIXProtocol44(), "INITIATOR", "ACCEPTOR", Journaler(), "localhost", 64444, 30, log)
            self.events, self.rx = [], []

        async def on_message(self, msg):
            self.events.append(["app", [[k, str(v)] for k, v in msg.tags.items()]])

        async def on_logon(self, is_healthy):
            self.events.append(["logon", bool(is_healthy)])

        async def on_logout(self, msg):
            self.events.append(["logout"])

        async def on_disconnect(self):
            self.events.append(["disconnect"])

        async def on_state_change(self, s):
            self.events.append(["state", int(s)])

        async def _process_message(self, msg, raw):
            self.rx.append(raw.hex())
            await super()._process_message(msg, raw)

    class Wire:
        def __init__(self):
            self.q, self.sent, self.closed = [], [], False

        def writer(self):
            w = MagicMock()
            w.write.side_effect = self._write
            w.close.side_effect = self._close
            w.drain = AsyncMock()
            w.wait_closed = AsyncMock()
            return w

        def _write(self, data):
            self.q.append(data)
            self.sent.append(data.hex())

        def _close(self):
            self.closed = True

    class SetupA:
        """initiator against FIXTester's simulated acceptor (the helper wires the fake writers itself)"""
        def __init__(self, start=(1, 1)):
            self.init = Init()
            self.init._connection_state = ConnectionState.NETWORK_CONN_ESTABLISHED
            self.init._session.next_num_out, self.init._session.next_num_in = start
            self.ft = FIXTester(schema=SCHEMA, connection=self.init)
            self.tx = []
            inner = self.init._socket_writer.write.side_effect

            def w(data):
                self.tx.append(data.hex())
                return inner(data)
            self.init._socket_writer.write.side_effect = w

        async def pump(self):
            n = 0
            while self.ft.acceptor_rcv_que and n < 100:
                n += 1
                await self.ft.process_msg_acceptor()

        async def acc_send(self, msg):
            await self.ft.reply(msg)

        async def acc_testreq(self):
            await self.ft.reply(self.ft.msg_test_request(1000000))

        def acc(self):
            c = self.ft.conn_accept
            return [int(c.connection_state), c._session.next_num_in, c._session.next_num_out]

    class SetupB:
        """initiator against a real AsyncFIXDummyServer object; fake writers cross-wired in memory"""
        def __init__(self, start=(1, 1)):
            self.init = Init()
            self.init._connection_state = ConnectionState.NETWORK_CONN_ESTABLISHED
            self.init._session.next_num_out, self.init._session.next_num_in = start
            self.srv = AsyncFIXDummyServer(FIXProtocol44(), "ACCEPTOR", "INITIATOR", Journaler(), "localhost", 64444, 30, log)
            self.srv._connection_state = ConnectionState.NETWORK_CONN_ESTABLISHED     # what _handle_accept does
            # a real acceptor resumed on its journal of the same session: its counters mirror the initiator's
            self.srv._session.next_num_in, self.srv._session.next_num_out = start
            self.i2a, self.a2i = Wire(), Wire()
            self.init._socket_writer = self.i2a.writer()
            self.srv._socket_writer = self.a2i.writer()
            self.tx = self.i2a.sent
            self.ft = FIXTester(schema=SCHEMA)     # message fabrication only

        async def pump(self):
            n = 0
            while (self.i2a.q or self.a2i.q) and n < 200:
                n += 1
                if self.a2i.q:
                    d = self.a2i.q.pop(0)
                    m, _, _ = self.init._codec.decode(d, silent=False)
                    await self.init._process_message(m, d)
                else:
                    d = self.i2a.q.pop(0)
                    m, _, _ = self.srv._codec.decode(d, silent=False)
                    await self.srv._process_message(m, d)

        async def acc_send(self, msg):
            await self.srv.send_msg(msg)

        async def acc_testreq(self):
            await self.srv.send_test_req()

        def acc(self):
            c = self.srv
            return [int(c.connection_state), c._session.next_num_in, c._session.next_num_out]

    async def run_script(S, script):
        out = []
        order = FIXNewOrderSingle("ord", "TICK", "1", 10.0, 8.0)
        req = None
        ntx = nrx = nev = 0
        for k in script:
            exc, skipped = None, False
            try:
                if k == "I_logon":
                    await S.init.send_msg(S.ft.msg_logon())
                elif k == "I_new":
                    m = order.new_req()
                    S.ft.order_register_single(order)
                    await S.init.send_msg(m)
                elif k == "I_cxl":
                    if order.can_cancel() and not order.orig_clord_id:
                        req = S.ft.fix_cxl_request(order)
                        await S.init.send_msg(req)
                    else:
                        skipped = True
                elif k == "I_rep":
                    if order.can_replace() and not order.orig_clord_id:
                        req = S.ft.fix_rep_request(order, order.price + 0.25)
                        await S.init.send_msg(req)
                    else:
                        skipped = True
                elif k in ("A_ack", "A_fill", "A_done"):
                    st = str(getattr(order.status, "value", order.status))
                    m = None
                    if order.clord_id not in S.ft.registered_orders:
                        skipped = True
                    elif k == "A_ack" and st == "A":
                        m = S.ft.fix_exec_report_msg(order, order.clord_id, FExecType.NEW, FOrdStatus.NEW, cum_qty=0,
                                                     leaves_qty=order.qty)
                    elif k == "A_fill" and st in ("0", "1") and order.qty - order.cum_qty >= 2:
                        c = order.cum_qty + 2.0
                        m = S.ft.fix_exec_report_msg(order, order.clord_id, FExecType.TRADE,
                                                     FOrdStatus.FILLED if c == order.qty else FOrdStatus.PARTIALLY_FILLED,
                                                     cum_qty=c, leaves_qty=order.qty - c, last_qty=2.0, avg_price=order.price)
                    elif k == "A_done" and st == "6":
                        m = S.ft.fix_exec_report_msg(order, order.clord_id, FExecType.CANCELED, FOrdStatus.CANCELED,
                                                     leaves_qty=0, orig_clord_id=order.orig_clord_id)
                    elif k == "A_done" and st == "E":
                        m = S.ft.fix_exec_report_msg(order, order.clord_id, FExecType.REPLACED, FOrdStatus.NEW,
                                                     price=order.price + 0.25, order_qty=order.qty,
                                                     leaves_qty=order.qty - order.cum_qty, orig_clord_id=order.orig_clord_id)
                    if m is not None:
                        await S.acc_send(m)
                        order.process_execution_report(m)
                    else:
                        skipped = True
                elif k == "A_rej":
                    if req is not None and order.orig_clord_id:
                        m = S.ft.fix_cxlrep_reject_msg(req, FOrdStatus.NEW)
                        req = None
                        await S.acc_send(m)
                        order.process_cancel_rej_report(m)
                    else:
                        skipped = True
                elif k == "I_hb":
                    await S.init.send_msg(S.ft.msg_heartbeat())
                elif k == "I_hb_id":
                    await S.init.send_msg(S.ft.msg_heartbeat("X1"))
                elif k == "A_hb":
                    await S.acc_send(S.ft.msg_heartbeat())
                elif k == "I_treq":
                    await S.init.send_test_req()
                elif k == "A_treq":
                    await S.acc_testreq()
                elif k == "I_logout":
                    await S.init.send_msg(S.ft.msg_logout())
                elif k == "A_logout":
                    await S.acc_send(S.ft.msg_logout())
                await S.pump()
            except Exception as e:  # noqa: BLE001
                exc = type(e).__name__
            s = S.init._session
            out.append({"tx": S.tx[ntx:], "rx": S.init.rx[nrx:], "events": S.init.events[nev:],
                        "state": int(S.init.connection_state), "role": S.init.connection_role.name,
                        "nin": s.next_num_in, "nout": s.next_num_out, "treq": S.init._test_req_id,
                        "exc": exc, "skipped": skipped, "acc": S.acc()})
            ntx, nrx, nev = len(S.tx), len(S.init.rx), len(S.init.events)
        return out

    STARTS = [(1, 1), (1, 1), (5, 4), (3, 9), (12, 2)]

    def one(setup, script):
        # resumed sessions (asymmetric starting counters) for part of the scripts, chosen by the script itself
        start = STARTS[sum(len(str(k)) for k in script) % len(STARTS)]
        try:
            return asyncio.run(asyncio.wait_for(run_script(setup(start), script), 10))
        except Exception as e:  # noqa: BLE001
            return [{"crash": type(e).__name__ + ": " + str(e)[:200]}]

    scripts = json.load(sys.stdin)["scripts"]
    res = []
    for sc in scripts:
        res.append({"script": sc, "helper": one(SetupA, sc), "real": one(SetupB, sc)})
    json.dump(res, sys.stdout, default=list)
    sys.stdout.write("\n")
    sys.stdout.flush()


def run_sessions(ctx, scripts, timeout=150):
    env = core.child_env()
    env["C20_CHILD_TIMEOUT"] = str(timeout)
    try:
        p = subprocess.run([core.PY, "-m", "harness.c20", "--session-child"], input=json.dumps({"scripts": scripts}).encode(),
                           stdout=subprocess.PIPE, stderr=subprocess.PIPE, timeout=timeout + 20, cwd=core.ROOT, env=env)
    except subprocess.TimeoutExpired:
        ctx.fail({"kind": "session", "script": None}, "session child timed out (a script spins without yielding?)", None)
        return
    try:
        res = json.loads(p.stdout.decode().strip().splitlines()[-1])
    except Exception:  # noqa: BLE001
        raise RuntimeError("session child failed rc=%s: %s" % (p.returncode, p.stderr.decode()[-1500:]))
    KEYS = ["tx", "rx", "events", "state", "role", "nin", "nout", "treq", "exc", "skipped"]
    for r in res:
        sc, a, b = r["script"], r["helper"], r["real"]
        case = {"kind": "session", "script": sc}
        active = any(s.get("state") == 17 for s in a)
        app = any(e[0] == "app" for s in a for e in s.get("events", []))
        ctx.case(tuple(sc), nontrivial=active and len(sc) >= 3,
                 sample={"script": sc, "states": [s.get("state") for s in a]} if len(ctx.samples) < 5 else None)
        ctx.traces += 1
        for s in sc:
            ctx.count("step:" + s)
        ctx.count("script:active" if active else "script:never-active")
        if app:
            ctx.count("script:app-delivered-to-initiator")
        if len(a) != len(b) or any("crash" in s for s in a + b):
            ctx.fail(case, "session run crashed / timed out: helper=%r real=%r" % (a[-1:], b[-1:]), None)
            continue
        for i, (x, y) in enumerate(zip(a, b)):
            diff = [k for k in KEYS if x.get(k) != y.get(k)]
            if diff:
                cls = None
                ctx.fail(dict(case, step=i), "step %d (%s): initiator sees different %s against the helper's acceptor than against a "
                         "real acceptor endpoint: helper=%r real=%r" % (i, sc[i], diff, {k: x.get(k) for k in diff},
                                                                       {k: y.get(k) for k in diff}), cls)
                break
            if x.get("acc") != y.get("acc"):
                ctx.count("note:acceptor-side-differs")
                if len(ctx.notes) < 3:
                    ctx.notes.append("acceptor side differs (not part of the initiator's view) script=%s step=%d helper=%r real=%r"
                                     % (sc, i, x.get("acc"), y.get("acc")))


# --------------------------------------------------------------------------------------------
# driver
# --------------------------------------------------------------------------------------------

def compare(ctx, reqs):
    if not ctx.model or not reqs:
        return
    outs = ctx.model.batch([r[0] for r in reqs])
    for (line, impl, case, proj), mo in zip(reqs, outs):
        if json.loads(json.dumps(impl)) != mo:
            ctx.disagree(mkcase(case), impl, mo, proj)


def corpus_hist(ctx):
    """fixed witnesses of the recorded findings: always run first"""
    out = []
    new = ["new", 0, "ord", "TICK", "1", 10 * U, 8 * U, "000000", 0]
    ack = ["ord--1", "0", "0", 0, 8 * U, None, None, None, None, 0]
    for acts in (
        [new, ["fab", 0, ["ord--1", "A", "A", None, None, None, None, None, None, 0], 0], ["fab", 0, ack, 1]],   # open loop OrderID
        [new, ["fab", 0, ["foreign", "0", "0", 0, 8 * U, None, None, None, None, 0], 1]],                       # foreign ClOrdID
        [new, ["fab", 0, ack, 1], ["fab", 0, ["ord--1", "D", "Z", None, None, None, None, None, None, 0], 1]],   # OrdStatus Z
    ):
        h = Hist(ctx)
        for a in acts:
            h.do(a)
        out.append(h)
    # two-phase history: reports, reset_messages(), more reports (ExecIDs must go on increasing)
    h = Hist(ctx)
    for a in ([new, ["fab", 0, ack, 1], ["fab", 0, ["ord--1", "F", "1", 2 * U, 6 * U, 2 * U, None, None, None, 0], 1], ["reset"],
               ["factory", 0], ["query", 0, -1],
               ["fab", 0, ["ord--1", "F", "1", 5 * U, 3 * U, 3 * U, None, None, None, 0], 1],
               ["fab", 0, ["ord--1", "F", "2", 8 * U, 0, 3 * U, None, None, None, 0], 1]]):
        h.do(a)
    out.append(h)
    h = Hist(ctx)
    for a in (["conn"], new, ["fab", 0, ack, 1], ["traffic", 0], ["setnum", 5, 7], ["reset"], ["traffic", 1],
              ["fab", 0, ["ord--1", "4", "4", None, 0, None, None, None, None, 0], 1]):
        h.do(a)
    out.append(h)
    h = Hist(ctx, exact=False)
    h.do(["new", 0, "nx", "TICK", "1", ["f", "10.0"], ["f", "1e-05"], "000000", 0])
    h.do(["fab", 0, ["nx--1", "0", "0", ["f", "0.0"], ["f", "1e-05"], None, None, None, None, ["f", "0.0"]], 1])
    h.do(["fab", 0, ["nx--1", "0", "0", None, None, None, None, None, None, ["f", "nan"]], 0])
    out.append(h)
    return out


def run(ctx):
    import gc
    gc.disable()          # many small long-lived records: generational collections would dominate the run time
    try:
        _run(ctx)
    finally:
        gc.enable()


def _run(ctx):
    rng = ctx.rng
    t0 = time.time()
    reqs = []
    hs = corpus_hist(ctx)
    for _ in range(ctx.scale(2500, 20000)):
        hs.append(gen_history(ctx, rng))
    for _ in range(ctx.scale(400, 3000)):
        hs.append(gen_nonexact(ctx, rng))
    for h in hs:
        reqs.extend(h.model_reqs)
    reqs.extend(run_factories(ctx, rng, ctx.scale(300, 3000)))
    ctx.extra["fabrication_s"] = round(time.time() - t0, 1)
    t1 = time.time()
    compare(ctx, reqs)
    ctx.extra["model_s"] = round(time.time() - t1, 1)
    t2 = time.time()
    fixed = [["I_logon", "I_new", "A_ack", "A_fill", "I_cxl", "A_done", "I_treq", "A_treq", "I_hb", "A_hb", "I_logout"],
             ["I_logon", "I_new", "A_ack", "I_rep", "A_done", "A_fill", "A_logout"],
             ["I_logon", "I_new", "A_ack", "I_cxl", "A_rej", "A_fill", "A_logout", "I_hb"]]
    scripts = fixed + [gen_script(rng) for _ in range(ctx.scale(400, 4000))]
    run_sessions(ctx, scripts, timeout=ctx.scale(150, 600))
    ctx.extra["session_s"] = round(time.time() - t2, 1)


def search(ctx, cases):
    """A proof or the correspondence broke: look for an input on which the implementation itself breaks the property."""
    rng = random.Random(ctx.seed + 1)
    for c in cases:
        if isinstance(c, dict) and c.get("kind") == "hist":
            h = Hist(ctx, exact=c.get("exact", True))
            for a in c["actions"]:
                try:
                    h.do(a)
                except Exception:  # noqa: BLE001
                    break
            if ctx.failures:
                return
    t0 = time.time()
    while time.time() - t0 < ctx.scale(30, 300) and not ctx.failures:
        gen_history(ctx, rng)
    if not ctx.failures:
        run_sessions(ctx, [gen_script(rng) for _ in range(100)])


class _ReplayCtx(core.Ctx):
    def __init__(self):
        super().__init__("C20", "quick", 0)


def replay(path):
    rec = json.load(open(path))
    case = rec.get("input")
    if not case:
        print("replay: no concrete input; broken:", rec.get("broken"))
        return 1
    ctx = _ReplayCtx()
    ctx.known = []          # show every breach, listed or not
    if case.get("kind") == "hist":
        h = Hist(ctx, exact=case.get("exact", True))
        for a in case["actions"]:
            h.do(a)
            print("action", json.dumps(a))
    elif case.get("kind") == "session":
        run_sessions(ctx, [case["script"]])
    elif case.get("kind") == "factory":
        L = lib()
        t = L["FIXTester"](schema=None)
        c = case["call"]
        m = getattr(t, c[0])(*([dict(c[1])] if c[0] == "msg_logon" else c[1:]))
        try:
            L["SCHEMA"].validate(m)
        except Exception as e:  # noqa: BLE001
            ctx.fail(case, "session message fails FIXSchema.validate: %s" % e, None)
    for f in ctx.failures:
        print("FAILS:", f["what"])
    print("replay: %d failure(s) on the implementation" % len(ctx.failures))
    return 1 if ctx.failures else 0


if __name__ == "__main__":
    if "--session-child" in sys.argv:
        sys.path.insert(0, core.REPO)
        child_main()
