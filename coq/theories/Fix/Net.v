(* C07: two endpoints of the library talking to each other over a link that may break.

   The model is built ON TOP of the message-level session model Fix/Session.v (the same functions
   that C04 / C05 / C11 tie to asyncfix/connection.py): a network state is two session worlds
   (A = the initiator object, an AsyncFIXClient; B = the acceptor object, an AsyncFIXDummyServer),
   one FIFO list of frames in flight per direction, and what each application has been handed /
   has had accepted so far.  No proofs here (see Lemmas/NetL.v, Props/C07.v).

   Transport semantics
   * a frame written by a side is appended to its outbound channel (one frame per write);
   * `ADeliver s` hands the next item of the stream towards side s to that side: a frame is
     decoded (message-level: BeginString/BodyLength/MsgType/CheckSum fields are put back around
     the written tags, see recv_of) and given to _process_message; when the channel is empty and
     the other side has closed its writer, the item is end-of-file and side s runs
     disconnect(DISCONNECTED_BROKEN_CONN) as socket_read_task does on ConnectionError; a side that
     is itself disconnected reads nothing (its frames are dropped);
   * `ABreak` loses everything in flight both ways and both ends run that disconnect path;
   * `AReconnect` (enabled when both ends are disconnected; also the very first connect): a new
     transport for the SAME two connection objects - journals and live counters retained -, both
     get state NETWORK_CONN_ESTABLISHED and a writer as connect() / _handle_accept() do, and the
     initiator sends Logon(98=0, 108=30);
   * `ASend s` is the application of side s calling send_msg with a fresh application message
     (35=D, 58=m<id>); the call is ACCEPTED when it returns without exception;
   * `ASendFail s` is the same call on a transport that has just died: write()/drain() raise AFTER
     the message was journaled under its number (send_msg journals first): the caller sees an
     exception, nothing is transmitted, the break follows at once; such a send is COMMITTED
     (see do_send) and must be delivered after the recovery like an accepted one.
   Timers (heartbeat, TestRequest, the 1.5 x heartbeat reconnect delay) and byte-level reassembly
   are outside this model. *)
From Coq Require Import ZArith NArith List Bool.
From AF Require Import Base.Sx Py.Str Fix.Session.
From AFGen Require Import GenEnums GenGroups.
Import ListNotations.
Open Scope Z_scope.

(* ------------------------------------------------------------------ constants of the two ends *)

Definition CID_A : str := [67%N; 76%N; 73%N].            (* "CLI" *)
Definition CID_B : str := [83%N; 82%N; 86%N].            (* "SRV" *)
Definition TIME0 : str :=                                (* "20230101-10:00:00.000" *)
  [50;48;50;51;48;49;48;49;45;49;48;58;48;48;58;48;48;46;48;48;48]%N.
Definition NOW0 : Z := 1000000.

Definition cfgA : cfg := mkCfg beginstring CID_A CID_B TIME0 sys_maxsize (fun _ => true).
Definition cfgB : cfg := mkCfg beginstring CID_B CID_A TIME0 sys_maxsize (fun _ => true).

Definition ST_NOCONN := 1.

(* a connection object as its constructor leaves it (fresh in-memory journal) *)
Definition world0 (r : Z) : world :=
  mkW ST_NOCONN r 1 1 0 None false 0 false (mkJ 0 0 [] []).

Definition MT_D : str := [68%N].                         (* NewOrderSingle: any application type *)
Definition payload (id : Z) : str := 109%N :: z_to_dec id.   (* "m<id>" *)
Definition app_msg (id : Z) : msg := mkMsg MT_D [(T58, payload id)].
Definition logon_msg : msg := mkMsg MT_LOGON [(T98, S_0); (T108, [51%N; 48%N])].

(* what Codec.decode gives the receiver for a frame written as `m` (BodyLength / CheckSum values
   are never read by the session layer: placeholders) *)
Definition recv_of (c : cfg) (m : msg) : msg := decode_row c (0, m).

(* ------------------------------------------------------------------ state *)

Inductive side := SA | SB.

Record net := mkNet {
  wa : world; wb : world;
  ab : list msg;                 (* frames in flight A -> B *)
  ba : list msg;                 (* frames in flight B -> A *)
  ga : list (option str);        (* Text(58) of what on_message of A was handed, in order *)
  gb : list (option str);
  sa : list str;                 (* payloads of A's application sends that were accepted / committed, in order *)
  sb : list str;
  nid : Z                        (* next fresh payload id *)
}.

Definition net0 : net := mkNet (world0 ROLE_INITIATOR) (world0 ROLE_ACCEPTOR) [] [] [] [] [] [] 1.

Definition other (s : side) : side := match s with SA => SB | SB => SA end.
Definition world_of (s : side) (n : net) : world := match s with SA => wa n | SB => wb n end.
Definition cfg_of (s : side) : cfg := match s with SA => cfgA | SB => cfgB end.
(* the channel whose reader is side s *)
Definition chan_to (s : side) (n : net) : list msg := match s with SA => ba n | SB => ab n end.

Definition wires (evs : list event) : list msg :=
  flat_map (fun e => match e with Wire m => [m] | _ => [] end) evs.
Definition apps (evs : list event) : list (option str) :=
  flat_map (fun e => match e with App m => [get T58 (mtags m)] | _ => [] end) evs.

(* side s ran a library call with result r: its world, what it wrote, what its application got *)
Definition apply_res {A} (s : side) (r : res A) (n : net) : net :=
  match s with
  | SA => mkNet (rw r) (wb n) (ab n ++ wires (re r)) (ba n) (ga n ++ apps (re r)) (gb n) (sa n) (sb n) (nid n)
  | SB => mkNet (wa n) (rw r) (ab n) (ba n ++ wires (re r)) (ga n) (gb n ++ apps (re r)) (sa n) (sb n) (nid n)
  end.

Definition set_chan_to (s : side) (l : list msg) (n : net) : net :=
  match s with
  | SA => mkNet (wa n) (wb n) (ab n) l (ga n) (gb n) (sa n) (sb n) (nid n)
  | SB => mkNet (wa n) (wb n) l (ba n) (ga n) (gb n) (sa n) (sb n) (nid n)
  end.

Definition set_world (s : side) (w : world) (n : net) : net :=
  match s with
  | SA => mkNet w (wb n) (ab n) (ba n) (ga n) (gb n) (sa n) (sb n) (nid n)
  | SB => mkNet (wa n) w (ab n) (ba n) (ga n) (gb n) (sa n) (sb n) (nid n)
  end.

Definition clear_chans (n : net) : net :=
  mkNet (wa n) (wb n) [] [] (ga n) (gb n) (sa n) (sb n) (nid n).

Definition accepted (s : side) (p : str) (n : net) : net :=
  match s with
  | SA => mkNet (wa n) (wb n) (ab n) (ba n) (ga n) (gb n) (sa n ++ [p]) (sb n) (nid n)
  | SB => mkNet (wa n) (wb n) (ab n) (ba n) (ga n) (gb n) (sa n) (sb n ++ [p]) (nid n)
  end.

Definition bump (n : net) : net :=
  mkNet (wa n) (wb n) (ab n) (ba n) (ga n) (gb n) (sa n) (sb n) (nid n + 1).

Definition disconnected (w : world) : bool := st w <=? ST_DISC_BROKEN.
Definition link_down (n : net) : bool := disconnected (wa n) && disconnected (wb n).

(* ------------------------------------------------------------------ actions *)

Inductive action :=
| ASend (s : side)
| ASendFail (s : side)
| ADeliver (s : side)        (* next item of the stream TOWARDS side s *)
| ABreak
| AReconnect.

Definition do_break (n : net) : net :=
  if link_down n then n else
  let n1 := clear_chans n in
  let n2 := apply_res SA (disconnect cfgA ST_DISC_BROKEN None (wa n1)) n1 in
  let n3 := apply_res SB (disconnect cfgB ST_DISC_BROKEN None (wb n2)) n2 in
  clear_chans n3.

(* A send is COMMITTED when the call returned (accepted) or when it raised from the dead transport AFTER the
   message had been journaled (send_msg journals before it writes): the caller saw an exception, the session
   layer owns the message and the peer's ResendRequest recovers it.  `sa` / `sb` list the committed sends. *)
Definition do_send (s : side) (fail : bool) (n : net) : net :=
  let id := nid n in
  let w := world_of s n in
  let r := send_msg (cfg_of s) (app_msg id) (if fail then set_wr false w else w) in
  let n1 := bump (apply_res s r n) in
  match rv r with
  | inl _ => accepted s (payload id) n1
  | inr _ =>
      if fail && (length (j_out (jr w)) <? length (j_out (jr (rw r))))%nat
      then accepted s (payload id) n1 else n1
  end.

(* something is waiting to be read by side s *)
Definition pending (s : side) (n : net) : bool :=
  match chan_to s n with
  | _ :: _ => true
  | [] => negb (wr (world_of (other s) n)) && negb (disconnected (world_of s n))
  end.

Definition do_deliver (s : side) (n : net) : net :=
  match chan_to s n with
  | m :: rest =>
      let n1 := set_chan_to s rest n in
      if disconnected (world_of s n) then n1
      else apply_res s (process_message (cfg_of s) (recv_of (cfg_of s) m) NOW0 (world_of s n)) n1
  | [] =>
      if negb (wr (world_of (other s) n)) && negb (disconnected (world_of s n))
      then apply_res s (disconnect (cfg_of s) ST_DISC_BROKEN None (world_of s n)) n
      else n
  end.

Definition do_reconnect (n : net) : net :=
  if negb (link_down n) then n else
  let n1 := clear_chans n in
  let n2 := set_world SA (set_wr true (set_st ST_NCE (wa n1))) n1 in
  let n3 := set_world SB (set_wr true (set_st ST_NCE (wb n2))) n2 in
  apply_res SA (send_msg cfgA logon_msg (wa n3)) n3.

Definition step (a : action) (n : net) : net :=
  match a with
  | ASend s => do_send s false n
  | ASendFail s => do_break (do_send s true n)
  | ADeliver s => do_deliver s n
  | ABreak => do_break n
  | AReconnect => do_reconnect n
  end.

Definition run (n : net) (l : list action) : net := fold_left (fun n a => step a n) l n.

(* ------------------------------------------------------------------ quiescence and the verdict *)

Definition quiescent (n : net) : bool := negb (pending SA n) && negb (pending SB n).

(* deliver until nothing is pending; towards B first (a fixed policy: other orders are schedules) *)
Fixpoint drain (fuel : nat) (n : net) : net :=
  match fuel with
  | O => n
  | S f =>
      if pending SB n then drain f (do_deliver SB n)
      else if pending SA n then drain f (do_deliver SA n)
      else n
  end.

(* "the final reconnect + Logon + quiescence": settle what is in flight; if the link is down
   afterwards, reconnect (Logon) and settle again *)
Definition settle (fuel : nat) (n : net) : net :=
  let n1 := drain fuel n in
  if link_down n1 then drain fuel (do_reconnect n1) else n1.

Definition some_all (l : list str) : list (option str) := map Some l.

Fixpoint ostr_list_eqb (a b : list (option str)) : bool :=
  match a, b with
  | [], [] => true
  | Some x :: a', Some y :: b' => str_eqb x y && ostr_list_eqb a' b'
  | None :: a', None :: b' => ostr_list_eqb a' b'
  | _, _ => false
  end.

(* the property, decided on a settled state *)
Definition holds (n : net) : bool :=
  quiescent n
  && (st (wa n) =? ST_ACTIVE) && (st (wb n) =? ST_ACTIVE)
  && (nin (wa n) =? nout (wb n)) && (nin (wb n) =? nout (wa n))
  && ostr_list_eqb (gb n) (some_all (sa n)) && ostr_list_eqb (ga n) (some_all (sb n)).
