(* C03: the reader loop on streams of encoder frames with marker-free junk, under EVERY partition of
   the byte stream into reads.
   - wait: decode of junk ++ proper prefix of a frame consumes the junk only (frame_ok_wait); a buffer
     without a whole marker keeps its trailing marker prefix (decode_no_marker, marker_tail lemmas);
   - deliver: decode of junk ++ frame ++ anything consumes exactly junk ++ frame (RoundTripL.frame_ok_decode);
   - reader_loop on any prefix of a stream (loop_prefix), induction over the reads (run_any). *)
From Coq Require Import ZArith NArith List Bool Lia ZifyBool.
From AF Require Import Base.Sx Py.Str Fix.Codec Fix.WfMsg Lemmas.StrB Lemmas.RoundTripL.
Import ListNotations.
Open Scope N_scope.

(* ------------------------------------------------------------------ the wait lemma *)

Lemma decode_fields_few : forall G bs rawlen idx flen enc fields, (length fields < 3)%nat ->
  decode_fields G bs true rawlen idx false flen enc fields = Ok (None, Z.of_nat idx, None).
Proof.
  intros G bs rawlen idx flen enc fields H. destruct fields as [|a [|b [|c r]]]; try reflexivity. cbn in H. lia.
Qed.

Lemma decode_fields_short : forall G bs rawlen idx flen enc t0 f1v bl Y,
  cfree 61 t0 -> py_int f1v = Some bl -> (0 <= bl)%Z ->
  (rawlen - Z.of_nat idx < zlen (field t0 bs) + zlen (field T9 f1v) + 9 + bl)%Z ->
  decode_fields G bs true rawlen idx false flen enc (field t0 bs :: field T9 f1v :: Y) = Ok (None, Z.of_nat idx, None).
Proof.
  intros G bs rawlen idx flen enc t0 f1v bl Y Ht0 Hbl Hpos Hlen.
  destruct Y as [|y ys]; [reflexivity|].
  unfold decode_fields.
  unfold field at 1. rewrite (split1_field 61 t0 bs Ht0). rewrite str_eqb_refl. cbn [negb].
  unfold field at 1, T9. rewrite (split1_field 61 [57] f1v) by (intros [E|[]]; discriminate).
  fold T9. rewrite str_eqb_refl. cbn [negb]. rewrite Hbl.
  fold (field t0 bs). fold (field T9 f1v).
  destruct (bl <? 0)%Z eqn:E0; [lia|].
  destruct (rawlen - Z.of_nat idx <? _)%Z eqn:E; [reflexivity | lia].
Qed.

Definition strip_last (l : list str) : list str :=
  match rev l with [] :: r => rev r | _ => l end.

Lemma fields_of_strip : forall s, fields_of s = strip_last (split_on 1 s).
Proof. reflexivity. Qed.

Lemma strip_last_two : forall a b X, X <> [] -> exists Y, strip_last (a :: b :: X) = a :: b :: Y.
Proof.
  intros a b X HX. unfold strip_last.
  destruct (exists_last HX) as [X' [x EX]]. subst X.
  change (a :: b :: X' ++ [x]) with ((a :: b :: X') ++ [x]). rewrite rev_app_distr. cbn [rev app].
  destruct x as [|c x].
  - exists X'. rewrite rev_app_distr. cbn [rev app]. rewrite rev_app_distr, rev_involutive. reflexivity.
  - exists (X' ++ [c :: x]). reflexivity.
Qed.

Lemma strip_last_short : forall l, (length l <= 2)%nat -> (length (strip_last l) <= 2)%nat.
Proof.
  intros l H. unfold strip_last. destruct (rev l) as [|[|c x] r] eqn:E; try assumption.
  rewrite rev_length. assert (length (rev l) = length l) by apply rev_length. rewrite E in H0. cbn in H0. lia.
Qed.

Lemma cfree_prefix : forall c a b, cfree c (a ++ b) -> cfree c a.
Proof. intros c a b H. apply cfree_app in H. tauto. Qed.

(* the field list of any proper prefix of a good frame is rejected as incomplete *)
Lemma wait_fields : forall G bs F dm P Q rawlen idx flen,
  frame_ok G bs F dm -> F = P ++ Q -> Q <> [] -> (rawlen - Z.of_nat idx < zlen F)%Z ->
  decode_fields G bs true rawlen idx false flen P (fields_of P) = Ok (None, Z.of_nat idx, None).
Proof.
  intros G bs F dm P Q rawlen idx flen [f1v [f2 [rest [bl [st H]]]]] EF HQ Hraw. cbv zeta in H.
  destruct H as [HF [Hsoh [_ [Hbl [Hpos [Hlen _]]]]]].
  rewrite fields_of_strip.
  pose proof (Forall_inv Hsoh) as S0. pose proof (Forall_inv (Forall_inv_tail Hsoh)) as S1.
  assert (HlenP : (rawlen - Z.of_nat idx < zlen (field T8 bs) + zlen (field T9 f1v) + 9 + bl)%Z) by (rewrite Hlen; exact Hraw).
  assert (H1 : P ++ Q = flat (field T8 bs :: field T9 f1v :: f2 :: rest)) by congruence.
  clear Hlen EF HF Hsoh.
  remember (field T8 bs) as f0 eqn:Ef0. remember (field T9 f1v) as f1 eqn:Ef1.
  rewrite (flat_cons f0), (flat_cons f1) in H1. remember (flat (f2 :: rest)) as R eqn:ER. clear ER.
  apply app_eq_app in H1 as [l [[E1 E2]|[E1 E2]]].
  - destruct l as [|c l].
    + rewrite app_nil_r in E1. subst P. rewrite (split_on_free 1 _ S0).
      apply decode_fields_few. apply Nat.lt_succ_r. apply strip_last_short. cbn. lia.
    + cbn [app] in E2. injection E2 as Ec E2. subst c.
      apply app_eq_app in E2 as [l2 [[E3 E4]|[E3 E4]]].
      * subst P. rewrite (split_on_app_sep 1 _ _ S0). rewrite E3 in S1.
        rewrite (split_on_free 1 _ (cfree_prefix _ _ _ S1)).
        apply decode_fields_few. apply Nat.lt_succ_r. apply strip_last_short. cbn. lia.
      * destruct l2 as [|c l2].
        -- rewrite app_nil_r in E3. subst l P. rewrite (split_on_app_sep 1 _ _ S0), (split_on_free 1 _ S1).
           apply decode_fields_few. apply Nat.lt_succ_r. apply strip_last_short. cbn. lia.
        -- cbn [app] in E4. injection E4 as Ec E4. subst c l P.
           rewrite (split_on_app_sep 1 _ _ S0), (split_on_app_sep 1 _ _ S1).
           destruct (strip_last_two f0 f1 (split_on 1 l2) (split_on_nonempty 1 l2)) as [Y EY].
           rewrite EY. subst f0 f1. apply (decode_fields_short G bs _ _ _ _ T8 f1v bl Y); try assumption.
           apply cfreeb_spec. reflexivity.
  - rewrite E1 in S0. rewrite (split_on_free 1 _ (cfree_prefix _ _ _ S0)).
    apply decode_fields_few. apply Nat.lt_succ_r. apply strip_last_short. cbn. lia.
Qed.

Lemma frame_ok_shape : forall G bs F dm, frame_ok G bs F dm -> frame_shape F.
Proof. intros G bs F dm [f1v [f2 [rest [bl [st H]]]]]. cbv zeta in H. tauto. Qed.

Lemma frame_ok_facts : forall G bs F dm, frame_ok G bs F dm -> prefixb MARK F = true /\ (6 <= length F)%nat.
Proof.
  intros G bs F dm H. pose proof (frame_ok_shape _ _ _ _ H) as HS.
  split; [exact (proj1 HS) | apply frame_shape_len; assumption].
Qed.

(* wait lemma: marker-free junk followed by a proper prefix (at least 6 bytes) of a good frame: the junk is
   consumed, no byte of the frame is *)
Lemma frame_ok_wait : forall G bs J F dm P Q,
  find_sub MARK J = None -> frame_ok G bs F dm -> F = P ++ Q -> Q <> [] -> (6 <= length P)%nat ->
  decode G bs (J ++ P) true = Ok (None, zlen J, None).
Proof.
  intros G bs J F dm P Q HJ Hok EF HQ HP.
  rewrite (decode_prefix_gen G bs J F P Q true HJ (frame_ok_shape _ _ _ _ Hok) EF HQ HP).
  apply (wait_fields G bs F dm P Q _ (length J) _ Hok EF HQ).
  rewrite EF, !zlen_app. unfold zlen. destruct Q; [contradiction | cbn [length]; lia].
Qed.

(* ------------------------------------------------------------------ buffers without a whole marker *)

(* junk followed by at most 5 bytes of a marker contains no marker *)
Lemma junk_partial_no_mark : forall J p, find_sub MARK J = None -> (p <= 5)%nat ->
  find_sub MARK (J ++ firstn p MARK) = None.
Proof.
  intros J p HJ Hp. destruct p as [|p]; [cbn [firstn]; rewrite app_nil_r; exact HJ|].
  change (firstn (S p) MARK) with (56 :: firstn p [61; 70; 73; 88; 46]).
  rewrite (find_sub_junk_gen 56 [61; 70; 73; 88; 46] J _ MARK_no_border HJ).
  assert (H : find_sub (56 :: [61; 70; 73; 88; 46]) (56 :: firstn p [61; 70; 73; 88; 46]) = None).
  { do 5 (destruct p as [|p]; [reflexivity|]). lia. }
  rewrite H. reflexivity.
Qed.

Lemma ends_with_spec : forall p s, ends_with p s = true -> exists pre, s = pre ++ p.
Proof.
  intros p s H. unfold ends_with in H. apply prefixb_spec in H as [r E].
  exists (rev r). rewrite <- (rev_involutive s), E, rev_app_distr, rev_involutive. reflexivity.
Qed.

Lemma marker_tail_from_spec : forall k raw, (marker_tail_from k raw <= k)%nat
  /\ exists pre, raw = pre ++ firstn (marker_tail_from k raw) MARK.
Proof.
  induction k as [|k IH]; intro raw.
  - split; [reflexivity|]. exists raw. cbn. rewrite app_nil_r. reflexivity.
  - cbn [marker_tail_from]. destruct (ends_with (firstn (S k) MARK) raw) eqn:E.
    + split; [lia|]. apply ends_with_spec. assumption.
    + destruct (IH raw) as [A B]. split; [lia | assumption].
Qed.

(* what stays in the buffer: its last marker_tail bytes, a proper prefix of the marker *)
Lemma marker_tail_spec : forall raw, exists k pre, marker_tail raw = k /\ (k <= 5)%nat
  /\ raw = pre ++ firstn k MARK /\ length (firstn k MARK) = k.
Proof.
  intro raw. destruct (marker_tail_from_spec 5 raw) as [A [pre B]].
  exists (marker_tail raw), pre. unfold marker_tail in *. repeat split; try assumption.
  rewrite firstn_length. cbn [length MARK]. lia.
Qed.

(* junk followed by the first p (1..5) bytes of a marker: exactly these p bytes stay *)
Lemma marker_tail_partial : forall J p, (1 <= p <= 5)%nat -> marker_tail (J ++ firstn p MARK) = p.
Proof.
  intros J p Hp. unfold marker_tail, marker_tail_from, ends_with.
  rewrite rev_app_distr.
  destruct p as [|[|[|[|[|[|p]]]]]]; try lia; cbn; reflexivity.
Qed.

(* a decode that returns no message: if it consumed bytes the loop looks once more at what is left,
   which waits without consuming anything *)
Lemma reader_loop_wait : forall G bs f buf acc n,
  decode G bs buf true = Ok (None, Z.of_nat n, None) ->
  decode G bs (skipn n buf) true = Ok (None, 0%Z, None) ->
  (0 < n -> 1 <= f)%nat ->
  reader_loop G bs (S f) buf acc = (skipn n buf, rev acc, 0).
Proof.
  intros G bs f buf acc n H H2 Hf. cbn [reader_loop]. rewrite H.
  destruct (0 <? Z.of_nat n)%Z eqn:E.
  - rewrite Nat2Z.id. destruct f as [|f']; [lia|]. cbn [reader_loop]. rewrite H2. reflexivity.
  - assert (n = 0%nat) by lia. subst n. reflexivity.
Qed.

(* a proper prefix of the marker alone in the buffer: nothing is consumed *)
Lemma decode_marker_prefix : forall G bs k, (k <= 5)%nat ->
  decode G bs (firstn k MARK) true = Ok (None, 0%Z, None).
Proof.
  intros G bs k Hk.
  assert (H : find_sub MARK (firstn k MARK) = None) by (apply (junk_partial_no_mark [] k eq_refl Hk)).
  rewrite (decode_no_marker G bs _ H).
  do 6 (destruct k as [|k]; [reflexivity|]). lia.
Qed.

(* ------------------------------------------------------------------ the reader loop on a stream prefix *)

Definition seg_ok (G : group_table) (bs : str) (s : seg) : Prop :=
  find_sub MARK (fst s) = None /\ frame_ok G bs (fst (snd s)) (snd (snd s)).

(* what the buffer holds between two reads: a proper prefix of the marker (the end of junk, or the first
   bytes of the next frame), or at least 6 bytes of the next frame, which is not complete *)
Definition wait_state (B : str) (segs : list seg) : Prop :=
  marker_prefix B
  \/ exists F dm rest Q, segs = ([], (F, dm)) :: rest /\ F = B ++ Q /\ Q <> [] /\ (6 <= length B)%nat.

Lemma prefix_firstn : forall {A} (l l2 M r : list A), l ++ l2 = M ++ r -> (length l <= length M)%nat -> l = firstn (length l) M.
Proof.
  intros A l l2 M r E H. apply (f_equal (firstn (length l))) in E.
  rewrite firstn_exact, firstn_app in E. replace (length l - length M)%nat with 0%nat in E by lia.
  cbn [firstn] in E. rewrite app_nil_r in E. exact E.
Qed.

(* a buffer without a whole marker: one decode, the trailing marker prefix stays *)
Lemma loop_no_marker : forall G bs f B acc, find_sub MARK B = None -> (length B <= f)%nat ->
  exists pre T, B = pre ++ T /\ marker_prefix T /\ marker_tail B = length T
    /\ reader_loop G bs (S f) B acc = (T, rev acc, 0).
Proof.
  intros G bs f B acc H Hfuel. destruct (marker_tail_spec B) as [k [pre [Ek [Hk [EB Hlen]]]]].
  exists pre, (firstn k MARK). split; [exact EB|]. split; [exists k; split; [assumption | reflexivity]|].
  split; [rewrite Hlen; exact Ek|].
  assert (Hd : decode G bs B true = Ok (None, Z.of_nat (length pre), None)).
  { rewrite (decode_no_marker G bs B H), Ek. repeat f_equal.
    rewrite EB at 1. unfold zlen. rewrite app_length, Hlen. lia. }
  assert (Hsk : skipn (length pre) B = firstn k MARK) by (rewrite EB at 1; apply skipn_exact).
  rewrite (reader_loop_wait G bs f B acc (length pre) Hd).
  - rewrite Hsk. reflexivity.
  - rewrite Hsk. apply decode_marker_prefix. exact Hk.
  - intro Hp. rewrite EB, app_length in Hfuel. lia.
Qed.

Lemma loop_prefix : forall G bs segs, Forall (seg_ok G bs) segs ->
  forall Jn B S fuel acc, find_sub MARK Jn = None -> B ++ S = stream_of segs Jn -> (length B < fuel)%nat ->
  exists B' segs' Jn' done,
    reader_loop G bs fuel B acc = (B', rev acc ++ map delivered done, 0)
    /\ Forall (seg_ok G bs) segs' /\ find_sub MARK Jn' = None /\ B' ++ S = stream_of segs' Jn'
    /\ map snd segs = done ++ map snd segs' /\ (exists pre, Jn = pre ++ Jn') /\ wait_state B' segs'.
Proof.
  intros G bs segs Hok. induction Hok as [|[J [F dm]] segs [HJ HF] Hok IH]; intros Jn B S fuel acc HJn E Hfuel;
    (destruct fuel as [|f]; [lia|]).
  - (* only the final junk is left *)
    unfold stream_of in E. cbn [map concat app] in E.
    assert (HB : find_sub MARK B = None) by (rewrite <- E in HJn; apply (find_sub_none_prefix _ _ _ HJn)).
    destruct (loop_no_marker G bs f B acc HB ltac:(lia)) as [pre [T [EB [HT [_ HL]]]]].
    exists T, [], (T ++ S), []. rewrite HL. cbn [map]. rewrite app_nil_r.
    split; [reflexivity|]. split; [constructor|].
    assert (EJ : Jn = pre ++ T ++ S) by (rewrite <- E, EB, <- app_assoc; reflexivity).
    split; [rewrite EJ in HJn; apply (find_sub_none_suffix _ _ _ HJn)|].
    split; [reflexivity|]. split; [reflexivity|]. split; [exists pre; exact EJ | left; exact HT].
  - unfold stream_of in E. cbn [map concat] in E. unfold seg_bytes at 1 in E. cbn [fst snd] in *.
    rewrite <- !app_assoc in E. fold (stream_of segs Jn) in E. set (Rest := stream_of segs Jn) in *.
    destruct (frame_ok_facts _ _ _ _ HF) as [HmF HlF].
    (* the three ways a buffer without a whole frame waits *)
    assert (CaseJunk : forall l, J = B ++ l -> S = l ++ F ++ Rest ->
      exists B' segs' Jn' done,
        reader_loop G bs (Datatypes.S f) B acc = (B', rev acc ++ map delivered done, 0)
        /\ Forall (seg_ok G bs) segs' /\ find_sub MARK Jn' = None /\ B' ++ S = stream_of segs' Jn'
        /\ (F, dm) :: map snd segs = done ++ map snd segs' /\ (exists pre, Jn = pre ++ Jn') /\ wait_state B' segs').
    { intros l EJ ES.
      assert (HB : find_sub MARK B = None) by (rewrite EJ in HJ; apply (find_sub_none_prefix _ _ _ HJ)).
      destruct (loop_no_marker G bs f B acc HB ltac:(lia)) as [pre [T [EB [HT [_ HL]]]]].
      exists T, ((T ++ l, (F, dm)) :: segs), Jn, []. rewrite HL. cbn [map]. rewrite app_nil_r.
      split; [reflexivity|]. split.
      { constructor; [|assumption]. split; [|exact HF]. cbn [fst].
        rewrite EJ, EB, <- app_assoc in HJ. apply (find_sub_none_suffix _ _ _ HJ). }
      split; [assumption|]. split.
      { unfold stream_of. cbn [map concat]. unfold seg_bytes at 1. cbn [fst snd].
        rewrite ES, <- !app_assoc. reflexivity. }
      split; [reflexivity|]. split; [exists []; reflexivity | left; exact HT]. }
    apply app_eq_app in E as [l [[EB ER]|[EJ ES]]]; [|apply (CaseJunk l EJ ES)].
    symmetry in ER. apply app_eq_app in ER as [l2 [[El ER2]|[EF2 ES2]]].
    + (* B = J ++ F ++ l2: deliver and go on *)
      subst l B.
      pose proof (frame_ok_decode G bs J F dm l2 true HJ HF) as Hd.
      cbn [reader_loop]. rewrite Hd.
      assert (Hpos : (0 <? zlen J + zlen F)%Z = true) by (unfold zlen; lia). rewrite Hpos.
      assert (Hn : Z.to_nat (zlen J + zlen F) = length (J ++ F)) by (unfold zlen; rewrite app_length; lia).
      rewrite Hn, app_assoc, skipn_exact.
      assert (Hf2 : (length l2 < f)%nat) by (rewrite !app_length in Hfuel; lia).
      destruct (IH Jn l2 S f ((dm, F) :: acc) HJn (eq_sym ER2) Hf2)
        as [B' [segs' [Jn' [done [HL [Hok' [HJn' [EB' [Emap [Hpre Hw]]]]]]]]]].
      exists B', segs', Jn', ((F, dm) :: done). rewrite HL. cbn [rev map delivered fst snd].
      rewrite <- app_assoc. split; [reflexivity|]. repeat (split; [assumption|]).
      split; [cbn [map snd]; rewrite Emap; reflexivity|]. split; assumption.
    + (* B = J ++ l with l a prefix of F *)
      destruct l2 as [|q l2].
      * (* l = F, nothing behind it yet: deliver *)
        rewrite app_nil_r in EF2. subst l B. cbn [app] in ES2.
        pose proof (frame_ok_decode G bs J F dm [] true HJ HF) as Hd. rewrite app_nil_r in Hd.
        cbn [reader_loop]. rewrite Hd.
        assert (Hpos : (0 <? zlen J + zlen F)%Z = true) by (unfold zlen; lia). rewrite Hpos.
        assert (Hn : Z.to_nat (zlen J + zlen F) = length (J ++ F)) by (unfold zlen; rewrite app_length; lia).
        rewrite Hn, skipn_all.
        assert (Hf2 : (length (@nil N) < f)%nat) by (rewrite app_length in Hfuel; cbn [length]; lia).
        assert (E0 : [] ++ S = Rest) by (cbn [app]; assumption).
        destruct (IH Jn [] S f ((dm, F) :: acc) HJn E0 Hf2)
          as [B' [segs' [Jn' [done [HL [Hok' [HJn' [EB' [Emap [Hpre Hw]]]]]]]]]].
        exists B', segs', Jn', ((F, dm) :: done). rewrite HL. cbn [rev map delivered fst snd].
        rewrite <- app_assoc. split; [reflexivity|]. repeat (split; [assumption|]).
        split; [cbn [map snd]; rewrite Emap; reflexivity|]. split; assumption.
      * assert (HQ : q :: l2 <> []) by discriminate. set (Q := q :: l2) in *.
        destruct (Nat.le_gt_cases 6 (length l)) as [H6|H5].
        -- (* at least 6 bytes of the frame: the junk goes, the prefix waits *)
           subst B. pose proof (frame_ok_wait G bs J F dm l Q HJ HF EF2 HQ H6) as Hd.
           assert (Hd0 : decode G bs l true = Ok (None, 0%Z, None))
             by (exact (frame_ok_wait G bs [] F dm l Q eq_refl HF EF2 HQ H6)).
           rewrite (reader_loop_wait G bs f (J ++ l) acc (length J) Hd);
             [ | rewrite skipn_exact; exact Hd0 | intro; rewrite app_length in Hfuel; lia ].
           rewrite skipn_exact.
           exists l, (([], (F, dm)) :: segs), Jn, []. cbn [map]. rewrite app_nil_r.
           split; [reflexivity|]. split; [constructor; [split; [reflexivity | exact HF] | assumption]|].
           split; [assumption|]. split.
           { unfold stream_of. cbn [map concat]. unfold seg_bytes at 1. cbn [fst snd app].
             rewrite ES2, EF2, <- !app_assoc. reflexivity. }
           split; [reflexivity|]. split; [exists []; reflexivity|].
           right. exists F, dm, segs, Q. repeat split; assumption.
        -- destruct l as [|c l'].
           ++ (* B = J *) rewrite app_nil_r in EB. cbn [app] in EF2, ES2.
              apply (CaseJunk [] (eq_sym (eq_trans (app_nil_r B) EB))).
              rewrite ES2, <- EF2. reflexivity.
           ++ (* 1..5 bytes of the marker of F: they stay, the junk goes *)
              assert (Hl1 : (1 <= length (c :: l'))%nat) by (cbn [length]; lia).
              remember (c :: l') as l eqn:Hl0. clear Hl0.
              assert (El : l = firstn (length l) MARK).
              { apply prefixb_spec in HmF as [r Er]. rewrite Er in EF2. symmetry in EF2.
                apply (prefix_firstn l Q MARK r EF2). cbn [length MARK]. lia. }
              assert (Hp : (1 <= length l <= 5)%nat) by lia.
              assert (HB : find_sub MARK B = None) by (rewrite EB, El; apply junk_partial_no_mark; [assumption | lia]).
              destruct (loop_no_marker G bs f B acc HB ltac:(lia)) as [pre [T [EB2 [HT [Hmt HL]]]]].
              assert (ET : length T = length l) by (rewrite <- Hmt, EB, El; rewrite (marker_tail_partial J _ Hp); rewrite <- El; reflexivity).
              assert (T = l /\ pre = J).
              { rewrite EB in EB2. apply (f_equal (@rev N)) in EB2. rewrite !rev_app_distr in EB2.
                assert (E1 : rev l = rev T).
                { apply (f_equal (firstn (length (rev l)))) in EB2. rewrite firstn_exact in EB2.
                  rewrite rev_length, <- ET, <- (rev_length T), firstn_exact in EB2. exact EB2. }
                apply (f_equal (@rev N)) in E1. rewrite !rev_involutive in E1. subst T.
                apply app_inv_head in EB2. apply (f_equal (@rev N)) in EB2. rewrite !rev_involutive in EB2.
                split; [reflexivity | symmetry; exact EB2]. }
              destruct H as [ETl Epre]. subst T pre.
              exists l, (([], (F, dm)) :: segs), Jn, []. rewrite HL. cbn [map]. rewrite app_nil_r.
              split; [reflexivity|]. split; [constructor; [split; [reflexivity | exact HF] | assumption]|].
              split; [assumption|]. split.
              { unfold stream_of. cbn [map concat]. unfold seg_bytes at 1. cbn [fst snd app].
                rewrite ES2, EF2, <- !app_assoc. reflexivity. }
              split; [reflexivity|]. split; [exists []; reflexivity | left; exact HT].
Qed.

(* ------------------------------------------------------------------ induction over the reads *)

Lemma stream_cons_len : forall J F dm segs Jn, (length F <= length (stream_of ((J, (F, dm)) :: segs) Jn))%nat.
Proof.
  intros. unfold stream_of. cbn [map concat]. unfold seg_bytes at 1. cbn [fst snd]. rewrite !app_length. lia.
Qed.

Lemma run_any : forall G bs chunks segs Jn B,
  Forall (seg_ok G bs) segs -> find_sub MARK Jn = None -> wait_state B segs ->
  B ++ concat chunks = stream_of segs Jn ->
  exists resid,
    reader_run G bs B chunks = (resid, map delivered (map snd segs), map (fun _ => 0) chunks)
    /\ marker_prefix resid /\ exists pre, Jn = pre ++ resid.
Proof.
  intros G bs chunks. induction chunks as [|c cs IH]; intros segs Jn B Hok HJn Hw E.
  - cbn [concat] in E. rewrite app_nil_r in E.
    assert (Hs : segs = []).
    { destruct segs as [|[J [F dm]] segs]; [reflexivity | exfalso].
      assert (HL : (length F <= length B)%nat) by (rewrite E; exact (stream_cons_len J F dm segs Jn)).
      destruct (Forall_inv Hok) as [_ HF]. cbn [fst snd] in HF.
      destruct (frame_ok_facts _ _ _ _ HF) as [_ H6].
      destruct Hw as [[k [Hk EB]]|[F2 [dm2 [rest [Q [Es [EF [HQ _]]]]]]]].
      - rewrite EB, firstn_length in HL. cbn [length MARK] in HL. lia.
      - injection Es as _ EF2 _ _. subst F2. rewrite EF, app_length in HL. destruct Q; [contradiction|]. cbn [length] in HL. lia. }
    subst segs. unfold stream_of in E. cbn [map concat app] in E. subst B.
    exists Jn. split; [reflexivity|]. split; [|exists []; reflexivity].
    destruct Hw as [Hm|[F2 [dm2 [rest [Q [Es _]]]]]]; [exact Hm | discriminate].
  - cbn [concat] in E. rewrite app_assoc in E. cbn [reader_run]. unfold reader_step.
    destruct (loop_prefix G bs segs Hok Jn (B ++ c) (concat cs) (S (length (B ++ c))) [] HJn E (Nat.lt_succ_diag_r _))
      as [B' [segs' [Jn' [done [HL [Hok' [HJn' [EB' [Emap [[pre Hpre] Hw']]]]]]]]]].
    rewrite HL. cbn [rev app].
    destruct (IH segs' Jn' B' Hok' HJn' Hw' EB') as [resid [HR [Hm [pre' Hpre']]]].
    exists resid. rewrite HR. split; [|split; [exact Hm|]].
    + cbn [map]. rewrite Emap, map_app. reflexivity.
    + exists (pre ++ pre'). rewrite Hpre, Hpre', app_assoc. reflexivity.
Qed.

(* ------------------------------------------------------------------ C03 on encoder frames *)

Lemma encoder_frame_ok : forall G bs fm, wf_table G = true -> encoder_frame G bs fm ->
  frame_ok G bs (fst fm) (snd fm).
Proof.
  intros G bs fm HG [m [sess [time [raw [sess' [seq [H1 [H2 [H3 [H4 [H5 [H6 [H7 [H8 H9]]]]]]]]]]]]]].
  rewrite H9. apply (encode_frame_ok G HG bs m sess time raw (fst fm) sess' seq); assumption.
Qed.

(* deliver lemma: junk, a frame, then ANY bytes: the frame is delivered, exactly junk + frame are consumed *)
Theorem complete_prefix : forall G bs J fm R silent, wf_table G = true -> no_mark J -> encoder_frame G bs fm ->
  decode G bs (J ++ fst fm ++ R) silent = Ok (Some (snd fm), (zlen J + zlen (fst fm))%Z, Some (fst fm)).
Proof.
  intros G bs J fm R silent HG HJ Hfm. apply frame_ok_decode; [exact HJ | apply encoder_frame_ok; assumption].
Qed.

(* wait lemma: junk and a proper prefix of a frame: no byte of the frame is consumed.
   With at least 6 bytes of the frame the junk is dropped; with fewer the bytes that stay are a suffix of the
   buffer that is a proper prefix of the marker and contains the whole frame prefix *)
Theorem wait_for_more : forall G bs J fm P Q, wf_table G = true -> no_mark J -> encoder_frame G bs fm ->
  fst fm = P ++ Q -> Q <> [] ->
  ((6 <= length P)%nat -> decode G bs (J ++ P) true = Ok (None, zlen J, None))
  /\ ((1 <= length P <= 5)%nat -> decode G bs (J ++ P) true = Ok (None, zlen J, None))
  /\ (P = [] -> exists k, (k <= 5)%nat /\ decode G bs J true = Ok (None, (zlen J - Z.of_nat k)%Z, None)
                 /\ exists pre, J = pre ++ firstn k MARK).
Proof.
  intros G bs J fm P Q HG HJ Hfm EF HQ.
  pose proof (encoder_frame_ok G bs fm HG Hfm) as Hok. split; [|split].
  - intro H6. apply (frame_ok_wait G bs J (fst fm) (snd fm) P Q HJ Hok EF HQ H6).
  - intro Hp. destruct (frame_ok_facts _ _ _ _ Hok) as [HmF _].
    assert (El : P = firstn (length P) MARK).
    { apply prefixb_spec in HmF as [r Er]. rewrite Er in EF. symmetry in EF.
      apply (prefix_firstn P Q MARK r EF). cbn [length MARK]. lia. }
    assert (HB : find_sub MARK (J ++ P) = None) by (rewrite El; apply junk_partial_no_mark; [exact HJ | lia]).
    rewrite (decode_no_marker G bs _ HB). rewrite El at 2. rewrite (marker_tail_partial J _ Hp).
    repeat f_equal. rewrite zlen_app. unfold zlen. lia.
  - intro EP. destruct (marker_tail_spec J) as [k [pre [Ek [Hk [EJ _]]]]].
    exists k. split; [exact Hk|]. split; [rewrite (decode_no_marker G bs J HJ), Ek; reflexivity | exists pre; exact EJ].
Qed.

Lemma enc_segs_ok : forall G bs segs, wf_table G = true -> Forall (enc_seg G bs) segs -> Forall (seg_ok G bs) segs.
Proof.
  intros G bs segs HG H. eapply Forall_impl; [|exact H]. intros s [A B]. split; [exact A | apply encoder_frame_ok; assumption].
Qed.

(* FULL STRENGTH: every stream of encoder frames, each preceded by marker-free junk, with marker-free junk
   after the last one, under EVERY partition into reads: exactly the frames, in order; no exception; what
   stays in the buffer is a proper prefix of the marker that ends the trailing junk *)
Theorem chunk_independent : forall G bs segs tail chunks,
  wf_table G = true -> Forall (enc_seg G bs) segs -> no_mark tail ->
  concat chunks = stream_of segs tail ->
  exists resid,
    reader_run G bs [] chunks = (resid, map delivered (map snd segs), map (fun _ => 0) chunks)
    /\ marker_prefix resid /\ exists pre, tail = pre ++ resid.
Proof.
  intros G bs segs tail chunks HG Hs Ht E.
  apply (run_any G bs chunks segs tail [] (enc_segs_ok G bs segs HG Hs) Ht).
  - left. exists 0%nat. split; [lia | reflexivity].
  - exact E.
Qed.

(* without junk: nothing is left in the buffer *)
Theorem chunk_independent_frames : forall G bs fms chunks,
  wf_table G = true -> Forall (encoder_frame G bs) fms -> concat chunks = concat (map fst fms) ->
  reader_run G bs [] chunks = ([], map delivered fms, map (fun _ => 0) chunks).
Proof.
  intros G bs fms chunks HG Hf E.
  assert (Hs : Forall (enc_seg G bs) (map (fun fm => ([], fm)) fms)).
  { apply Forall_map. eapply Forall_impl; [|exact Hf]. intros fm H. split; [reflexivity | exact H]. }
  assert (Es : concat chunks = stream_of (map (fun fm => ([], fm)) fms) []).
  { unfold stream_of. rewrite app_nil_r, map_map. rewrite E. reflexivity. }
  destruct (chunk_independent G bs _ [] chunks HG Hs eq_refl Es) as [resid [HR [_ [pre Hpre]]]].
  symmetry in Hpre. apply app_nil_both in Hpre as [_ Hr]. subst resid.
  assert (Em : map snd (map (fun fm : str * message => (@nil N, fm)) fms) = fms) by (rewrite map_map; cbn [snd]; apply map_id).
  rewrite HR. exact (f_equal (fun x => (@nil N, map delivered x, map (fun _ : str => 0) chunks)) Em).
Qed.

(* ------------------------------------------------------------------ the former D6 / D8 witnesses, now positive *)
From Coq Require Import String Ascii.
From AFGen Require Import GenGroups.

Definition ex_mA : message := mkMsg (txt "D") [plain "11" "id1"; plain "55" "MSFT"].
Definition ex_mB : message := mkMsg (txt "D") [plain "11" "id2"; plain "55" "IBM"].
Definition ex_sess_at (n : Z) : session := mkSession (txt "SND") (txt "TGT") n.
Definition ex_frame_at (n : Z) (m : message) : str :=
  match encode beginstring m (ex_sess_at n) ex_time false with Ok (f, _) => f | Exc _ => [] end.
Definition ex_FA : str := ex_frame_at 17 ex_mA.
Definition ex_FB : str := ex_frame_at 18 ex_mB.
Definition ex_dA : message := decoded_of beginstring ex_mA (ex_sess_at 17) (z_to_dec 17) ex_time.
Definition ex_dB : message := decoded_of beginstring ex_mB (ex_sess_at 18) (z_to_dec 18) ex_time.
Definition ex_garbage : str := txt "xyz".
Definition ex_junk2 : str := txt "x8=FI".          (* ends in a proper prefix of the marker *)
Definition ex_tail : str := txt "zz8=".
Definition ex_segs : list seg := [(ex_garbage, (ex_FA, ex_dA)); (ex_junk2, (ex_FB, ex_dB))].
Definition ex_both : list (message * str) := [(ex_dA, ex_FA); (ex_dB, ex_FB)].

(* non-vacuity of chunk_independent: junk before both frames (one ending inside a marker), junk after *)
Lemma ex_segs_encoder : Forall (enc_seg GenGroups.table beginstring) ex_segs /\ no_mark ex_tail.
Proof.
  split; [|vm_compute; reflexivity].
  constructor; [|constructor; [|constructor]]; (split; [vm_compute; reflexivity|]).
  - exists ex_mA, (ex_sess_at 17), ex_time, false, (ex_sess_at 18), (z_to_dec 17).
    repeat split; vm_compute; reflexivity.
  - exists ex_mB, (ex_sess_at 18), ex_time, false, (ex_sess_at 19), (z_to_dec 18).
    repeat split; vm_compute; reflexivity.
Qed.

Lemma ex_run_junk :
  reader_run GenGroups.table beginstring [] (List.map (fun c => [c]) (stream_of ex_segs ex_tail))
  = (txt "8=", ex_both, List.map (fun _ => 0) (stream_of ex_segs ex_tail))
  /\ reader_run GenGroups.table beginstring []
       [ex_garbage ++ ex_FA ++ ex_junk2 ++ firstn 3 ex_FB; skipn 3 ex_FB ++ ex_tail] = (txt "8=", ex_both, [0; 0]).
Proof. split; vm_compute; reflexivity. Qed.

(* D6-cut-in-marker (fixed): a read ending k = 1..5 bytes into the next frame loses nothing *)
Lemma cut_in_marker_ok : forall k, In k [1; 2; 3; 4; 5]%nat ->
  reader_run GenGroups.table beginstring [] [ex_FA ++ firstn k ex_FB; skipn k ex_FB] = ([], ex_both, [0; 0])
  /\ reader_run GenGroups.table beginstring [] [ex_FA; firstn k ex_FB; skipn k ex_FB] = ([], ex_both, [0; 0; 0]).
Proof.
  intros k Hk. cbn [In] in Hk.
  repeat (destruct Hk as [Hk|Hk]; [subst k; split; vm_compute; reflexivity|]). destruct Hk.
Qed.

(* D6-garbage-after-frame (fixed): marker-free bytes after a frame in the same buffer *)
Lemma garbage_ok :
  reader_run GenGroups.table beginstring [] [ex_FA ++ ex_garbage; ex_FB] = ([], ex_both, [0; 0])
  /\ reader_run GenGroups.table beginstring [] [ex_FA ++ ex_garbage ++ ex_FB] = ([], ex_both, [0]).
Proof. split; vm_compute; reflexivity. Qed.

(* one-byte reads (fixed) *)
Lemma one_byte_reads_ok :
  reader_run GenGroups.table beginstring [] (List.map (fun c => [c]) (ex_FA ++ ex_FB))
  = ([], ex_both, List.map (fun _ => 0) (ex_FA ++ ex_FB)).
Proof. vm_compute. reflexivity. Qed.

(* D8-junk-prefix-counted-in-length (fixed): junk in front of a frame cut k = 1..5 bytes before its end *)
Lemma junk_prefix_cut_ok : forall k, In k [1; 2; 3; 4; 5]%nat ->
  reader_run GenGroups.table beginstring []
    [ex_garbage ++ firstn (87 - k) ex_FA; skipn (87 - k) ex_FA ++ ex_FB] = ([], ex_both, [0; 0]).
Proof.
  intros k Hk. cbn [In] in Hk.
  repeat (destruct Hk as [Hk|Hk]; [subst k; vm_compute; reflexivity|]). destruct Hk.
Qed.
