(* Proofs for C15: the validation algorithm of Fix/SchemaModel.v decides the declarative
   conformance relation of Fix/SchemaSpec.v, for every well-formed schema. *)
From Coq Require Import ZArith NArith List Bool Lia Sorting.Sorted.
From AF Require Import Base.Sx Py.Str Fix.SchemaModel Fix.SchemaSpec.
From AFGen Require GenSchema.
Import ListNotations.
Local Open Scope nat_scope.

(* ------------------------------------------------------------------ strings, lists *)

Lemma str_eqb_eq : forall a b, str_eqb a b = true <-> a = b.
Proof.
  unfold str_eqb. induction a as [|x a IH]; destruct b as [|y b]; split; intro H;
    try reflexivity; try discriminate.
  - apply andb_true_iff in H. destruct H as [H1 H2]. apply N.eqb_eq in H1. apply IH in H2. congruence.
  - inversion H; subst. apply andb_true_iff. split. apply N.eqb_refl. apply IH. reflexivity.
Qed.

Lemma str_eqb_refl : forall a, str_eqb a a = true.
Proof. intro a. apply str_eqb_eq. reflexivity. Qed.

Lemma str_eqb_neq : forall a b, str_eqb a b = false <-> a <> b.
Proof.
  intros a b. split.
  - intros H E. apply str_eqb_eq in E. congruence.
  - intro H. destruct (str_eqb a b) eqn:E; [apply str_eqb_eq in E; contradiction | reflexivity].
Qed.

Lemma str_eqb_sym : forall a b, str_eqb a b = str_eqb b a.
Proof.
  intros a b. destruct (str_eqb a b) eqn:E.
  - apply str_eqb_eq in E. subst. symmetry. apply str_eqb_refl.
  - symmetry. apply str_eqb_neq. apply str_eqb_neq in E. congruence.
Qed.

Lemma existsb_str_In : forall x l, existsb (str_eqb x) l = true <-> In x l.
Proof.
  intros x l. rewrite existsb_exists. split.
  - intros [y [Hy E]]. apply str_eqb_eq in E. subst. exact Hy.
  - intro H. exists x. split. exact H. apply str_eqb_refl.
Qed.

Lemma nodupb_NoDup : forall l, nodupb l = true <-> NoDup l.
Proof.
  induction l as [|x l IH]; simpl.
  - split; intro; [constructor | reflexivity].
  - rewrite andb_true_iff, negb_true_iff, IH. split.
    + intros [H1 H2]. constructor; [|exact H2]. intro Hin. apply existsb_str_In in Hin. congruence.
    + intro H. inversion H as [|? ? Hn Hd]; subst. split; [|exact Hd].
      destruct (existsb (str_eqb x) l) eqn:E; [apply existsb_str_In in E; contradiction | reflexivity].
Qed.

Lemma nodupN_NoDup : forall l, nodupN l = true <-> NoDup l.
Proof.
  induction l as [|x l IH]; simpl.
  - split; intro; [constructor | reflexivity].
  - rewrite andb_true_iff, negb_true_iff, IH. split.
    + intros [H1 H2]. constructor; [|exact H2]. intro Hin.
      assert (existsb (N.eqb x) l = true) as E.
      { apply existsb_exists. exists x. split. exact Hin. apply N.eqb_refl. }
      congruence.
    + intro H. inversion H as [|? ? Hn Hd]; subst. split; [|exact Hd].
      destruct (existsb (N.eqb x) l) eqn:E; [|reflexivity].
      apply existsb_exists in E. destruct E as [y [Hy E]]. apply N.eqb_eq in E. subst. contradiction.
Qed.

(* in a list whose images under g are pairwise distinct, g is injective on the elements *)
Lemma NoDup_map_inj : forall (A B : Type) (g : A -> B) (l : list A) a b,
  NoDup (map g l) -> In a l -> In b l -> g a = g b -> a = b.
Proof.
  induction l as [|x l IH]; intros a b Hnd Ha Hb E; simpl in *.
  - contradiction.
  - inversion Hnd as [|? ? Hn Hd]; subst.
    destruct Ha as [Ha|Ha], Hb as [Hb|Hb]; subst.
    + reflexivity.
    + exfalso. apply Hn. rewrite E. apply in_map. exact Hb.
    + exfalso. apply Hn. rewrite <- E. apply in_map. exact Ha.
    + apply IH; assumption.
Qed.

Lemma NoDup_map_nth : forall (A B : Type) (g : A -> B) (l : list A) i j a b,
  NoDup (map g l) -> nth_error l i = Some a -> nth_error l j = Some b -> g a = g b -> i = j.
Proof.
  intros A B g l i j a b Hnd Ha Hb E.
  apply (proj1 (NoDup_nth_error (map g l)) Hnd).
  - rewrite map_length. apply nth_error_Some. rewrite Ha. discriminate.
  - rewrite !nth_error_map, Ha, Hb. simpl. congruence.
Qed.

(* ------------------------------------------------------------------ containers *)

Lemma has_tag_present : forall t c, has_tag t c = true <-> present t c.
Proof.
  intros t c. unfold has_tag, present. rewrite existsb_exists. split.
  - intros [[t' v] [Hin E]]. simpl in E. apply str_eqb_eq in E. subst. exists v. exact Hin.
  - intros [v Hin]. exists (t, v). split. exact Hin. simpl. apply str_eqb_refl.
Qed.

Lemma present_keys : forall t c, present t c <-> In t (map fst c).
Proof.
  intros t c. unfold present. rewrite in_map_iff. split.
  - intros [v H]. exists (t, v). split; [reflexivity | exact H].
  - intros [[t' v] [E H]]. simpl in E. subst. exists v. exact H.
Qed.

Lemma get_tag_In : forall t c v, get_tag t c = Some v -> In (t, v) c.
Proof.
  induction c as [|[t' v'] c IH]; simpl; intros v H.
  - discriminate.
  - destruct (str_eqb t' t) eqn:E.
    + apply str_eqb_eq in E. inversion H; subst. left. reflexivity.
    + right. apply IH. exact H.
Qed.

Lemma has_tag_get : forall t c, has_tag t c = true -> exists v, get_tag t c = Some v.
Proof.
  induction c as [|[t' v'] c IH]; simpl; intro H.
  - discriminate.
  - unfold has_tag in H. simpl in H. destruct (str_eqb t' t) eqn:E.
    + eexists. reflexivity.
    + simpl in H. apply IH. exact H.
Qed.

Lemma check_required_ok : forall ms c,
  check_required ms c = Ok <-> (forall mem, In mem ms -> mreq mem = true -> present (mtag mem) c).
Proof.
  induction ms as [|m ms IH]; intro c; simpl.
  - split; [intros _ mem [] | reflexivity].
  - destruct (has_tag (mtag m) c) eqn:Eh; simpl.
    + rewrite IH. split.
      * intros H mem [E|Hin] Hr; [subst; apply has_tag_present; exact Eh | apply H; assumption].
      * intros H mem Hin Hr. apply H; [right; exact Hin | exact Hr].
    + destruct (mreq m) eqn:Er.
      * split; [discriminate|]. intro H. exfalso.
        assert (present (mtag m) c) as Hp by (apply H; [left; reflexivity | exact Er]).
        apply has_tag_present in Hp. congruence.
      * rewrite IH. split.
        -- intros H mem [E|Hin] Hr; [subst; congruence | apply H; assumption].
        -- intros H mem Hin Hr. apply H; [right; exact Hin | exact Hr].
Qed.

Lemma check_required_class : forall ms c, check_required ms c = Ok \/ check_required ms c = Exc EFIXMessage.
Proof.
  induction ms as [|m ms IH]; intro c; simpl.
  - left. reflexivity.
  - destruct (negb (has_tag (mtag m) c) && mreq m); [right; reflexivity | apply IH].
Qed.

(* ------------------------------------------------------------------ member lookup by tag *)

Lemma find_member_from_spec : forall t ms k i mem,
  find_member_from t ms k = Some (i, mem) ->
  k <= i /\ nth_error ms (i - k) = Some mem /\ mtag mem = t.
Proof.
  induction ms as [|m ms IH]; simpl; intros k i mem H.
  - discriminate.
  - destruct (str_eqb (mtag m) t) eqn:E.
    + inversion H; subst. apply str_eqb_eq in E. replace (i - i) with 0 by lia. simpl. auto.
    + apply IH in H. destruct H as [Hk [Hn Ht]]. split; [lia|]. split; [|exact Ht].
      replace (i - k) with (S (i - S k)) by lia. simpl. exact Hn.
Qed.

Lemma find_member_spec : forall t ms i mem,
  find_member t ms = Some (i, mem) -> nth_error ms i = Some mem /\ mtag mem = t.
Proof.
  intros t ms i mem H. apply find_member_from_spec in H. destruct H as [_ [Hn Ht]].
  replace (i - 0) with i in Hn by lia. auto.
Qed.

Lemma find_member_from_none : forall t ms k,
  find_member_from t ms k = None -> forall mem, In mem ms -> mtag mem <> t.
Proof.
  induction ms as [|m ms IH]; simpl; intros k H mem Hin.
  - contradiction.
  - destruct (str_eqb (mtag m) t) eqn:E; [discriminate|].
    destruct Hin as [->|Hin]; [apply str_eqb_neq; exact E | eapply IH; eassumption].
Qed.

Lemma find_member_from_nth : forall ms k i mem,
  NoDup (map mtag ms) -> nth_error ms i = Some mem ->
  find_member_from (mtag mem) ms k = Some (k + i, mem).
Proof.
  induction ms as [|m ms IH]; intros k i mem Hnd Hn.
  - destruct i; discriminate.
  - simpl in Hnd. inversion Hnd as [|? ? Hni Hd]; subst. destruct i as [|i]; simpl in *.
    + inversion Hn; subst. rewrite str_eqb_refl. f_equal. f_equal. lia.
    + destruct (str_eqb (mtag m) (mtag mem)) eqn:E.
      * exfalso. apply str_eqb_eq in E. apply Hni. rewrite E. apply in_map.
        eapply nth_error_In. exact Hn.
      * rewrite (IH (S k) i mem Hd Hn). f_equal. f_equal. lia.
Qed.

Lemma find_member_nth : forall ms i mem,
  NoDup (map mtag ms) -> nth_error ms i = Some mem -> find_member (mtag mem) ms = Some (i, mem).
Proof. intros. unfold find_member. rewrite (find_member_from_nth ms 0 i mem); auto. Qed.

(* ------------------------------------------------------------------ induction on message trees *)

Section ValueInd.
  Variable P : value -> Prop.
  Hypothesis Hs : forall s, P (VStr s).
  Hypothesis Hg : forall items, Forall (Forall (fun e => P (snd e))) items -> P (VGrp items).

  Fixpoint value_ind' (v : value) : P v :=
    match v with
    | VStr s => Hs s
    | VGrp items =>
        Hg items
          ((fix go (its : list (list (str * value))) : Forall (Forall (fun e => P (snd e))) its :=
              match its with
              | [] => Forall_nil _
              | it :: r =>
                  Forall_cons it
                    ((fix go2 (es : list (str * value)) : Forall (fun e => P (snd e)) es :=
                        match es with
                        | [] => Forall_nil _
                        | e :: r2 =>
                            Forall_cons e
                              (match e as e0 return P (snd e0) with (_, v') => value_ind' v' end)
                              (go2 r2)
                        end) it)
                    (go r)
              end) items)
    end.
End ValueInd.

(* ------------------------------------------------------------------ Forall2 helpers *)

Lemma Forall2_In_l : forall (A B : Type) (P : A -> B -> Prop) l1 l2 x,
  Forall2 P l1 l2 -> In x l1 -> exists y, In y l2 /\ P x y.
Proof.
  intros A B P l1 l2 x H. induction H as [|a b l1 l2 Hab H IH]; intro Hin.
  - contradiction.
  - destruct Hin as [->|Hin].
    + exists b. split; [left; reflexivity | exact Hab].
    + destruct (IH Hin) as [y [Hy Hp]]. exists y. split; [right; exact Hy | exact Hp].
Qed.

Lemma Forall2_In_r : forall (A B : Type) (P : A -> B -> Prop) l1 l2 y,
  Forall2 P l1 l2 -> In y l2 -> exists x, In x l1 /\ P x y.
Proof.
  intros A B P l1 l2 y H. induction H as [|a b l1 l2 Hab H IH]; intro Hin.
  - contradiction.
  - destruct Hin as [->|Hin].
    + exists a. split; [left; reflexivity | exact Hab].
    + destruct (IH Hin) as [x [Hx Hp]]. exists x. split; [right; exact Hx | exact Hp].
Qed.

Lemma Forall2_impl_In : forall (A B : Type) (P Q : A -> B -> Prop) l1 l2,
  (forall x y, In x l1 -> In y l2 -> P x y -> Q x y) -> Forall2 P l1 l2 -> Forall2 Q l1 l2.
Proof.
  intros A B P Q l1 l2 Himp H. induction H as [|a b l1 l2 Hab H IH].
  - constructor.
  - constructor.
    + apply Himp; [left; reflexivity | left; reflexivity | exact Hab].
    + apply IH. intros x y Hx Hy. apply Himp; right; assumption.
Qed.

(* ------------------------------------------------------------------ one group: loops *)

Fixpoint nondecr (prev : Z) (idxs : list nat) : Prop :=
  match idxs with
  | [] => True
  | i :: r => (prev <= Z.of_nat i)%Z /\ nondecr (Z.of_nat i) r
  end.

Lemma nondecr_ge : forall idxs p, nondecr p idxs -> Forall (fun j => (p <= Z.of_nat j)%Z) idxs.
Proof.
  induction idxs as [|i r IH]; intros p H; simpl in H.
  - constructor.
  - destruct H as [H1 H2]. constructor; [exact H1|].
    apply IH in H2. eapply Forall_impl; [|exact H2]. simpl. intros. lia.
Qed.

Lemma sorted_nondecr : forall idxs p,
  StronglySorted lt idxs -> Forall (fun j => (p <= Z.of_nat j)%Z) idxs -> nondecr p idxs.
Proof.
  induction idxs as [|i r IH]; intros p Hs Hf; simpl.
  - exact I.
  - inversion Hs as [|? ? Hs' Hlt]; subst. inversion Hf as [|? ? Hp Hf']; subst.
    split; [exact Hp|]. apply IH; [exact Hs'|].
    eapply Forall_impl; [|exact Hlt]. simpl. intros. lia.
Qed.

Section GroupLoops.
  Variable rec : member -> value -> res.
  Variable ms : list member.

  Lemma item_loop_ok : forall whole es prev first,
    item_loop rec ms whole es prev first = Ok <->
    exists idxs,
      Forall2 (fun e i => exists mem, find_member (fst e) ms = Some (i, mem) /\ rec mem (snd e) = Ok) es idxs
      /\ nondecr prev idxs /\ (first = true \/ In 0 idxs) /\ check_required ms whole = Ok.
  Proof.
    intros whole. induction es as [|[t v] r IH]; intros prev first; simpl.
    - split.
      + intro H. exists []. destruct first; [|discriminate].
        split; [constructor|]. split; [exact I|]. split; [left; reflexivity | exact H].
      + intros [idxs [HF [_ [Hfirst Hreq]]]]. inversion HF; subst.
        destruct Hfirst as [->|[]]. exact Hreq.
    - destruct (find_member t ms) as [[i mem]|] eqn:Efind.
      + destruct (prev >? Z.of_nat i)%Z eqn:Egt.
        * split; [discriminate|]. intros [idxs [HF [Hnd _]]]. exfalso.
          inversion HF as [|? i0 ? idxs' [mem0 [Hf0 _]] HF']; subst. simpl in Hf0.
          rewrite Efind in Hf0. inversion Hf0; subst. simpl in Hnd. destruct Hnd as [Hle _].
          apply Z.gtb_lt in Egt. lia.
        * destruct (rec mem v) eqn:Erec.
          -- rewrite IH. split.
             ++ intros [idxs [HF [Hnd [Hfirst Hreq]]]]. exists (i :: idxs).
                split. { constructor; [|exact HF]. exists mem. simpl. auto. }
                split. { simpl. split; [|exact Hnd].
                         rewrite Z.gtb_ltb in Egt. apply Z.ltb_ge in Egt. exact Egt. }
                split; [|exact Hreq].
                destruct (Nat.eqb i 0) eqn:Ei.
                ** apply Nat.eqb_eq in Ei. subst. right. left. reflexivity.
                ** destruct Hfirst as [Hf|Hin]; [left; exact Hf | right; right; exact Hin].
             ++ intros [idxs [HF [Hnd [Hfirst Hreq]]]].
                inversion HF as [|? i0 ? idxs' [mem0 [Hf0 _]] HF']; subst. simpl in Hf0.
                rewrite Efind in Hf0. inversion Hf0; subst i0 mem0.
                simpl in Hnd. destruct Hnd as [_ Hnd]. exists idxs'.
                split; [exact HF'|]. split; [exact Hnd|]. split; [|exact Hreq].
                destruct (Nat.eqb i 0) eqn:Ei; [left; reflexivity|].
                destruct Hfirst as [Hf|[Hz|Hin]]; [left; exact Hf | | right; exact Hin].
                subst i. discriminate.
          -- split; [discriminate|]. intros [idxs [HF _]]. exfalso.
             inversion HF as [|? i0 ? idxs' [mem0 [Hf0 Hr0]] HF']; subst. simpl in Hf0, Hr0.
             rewrite Efind in Hf0. inversion Hf0; subst. congruence.
      + split; [discriminate|]. intros [idxs [HF _]]. exfalso.
        inversion HF as [|? i0 ? idxs' [mem0 [Hf0 _]] HF']; subst. simpl in Hf0. congruence.
  Qed.

  Lemma items_loop_ok : forall items,
    items_loop rec ms items = Ok <-> Forall (fun it => item_loop rec ms it it (-1) false = Ok) items.
  Proof.
    induction items as [|it r IH]; simpl.
    - split; [constructor | reflexivity].
    - destruct (item_loop rec ms it it (-1) false) eqn:E.
      + rewrite IH. split; [intro H; constructor; assumption | intro H; inversion H; assumption].
      + split; [discriminate | intro H; inversion H; congruence].
  Qed.

  (* exception classes: the loops only add FIXMessageError to what [rec] raises *)
  Lemma item_loop_class : forall (C : res -> Prop) whole es prev first,
    C Ok -> C (Exc EFIXMessage) ->
    (forall e mem, In e es -> C (rec mem (snd e))) ->
    C (item_loop rec ms whole es prev first).
  Proof.
    intros C whole. induction es as [|[t v] r IH]; intros prev first Hok Hfme Hrec; simpl.
    - destruct first; [|exact Hfme]. destruct (check_required_class ms whole) as [-> | ->]; assumption.
    - destruct (find_member t ms) as [[i mem]|]; [|exact Hfme].
      destruct (prev >? Z.of_nat i)%Z; [exact Hfme|].
      destruct (rec mem v) eqn:E.
      + apply IH; [exact Hok | exact Hfme |]. intros e0 mem0 Hin. apply Hrec. right. exact Hin.
      + rewrite <- E. apply (Hrec (t, v) mem). left. reflexivity.
  Qed.

  Lemma items_loop_class : forall (C : res -> Prop) items,
    C Ok -> C (Exc EFIXMessage) ->
    (forall it e mem, In it items -> In e it -> C (rec mem (snd e))) ->
    C (items_loop rec ms items).
  Proof.
    intros C. induction items as [|it r IH]; intros Hok Hfme Hrec; simpl.
    - exact Hok.
    - destruct (item_loop rec ms it it (-1) false) eqn:E.
      + apply IH; [exact Hok | exact Hfme |]. intros it0 e0 mem0 Hin. apply Hrec. right. exact Hin.
      + rewrite <- E. apply item_loop_class; [exact Hok | exact Hfme |].
        intros e0 mem0 Hin. apply (Hrec it). left. reflexivity. exact Hin.
  Qed.
End GroupLoops.

(* ------------------------------------------------------------------ one group: index form <-> alignment *)

Section Align.
  Variable value_check : field -> str -> option exc.
  Variable ms : list member.
  Hypothesis Hnd : NoDup (map mtag ms).

  (* entry e sits at dictionary position i >= k and holds a conforming value *)
  Definition at_pos (k : nat) (e : str * value) (i : nat) : Prop :=
    k <= i /\ exists mem, nth_error ms i = Some mem /\ mtag mem = fst e
                          /\ conf_member value_check mem (snd e).

  Lemma at_pos_ge : forall k es idxs, Forall2 (at_pos k) es idxs -> Forall (fun i => k <= i) idxs.
  Proof.
    intros k es idxs H. induction H as [|e i es idxs [Hk _] H IH]; constructor; assumption.
  Qed.

  Lemma at_pos_shift : forall k k' es idxs,
    Forall2 (at_pos k) es idxs -> Forall (fun i => k' <= i) idxs -> Forall2 (at_pos k') es idxs.
  Proof.
    intros k k' es idxs H. induction H as [|e i es idxs [Hk Hm] H IH]; intro Hf.
    - constructor.
    - inversion Hf; subst. constructor; [split; assumption | apply IH; assumption].
  Qed.

  Lemma same_pos : forall i j a b,
    nth_error ms i = Some a -> nth_error ms j = Some b -> mtag a = mtag b -> i = j.
  Proof. intros. eapply NoDup_map_nth; eassumption. Qed.

  Lemma align_sound : forall R k es idxs,
    (forall j, nth_error R j = nth_error ms (k + j)) ->
    Forall2 (at_pos k) es idxs -> StronglySorted lt idxs ->
    (forall mem, In mem R -> mreq mem = true -> In (mtag mem) (map fst es)) ->
    conf_entries value_check R es.
  Proof.
    induction R as [|m R IH]; intros k es idxs HR HF HS Hreq.
    - destruct es as [|e es]; [constructor|]. exfalso.
      inversion HF as [|? i ? idxs' [Hk [mem [Hn _]]] HF']; subst.
      specialize (HR (i - k)). replace (k + (i - k)) with i in HR by lia.
      rewrite Hn in HR. destruct (i - k); discriminate.
    - assert (Hm : nth_error ms k = Some m).
      { specialize (HR 0). simpl in HR. rewrite Nat.add_0_r in HR. symmetry. exact HR. }
      assert (HR' : forall j, nth_error R j = nth_error ms (S k + j)).
      { intro j. specialize (HR (S j)). simpl in HR. rewrite HR. f_equal. lia. }
      assert (Hlater : forall mem', In mem' R -> mtag mem' <> mtag m).
      { intros mem' Hin E. apply In_nth_error in Hin. destruct Hin as [j Hj].
        rewrite HR' in Hj. assert (S k + j = k) by (eapply same_pos; eassumption). lia. }
      destruct es as [|e es].
      + inversion HF; subst. apply CE_skip.
        * destruct (mreq m) eqn:Er; [|reflexivity]. exfalso.
          apply (Hreq m (or_introl eq_refl) Er).
        * apply (IH (S k) [] []); [exact HR' | constructor | constructor |].
          intros mem Hin Hr. apply Hreq; [right; exact Hin | exact Hr].
      + inversion HF as [|? i ? idxs' Hat HF']; subst.
        inversion HS as [|? ? HS' Hlt]; subst.
        destruct Hat as [Hk [mem [Hn [Ht Hq]]]].
        destruct (Nat.eq_dec i k) as [->|Hne].
        * rewrite Hm in Hn. inversion Hn; subst mem. destruct e as [t v]. simpl in Ht, Hq. subst t.
          apply CE_take; [exact Hq|].
          apply (IH (S k) es idxs'); [exact HR' | | exact HS' |].
          -- apply (at_pos_shift k); [exact HF'|]. eapply Forall_impl; [|exact Hlt]. simpl. intros. lia.
          -- intros mem' Hin Hr. destruct (Hreq mem' (or_intror Hin) Hr) as [E|Hin']; [|exact Hin'].
             simpl in E. exfalso. apply (Hlater mem' Hin). congruence.
        * apply CE_skip.
          -- destruct (mreq m) eqn:Er; [|reflexivity]. exfalso.
             specialize (Hreq m (or_introl eq_refl) Er). apply in_map_iff in Hreq.
             destruct Hreq as [e' [Ee' Hin']].
             destruct (Forall2_In_l _ _ _ _ _ e' HF Hin') as [i' [Hi' [_ [mem' [Hn' [Ht' _]]]]]].
             assert (i' = k) by (eapply same_pos; [exact Hn' | exact Hm | congruence]).
             subst i'. destruct Hi' as [->|Hi']; [lia|].
             rewrite Forall_forall in Hlt. specialize (Hlt k Hi'). lia.
          -- apply (IH (S k) (e :: es) (i :: idxs')); [exact HR' | | exact HS |].
             ++ apply (at_pos_shift k); [exact HF|]. constructor; [lia|].
                eapply Forall_impl; [|exact Hlt]. simpl. intros. lia.
             ++ intros mem' Hin Hr. apply Hreq; [right; exact Hin | exact Hr].
  Qed.

  Lemma align_complete : forall R es,
    conf_entries value_check R es -> forall k,
    (forall j, nth_error R j = nth_error ms (k + j)) ->
    exists idxs, Forall2 (at_pos k) es idxs /\ StronglySorted lt idxs
      /\ (forall mem, In mem R -> mreq mem = true -> In (mtag mem) (map fst es)).
  Proof.
    intros R es H. induction H as [|m R es Hr H IH|m R v es Hq H IH]; intros k HR.
    - exists []. split; [constructor|]. split; [constructor|]. intros mem [].
    - assert (HR' : forall j, nth_error R j = nth_error ms (S k + j)).
      { intro j. specialize (HR (S j)). simpl in HR. rewrite HR. f_equal. lia. }
      destruct (IH (S k) HR') as [idxs [HF [HS Hreq]]]. exists idxs.
      split. { apply (at_pos_shift (S k)); [exact HF|]. apply at_pos_ge in HF.
               eapply Forall_impl; [|exact HF]. simpl. intros. lia. }
      split; [exact HS|]. intros mem [->|Hin] Hr'; [congruence | apply Hreq; assumption].
    - assert (Hm : nth_error ms k = Some m).
      { specialize (HR 0). simpl in HR. rewrite Nat.add_0_r in HR. symmetry. exact HR. }
      assert (HR' : forall j, nth_error R j = nth_error ms (S k + j)).
      { intro j. specialize (HR (S j)). simpl in HR. rewrite HR. f_equal. lia. }
      destruct (IH (S k) HR') as [idxs [HF [HS Hreq]]]. exists (k :: idxs).
      split.
      { constructor.
        - split; [lia|]. exists m. simpl. auto.
        - apply (at_pos_shift (S k)); [exact HF|]. apply at_pos_ge in HF.
          eapply Forall_impl; [|exact HF]. simpl. intros. lia. }
      split.
      { constructor; [exact HS|]. apply at_pos_ge in HF.
        eapply Forall_impl; [|exact HF]. simpl. intros. lia. }
      intros mem [->|Hin] Hr'; simpl; [left; reflexivity | right; apply Hreq; assumption].
  Qed.
End Align.

(* ------------------------------------------------------------------ one item *)

Section Item.
  Variable value_check : field -> str -> option exc.
  Variable rec : member -> value -> res.
  Variable ms : list member.
  Hypothesis Hnd : NoDup (map mtag ms).

  Lemma strictly_sorted : forall es idxs p,
    Forall2 (at_pos value_check ms 0) es idxs -> NoDup (map fst es) -> nondecr p idxs ->
    StronglySorted lt idxs.
  Proof.
    intros es idxs p HF. revert p.
    induction HF as [|e i es idxs Hat HF IH]; intros p Hk Hn.
    - constructor.
    - simpl in Hk, Hn. inversion Hk as [|? ? Hnotin Hk']; subst. destruct Hn as [_ Hn].
      constructor; [eapply IH; eassumption|].
      apply nondecr_ge in Hn. rewrite Forall_forall in *. intros j Hj.
      specialize (Hn j Hj). assert (j <> i); [|lia]. intros ->.
      destruct (Forall2_In_r _ _ _ _ _ i HF Hj) as [e' [He' [_ [mem' [Hn' [Ht' _]]]]]].
      destruct Hat as [_ [mem [Hn0 [Ht0 _]]]]. rewrite Hn0 in Hn'. inversion Hn'; subst mem'.
      apply Hnotin. rewrite <- Ht0, Ht'. apply in_map. exact He'.
  Qed.

  Lemma item_sound : forall it,
    NoDup (map fst it) ->
    (forall e mem, In e it -> In mem ms -> rec mem (snd e) = Ok -> conf_member value_check mem (snd e)) ->
    item_loop rec ms it it (-1) false = Ok -> conf_item value_check ms it.
  Proof.
    intros it Hk Hrec H. apply item_loop_ok in H.
    destruct H as [idxs [HF [Hn [Hfirst Hreq]]]].
    destruct Hfirst as [Hf|H0]; [discriminate|].
    assert (HF0 : Forall2 (at_pos value_check ms 0) it idxs).
    { eapply Forall2_impl_In; [|exact HF]. intros e i He _ [mem [Hfind Hr]].
      apply find_member_spec in Hfind. destruct Hfind as [Hnth Ht].
      split; [lia|]. exists mem. split; [exact Hnth|]. split; [exact Ht|].
      apply Hrec; [exact He | eapply nth_error_In; exact Hnth | exact Hr]. }
    assert (HS : StronglySorted lt idxs) by (eapply strictly_sorted; eassumption).
    destruct HF0 as [|e i es idxs' Hat HF0']; [contradiction|].
    inversion HS as [|? ? HS' Hlt]; subst.
    assert (i = 0).
    { destruct H0 as [->|H0]; [reflexivity|]. rewrite Forall_forall in Hlt. specialize (Hlt 0 H0). lia. }
    subst i. destruct Hat as [_ [m [Hn0 [Ht0 Hq0]]]].
    destruct ms as [|m0 ms']; [discriminate|]. simpl in Hn0. inversion Hn0; subst m0.
    destruct e as [t v]. simpl in Ht0, Hq0. subst t. apply CI_first; [exact Hq0|].
    rewrite check_required_ok in Hreq.
    apply (align_sound value_check (m :: ms') Hnd ms' 1 es idxs').
    - intro j. reflexivity.
    - apply (at_pos_shift value_check (m :: ms') 0); [exact HF0'|].
      eapply Forall_impl; [|exact Hlt]. simpl. intros. lia.
    - exact HS'.
    - intros mem Hin Hr. specialize (Hreq mem (or_intror Hin) Hr).
      apply present_keys in Hreq. simpl in Hreq. destruct Hreq as [E|Hin']; [|exact Hin'].
      exfalso. apply In_nth_error in Hin. destruct Hin as [j Hj].
      assert (0 = S j); [|lia].
      apply (same_pos (m :: ms') Hnd 0 (S j) m mem); [reflexivity | exact Hj | exact E].
  Qed.

  Lemma item_complete : forall it,
    (forall e mem, In e it -> In mem ms -> conf_member value_check mem (snd e) -> rec mem (snd e) = Ok) ->
    conf_item value_check ms it -> item_loop rec ms it it (-1) false = Ok.
  Proof.
    intros it Hrec H. destruct H as [m ms' v es Hq He].
    destruct (align_complete value_check (m :: ms') ms' es He 1 (fun j => eq_refl))
      as [idxs [HF [HS Hreq]]].
    apply item_loop_ok. exists (0 :: idxs).
    split.
    { constructor.
      - exists m. simpl. split.
        + apply (find_member_nth (m :: ms') 0 m Hnd). reflexivity.
        + apply (Hrec (mtag m, v) m); [left; reflexivity | left; reflexivity | exact Hq].
      - eapply Forall2_impl_In; [|exact HF]. intros e i Hin _ [_ [mem [Hn [Ht Hc]]]].
        exists mem. split.
        + rewrite <- Ht. apply find_member_nth; assumption.
        + apply Hrec; [right; exact Hin | eapply nth_error_In; exact Hn | exact Hc]. }
    split.
    { simpl. split; [lia|]. apply sorted_nondecr; [exact HS|].
      apply at_pos_ge in HF. eapply Forall_impl; [|exact HF]. simpl. intros. lia. }
    split; [right; left; reflexivity|].
    apply check_required_ok. intros mem [->|Hin] Hr.
    - exists v. left. reflexivity.
    - apply present_keys. simpl. right. apply Hreq; assumption.
  Qed.
End Item.

(* ------------------------------------------------------------------ members, by induction on the message tree *)

Section Members.
  Variable value_check : field -> str -> option exc.
  Variable Sc : schema.

  Lemma wf_member_group : forall f r ms,
    wf_member Sc (MGroup f r ms) = true ->
    NoDup (map mtag ms) /\ (forall mem, In mem ms -> wf_member Sc mem = true).
  Proof.
    intros f r ms H. simpl in H. apply andb_true_iff in H. destruct H as [_ H].
    apply andb_true_iff in H. destruct H as [H1 H2]. split.
    - apply nodupb_NoDup. exact H1.
    - rewrite forallb_forall in H2. exact H2.
  Qed.

  Lemma validate_member_sound : forall v mem,
    value_keys_unique v = true -> wf_member Sc mem = true ->
    validate_member value_check mem v = Ok -> conf_member value_check mem v.
  Proof.
    induction v as [s|items IH] using value_ind'; intros mem Hu Hwf H.
    - destruct mem as [f r|f r ms]; simpl in H; [|discriminate].
      constructor. unfold check_value in H. destruct (value_check f s); [discriminate | reflexivity].
    - destruct mem as [f r|f r ms]; simpl in H; [discriminate|].
      apply wf_member_group in Hwf. destruct Hwf as [Hnd Hwf].
      constructor. apply items_loop_ok in H.
      simpl in Hu. rewrite forallb_forall in Hu.
      rewrite Forall_forall in *. intros it Hit.
      specialize (H it Hit). specialize (IH it Hit). specialize (Hu it Hit).
      apply andb_true_iff in Hu. destruct Hu as [Hk Hue].
      apply nodupb_NoDup in Hk. rewrite forallb_forall in Hue. rewrite Forall_forall in IH.
      apply (item_sound value_check (validate_member value_check) ms Hnd it Hk); [|exact H].
      intros e mem He Hmem Hr. apply (IH e He); [apply Hue; exact He | apply Hwf; exact Hmem | exact Hr].
  Qed.

  Lemma validate_member_complete : forall v mem,
    wf_member Sc mem = true ->
    conf_member value_check mem v -> validate_member value_check mem v = Ok.
  Proof.
    induction v as [s|items IH] using value_ind'; intros mem Hwf H.
    - inversion H as [f r s' Hv|]; subst. simpl. unfold check_value. rewrite Hv. reflexivity.
    - inversion H as [|f r ms items' Hitems]; subst. simpl.
      apply wf_member_group in Hwf. destruct Hwf as [Hnd Hwf].
      apply items_loop_ok. rewrite Forall_forall in *. intros it Hit.
      specialize (IH it Hit). specialize (Hitems it Hit). rewrite Forall_forall in IH.
      apply (item_complete value_check (validate_member value_check) ms Hnd it); [|exact Hitems].
      intros e mem He Hmem Hc. apply (IH e He); [apply Hwf; exact Hmem | exact Hc].
  Qed.

  (* exception classes *)
  Definition ok_or_fme (r : res) : Prop := r = Ok \/ r = Exc EFIXMessage.

  Fixpoint value_strs (v : value) : list str :=
    match v with
    | VStr s => [s]
    | VGrp items => flat_map (fun it => flat_map (fun e => value_strs (snd e)) it) items
    end.

  Lemma validate_member_class : forall v mem,
    (forall f s e, In s (value_strs v) -> value_check f s = Some e -> e = EFIXMessage) ->
    ok_or_fme (validate_member value_check mem v).
  Proof.
    induction v as [s|items IH] using value_ind'; intros mem Hc.
    - destruct mem as [f r|f r ms]; simpl; [|right; reflexivity].
      unfold check_value. destruct (value_check f s) eqn:E; [|left; reflexivity].
      right. f_equal. apply (Hc f s); [left; reflexivity | exact E].
    - destruct mem as [f r|f r ms]; simpl; [right; reflexivity|].
      apply items_loop_class; [left; reflexivity | right; reflexivity |].
      intros it e mem Hit He. rewrite Forall_forall in IH. specialize (IH it Hit).
      rewrite Forall_forall in IH. apply (IH e He). intros f0 s0 e0 Hin. apply Hc.
      simpl. apply in_flat_map. exists it. split; [exact Hit|].
      apply in_flat_map. exists e. split; [exact He | exact Hin].
  Qed.
End Members.

(* ------------------------------------------------------------------ message level *)

Lemma field_eqb_eq : forall a b, field_eqb a b = true -> a = b.
Proof.
  intros [ta na ya ea] [tb nb yb eb] H. unfold field_eqb in H. simpl in H.
  apply andb_true_iff in H. destruct H as [H He].
  apply andb_true_iff in H. destruct H as [H Hy].
  apply andb_true_iff in H. destruct H as [Ht Hn].
  apply str_eqb_eq in Ht. apply N.eqb_eq in Hn, Hy. apply Bool.eqb_prop in He. congruence.
Qed.

Lemma known_In : forall Sc f, known Sc f = true -> In f (s_fields Sc).
Proof.
  intros Sc f H. unfold known in H. apply existsb_exists in H. destruct H as [g [Hg E]].
  apply field_eqb_eq in E. subst. exact Hg.
Qed.

Lemma wf_member_known : forall Sc mem, wf_member Sc mem = true -> In (mfield mem) (s_fields Sc).
Proof.
  intros Sc mem H. apply known_In. destruct mem; simpl in H; apply andb_true_iff in H; apply H.
Qed.

Section Top.
  Variable value_check : field -> str -> option exc.
  Variable Sc : schema.
  Variable M : list member.
  Hypothesis Hft : NoDup (map f_tag (s_fields Sc)).
  Hypothesis Hfn : NoDup (map f_name (s_fields Sc)).
  Hypothesis Hset : wf_set Sc (s_header Sc ++ M) = true.


  Lemma set_nodup : NoDup (map mtag (s_header Sc ++ M)).
  Proof. unfold wf_set in Hset. apply andb_true_iff in Hset. apply nodupb_NoDup. apply Hset. Qed.

  Lemma set_wf_member : forall mem, In mem (s_header Sc ++ M) -> wf_member Sc mem = true.
  Proof.
    unfold wf_set in Hset. apply andb_true_iff in Hset. destruct Hset as [_ H].
    rewrite forallb_forall in H. exact H.
  Qed.

  Lemma name_determines : forall mem fld,
    In mem (s_header Sc ++ M) -> In fld (s_fields Sc) -> name_is fld mem = true -> mfield mem = fld.
  Proof.
    intros mem fld Hm Hf Hn. unfold name_is in Hn. apply N.eqb_eq in Hn.
    apply (NoDup_map_inj _ _ f_name (s_fields Sc)); [exact Hfn | | exact Hf | exact Hn].
    apply wf_member_known. apply set_wf_member. exact Hm.
  Qed.

  Lemma member_for_spec : forall t mem,
    member_for Sc M t = Some mem <-> In mem (s_header Sc ++ M) /\ mtag mem = t.
  Proof.
    intros t mem. unfold member_for, tag2field. split.
    - destruct (find (fun f => str_eqb (f_tag f) t) (s_fields Sc)) as [fld|] eqn:Ef; [|discriminate].
      apply find_some in Ef. destruct Ef as [Hfld Et]. apply str_eqb_eq in Et.
      destruct (set_contains (s_header Sc) fld).
      + intro H. apply find_some in H. destruct H as [Hin Hn].
        assert (In mem (s_header Sc ++ M)) as Hin' by (apply in_or_app; left; exact Hin).
        split; [exact Hin'|]. unfold mtag. rewrite (name_determines mem fld Hin' Hfld Hn). exact Et.
      + destruct (set_contains M fld); simpl; [|discriminate].
        intro H. apply find_some in H. destruct H as [Hin Hn].
        assert (In mem (s_header Sc ++ M)) as Hin' by (apply in_or_app; right; exact Hin).
        split; [exact Hin'|]. unfold mtag. rewrite (name_determines mem fld Hin' Hfld Hn). exact Et.
    - intros [Hin Ht].
      assert (HF : In (mfield mem) (s_fields Sc)) by (apply wf_member_known, set_wf_member; exact Hin).
      destruct (find (fun f => str_eqb (f_tag f) t) (s_fields Sc)) as [fld|] eqn:Ef.
      + apply find_some in Ef. destruct Ef as [Hfld Et]. apply str_eqb_eq in Et.
        assert (fld = mfield mem) as ->.
        { apply (NoDup_map_inj _ _ f_tag (s_fields Sc)); [exact Hft | exact Hfld | exact HF |].
          rewrite Et. symmetry. exact Ht. }
        assert (Hself : name_is (mfield mem) mem = true) by (unfold name_is; apply N.eqb_refl).
        assert (Hget : forall l, (forall x, In x l -> In x (s_header Sc ++ M)) -> In mem l ->
                                 set_get l (mfield mem) = Some mem).
        { intros l Hl Hml. unfold set_get.
          destruct (find (name_is (mfield mem)) l) as [mem'|] eqn:Eg.
          - apply find_some in Eg. destruct Eg as [Hin' Hn']. f_equal.
            apply (NoDup_map_inj _ _ mtag (s_header Sc ++ M)); [apply set_nodup | apply Hl; exact Hin' | exact Hin |].
            unfold mtag. rewrite (name_determines mem' (mfield mem) (Hl _ Hin') HF Hn'). reflexivity.
          - exfalso. apply (find_none _ _ Eg) in Hml. congruence. }
        destruct (set_contains (s_header Sc) (mfield mem)) eqn:Ec.
        * unfold set_contains in Ec. apply existsb_exists in Ec. destruct Ec as [mem' [Hin' Hn']].
          assert (mem' = mem) as ->.
          { assert (In mem' (s_header Sc ++ M)) as Hi by (apply in_or_app; left; exact Hin').
            apply (NoDup_map_inj _ _ mtag (s_header Sc ++ M)); [apply set_nodup | exact Hi | exact Hin |].
            unfold mtag. rewrite (name_determines mem' (mfield mem) Hi HF Hn'). reflexivity. }
          apply Hget; [|exact Hin']. intros x Hx. apply in_or_app. left. exact Hx.
        * assert (HinM : In mem M).
          { apply in_app_or in Hin. destruct Hin as [Hh|Hm]; [|exact Hm]. exfalso.
            unfold set_contains in Ec.
            assert (existsb (name_is (mfield mem)) (s_header Sc) = true); [|congruence].
            apply existsb_exists. exists mem. split; assumption. }
          assert (set_contains M (mfield mem) = true) as ->.
          { unfold set_contains. apply existsb_exists. exists mem. split; assumption. }
          simpl. apply Hget; [|exact HinM]. intros x Hx. apply in_or_app. right. exact Hx.
      + exfalso. apply (find_none _ _ Ef) in HF. simpl in HF. unfold mtag in Ht. rewrite Ht in HF.
        rewrite str_eqb_refl in HF. discriminate.
  Qed.

  Lemma body_loop_ok : forall es,
    body_loop value_check Sc M es = Ok <->
    (forall t v, In (t, v) es -> t <> TAG10 ->
       exists mem, member_for Sc M t = Some mem /\ validate_member value_check mem v = Ok).
  Proof.
    induction es as [|[t v] r IH]; simpl.
    - split; [intros _ t v [] | reflexivity].
    - destruct (str_eqb t TAG10) eqn:E10.
      + rewrite IH. apply str_eqb_eq in E10. split.
        * intros H t' v' [E|Hin] Hne; [inversion E; subst; contradiction | apply H; assumption].
        * intros H t' v' Hin Hne. apply H; [right; exact Hin | exact Hne].
      + apply str_eqb_neq in E10. destruct (member_for Sc M t) as [mem|] eqn:Em.
        * destruct (validate_member value_check mem v) eqn:Ev.
          -- rewrite IH. split.
             ++ intros H t' v' [E|Hin] Hne; [inversion E; subst; exists mem; auto | apply H; assumption].
             ++ intros H t' v' Hin Hne. apply H; [right; exact Hin | exact Hne].
          -- split; [discriminate|]. intro H. exfalso.
             destruct (H t v (or_introl eq_refl) E10) as [mem' [Hm' Hv']]. congruence.
        * split; [discriminate|]. intro H. exfalso.
          destruct (H t v (or_introl eq_refl) E10) as [mem' [Hm' _]]. congruence.
  Qed.

  Lemma body_loop_class : forall es,
    (forall f s e, In s (flat_map (fun e => value_strs (snd e)) es) -> value_check f s = Some e -> e = EFIXMessage) ->
    ok_or_fme (body_loop value_check Sc M es).
  Proof.
    induction es as [|[t v] r IH]; intro Hc; simpl.
    - left. reflexivity.
    - assert (Hr : ok_or_fme (body_loop value_check Sc M r)).
      { apply IH. intros f s e Hin. apply Hc. simpl. apply in_or_app. right. exact Hin. }
      destruct (str_eqb t TAG10); [exact Hr|].
      destruct (member_for Sc M t) as [mem|]; [|right; reflexivity].
      destruct (validate_member_class value_check v mem) as [E|E].
      + intros f s e Hin. apply Hc. simpl. apply in_or_app. left. exact Hin.
      + rewrite E. exact Hr.
      + rewrite E. right. reflexivity.
  Qed.
End Top.

Section Header.
  Variable value_check : field -> str -> option exc.

  Lemma header_loop_ok : forall hs c,
    validate_header_loop value_check hs c = Ok <->
    (forall m, In m hs -> mreq m = true ->
       present (mtag m) c /\
       (forall f r, m = MField f r ->
          exists s, get_tag (f_tag f) c = Some (VStr s) /\ value_check f s = None)).
  Proof.
    induction hs as [|m hs IH]; intro c; simpl.
    - split; [intros _ m [] | reflexivity].
    - destruct (mreq m) eqn:Er.
      + destruct (has_tag (mtag m) c) eqn:Eh; simpl.
        * destruct m as [f r|f r sub].
          -- unfold mtag in Eh. simpl in Eh.
             destruct (get_tag (f_tag f) c) as [[s|items]|] eqn:Eg.
             ++ unfold check_value. destruct (value_check f s) eqn:Ev.
                ** split; [discriminate|]. intro H. exfalso.
                   destruct (H (MField f r) (or_introl eq_refl) Er) as [_ H2].
                   destruct (H2 f r eq_refl) as [s' [Hs' Hv']]. congruence.
                ** rewrite IH. split.
                   --- intros H m' [<-|Hin] Hr'.
                       +++ split; [apply has_tag_present; exact Eh|].
                           intros f' r' E. inversion E; subst. exists s. auto.
                       +++ apply H; assumption.
                   --- intros H m' Hin Hr'. apply H; [right; exact Hin | exact Hr'].
             ++ split; [discriminate|]. intro H. exfalso.
                destruct (H (MField f r) (or_introl eq_refl) Er) as [_ H2].
                destruct (H2 f r eq_refl) as [s' [Hs' _]]. congruence.
             ++ split; [discriminate|]. intro H. exfalso.
                destruct (H (MField f r) (or_introl eq_refl) Er) as [_ H2].
                destruct (H2 f r eq_refl) as [s' [Hs' _]]. congruence.
          -- rewrite IH. split.
             ++ intros H m' [<-|Hin] Hr'.
                ** split; [apply has_tag_present; exact Eh|]. intros f' r' E. discriminate.
                ** apply H; assumption.
             ++ intros H m' Hin Hr'. apply H; [right; exact Hin | exact Hr'].
        * split; [discriminate|]. intro H. exfalso.
          destruct (H m (or_introl eq_refl) Er) as [Hp _]. apply has_tag_present in Hp. congruence.
      + rewrite IH. split.
        * intros H m' [<-|Hin] Hr'; [congruence | apply H; assumption].
        * intros H m' Hin Hr'. apply H; [right; exact Hin | exact Hr'].
  Qed.

  Lemma header_loop_class : forall hs c,
    (forall f s e t, In (t, VStr s) c -> value_check f s = Some e -> e = EFIXMessage) ->
    ok_or_fme (validate_header_loop value_check hs c).
  Proof.
    induction hs as [|m hs IH]; intros c Hc; simpl.
    - left. reflexivity.
    - destruct (mreq m); [|apply IH; exact Hc].
      destruct (negb (has_tag (mtag m) c)); [right; reflexivity|].
      destruct m as [f r|f r sub]; [|apply IH; exact Hc].
      destruct (get_tag (f_tag f) c) as [[s|items]|] eqn:Eg; try (right; reflexivity).
      unfold check_value. destruct (value_check f s) eqn:Ev.
      + right. f_equal. apply (Hc f s e (f_tag f)); [apply get_tag_In; exact Eg | exact Ev].
      + apply IH. exact Hc.
  Qed.
End Header.

(* ------------------------------------------------------------------ the theorems of C15 *)

Definition msg_strs (m : message) : list str := flat_map (fun e => value_strs (snd e)) (tags m).

Lemma find_message_In : forall Sc mt M, find_message Sc mt = Some M -> In (mt, M) (s_messages Sc).
Proof.
  intros Sc mt M H. unfold find_message in H.
  destruct (find (fun p => str_eqb (fst p) mt) (s_messages Sc)) as [[mt' M']|] eqn:E; [|discriminate].
  simpl in H. inversion H; subst. apply find_some in E. destruct E as [Hin E]. simpl in E.
  apply str_eqb_eq in E. subst. exact Hin.
Qed.

Lemma In_find_message : forall Sc mt M,
  NoDup (map fst (s_messages Sc)) -> In (mt, M) (s_messages Sc) -> find_message Sc mt = Some M.
Proof.
  intros Sc mt M Hnd Hin. unfold find_message.
  destruct (find (fun p => str_eqb (fst p) mt) (s_messages Sc)) as [[mt' M']|] eqn:E.
  - apply find_some in E. destruct E as [Hin' E]. simpl in E. apply str_eqb_eq in E. subst mt'.
    assert ((mt, M') = (mt, M)) as Heq.
    { apply (NoDup_map_inj _ _ fst (s_messages Sc)); auto. }
    inversion Heq; subst. reflexivity.
  - exfalso. apply (find_none _ _ E) in Hin. simpl in Hin. rewrite str_eqb_refl in Hin. discriminate.
Qed.

Section Main.
  Variable value_check : field -> str -> option exc.
  Variable Sc : schema.
  Hypothesis Hwf : wf_schema Sc = true.

  Lemma wf_parts :
    NoDup (map f_tag (s_fields Sc)) /\ NoDup (map f_name (s_fields Sc))
    /\ NoDup (map fst (s_messages Sc))
    /\ (forall m, In m (s_header Sc) -> mtag m <> TAG10)
    /\ (forall mt M, In (mt, M) (s_messages Sc) -> wf_set Sc (s_header Sc ++ M) = true).
  Proof.
    unfold wf_schema in Hwf.
    apply andb_true_iff in Hwf. destruct Hwf as [H H5].
    apply andb_true_iff in H. destruct H as [H H4].
    apply andb_true_iff in H. destruct H as [H H3].
    apply andb_true_iff in H. destruct H as [H1 H2].
    split; [apply nodupb_NoDup; exact H1|].
    split; [apply nodupN_NoDup; exact H2|].
    split; [apply nodupb_NoDup; exact H3|].
    split.
    - intros m Hin E. apply negb_true_iff in H4.
      assert (existsb (fun m => str_eqb (mtag m) TAG10) (s_header Sc) = true); [|congruence].
      apply existsb_exists. exists m. split; [exact Hin|]. apply str_eqb_eq. exact E.
    - intros mt M Hin. rewrite forallb_forall in H5. apply (H5 (mt, M) Hin).
  Qed.

  Theorem validate_sound : forall m,
    keys_unique (tags m) = true ->
    validate value_check Sc m = Ok -> conforms value_check Sc m.
  Proof.
    intros m Hu H. destruct wf_parts as [Hft [Hfn [Hmt [H10 Hsets]]]].
    unfold validate in H.
    destruct (find_message Sc (msg_type m)) as [M|] eqn:Ef; [|discriminate].
    apply find_message_In in Ef. specialize (Hsets _ _ Ef).
    destruct (check_required M (tags m)) eqn:Er; [|discriminate].
    destruct (if has_tag TAG8 (tags m) then validate_header_loop value_check (s_header Sc) (tags m) else Ok)
      eqn:Eh; [|discriminate].
    exists M. split; [exact Ef|].
    split; [apply check_required_ok; exact Er|].
    split.
    - intros Hp mem Hin Hr. apply has_tag_present in Hp. rewrite Hp in Eh.
      rewrite header_loop_ok in Eh. apply (Eh mem Hin Hr).
    - intros t v Hin Hne.
      destruct (proj1 (body_loop_ok value_check Sc M (tags m)) H t v Hin Hne) as [mem [Hm Hv]].
      apply (member_for_spec Sc M Hft Hfn Hsets) in Hm. destruct Hm as [Hmem Ht].
      exists mem. split; [exact Hmem|]. split; [exact Ht|].
      apply (validate_member_sound value_check Sc); [| apply (set_wf_member Sc M Hsets); exact Hmem | exact Hv].
      unfold keys_unique in Hu. apply andb_true_iff in Hu. destruct Hu as [_ Hu].
      rewrite forallb_forall in Hu. apply (Hu (t, v) Hin).
  Qed.

  Theorem validate_complete : forall m,
    conforms value_check Sc m -> validate value_check Sc m = Ok.
  Proof.
    intros m [M [HinM [Hreq [Hhdr Hent]]]]. destruct wf_parts as [Hft [Hfn [Hmt [H10 Hsets]]]].
    specialize (Hsets _ _ HinM).
    unfold validate. rewrite (In_find_message Sc _ M Hmt HinM).
    rewrite (proj2 (check_required_ok M (tags m)) Hreq).
    assert (Hh : (if has_tag TAG8 (tags m) then validate_header_loop value_check (s_header Sc) (tags m) else Ok) = Ok).
    { destruct (has_tag TAG8 (tags m)) eqn:E8; [|reflexivity].
      apply header_loop_ok. intros mem Hin Hr.
      assert (Hp : present (mtag mem) (tags m)).
      { apply Hhdr; [apply has_tag_present; exact E8 | exact Hin | exact Hr]. }
      split; [exact Hp|]. intros f r ->.
      apply has_tag_present in Hp. destruct (has_tag_get _ _ Hp) as [v Hg].
      unfold mtag in Hg. simpl in Hg.
      destruct (Hent (f_tag f) v (get_tag_In _ _ _ Hg) (H10 _ Hin)) as [mem' [Hin' [Ht' Hc']]].
      assert (mem' = MField f r) as ->.
      { apply (NoDup_map_inj _ _ mtag (s_header Sc ++ M));
          [apply (set_nodup Sc M Hsets) | exact Hin' | apply in_or_app; left; exact Hin | exact Ht']. }
      inversion Hc'; subst. exists s. auto. }
    rewrite Hh. apply (body_loop_ok value_check Sc M).
    intros t v Hin Hne. destruct (Hent t v Hin Hne) as [mem [Hmem [Ht Hc]]].
    exists mem. split.
    - apply (member_for_spec Sc M Hft Hfn Hsets). auto.
    - apply (validate_member_complete value_check Sc); [apply (set_wf_member Sc M Hsets); exact Hmem | exact Hc].
  Qed.
End Main.

(* no well-formedness needed for the exception class *)
Theorem validate_class : forall value_check Sc m,
  (forall f s e, In s (msg_strs m) -> value_check f s = Some e -> e = EFIXMessage) ->
  validate value_check Sc m = Ok \/ validate value_check Sc m = Exc EFIXMessage.
Proof.
  intros vc Sc m Hc. unfold validate.
  destruct (find_message Sc (msg_type m)) as [M|]; [|right; reflexivity].
  destruct (check_required_class M (tags m)) as [-> | ->]; [|right; reflexivity].
  assert (Hh : ok_or_fme (if has_tag TAG8 (tags m) then validate_header_loop vc (s_header Sc) (tags m) else Ok)).
  { destruct (has_tag TAG8 (tags m)); [|left; reflexivity]. apply header_loop_class.
    intros f s e t Hin. apply Hc. unfold msg_strs. apply in_flat_map.
    exists (t, VStr s). split; [exact Hin | left; reflexivity]. }
  destruct Hh as [-> | ->]; [|right; reflexivity].
  apply body_loop_class. exact Hc.
Qed.

(* ------------------------------------------------------------------ single-fault mutations *)

Section Faults.
  Variable value_check : field -> str -> option exc.

  (* --- facts about conforming items --- *)
  Lemma conf_entries_members : forall ms es,
    conf_entries value_check ms es ->
    forall t v, In (t, v) es -> exists mem, In mem ms /\ mtag mem = t /\ conf_member value_check mem v.
  Proof.
    intros ms es H. induction H as [|m ms es Hr H IH|m ms v es Hq H IH]; intros t v' Hin.
    - contradiction.
    - destruct (IH t v' Hin) as [mem [Hm Hx]]. exists mem. split; [right; exact Hm | exact Hx].
    - destruct Hin as [E|Hin].
      + inversion E; subst. exists m. split; [left; reflexivity | auto].
      + destruct (IH t v' Hin) as [mem [Hm Hx]]. exists mem. split; [right; exact Hm | exact Hx].
  Qed.

  Lemma conf_entries_required : forall ms es,
    conf_entries value_check ms es ->
    forall mem, In mem ms -> mreq mem = true -> In (mtag mem) (map fst es).
  Proof.
    intros ms es H. induction H as [|m ms es Hr H IH|m ms v es Hq H IH]; intros mem Hin Hreq.
    - contradiction.
    - destruct Hin as [->|Hin]; [congruence | apply IH; assumption].
    - simpl. destruct Hin as [->|Hin]; [left; reflexivity | right; apply IH; assumption].
  Qed.

  Lemma conf_item_entries : forall ms it,
    conf_item value_check ms it -> conf_entries value_check ms it.
  Proof. intros ms it H. destruct H. apply CE_take; assumption. Qed.

  Lemma not_in_remove_tag : forall t c, ~ In t (map fst (remove_tag t c)).
  Proof.
    intros t c H. apply in_map_iff in H. destruct H as [[t' v] [E Hin]]. simpl in E. subst t'.
    unfold remove_tag in Hin. apply filter_In in Hin. destruct Hin as [_ Hn]. simpl in Hn.
    rewrite str_eqb_refl in Hn. discriminate.
  Qed.

  Lemma In_insert_at : forall n (e : str * value) c, In e (insert_at n e c).
  Proof. intros. unfold insert_at. apply in_or_app. right. left. reflexivity. Qed.

  Lemma In_set_value : forall t v c, In t (map fst c) -> In (t, v) (set_value t v c).
  Proof.
    intros t v c H. apply in_map_iff in H. destruct H as [[t' v'] [E Hin]]. simpl in E. subst t'.
    unfold set_value. apply in_map_iff. exists (t, v'). split; [|exact Hin]. simpl.
    rewrite str_eqb_refl. reflexivity.
  Qed.

  (* --- values of the wrong kind or refused by single-value validation --- *)
  Lemma bad_value_nonconf : forall f r s e,
    value_check f s = Some e -> ~ conf_member value_check (MField f r) (VStr s).
  Proof. intros f r s e Hv H. inversion H; subst. congruence. Qed.

  Lemma group_for_plain_nonconf : forall f r items, ~ conf_member value_check (MField f r) (VGrp items).
  Proof. intros f r items H. inversion H. Qed.

  Lemma plain_for_group_nonconf : forall f r ms s, ~ conf_member value_check (MGroup f r ms) (VStr s).
  Proof. intros f r ms s H. inversion H. Qed.

  (* a group with one non-conforming item does not conform: faults propagate upwards *)
  Lemma bad_item_nonconf : forall f r ms a it b,
    ~ conf_item value_check ms it -> ~ conf_member value_check (MGroup f r ms) (VGrp (a ++ it :: b)).
  Proof.
    intros f r ms a it b Hn H. inversion H as [|? ? ? ? Hall]; subst. apply Hn.
    rewrite Forall_forall in Hall. apply Hall. apply in_or_app. right. left. reflexivity.
  Qed.

  (* --- faults inside an item of a group with members ms --- *)
  Lemma item_missing_required : forall ms mem it,
    In mem ms -> mreq mem = true -> ~ conf_item value_check ms (remove_tag (mtag mem) it).
  Proof.
    intros ms mem it Hin Hr H. apply conf_item_entries in H.
    apply (not_in_remove_tag (mtag mem) it). eapply conf_entries_required; eassumption.
  Qed.

  Lemma item_missing_first : forall m0 ms it,
    ~ conf_item value_check (m0 :: ms) (remove_tag (mtag m0) it).
  Proof.
    intros m0 ms it H. apply (not_in_remove_tag (mtag m0) it).
    remember (remove_tag (mtag m0) it) as c eqn:Ec. clear Ec.
    inversion H; subst. left. reflexivity.
  Qed.

  Lemma item_foreign_member : forall ms t v n it,
    (forall mem, In mem ms -> mtag mem <> t) -> ~ conf_item value_check ms (insert_at n (t, v) it).
  Proof.
    intros ms t v n it Hf H. apply conf_item_entries in H.
    destruct (conf_entries_members _ _ H t v (In_insert_at n (t, v) it)) as [mem [Hin [Ht _]]].
    apply (Hf mem Hin Ht).
  Qed.

  Lemma item_bad_member_value : forall ms mem v a b,
    NoDup (map mtag ms) -> In mem ms -> ~ conf_member value_check mem v ->
    ~ conf_item value_check ms (a ++ (mtag mem, v) :: b).
  Proof.
    intros ms mem v a b Hnd Hin Hn H. apply conf_item_entries in H.
    destruct (conf_entries_members _ _ H (mtag mem) v) as [mem' [Hin' [Ht' Hc']]].
    { apply in_or_app. right. left. reflexivity. }
    assert (mem' = mem) as -> by (eapply NoDup_map_inj; eassumption).
    contradiction.
  Qed.

  Lemma conf_item_positions : forall ms it,
    conf_item value_check ms it ->
    exists idxs, Forall2 (at_pos value_check ms 0) it idxs /\ StronglySorted lt idxs.
  Proof.
    intros ms it H. destruct H as [m ms' v es Hq He].
    destruct (align_complete value_check (m :: ms') ms' es He 1 (fun j => eq_refl)) as [idxs [HF [HS _]]].
    exists (0 :: idxs). split.
    - constructor.
      + split; [lia|]. exists m. simpl. auto.
      + apply (at_pos_shift value_check (m :: ms') 1); [exact HF|].
        apply at_pos_ge in HF. eapply Forall_impl; [|exact HF]. simpl. intros. lia.
    - constructor; [exact HS|]. apply at_pos_ge in HF.
      eapply Forall_impl; [|exact HF]. simpl. intros. lia.
  Qed.

  Lemma sorted_adjacent : forall ia i1 i2 ib, StronglySorted lt (ia ++ i1 :: i2 :: ib) -> i1 < i2.
  Proof.
    induction ia as [|x ia IH]; intros i1 i2 ib H; simpl in H.
    - inversion H as [|? ? _ Hlt]; subst. inversion Hlt; subst. assumption.
    - inversion H; subst. eapply IH. eassumption.
  Qed.

  Lemma conf_item_adjacent : forall ms a e1 e2 b,
    conf_item value_check ms (a ++ e1 :: e2 :: b) ->
    exists i1 i2 m1 m2, i1 < i2 /\ nth_error ms i1 = Some m1 /\ mtag m1 = fst e1
                        /\ nth_error ms i2 = Some m2 /\ mtag m2 = fst e2.
  Proof.
    intros ms a e1 e2 b H. destruct (conf_item_positions _ _ H) as [idxs [HF HS]].
    apply Forall2_app_inv_l in HF. destruct HF as [ia [ir [_ [HF ->]]]].
    inversion HF as [|? i1 ? ir' [_ [m1 [Hn1 [Ht1 _]]]] HF']; subst.
    inversion HF' as [|? i2 ? ib [_ [m2 [Hn2 [Ht2 _]]]] _]; subst.
    exists i1, i2, m1, m2. split; [eapply sorted_adjacent; exact HS | auto].
  Qed.

  Lemma item_out_of_order : forall ms a e1 e2 b,
    NoDup (map mtag ms) ->
    conf_item value_check ms (a ++ e1 :: e2 :: b) -> ~ conf_item value_check ms (a ++ e2 :: e1 :: b).
  Proof.
    intros ms a e1 e2 b Hnd H1 H2.
    destruct (conf_item_adjacent _ _ _ _ _ H1) as [i1 [i2 [m1 [m2 [Hlt [Hn1 [Ht1 [Hn2 Ht2]]]]]]]].
    destruct (conf_item_adjacent _ _ _ _ _ H2) as [j2 [j1 [m2' [m1' [Hlt' [Hn2' [Ht2' [Hn1' Ht1']]]]]]]].
    assert (i1 = j1) by (eapply NoDup_map_nth; [exact Hnd | exact Hn1 | exact Hn1' | congruence]).
    assert (i2 = j2) by (eapply NoDup_map_nth; [exact Hnd | exact Hn2 | exact Hn2' | congruence]).
    lia.
  Qed.

  (* --- faults at message level --- *)
  Variable Sc : schema.
  Hypothesis Hwf : wf_schema Sc = true.

  Lemma conforms_message_type : forall m M M',
    In (msg_type m, M) (s_messages Sc) -> In (msg_type m, M') (s_messages Sc) -> M' = M.
  Proof.
    intros m M M' H1 H2. destruct (wf_parts Sc Hwf) as [_ [_ [Hmt _]]].
    assert ((msg_type m, M') = (msg_type m, M)) as E.
    { apply (NoDup_map_inj _ _ fst (s_messages Sc)); auto. }
    inversion E. reflexivity.
  Qed.

  Lemma msg_unknown_type : forall m,
    ~ In (msg_type m) (map fst (s_messages Sc)) -> ~ conforms value_check Sc m.
  Proof.
    intros m Hn [M [Hin _]]. apply Hn. apply in_map_iff. exists (msg_type m, M). auto.
  Qed.

  Lemma msg_missing_required : forall mt c M mem,
    In (mt, M) (s_messages Sc) -> In mem M -> mreq mem = true ->
    ~ conforms value_check Sc (mkMsg mt (remove_tag (mtag mem) c)).
  Proof.
    intros mt c M mem HinM Hin Hr [M' [HinM' [Hreq _]]]. simpl in *.
    assert (M' = M) as -> by (apply (conforms_message_type (mkMsg mt c)); assumption).
    apply (not_in_remove_tag (mtag mem) c). apply present_keys. apply Hreq; assumption.
  Qed.

  Lemma msg_missing_required_header : forall mt c mem,
    In mem (s_header Sc) -> mreq mem = true -> mtag mem <> TAG8 -> present TAG8 c ->
    ~ conforms value_check Sc (mkMsg mt (remove_tag (mtag mem) c)).
  Proof.
    intros mt c mem Hin Hr Hne [v8 H8] [M' [_ [_ [Hhdr _]]]]. simpl in *.
    apply (not_in_remove_tag (mtag mem) c). apply present_keys. apply Hhdr; [|exact Hin | exact Hr].
    exists v8. unfold remove_tag. apply filter_In. split; [exact H8|]. cbn [fst].
    apply negb_true_iff. apply str_eqb_neq. congruence.
  Qed.

  Lemma msg_foreign_tag : forall mt c M t v n,
    In (mt, M) (s_messages Sc) -> t <> TAG10 ->
    (forall mem, In mem (s_header Sc ++ M) -> mtag mem <> t) ->
    ~ conforms value_check Sc (mkMsg mt (insert_at n (t, v) c)).
  Proof.
    intros mt c M t v n HinM Hne Hf [M' [HinM' [_ [_ Hent]]]]. simpl in *.
    assert (M' = M) as -> by (apply (conforms_message_type (mkMsg mt c)); assumption).
    destruct (Hent t v (In_insert_at n (t, v) c) Hne) as [mem [Hin [Ht _]]].
    apply (Hf mem Hin Ht).
  Qed.

  Lemma msg_bad_member_value : forall mt c M mem v,
    In (mt, M) (s_messages Sc) -> In mem (s_header Sc ++ M) -> mtag mem <> TAG10 ->
    In (mtag mem) (map fst c) -> ~ conf_member value_check mem v ->
    ~ conforms value_check Sc (mkMsg mt (set_value (mtag mem) v c)).
  Proof.
    intros mt c M mem v HinM Hin Hne Hp Hn [M' [HinM' [_ [_ Hent]]]]. simpl in *.
    assert (M' = M) as -> by (apply (conforms_message_type (mkMsg mt c)); assumption).
    destruct (Hent (mtag mem) v (In_set_value _ v c Hp) Hne) as [mem' [Hin' [Ht' Hc']]].
    destruct (wf_parts Sc Hwf) as [_ [_ [_ [_ Hsets]]]].
    assert (mem' = mem) as ->.
    { apply (NoDup_map_inj _ _ mtag (s_header Sc ++ M));
        [apply (set_nodup Sc M (Hsets _ _ HinM)) | exact Hin' | exact Hin | exact Ht']. }
    contradiction.
  Qed.
End Faults.

(* non-conforming messages are rejected with the library's message error, nothing else *)
Theorem nonconforming_rejected : forall value_check Sc m,
  wf_schema Sc = true -> keys_unique (tags m) = true ->
  (forall f s e, In s (msg_strs m) -> value_check f s = Some e -> e = EFIXMessage) ->
  ~ conforms value_check Sc m -> validate value_check Sc m = Exc EFIXMessage.
Proof.
  intros vc Sc m Hwf Hu Hc Hn. destruct (validate_class vc Sc m Hc) as [H|H]; [|exact H].
  exfalso. apply Hn. apply validate_sound; assumption.
Qed.

(* ------------------------------------------------------------------ instances: the regenerated dictionaries *)

Local Open Scope N_scope.

Lemma fix44_wf : wf_schema GenSchema.FIX44.schema = true.
Proof. vm_cast_no_check (eq_refl true). Qed.

Lemma tt_wf : wf_schema GenSchema.TT.schema = true.
Proof. vm_cast_no_check (eq_refl true). Qed.

Definition T (n : N) : str := n_to_dec n.
Definition accept_all : field -> str -> option exc := fun _ _ => None.

(* NewOrderList (E) with NoOrders > NoPartyIDs > NoPartySubIDs: nesting depth 3 *)
Definition ex_item : container :=
  [(T 11, VStr [99; 49]); (T 67, VStr [49]);
   (T 453, VGrp [[(T 448, VStr [112]); (T 447, VStr [68]); (T 452, VStr [49]);
                  (T 802, VGrp [[(T 523, VStr [120]); (T 803, VStr [49])]])]]);
   (T 55, VStr [88]); (T 54, VStr [49])].
Definition ex_head : container := [(T 66, VStr [76; 49]); (T 394, VStr [49]); (T 68, VStr [49])].
Definition ex_msg : message := mkMsg [69] (ex_head ++ [(T 73, VGrp [ex_item])]).

Lemma ex_msg_validates : validate accept_all GenSchema.FIX44.schema ex_msg = Ok.
Proof. vm_compute. reflexivity. Qed.

Lemma ex_msg_conforms :
  keys_unique (tags ex_msg) = true /\ conforms accept_all GenSchema.FIX44.schema ex_msg.
Proof.
  assert (keys_unique (tags ex_msg) = true) as Hu by (vm_compute; reflexivity).
  split; [exact Hu|]. apply validate_sound; [exact fix44_wf | exact Hu | exact ex_msg_validates].
Qed.

(* ledger D3 (repaired): NewOrderList without its required group NoOrders *)
Lemma ex_required_group_enforced :
  validate accept_all GenSchema.FIX44.schema (mkMsg [69] ex_head) = Exc EFIXMessage
  /\ ~ conforms accept_all GenSchema.FIX44.schema (mkMsg [69] ex_head).
Proof.
  assert (validate accept_all GenSchema.FIX44.schema (mkMsg [69] ex_head) = Exc EFIXMessage) as H
    by (vm_compute; reflexivity).
  split; [exact H|]. intro Hc. apply (validate_complete _ _ fix44_wf) in Hc. congruence.
Qed.

(* a required member of a nested group item left out at depth 3 (PartySubIDType is optional, so
   drop the first member PartySubID instead: first-member rule at depth 3) *)
Definition ex_item_bad_depth3 : container :=
  [(T 11, VStr [99; 49]); (T 67, VStr [49]);
   (T 453, VGrp [[(T 448, VStr [112]); (T 447, VStr [68]); (T 452, VStr [49]);
                  (T 802, VGrp [[(T 803, VStr [49])]])]]);
   (T 55, VStr [88]); (T 54, VStr [49])].
Lemma ex_fault_at_depth3 :
  validate accept_all GenSchema.FIX44.schema (mkMsg [69] (ex_head ++ [(T 73, VGrp [ex_item_bad_depth3])]))
  = Exc EFIXMessage.
Proof. vm_compute. reflexivity. Qed.

(* a plain member of a group item given as a group (was AssertionError before the repair) *)
Lemma ex_group_for_plain_in_item :
  validate accept_all GenSchema.FIX44.schema
    (mkMsg [69] (ex_head ++ [(T 73, VGrp [[(T 11, VStr [99]); (T 67, VGrp [[(T 1, VStr [97])]]); (T 54, VStr [49])]])]))
  = Exc EFIXMessage.
Proof. vm_compute. reflexivity. Qed.

(* an optional header member with a refused value is checked even without BeginString *)
Definition refuse_43 : field -> str -> option exc :=
  fun f _ => if str_eqb (f_tag f) (T 43) then Some EFIXMessage else None.
Lemma ex_header_member_checked :
  validate refuse_43 GenSchema.FIX44.schema
    (mkMsg [69] ((T 43, VStr [81]) :: ex_head ++ [(T 73, VGrp [ex_item])])) = Exc EFIXMessage.
Proof. vm_compute. reflexivity. Qed.

(* the exception class of validate is the one single-value validation raises (ledger D23: an empty
   string makes validate_value fail an assertion): the hypothesis of validate_class is needed *)
Definition assert_nonempty : field -> str -> option exc :=
  fun _ s => match s with [] => Some EAssertion | _ => None end.
Lemma ex_value_class_escapes :
  exists vc Sc m, wf_schema Sc = true /\ keys_unique (tags m) = true
                  /\ validate vc Sc m = Exc EAssertion.
Proof.
  exists assert_nonempty, GenSchema.FIX44.schema,
    (mkMsg [69] ((T 66, VStr []) :: tl ex_head ++ [(T 73, VGrp [ex_item])])).
  split; [exact fix44_wf|]. split; vm_compute; reflexivity.
Qed.

(* the unique-keys hypothesis of soundness is needed: on a list with a repeated key (which an
   OrderedDict cannot hold) the order test `prev_tag > ord_idx` lets the repetition through *)
Definition toy_a : field := mkField (T 1) 0 0 false.
Definition toy_g : field := mkField (T 2) 1 1 false.
Definition toy_schema : schema :=
  mkSchema [toy_a; toy_g] [] [([88], [MGroup toy_g false [MField toy_a true]])].
Definition toy_dup : message :=
  mkMsg [88] [(T 2, VGrp [[(T 1, VStr [97]); (T 1, VStr [97])]])].
Lemma ex_unique_keys_needed :
  exists Sc m, wf_schema Sc = true /\ validate accept_all Sc m = Ok /\ ~ conforms accept_all Sc m.
Proof.
  exists toy_schema, toy_dup. split; [vm_compute; reflexivity|]. split; [vm_compute; reflexivity|].
  intros [M [HinM [_ [_ Hent]]]]. simpl in HinM. destruct HinM as [E|[]]. inversion E; subst M.
  destruct (Hent (T 2) (VGrp [[(T 1, VStr [97]); (T 1, VStr [97])]]) (or_introl eq_refl))
    as [mem [Hin [_ Hc]]].
  { vm_compute. discriminate. }
  simpl in Hin. destruct Hin as [<-|[]].
  inversion Hc as [|? ? ? ? Hall]; subst. inversion Hall as [|? ? Hit _]; subst.
  inversion Hit as [? ? ? ? _ He]; subst. inversion He.
Qed.
