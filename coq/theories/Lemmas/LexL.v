(* LexL: proofs relating the model Fix/ValidateValue.v (patched SchemaField.validate_value) to the specification
   Fix/Lex.v (FIX 4.4 lexical spaces) - C19. *)
From Coq Require Import ZArith NArith List Bool Lia ZifyBool.
From AF Require Import Base.Sx Py.Str Fix.Lex Fix.ValidateValue.
Import ListNotations.
Open Scope N_scope.

(* ================================================================ generic list / string facts *)

Lemma str_eqb_eq : forall a b, str_eqb a b = true <-> a = b.
Proof.
  unfold str_eqb. induction a as [|x a IH]; destruct b as [|y b]; split; intro H; try reflexivity; try discriminate.
  - apply andb_prop in H. destruct H as [H1 H2]. apply N.eqb_eq in H1. apply IH in H2. subst. reflexivity.
  - inversion H; subst. rewrite N.eqb_refl. simpl. apply IH. reflexivity.
Qed.

Lemma str_eqb_refl : forall a, str_eqb a a = true.
Proof. intro a. apply str_eqb_eq. reflexivity. Qed.

Lemma mem_str_In : forall s l, mem_str s l = true <-> In s l.
Proof.
  intros s l. unfold mem_str. rewrite existsb_exists. split.
  - intros [x [Hin He]]. apply str_eqb_eq in He. subst. exact Hin.
  - intro Hin. exists s. split; [exact Hin | apply str_eqb_refl].
Qed.

Lemma code_eqb_eq : forall a b, code_eqb a b = true <-> a = b.
Proof.
  unfold code_eqb. induction a as [|x a IH]; destruct b as [|y b]; split; intro H; try reflexivity; try discriminate.
  - simpl in H. apply andb_prop in H. destruct H as [Hl H]. apply andb_prop in H. destruct H as [H1 H2].
    simpl in H1. apply N.eqb_eq in H1. subst.
    f_equal. apply IH. rewrite Hl. exact H2.
  - inversion H; subst. simpl. rewrite Nat.eqb_refl, N.eqb_refl. simpl.
    assert (E : b = b) by reflexivity. apply IH in E. rewrite Nat.eqb_refl in E. exact E.
Qed.

Lemma forallb_rev : forall (A : Type) (f : A -> bool) l, forallb f (rev l) = forallb f l.
Proof.
  intros A f l. destruct (forallb f l) eqn:E.
  - apply forallb_forall. intros x Hx. apply in_rev in Hx. rewrite forallb_forall in E. auto.
  - destruct (forallb f (rev l)) eqn:E2; [|reflexivity].
    rewrite <- E. symmetry. apply forallb_forall. intros x Hx. rewrite forallb_forall in E2. apply E2.
    apply in_rev. rewrite rev_involutive. exact Hx.
Qed.

Lemma filter_all : forall (A : Type) (f : A -> bool) l, forallb f l = true -> filter f l = l.
Proof.
  induction l as [|x l IH]; simpl; intro H; [reflexivity|].
  apply andb_prop in H. destruct H as [H1 H2]. rewrite H1. f_equal. auto.
Qed.

(* characters *)
Lemma dig_bounds : forall c, dig c = true <-> 48 <= c <= 57.
Proof. intro c. unfold dig. lia. Qed.

Lemma dig_not_ws : forall c, dig c = true -> ws_str c = false.
Proof. intros c H. unfold dig in H. unfold ws_str. lia. Qed.

(* deciding whether a code point is a given small constant by looking at its bits *)
Ltac bits c := destruct c as [|c]; [|do 7 (try destruct c as [c|c|])].

(* ================================================================ int(): py_int on strings of the layout -?[0-9]+ *)

Lemma lstrip_nonws : forall ws s, forallb (fun c => negb (ws c)) s = true -> lstrip ws s = s.
Proof.
  intros ws s H. destruct s as [|c s]; [reflexivity|]. simpl in *.
  apply andb_prop in H. destruct H as [H _]. apply negb_true_iff in H. rewrite H. reflexivity.
Qed.

Lemma strip_nonws : forall ws s, forallb (fun c => negb (ws c)) s = true -> strip ws s = s.
Proof.
  intros ws s H. unfold strip. rewrite (lstrip_nonws ws s H).
  rewrite lstrip_nonws; [apply rev_involutive|]. rewrite forallb_rev. exact H.
Qed.

Lemma digits_us_digits : forall s acc, forallb dig s = true ->
  digits_us s acc false = Some (fold_left (fun a c => 10 * a + (c - 48)) s acc).
Proof.
  induction s as [|c s IH]; intros acc H; [reflexivity|].
  simpl in H. apply andb_prop in H. destruct H as [H1 H2].
  cbn [digits_us fold_left]. change (is_digit c) with (dig c). rewrite H1. apply IH. exact H2.
Qed.

(* int() of an ASCII digit string, possibly after a minus sign *)
Lemma py_int_unsigned : forall b, b <> [] -> forallb dig b = true ->
  py_int b = if 4300 <? N.of_nat (length b) then None else Some (Z.of_N (num b)).
Proof.
  intros b Hne Hd. unfold py_int, py_int_gen.
  rewrite strip_nonws.
  2:{ apply forallb_forall. intros x Hx. rewrite forallb_forall in Hd. rewrite (dig_not_ws x (Hd x Hx)). reflexivity. }
  destruct b as [|c r]; [congruence|].
  assert (Hc : dig c = true) by (simpl in Hd; apply andb_prop in Hd; tauto).
  assert (Hf : filter is_digit (c :: r) = c :: r) by (apply filter_all; exact Hd).
  assert (Hu : digits_us (c :: r) 0 false = Some (num (c :: r))) by (apply digits_us_digits; exact Hd).
  apply dig_bounds in Hc.
  assert (Hcases : c = 48 \/ c = 49 \/ c = 50 \/ c = 51 \/ c = 52 \/ c = 53 \/ c = 54 \/ c = 55 \/ c = 56 \/ c = 57) by lia.
  clear Hc Hd Hne.
  repeat (destruct Hcases as [Hcases | Hcases]; [subst c; cbv beta iota; rewrite Hf, Hu; reflexivity|]).
  subst c; cbv beta iota; rewrite Hf, Hu; reflexivity.
Qed.

Lemma py_int_minus : forall b, b <> [] -> forallb dig b = true ->
  py_int (45 :: b) = if 4300 <? N.of_nat (length b) then None else Some (- Z.of_N (num b))%Z.
Proof.
  intros b Hne Hd. unfold py_int, py_int_gen.
  rewrite strip_nonws.
  2:{ simpl. apply forallb_forall. intros x Hx. rewrite forallb_forall in Hd. rewrite (dig_not_ws x (Hd x Hx)). reflexivity. }
  cbv beta iota.
  destruct b as [|c r]; [congruence|].
  assert (Hc : dig c = true) by (simpl in Hd; apply andb_prop in Hd; tauto).
  rewrite (filter_all _ is_digit (c :: r) Hd).
  rewrite (digits_us_digits (c :: r) 0 Hd).
  change (is_digit c) with (dig c). rewrite Hc. reflexivity.
Qed.

(* ================================================================ the int family *)

Lemma opt_minus_cases : forall s,
  (exists r, s = 45 :: r /\ opt_minus s = r /\ is_neg s = true)
  \/ (opt_minus s = s /\ is_neg s = false /\ forall r, s <> 45 :: r).
Proof.
  destruct s as [|c r].
  - right. repeat split. intros r H. discriminate.
  - bits c;
    first [ left; eexists; repeat split; reflexivity
          | right; repeat split; intros r' H'; discriminate ].
Qed.

Lemma layout_int_lex : forall s, layout_int s = lex_int s.
Proof.
  intro s. unfold layout_int, lex_int, digs. change (unsigned s) with (opt_minus s).
  destruct (opt_minus s); reflexivity.
Qed.

Definition int_ok (nz nn : bool) (rg : option (Z * Z)) (v : Z) : bool :=
  negb (nz && (v =? 0)%Z) && negb (nn && (v <? 0)%Z)
  && match rg with Some (lo, hi) => (lo <=? v)%Z && (v <=? hi)%Z | None => true end.

Lemma validate_int_spec : forall nz nn rg s,
  validate_int nz nn rg s = negb (lex_int s && negb (too_many_digits s) && int_ok nz nn rg (int_value s)).
Proof.
  intros nz nn rg s. destruct (lex_int s) eqn:L.
  - assert (HL : layout_int s = true) by (rewrite layout_int_lex; exact L).
    unfold lex_int, digs in L. change (unsigned s) with (opt_minus s) in L.
    apply andb_prop in L. destruct L as [Hne Hd].
    unfold validate_int, too_many_digits, int_value. change (unsigned s) with (opt_minus s). rewrite HL.
    destruct (opt_minus_cases s) as [[r [Hs [Hu Hn]]] | [Hu [Hn _]]]; rewrite Hu in *; rewrite Hn.
    + subst s. rewrite py_int_minus; [| destruct r; [discriminate | congruence] | exact Hd].
      cbn [filter]. change (dig 45) with false. cbv iota. rewrite (filter_all _ dig r Hd).
      destruct (4300 <? N.of_nat (length r)); [reflexivity|].
      unfold int_ok. match goal with |- context [(?x =? 0)%Z] => set (v := x) end.
      destruct nz, nn, rg as [[lo hi]|]; cbn [negb andb];
        destruct (v =? 0)%Z; destruct (v <? 0)%Z; try destruct (lo <=? v)%Z; try destruct (v <=? hi)%Z; reflexivity.
    + rewrite py_int_unsigned; [| destruct s; [discriminate | congruence] | exact Hd].
      rewrite (filter_all _ dig s Hd).
      destruct (4300 <? N.of_nat (length s)); [reflexivity|].
      unfold int_ok. match goal with |- context [(?x =? 0)%Z] => set (v := x) end.
      destruct nz, nn, rg as [[lo hi]|]; cbn [negb andb];
        destruct (v =? 0)%Z; destruct (v <? 0)%Z; try destruct (lo <=? v)%Z; try destruct (v <=? hi)%Z; reflexivity.
  - cbn [andb negb]. unfold validate_int. rewrite layout_int_lex, L.
    destruct (py_int s); [|reflexivity].
    repeat match goal with |- context [if ?b then _ else _] => destruct b end; reflexivity.
Qed.

Definition accepts_kind (k : kind) (s : str) : bool := negb (validate_kind k s).

Lemma kind_int : forall s, accepts_kind KInt s = xorb (lex DInt s) (kf DInt s).
Proof.
  intro s. unfold accepts_kind. cbn [validate_kind lex kf]. rewrite validate_int_spec, negb_involutive.
  unfold int_ok. cbn [andb negb]. rewrite andb_true_r.
  destruct (lex_int s), (too_many_digits s); reflexivity.
Qed.

Lemma kind_positive : forall s, accepts_kind KPositive s = xorb (lex_positive s) (lex_positive s && too_many_digits s).
Proof.
  intro s. unfold accepts_kind. cbn [validate_kind]. rewrite validate_int_spec, negb_involutive.
  unfold int_ok, lex_positive. cbn [andb negb]. rewrite andb_true_r.
  assert (E : negb (int_value s =? 0)%Z && negb (int_value s <? 0)%Z = (0 <? int_value s)%Z) by lia.
  rewrite E. destruct (lex_int s), (too_many_digits s), (0 <? int_value s)%Z; reflexivity.
Qed.

Lemma kind_dayofmonth : forall s, accepts_kind KDayOfMonth s = xorb (lex DDayOfMonth s) (kf DDayOfMonth s).
Proof.
  intro s. unfold accepts_kind. cbn [validate_kind lex kf]. rewrite validate_int_spec, negb_involutive.
  unfold int_ok, lex_dayofmonth. cbn [andb negb].
  destruct (lex_int s), (too_many_digits s), (1 <=? int_value s)%Z, (int_value s <=? 31)%Z; reflexivity.
Qed.

(* ================================================================ the float family *)

Lemma span_digits_spec : forall s ip rest, span_digits s = (ip, rest) ->
  s = ip ++ rest /\ forallb dig ip = true /\ match rest with [] => True | c :: _ => dig c = false end.
Proof.
  induction s as [|c s IH]; intros ip rest H; simpl in H.
  - inversion H; subst. repeat split.
  - change (re_digit c) with (dig c) in H. destruct (dig c) eqn:Hc.
    + destruct (span_digits s) as [a b] eqn:E. inversion H; subst.
      destruct (IH a rest eq_refl) as [H1 [H2 H3]]. subst s. repeat split.
      * simpl. rewrite Hc, H2. reflexivity.
      * exact H3.
    + inversion H; subst. repeat split. exact Hc.
Qed.

Definition dd (c : N) : bool := dig c || (c =? 46).

Lemma dig_not_dot : forall c, dig c = true -> (46 =? c) = false.
Proof. intros c H. unfold dig in H. lia. Qed.

Lemma forallb_dd_app : forall ip x, forallb dig ip = true -> forallb dd (ip ++ x) = forallb dd x.
Proof.
  induction ip as [|c ip IH]; intros x H; [reflexivity|]. simpl in *.
  apply andb_prop in H. destruct H as [H1 H2]. unfold dd at 1. rewrite H1. simpl. auto.
Qed.

Lemma existsb_dig_app : forall ip x, forallb dig ip = true -> existsb dig (ip ++ x) = nonempty ip || existsb dig x.
Proof.
  intros ip x H. destruct ip as [|c ip]; [reflexivity|]. simpl in *.
  apply andb_prop in H. destruct H as [H1 _]. rewrite H1. reflexivity.
Qed.

Lemma count_dots_app : forall ip x, forallb dig ip = true -> count_dots (ip ++ x) = count_dots x.
Proof.
  induction ip as [|c ip IH]; intros x H; [reflexivity|]. cbn [forallb] in H.
  apply andb_prop in H. destruct H as [H1 H2]. unfold count_dots in *. cbn [app filter].
  rewrite (dig_not_dot c H1). auto.
Qed.

Lemma dd_nodots : forall fp, forallb dd fp && (count_dots fp =? 0)%nat = forallb dig fp.
Proof.
  induction fp as [|c fp IH]; [reflexivity|]. unfold count_dots in *. cbn [forallb filter].
  unfold dd at 1. destruct (dig c) eqn:Hc.
  - rewrite (dig_not_dot c Hc). cbn [orb andb]. exact IH.
  - cbn [orb andb]. destruct (c =? 46) eqn:E.
    + apply N.eqb_eq in E. subst c. rewrite N.eqb_refl. cbn [length Nat.eqb]. apply andb_false_r.
    + reflexivity.
Qed.

Lemma existsb_dig_all : forall fp, forallb dig fp = true -> existsb dig fp = nonempty fp.
Proof.
  intros fp H. destruct fp as [|c fp]; [reflexivity|]. simpl in *. apply andb_prop in H. destruct H as [H _].
  rewrite H. reflexivity.
Qed.

Lemma forallb_dd_of_dig : forall l, forallb dig l = true -> forallb dd l = true.
Proof.
  intros l H. apply forallb_forall. intros x Hx. rewrite forallb_forall in H. unfold dd. rewrite (H x Hx). reflexivity.
Qed.

Lemma after_dot_app : forall ip x, forallb dig ip = true -> after_dot (ip ++ x) = after_dot x.
Proof.
  induction ip as [|c ip IH]; intros x H; [reflexivity|]. simpl in *.
  apply andb_prop in H. destruct H as [H1 H2].
  assert (E : (c =? 46) = false) by (unfold dig in H1; lia). rewrite E. auto.
Qed.

Lemma filter_dig_app : forall ip x, forallb dig ip = true -> filter dig (ip ++ x) = ip ++ filter dig x.
Proof. intros ip x H. rewrite filter_app, (filter_all _ dig ip H). reflexivity. Qed.

Lemma after_dot_digits : forall l, forallb dig l = true -> after_dot l = [].
Proof. intros l H. pose proof (after_dot_app l [] H) as E. rewrite app_nil_r in E. exact E. Qed.

Lemma count_dots_digits : forall l, forallb dig l = true -> count_dots l = 0%nat.
Proof. intros l H. pose proof (count_dots_app l [] H) as E. rewrite app_nil_r in E. exact E. Qed.

Lemma after_dot_unsigned : forall s, after_dot s = after_dot (opt_minus s).
Proof.
  intro s. destruct (opt_minus_cases s) as [[r [Hs [Hu _]]] | [Hu _]]; rewrite Hu; [subst s|]; reflexivity.
Qed.

Lemma filter_dig_unsigned : forall s, filter dig s = filter dig (opt_minus s).
Proof.
  intro s. destruct (opt_minus_cases s) as [[r [Hs [Hu _]]] | [Hu _]]; rewrite Hu; [subst s|]; reflexivity.
Qed.

Lemma float_const : FLOAT_OVERFLOW = FLOAT_INF.
Proof. reflexivity. Qed.

Lemma ltb_leb : forall a b : N, (a <? b) = negb (b <=? a).
Proof. intros. lia. Qed.

Lemma validate_float_spec : forall s, validate_float s = negb (lex_float s && negb (float_overflows s)).
Proof.
  intro s. unfold validate_float, layout_float_parts, lex_float, float_overflows, float_is_finite.
  rewrite after_dot_unsigned, filter_dig_unsigned, float_const. change (unsigned s) with (opt_minus s).
  fold dd. change dec_digits with num. change re_digit with dig.
  set (F := FLOAT_INF). clearbody F.
  destruct (span_digits (opt_minus s)) as [ip rest] eqn:E.
  apply span_digits_spec in E. destruct E as [Hu [Hip Hrest]]. rewrite Hu. clear Hu.
  destruct rest as [|c fp].
  - rewrite !app_nil_r. destruct ip as [|c ip]; [reflexivity|].
    rewrite (forallb_dd_of_dig _ Hip), (existsb_dig_all _ Hip), (filter_all _ dig _ Hip).
    rewrite (after_dot_digits _ Hip), (count_dots_digits _ Hip).
    cbn [nonempty Nat.leb andb after_dot]. rewrite ltb_leb, ?app_nil_r. reflexivity.
  - rewrite (forallb_dd_app ip (c :: fp) Hip), (existsb_dig_app ip (c :: fp) Hip), (count_dots_app ip (c :: fp) Hip).
    rewrite (after_dot_app ip (c :: fp) Hip), (filter_dig_app ip (c :: fp) Hip).
    cbn [forallb existsb after_dot filter]. unfold dd at 1. rewrite Hrest. cbn [orb].
    destruct (c =? 46) eqn:Ec.
    + apply N.eqb_eq in Ec. subst c. unfold count_dots. cbn [filter N.eqb Pos.eqb length andb].
      fold (count_dots fp).
      assert (El : (S (count_dots fp) <=? 1)%nat = (count_dots fp =? 0)%nat) by (destruct (count_dots fp); reflexivity).
      rewrite El.
      destruct (forallb dig fp) eqn:Hfp.
      * rewrite (filter_all _ dig fp Hfp), (existsb_dig_all fp Hfp).
        assert (Ed : forallb dd fp && (count_dots fp =? 0)%nat = true) by (rewrite dd_nodots; exact Hfp).
        apply andb_prop in Ed. destruct Ed as [Ed1 Ed2]. rewrite Ed1, Ed2.
        destruct ip as [|c ip]; cbn [nonempty orb andb is_nil negb].
        -- destruct fp as [|c fp]; [reflexivity|]. cbn [nonempty is_nil negb andb]. rewrite ltb_leb. reflexivity.
        -- rewrite ltb_leb. reflexivity.
      * assert (Ed : forallb dd fp && (count_dots fp =? 0)%nat = false) by (rewrite dd_nodots; exact Hfp).
        assert (Ez : forallb dd fp && (nonempty ip || existsb dig fp) && (count_dots fp =? 0)%nat = false).
        { destruct (forallb dd fp), (count_dots fp =? 0)%nat, (nonempty ip || existsb dig fp); try reflexivity; discriminate. }
        rewrite Ez. rewrite andb_false_r. destruct ip; reflexivity.
    + cbn [andb]. destruct ip; reflexivity.
Qed.

Lemma kind_float : forall s, accepts_kind KFloat s = xorb (lex_float s) (lex_float s && float_overflows s).
Proof.
  intro s. unfold accepts_kind. cbn [validate_kind]. rewrite validate_float_spec, negb_involutive.
  destruct (lex_float s), (float_overflows s); reflexivity.
Qed.

(* ================================================================ char, Boolean, String, codes *)

Lemma kind_string : forall s, s <> [] -> accepts_kind KString s = xorb (lex DString s) (kf DString s).
Proof.
  intros s Hne. unfold accepts_kind. cbn [validate_kind lex kf]. unfold validate_str, lex_string, has_equals, in_str.
  destruct s as [|c s]; [congruence|]. cbn [nonempty andb].
  destruct (existsb (N.eqb 1) (c :: s)), (existsb (N.eqb 61) (c :: s)); reflexivity.
Qed.

Lemma kind_char : forall s, s <> [] -> accepts_kind KChar s = xorb (lex DChar s) (kf DChar s).
Proof.
  intros s Hne. unfold accepts_kind. cbn [validate_kind lex kf]. unfold validate_str, lex_char, has_equals, in_str.
  destruct s as [|c [|c2 r]]; [congruence| |].
  - cbn [existsb length Nat.ltb Nat.leb orb andb]. rewrite !orb_false_r, (N.eqb_sym c 1).
    destruct (1 =? c), (61 =? c); reflexivity.
  - cbn [length Nat.ltb Nat.leb andb xorb].
    destruct (existsb (N.eqb 1) (c :: c2 :: r)), (existsb (N.eqb 61) (c :: c2 :: r)); reflexivity.
Qed.

Lemma kind_boolean : forall s, s <> [] -> accepts_kind KBoolean s = lex_boolean s.
Proof.
  intros s Hne. unfold accepts_kind. cbn [validate_kind]. unfold validate_str, lex_boolean, in_str, mem_str.
  destruct s as [|c [|c2 r]]; [congruence| |].
  - cbn [existsb length Nat.ltb Nat.leb orb andb str_eqb].
    rewrite !orb_false_r, !andb_true_r.
    destruct (1 =? c) eqn:E1, (61 =? c) eqn:E2, (c =? 89) eqn:E3, (c =? 78) eqn:E4; try reflexivity; lia.
  - cbn [length Nat.ltb Nat.leb].
    destruct (existsb (N.eqb 1) (c :: c2 :: r)), (existsb (N.eqb 61) (c :: c2 :: r)); reflexivity.
Qed.

Lemma alnum_plain : forall c, alnum c = true -> (1 =? c) = false /\ (61 =? c) = false.
Proof. intros c H. unfold alnum, dig in H. lia. Qed.

Lemma alnum_no_specials : forall s, forallb alnum s = true -> in_str 1 s = false /\ in_str 61 s = false.
Proof.
  induction s as [|c s IH]; intro H; [split; reflexivity|]. cbn [forallb] in H.
  apply andb_prop in H. destruct H as [H1 H2]. destruct (alnum_plain c H1) as [A B]. destruct (IH H2) as [C D].
  unfold in_str in *. cbn [existsb]. rewrite A, B, C, D. split; reflexivity.
Qed.

Lemma exists_non_alnum : forall s, existsb (fun c => negb (re_alnum c)) s = negb (forallb alnum s).
Proof.
  induction s as [|c s IH]; [reflexivity|]. cbn [existsb forallb]. rewrite IH. change (re_alnum c) with (alnum c).
  destruct (alnum c), (forallb alnum s); reflexivity.
Qed.

Lemma validate_code : forall n s, s <> [] ->
  negb (validate_str (Some n) None true s) = lex_code n s.
Proof.
  intros n s Hne. unfold validate_str, lex_code. rewrite exists_non_alnum.
  assert (El : (n <? length s)%nat = negb (length s <=? n)%nat) by lia.
  rewrite El. destruct s as [|c s]; [congruence|]. cbn [nonempty andb].
  destruct (forallb alnum (c :: s)) eqn:Ha.
  - destruct (alnum_no_specials _ Ha) as [A B]. rewrite A, B.
    destruct (length (c :: s) <=? n)%nat; reflexivity.
  - cbn [negb andb]. rewrite andb_false_r.
    destruct (in_str 1 (c :: s)), (in_str 61 (c :: s)), (length (c :: s) <=? n)%nat; reflexivity.
Qed.

(* ================================================================ MultipleValueString *)

Lemma split_on_nonnil : forall c s, split_on c s <> [].
Proof.
  intros c s. destruct s as [|x s]; simpl; [discriminate|].
  destruct (N.eqb x c); [discriminate|]. destruct (split_on c s); discriminate.
Qed.

Lemma split_values : forall s,
  existsb is_nil (split_on 32 s) = negb (values_ok true s)
  /\ existsb is_nil (tl (split_on 32 s)) = negb (values_ok false s).
Proof.
  induction s as [|c s [IH1 IH2]]; [split; reflexivity|].
  cbn [split_on values_ok]. destruct (c =? 32) eqn:E.
  - cbn [existsb is_nil tl negb andb orb]. split; [reflexivity|]. exact IH1.
  - destruct (split_on 32 s) as [|p ps] eqn:Es; [exfalso; exact (split_on_nonnil 32 s Es)|].
    cbn [existsb is_nil tl orb] in *. split; exact IH2.
Qed.

Lemma kind_multi : forall s, s <> [] ->
  accepts_kind KMulti s = xorb (lex DMultipleValueString s) (kf DMultipleValueString s).
Proof.
  intros s Hne. unfold accepts_kind. cbn [validate_kind lex kf]. unfold lex_multi.
  destruct (split_values s) as [E _]. rewrite E.
  unfold validate_str, lex_string, has_equals, in_str.
  destruct s as [|c s]; [congruence|]. cbn [nonempty andb].
  destruct (existsb (N.eqb 1) (c :: s)), (existsb (N.eqb 61) (c :: s)), (values_ok true (c :: s)); reflexivity.
Qed.
