(* Proofs about the watchdog model Fix/Timer.v (C12). *)
From Coq Require Import ZArith NArith List Bool Lia.
From AF Require Import Base.Sx Py.Str Fix.Timer.
From AFGen Require Import GenTimer.
Import ListNotations.
Open Scope Z_scope.

(* ------------------------------------------------------------------ regenerated constants *)
(* These equalities are re-checked against the regenerated GenTimer on every run: an edit of a
   threshold, of the sleep period or of the state numbering breaks them (and what follows). *)
Lemma thr_probe_eq : forall hb, thr thr_probe hb = (hb - 1) * 1000.
Proof. intro; unfold thr, thr_probe; cbn [fst snd]; lia. Qed.
Lemma thr_dead_eq : forall hb, thr thr_dead hb = 2 * hb * 1000.
Proof. intro; unfold thr, thr_dead; cbn [fst snd]; lia. Qed.
Lemma thr_treq_eq : forall hb, thr thr_treq hb = 2 * hb * 1000.
Proof. intro; unfold thr, thr_treq; cbn [fst snd]; lia. Qed.
Lemma tick_ms_eq : tick_ms = 1000. Proof. reflexivity. Qed.
Lemma st_order : ST_DISCONNECTED_BROKEN_CONN < ST_NETWORK_CONN_ESTABLISHED <= ST_ACTIVE.
Proof. unfold ST_DISCONNECTED_BROKEN_CONN, ST_NETWORK_CONN_ESTABLISHED, ST_ACTIVE; lia. Qed.

(* ------------------------------------------------------------------ vocabulary *)
Definition live (s : st) : Prop := s_conn s = true /\ s_state s = ST_ACTIVE.
Definition dead_st (hb : Z) : st := mkSt ST_DISCONNECTED_BROKEN_CONN hb 0 None false.

Lemma div1000 : forall t, 0 <= t - t / 1000 * 1000 < 1000.
Proof. intro t. pose proof (Z.div_mod t 1000). pose proof (Z.mod_pos_bound t 1000). lia. Qed.
Lemma div1000_pos : forall t, 1000 <= t -> 1 <= t / 1000.
Proof. intros t H. pose proof (div1000 t). lia. Qed.

Ltac bool_lia :=
  repeat match goal with
         | H : (_ <? _) = true |- _ => apply Z.ltb_lt in H
         | H : (_ <? _) = false |- _ => apply Z.ltb_ge in H
         | H : (_ <=? _) = true |- _ => apply Z.leb_le in H
         | H : (_ <=? _) = false |- _ => apply Z.leb_gt in H
         | H : (_ =? _) = true |- _ => apply Z.eqb_eq in H
         | H : (_ =? _) = false |- _ => apply Z.eqb_neq in H
         end.

(* closed form of one watchdog iteration on a connected ACTIVE session *)
Definition tick_spec (now : Z) (s : st) : st * list out :=
  let hb := s_hb s in
  let fire := (hb - 1) * 1000 <? now - s_mlt s in
  match s_id s with
  | None =>
      if fire then
        let n := now / 1000 in
        if negb (n =? 0) && (2 * hb * 1000 <? now - n * 1000)
        then (dead_st hb, [testreq_frame n; ODisconnect])
        else (mkSt ST_ACTIVE hb now (Some n) true, [testreq_frame n])
      else (s, [])
  | Some n =>
      if 2 * hb * 1000 <? now - n * 1000 then (dead_st hb, [ODisconnect])
      else ((if fire then set_mlt s now else s), [])
  end.

Lemma tick_live : forall now s, live s -> 0 <= s_hb s -> s_id s <> Some 0 -> tick now s = tick_spec now s.
Proof.
  intros now [stt hb mlt id conn] [Hc Hs] Hhb Hid. cbn in Hc, Hs, Hhb, Hid. subst conn stt.
  unfold tick, tick_spec. cbn [s_conn s_state s_hb s_mlt s_id negb].
  rewrite thr_probe_eq, Z.eqb_refl. cbn [andb].
  destruct id as [n|].
  - assert (Hn : n <> 0) by congruence.
    cbn [truthy]. apply Z.eqb_neq in Hn. rewrite Hn. cbn [negb].
    destruct ((hb - 1) * 1000 <? now - mlt) eqn:F.
    + cbn [set_mlt s_state s_hb s_mlt s_id s_conn]. rewrite thr_dead_eq, Z.sub_diag.
      replace (2 * hb * 1000 <? 0) with false by (symmetry; apply Z.ltb_ge; lia).
      rewrite andb_false_r. cbn [set_mlt s_id s_hb s_state s_mlt s_conn]. rewrite thr_treq_eq, Hn. cbn [negb andb].
      destruct (2 * hb * 1000 <? now - n * 1000) eqn:T; reflexivity.
    + cbn [s_mlt s_hb s_id]. rewrite thr_dead_eq.
      replace (2 * hb * 1000 <? now - mlt) with false by (symmetry; apply Z.ltb_ge; bool_lia; lia).
      rewrite andb_false_r. cbn [set_mlt s_id s_hb s_state s_mlt s_conn]. rewrite thr_treq_eq, Hn. cbn [negb andb].
      destruct (2 * hb * 1000 <? now - n * 1000) eqn:T; reflexivity.
  - cbn [truthy].
    destruct ((hb - 1) * 1000 <? now - mlt) eqn:F.
    + cbn [set_mlt set_id s_state s_hb s_mlt s_id s_conn]. rewrite thr_dead_eq, Z.sub_diag.
      replace (2 * hb * 1000 <? 0) with false by (symmetry; apply Z.ltb_ge; lia).
      rewrite andb_false_r. cbn [set_mlt set_id s_id s_hb s_state s_mlt s_conn]. rewrite thr_treq_eq.
      destruct (negb (now / 1000 =? 0) && (2 * hb * 1000 <? now - now / 1000 * 1000)) eqn:T; reflexivity.
    + cbn [s_mlt s_hb s_id]. rewrite thr_dead_eq.
      replace (2 * hb * 1000 <? now - mlt) with false by (symmetry; apply Z.ltb_ge; bool_lia; lia).
      rewrite andb_false_r. reflexivity.
Qed.

(* ------------------------------------------------------------------ single iterations *)
Definition idle_at (s : st) (hb t0 : Z) : Prop :=
  live s /\ s_hb s = hb /\ s_id s = None /\ s_mlt s = t0.

Lemma tick_idle : forall now s hb t0,
  idle_at s hb t0 -> 0 <= hb -> now - t0 <= (hb - 1) * 1000 -> tick now s = (s, []).
Proof.
  intros now s hb t0 (L & Hh & Hi & Hm) Hhb Hle.
  rewrite tick_live; [| assumption | lia | congruence].
  unfold tick_spec. rewrite Hi, Hh, Hm.
  replace ((hb - 1) * 1000 <? now - t0) with false by (symmetry; apply Z.ltb_ge; lia). reflexivity.
Qed.

Definition probing_st (hb now : Z) : st := mkSt ST_ACTIVE hb now (Some (now / 1000)) true.

Lemma tick_probe : forall now s hb t0,
  idle_at s hb t0 -> 1 <= hb -> 1000 <= now -> (hb - 1) * 1000 < now - t0 ->
  tick now s = (probing_st hb now, [testreq_frame (now / 1000)]).
Proof.
  intros now s hb t0 (L & Hh & Hi & Hm) Hhb Hnow Hgt.
  rewrite tick_live; [| assumption | lia | congruence].
  unfold tick_spec. rewrite Hi, Hh, Hm.
  replace ((hb - 1) * 1000 <? now - t0) with true by (symmetry; apply Z.ltb_lt; lia).
  pose proof (div1000 now).
  replace (2 * hb * 1000 <? now - now / 1000 * 1000) with false by (symmetry; apply Z.ltb_ge; lia).
  rewrite andb_false_r. reflexivity.
Qed.

(* a probe is outstanding and its deadline (id + 2 hb seconds) has not passed: nothing is emitted *)
Lemma tick_waiting : forall now s n,
  live s -> s_id s = Some n -> n <> 0 -> 0 <= s_hb s -> now <= (n + 2 * s_hb s) * 1000 ->
  exists m, tick now s = (set_mlt s m, []).
Proof.
  intros now s n L Hi Hn Hhb Hle.
  rewrite tick_live; [| assumption | lia | congruence].
  unfold tick_spec. rewrite Hi.
  replace (2 * s_hb s * 1000 <? now - n * 1000) with false by (symmetry; apply Z.ltb_ge; lia).
  destruct ((s_hb s - 1) * 1000 <? now - s_mlt s).
  - exists now. reflexivity.
  - exists (s_mlt s). destruct s; reflexivity.
Qed.

(* ... and the first iteration after the deadline disconnects *)
Lemma tick_timeout : forall now s n,
  live s -> s_id s = Some n -> n <> 0 -> 0 <= s_hb s -> (n + 2 * s_hb s) * 1000 < now ->
  tick now s = (dead_st (s_hb s), [ODisconnect]).
Proof.
  intros now s n L Hi Hn Hhb Hlt.
  rewrite tick_live; [| assumption | lia | congruence].
  unfold tick_spec. rewrite Hi.
  replace (2 * s_hb s * 1000 <? now - n * 1000) with true by (symmetry; apply Z.ltb_lt; lia).
  reflexivity.
Qed.

(* ------------------------------------------------------------------ runs *)
Definition outs (s : st) (evs : list ev) : list (list out) := map r_out (trace s evs).

(* k iterations one sleep period apart, the first at time p *)
Fixpoint ticks (p : Z) (k : nat) : list ev :=
  match k with
  | O => []
  | S k' => Tick p :: ticks (p + tick_ms) k'
  end.

Lemma trace_app : forall a s b, trace s (a ++ b) = trace s a ++ trace (final s a) b.
Proof.
  induction a as [|e a IH]; intros s b; [reflexivity|].
  cbn [app trace]. unfold final. cbn [fold_left]. destruct (step s e) as [s' o] eqn:E. cbn [fst].
  rewrite IH. reflexivity.
Qed.

Lemma final_app : forall a s b, final s (a ++ b) = final (final s a) b.
Proof. intros; unfold final; apply fold_left_app. Qed.

Lemma outs_app : forall a s b, outs s (a ++ b) = outs s a ++ outs (final s a) b.
Proof. intros; unfold outs; rewrite trace_app, map_app; reflexivity. Qed.

Lemma trace_ev : forall evs s, map r_ev (trace s evs) = evs.
Proof.
  induction evs as [|e evs IH]; intro s; [reflexivity|].
  cbn [trace]. destruct (step s e) as [s' o]. cbn [map r_ev]. rewrite IH. reflexivity.
Qed.

Lemma ticks_app : forall a p b, ticks p (a + b) = ticks p a ++ ticks (p + Z.of_nat a * 1000) b.
Proof.
  induction a as [|a IH]; intros p b.
  - cbn. f_equal. lia.
  - cbn [Nat.add ticks app]. rewrite IH, tick_ms_eq. do 3 f_equal. lia.
Qed.

Lemma outs_cons : forall s e r, outs s (e :: r) = snd (step s e) :: outs (fst (step s e)) r.
Proof. intros; unfold outs; cbn [trace]; destruct (step s e); reflexivity. Qed.

Lemma final_cons : forall s e r, final s (e :: r) = final (fst (step s e)) r.
Proof. reflexivity. Qed.

(* silence not yet long enough: k iterations change nothing and emit nothing *)
Lemma quiet_ticks : forall k p s hb t0,
  idle_at s hb t0 -> 0 <= hb -> p + (Z.of_nat k - 1) * 1000 - t0 <= (hb - 1) * 1000 ->
  outs s (ticks p k) = repeat [] k /\ final s (ticks p k) = s.
Proof.
  induction k as [|k IH]; intros p s hb t0 I Hhb Hle; [split; reflexivity|].
  cbn [ticks repeat]. rewrite outs_cons, final_cons. cbn [step].
  rewrite (tick_idle p s hb t0 I Hhb) by lia. cbn [fst snd].
  destruct (IH (p + tick_ms) s hb t0 I Hhb) as [A B]; [rewrite tick_ms_eq; lia|].
  rewrite A, B. split; reflexivity.
Qed.

Lemma live_set_mlt : forall s m, live s -> live (set_mlt s m).
Proof. intros s m [A B]; split; assumption. Qed.

(* a probe is outstanding: until its deadline nothing is emitted (no second probe, no disconnect) *)
Lemma waiting_ticks : forall k p s n,
  live s -> s_id s = Some n -> n <> 0 -> 0 <= s_hb s ->
  p + (Z.of_nat k - 1) * 1000 <= (n + 2 * s_hb s) * 1000 ->
  outs s (ticks p k) = repeat [] k /\ exists m, final s (ticks p k) = set_mlt s m.
Proof.
  induction k as [|k IH]; intros p s n L Hi Hn Hhb Hle.
  - split; [reflexivity|]. exists (s_mlt s). destruct s; reflexivity.
  - cbn [ticks repeat]. rewrite outs_cons, final_cons. cbn [step].
    destruct (tick_waiting p s n L Hi Hn Hhb) as [m E]; [lia|]. rewrite E. cbn [fst snd].
    destruct (IH (p + tick_ms) (set_mlt s m) n) as [A [m' B]];
      [apply live_set_mlt; assumption | assumption | assumption | assumption
      | rewrite tick_ms_eq; cbn [set_mlt s_hb]; lia |].
    rewrite A, B. split; [reflexivity|]. exists m'. reflexivity.
Qed.

(* ------------------------------------------------------------------ C12_probe, C12_dead_peer *)
Lemma probe_run : forall hb s t0 p (k : nat),
  1 <= hb -> idle_at s hb t0 -> 1000 <= p ->
  let tp := p + Z.of_nat k * 1000 in
  tp - 1000 - t0 <= (hb - 1) * 1000 < tp - t0 ->
  outs s (ticks p (k + 1)) = repeat [] k ++ [[testreq_frame (tp / 1000)]]
  /\ final s (ticks p (k + 1)) = probing_st hb tp
  /\ t0 + (hb - 1) * 1000 < tp <= t0 + hb * 1000.
Proof.
  intros hb s t0 p k Hhb I Hp tp [Hprev Hfire].
  rewrite ticks_app, outs_app, final_app.
  destruct (quiet_ticks k p s hb t0 I) as [A B]; [lia | subst tp; lia |].
  rewrite A, B. cbn [ticks]. rewrite outs_cons, final_cons. cbn [step].
  fold tp. rewrite (tick_probe tp s hb t0 I Hhb) by (subst tp; lia).
  cbn [fst snd outs trace map final fold_left]. repeat split; lia.
Qed.

Lemma probing_live : forall hb t, live (probing_st hb t).
Proof. split; reflexivity. Qed.

Lemma dead_peer_run : forall hb s t0 p (k m : nat),
  1 <= hb -> idle_at s hb t0 -> 1000 <= p ->
  let tp := p + Z.of_nat k * 1000 in
  let n := tp / 1000 in
  let td := tp + Z.of_nat (S m) * 1000 in
  tp - 1000 - t0 <= (hb - 1) * 1000 < tp - t0 ->
  td - 1000 <= (n + 2 * hb) * 1000 < td ->
  outs s (ticks p (k + 1 + (m + 1))) =
    repeat [] k ++ [[testreq_frame n]] ++ repeat [] m ++ [[ODisconnect]]
  /\ final s (ticks p (k + 1 + (m + 1))) = dead_st hb
  /\ t0 + (3 * hb - 1) * 1000 < td <= t0 + (3 * hb + 1) * 1000.
Proof.
  intros hb s t0 p k m Hhb I Hp tp n td Hk Hm.
  destruct (probe_run hb s t0 p k Hhb I Hp Hk) as (A & B & C). fold tp in A, B, C. fold n in A.
  rewrite (ticks_app (k + 1)), outs_app, final_app, A, B.
  replace (p + Z.of_nat (k + 1) * 1000) with (tp + 1000) by (subst tp; lia).
  rewrite (ticks_app m), outs_app, final_app.
  assert (Hn : n <> 0) by (subst n; pose proof (div1000_pos tp); subst tp; lia).
  destruct (waiting_ticks m (tp + 1000) (probing_st hb tp) n (probing_live hb tp)) as [W [mm F]];
    [reflexivity | assumption | cbn; lia | cbn [probing_st s_hb]; subst td; lia |].
  rewrite W, F. cbn [ticks]. rewrite outs_cons, final_cons. cbn [step].
  rewrite (tick_timeout _ _ n);
    [| apply live_set_mlt, probing_live | reflexivity | assumption | cbn; lia
     | cbn [set_mlt probing_st s_hb]; subst td; lia ].
  cbn [fst snd outs trace map final fold_left set_mlt probing_st s_hb].
  rewrite <- !app_assoc. cbn [app].
  pose proof (div1000 tp). fold n in H.
  repeat split; subst td; lia.
Qed.

(* ------------------------------------------------------------------ facts about one step *)
Definition is_testreq (o : out) : bool :=
  match o with OWire KTestRequest _ => true | _ => false end.
Definition writes_testreq (r : row) : bool := existsb is_testreq (r_out r).
Definition is_tick (e : ev) : bool := match e with Tick _ => true | _ => false end.
Definition is_raw (e : ev) : bool := match e with AppRaw _ _ => true | _ => false end.

Ltac step_crush :=
  unfold step, tick, recv, app_probe, app_raw, disconnect, set_mlt, set_id, truthy, testreq_frame in *;
  cbn [s_state s_hb s_mlt s_id s_conn fst snd negb andb orb app existsb is_testreq] in *;
  repeat (match goal with
          | |- context [if ?c then _ else _] => destruct c eqn:?
          | |- context [match ?x with _ => _ end] => destruct x eqn:?
          end;
          cbn [s_state s_hb s_mlt s_id s_conn fst snd negb andb orb app existsb is_testreq] in *).

(* while a probe is outstanding no further TestRequest is written by the watchdog or send_test_req;
   the id survives unless a Heartbeat echoing it arrives or the connection is dropped *)
Lemma pending_step : forall s e n s' o,
  s_id s = Some n -> n <> 0 -> is_raw e = false -> step s e = (s', o) ->
  existsb is_testreq o = false /\
  (s_id s' = Some n \/ s_conn s' = false \/
   exists ta v, e = Recv ta (MHeartbeat (Some v)) /\ parse_id v = n).
Proof.
  intros [stt hb mlt id conn] e n s' o Hi Hn Hr E. cbn in Hi. subst id.
  apply Z.eqb_neq in Hn.
  destruct e as [t | t m | t | t rid]; [| destruct m as [rid | rid |] | | discriminate Hr];
    revert E; step_crush; intro E; inversion E; subst; cbn; try rewrite Hn in *; try discriminate;
    split; try reflexivity; auto.
  all: try (right; right; bool_lia; eauto).
Qed.
