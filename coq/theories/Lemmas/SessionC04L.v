(* C04 - inbound in-order / exactly-once / never past a gap: one-step lemmas about
   _process_message and their lifting over histories. *)
From Coq Require Import ZArith NArith List Bool Lia ZifyBool Sorting.Sorted.
From AF Require Import Base.Sx Py.Str Fix.Session Lemmas.SessionL.
Import ListNotations.
Open Scope Z_scope.

(* ------------------------------------------------------------------ invariants kept by a computation *)

Definition keeps {A} (I : world -> Prop) (c : M A) : Prop := forall w, I w -> I (rw (c w)).

Lemma keeps_ret {A} I (a : A) : keeps I (ret a).
Proof. intros w H; exact H. Qed.
Lemma keeps_raise {A} I x : keeps I (@raise A x).
Proof. intros w H; exact H. Qed.
Lemma keeps_getw I : keeps I getw.
Proof. intros w H; exact H. Qed.
Lemma keeps_emit I e : keeps I (emit e).
Proof. intros w H; exact H. Qed.
Lemma keeps_lift {A} I (v : A + exn) : keeps I (lift v).
Proof. destruct v; intros w H; exact H. Qed.
Lemma keeps_modw (I : world -> Prop) g : (forall w, I w -> I (g w)) -> keeps I (modw g).
Proof. intros H w Hw. apply H, Hw. Qed.
Lemma keeps_bind {A B} I (c : M A) (k : A -> M B) :
  keeps I c -> (forall a, keeps I (k a)) -> keeps I (bind c k).
Proof.
  intros Hc Hk w Hw. rewrite bind_unfold. destruct (rv (c w)); cbn; [apply Hk|]; apply Hc, Hw.
Qed.
Lemma keeps_try {A} I (c : M A) : keeps I c -> keeps I (try_ c).
Proof. intros H w Hw. unfold try_. destruct (rv (c w)); cbn; apply H, Hw. Qed.
(* a projection that is preserved keeps every invariant stated through it *)
Lemma keeps_pres {A X} (f : world -> X) (Q : X -> Prop) (c : M A) :
  pres f c -> keeps (fun w => Q (f w)) c.
Proof. intros H w Hw. now rewrite H. Qed.

Ltac keeps_step :=
  match goal with
  | |- keeps _ (bind _ _) => apply keeps_bind; [|intros ?]
  | |- keeps _ (ret _) => apply keeps_ret
  | |- keeps _ (raise _) => apply keeps_raise
  | |- keeps _ getw => apply keeps_getw
  | |- keeps _ (emit _) => apply keeps_emit
  | |- keeps _ (lift _) => apply keeps_lift
  | |- keeps _ (try_ _) => apply keeps_try
  | |- keeps _ (if ?c then _ else _) => destruct c
  | |- keeps _ (match ?x with _ => _ end) => destruct x
  end.
Ltac keeps_tac := repeat keeps_step.

(* ------------------------------------------------------------------ small facts *)

Lemma kind_resend_noreply t : is_resend (mkMsg t []) = true -> is_noreply t = true.
Proof. unfold is_resend, is_noreply, mkind. cbn. destruct (kind_of t); congruence. Qed.

Lemma is_resend_tags t tags tags' : is_resend (mkMsg t tags) = is_resend (mkMsg t tags').
Proof. reflexivity. Qed.

Lemma noreply_not_resend t tags : is_noreply t = false -> is_resend (mkMsg t tags) = false.
Proof. unfold is_resend, is_noreply, mkind. cbn. destruct (kind_of t); congruence. Qed.

(* ------------------------------------------------------------------ states *)

Definition dead (w : world) : Prop := st w <= ST_DISC_BROKEN.

Lemma state_set_st s w : st (rw (state_set s w)) = s.
Proof. unfold state_set. cbn. destruct (s =? ST_ACTIVE); reflexivity. Qed.

(* send_msg changes the state only from NETWORK_CONN_ESTABLISHED (to LOGON_INITIAL_SENT) *)
Lemma send_msg_st c m w :
  st (rw (send_msg c m w)) = st w \/ (st w = ST_NCE /\ st (rw (send_msg c m w)) = ST_LOGON_SENT).
Proof.
  assert (Hp : forall w0 : world,
             st (rw ((match mkind m, treq w with KTestReq, None => raise XConn | _, _ => ret tt end ;;;
                      sm <- encode c m ;; w1 <- getw ;; (if wr w1 then ret tt else raise XAttribute) ;;;
                      emit (Wire (snd sm)) ;;; persist_out (fst sm) (snd sm)) w0)) = st w0).
  { intros w0.
    assert (He : pres st (encode c m)) by (apply encode_pres; ins_solve).
    assert (Hq : forall a b, pres st (persist_out a b)) by (intros; apply persist_out_pres; ins_solve).
    assert (pres st (match mkind m, treq w with KTestReq, None => raise XConn | _, _ => ret tt end ;;;
                      sm <- encode c m ;; w1 <- getw ;; (if wr w1 then ret tt else raise XAttribute) ;;;
                      emit (Wire (snd sm)) ;;; persist_out (fst sm) (snd sm))) as H; [|apply H].
    pres_tac; auto. }
  unfold send_msg. rewrite bind_unfold. cbn [getw rv rw re].
  rewrite bind_unfold.
  destruct (st w <? ST_NCE) eqn:E1; cbn [raise rv rw]; [left; reflexivity|].
  destruct (st w =? ST_NCE) eqn:E2.
  - destruct (mkind m) eqn:Ek; cbn [raise rv rw]; try (left; reflexivity).
    + rewrite bind_unfold. cbn [rv rw re state_set modw emit bind]. cbn.
      right. split; [lia|]. rewrite Hp. reflexivity.
    + rewrite bind_unfold. cbn [rv rw re state_set modw emit bind]. cbn.
      right. split; [lia|]. rewrite Hp. reflexivity.
  - destruct (_ && _ && _); cbn [raise ret rv rw]; [left; reflexivity|].
    left. rewrite Hp. reflexivity.
Qed.

Lemma send_msg_keeps_st c m (Q : Z -> Prop) :
  (Q ST_NCE -> Q ST_LOGON_SENT) -> keeps (fun w => Q (st w)) (send_msg c m).
Proof.
  intros H w Hw. destruct (send_msg_st c m w) as [E|[E1 E2]]; [now rewrite E|].
  rewrite E2. apply H. now rewrite <- E1.
Qed.

Definition aw_or_dead (w : world) : Prop := st w = ST_AWAITING \/ dead w.

Lemma send_msg_keeps_aw c m : keeps aw_or_dead (send_msg c m).
Proof.
  apply (send_msg_keeps_st c m (fun s => s = ST_AWAITING \/ s <= ST_DISC_BROKEN)).
  unfold ST_NCE, ST_AWAITING, ST_DISC_BROKEN. lia.
Qed.

Lemma state_set_keeps_dead_target (I : world -> Prop) s :
  (forall w, I (set_st s w)) -> (forall w v, I w -> I (set_wasact v w)) -> keeps I (state_set s).
Proof.
  intros H1 H2 w Hw. unfold state_set. cbn. destruct (s =? ST_ACTIVE); auto.
Qed.

Lemma disconnect_keeps_aw c ds lm : ds <= ST_DISC_BROKEN -> keeps aw_or_dead (disconnect c ds lm).
Proof.
  intros Hds. unfold disconnect. keeps_step; [keeps_tac|].
  destruct (st a <=? ST_DISC_BROKEN); [keeps_tac|].
  keeps_step; [keeps_tac|]. keeps_step; [apply keeps_modw; intros w H; exact H|].
  keeps_step. { destruct lm; [apply send_msg_keeps_aw | keeps_tac]. }
  keeps_step; [apply keeps_modw; intros w H; exact H|].
  keeps_step; [|keeps_tac].
  intros w _. right. unfold dead. now rewrite state_set_st.
Qed.

(* after disconnect the connection is dead, unless the Logout could not be sent *)
Lemma disconnect_dead c ds lm w :
  ds <= ST_DISC_BROKEN -> rv (disconnect c ds lm w) = inl tt -> dead (rw (disconnect c ds lm w)).
Proof.
  intros Hds. unfold disconnect. rewrite bind_unfold. cbn [getw rv rw re].
  destruct (st w <=? ST_DISC_BROKEN) eqn:E; [intros _; cbn; unfold dead; lia|].
  destruct (ds <=? ST_DISC_BROKEN) eqn:E2; [|lia].
  rewrite !bind_unfold. cbn [ret rv rw re modw].
  match goal with |- context [match ?lmc with Some s => send_msg c ?mm | None => ret tt end ?ww] =>
    set (snd_ := match lmc with Some s => send_msg c mm | None => ret tt end ww) end.
  destruct (rv snd_); [|discriminate].
  cbn. intros _. unfold dead. rewrite state_set_st. exact Hds.
Qed.

Lemma disconnect_none_dead c ds w : ds <= ST_DISC_BROKEN -> dead (rw (disconnect c ds None w)).
Proof.
  intros Hds. unfold disconnect. rewrite bind_unfold. cbn [getw rv rw re].
  destruct (st w <=? ST_DISC_BROKEN) eqn:E; [cbn; unfold dead; lia|].
  destruct (ds <=? ST_DISC_BROKEN) eqn:E2; [|lia].
  cbn. unfold dead. destruct (ds =? ST_ACTIVE); cbn; exact Hds.
Qed.

Lemma process_logout_dead c m w : dead (rw (process_logout c m w)).
Proof.
  unfold process_logout. rewrite !bind_unfold. cbn [getw emit rv rw re].
  destruct (wasact w); apply disconnect_none_dead; unfold ST_DISC_WCONN, ST_DISC_BROKEN; lia.
Qed.

(* ------------------------------------------------------------------ check_gaps *)

Lemma get_T7_wire c seq v tags :
  get T7 (wire_tags c seq (mkMsg MT_RESENDREQUEST [(T7, v); (T16, tags)])) = Some v.
Proof. reflexivity. Qed.

Lemma get_T16_wire c seq v tags :
  get T16 (wire_tags c seq (mkMsg MT_RESENDREQUEST [(T7, v); (T16, tags)])) = Some tags.
Proof. reflexivity. Qed.

(* the Wire events of send_msg: none, or exactly the encoded message *)
Lemma send_msg_wires c m w :
  wires (re (send_msg c m w)) = [] \/
  exists seq, wires (re (send_msg c m w)) = [mkMsg (mtype m) (wire_tags c seq m)].
Proof.
  unfold send_msg. rewrite bind_unfold. cbn [getw rv rw re app].
  rewrite bind_unfold.
  set (gate := (if st w <? ST_NCE then raise XConn else _) w).
  assert (Hg : wires (re gate) = []).
  { apply wires_nil. subst gate.
    assert (allev not_wire (if st w <? ST_NCE then @raise unit XConn
       else if st w =? ST_NCE then match mkind m with
            | KLogon | KLogout => state_set ST_LOGON_SENT ;;; modw (set_role ROLE_INITIATOR)
            | _ => raise XConn end
       else if (role w =? ROLE_INITIATOR) && (st w =? ST_LOGON_SENT)
               && negb match mkind m with KLogout => true | _ => false end
            then raise XConn else ret tt)) as H; [|apply H].
    assert (allev not_wire (state_set ST_LOGON_SENT)) by (apply state_set_allev; exact I).
    allev_tac; auto. }
  destruct (rv gate); cbn [rv rw re]; [|left; exact Hg].
  rewrite wires_app, Hg. cbn [app].
  rewrite bind_unfold.
  destruct (match mkind m, treq w with KTestReq, None => raise XConn | _, _ => ret tt end (rw gate)) as [r1 w1 e1] eqn:E1.
  assert (He1 : e1 = []).
  { destruct (mkind m), (treq w); cbn in E1; inversion E1; reflexivity. }
  subst e1. cbn [rv rw re]. destruct r1; cbn [rv rw re]; [|left; reflexivity].
  cbn [app]. rewrite bind_unfold.
  unfold encode. destruct (raw_seq m).
  - destruct (get T34 (mtags m)); [|left; reflexivity]. destruct (py_int s); [|left; reflexivity].
    cbn [ret rv rw re app]. rewrite !bind_unfold. cbn [getw rv rw re app].
    destruct (wr w1); cbn [ret raise rv rw re app]; [|left; reflexivity].
    rewrite !bind_unfold. cbn [emit rv rw re app snd fst].
    right. exists z. rewrite wires_app. cbn.
    rewrite (wires_nil _ (persist_out_allev not_wire _ _ _)). reflexivity.
  - rewrite !bind_unfold. cbn [getw modw ret rv rw re app snd fst].
    destruct (wr (set_nout (nout w1 + 1) w1)) eqn:Ew; cbn [ret raise rv rw re app]; [|left; reflexivity].
    cbn. rewrite Ew. cbn.
    right. exists (nout w1).
    rewrite (wires_nil _ (persist_out_allev not_wire _ _ _)). reflexivity.
Qed.

Record cg_spec (c : cfg) (n : Z) (w : world) (r : res bool) : Prop := mkCG {
  cg_true : rv r = inl true -> n <= nin w /\ rw r = w /\ re r = [];
  cg_false : rv r = inl false -> nin w < n;
  cg_resend : resends (re r) = [] \/
              (exists rr, resends (re r) = [rr] /\ st w <> ST_AWAITING /\ nin w < n
                          /\ get T7 (mtags rr) = Some (z_to_dec (nin w)) /\ get T16 (mtags rr) = Some S_0
                          /\ maxres (rw r) = n);
  cg_state : rv r = inl false -> st (rw r) = ST_AWAITING
}.

Lemma check_gaps_spec c n w : cg_spec c n w (check_gaps c n w).
Proof.
  unfold check_gaps. rewrite bind_unfold. cbn [getw rv rw re app].
  destruct (nin w <? n) eqn:E.
  2:{ cbn. constructor; cbn; try discriminate; auto. intros _. split; [lia|auto]. }
  rewrite bind_unfold.
  destruct (st w =? ST_AWAITING) eqn:Es; cbn [negb].
  { cbn. constructor; cbn; try discriminate; auto; intros _; lia. }
  set (m := mkMsg MT_RESENDREQUEST [(T7, z_to_dec (nin w)); (T16, S_0)]).
  rewrite !bind_unfold. cbn [modw rv rw re app].
  set (w1 := set_maxres n w).
  destruct (rv (send_msg c m w1)) eqn:Esend; cbn [rv rw re app].
  - (* sent *)
    constructor; cbn [rv rw re]; try discriminate.
    + intros _. lia.
    + rewrite !resends_app. cbn [ret re]. unfold resends at 2 3. cbn [state_set].
      rewrite (resends_nil (re (state_set ST_AWAITING _))).
      2:{ apply state_set_allev. exact I. }
      rewrite !app_nil_r.
      destruct (send_msg_wires c m w1) as [Hw|[seq Hw]]; unfold resends; rewrite Hw; cbn; [left; reflexivity|].
      right. eexists. split; [reflexivity|]. repeat split; try lia; try reflexivity.
      assert (Hm : pres maxres (send_msg c m)) by (apply send_msg_pres; ins_solve).
      assert (Hs : pres maxres (state_set ST_AWAITING)) by (apply state_set_pres; ins_solve).
      rewrite Hs, Hm. reflexivity.
    + intros _. apply state_set_st.
  - constructor; cbn [rv rw re]; try discriminate.
    + rewrite app_nil_r.
      destruct (send_msg_wires c m w1) as [Hw|[seq Hw]]; unfold resends; rewrite Hw; cbn; [left; reflexivity|].
      right. eexists. split; [reflexivity|]. repeat split; try lia; try reflexivity.
      assert (Hm : pres maxres (send_msg c m)) by (apply send_msg_pres; ins_solve).
      rewrite Hm. reflexivity.
Qed.
