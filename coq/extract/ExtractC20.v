(* Extraction of the tester model (C20).  ExtrOcamlBasic only; Z/N/positive/nat stay Coq datatypes.
   The path is relative to coq/, where make and coqc are run. *)
From Coq Require Extraction.
From Coq Require Import ExtrOcamlBasic.
From AF Require Import Fix.TesterRun.
Extraction Language OCaml.
Extraction "../ocaml/build/C20/model.ml" entry.
