(* Proofs about the container model Fix/Container.v (property C18). *)
From Coq Require Import ZArith NArith List Bool Lia ZifyBool.
From AF Require Import Base.Sx Py.Str Fix.Container Fix.ContainerRun.
From AFGen Require Import GenEnums.
Import ListNotations.
Open Scope N_scope.

#[local] Arguments str_eqb : simpl never.

(* ================================================================ strings *)

Lemma str_eqb_eq a b : str_eqb a b = true <-> a = b.
Proof.
  unfold str_eqb. revert b. induction a as [|x a IH]; intros [|y b]; split; intros H; try discriminate; try reflexivity.
  - apply andb_true_iff in H. destruct H as [H1 H2]. apply N.eqb_eq in H1. apply IH in H2. now subst.
  - inversion H; subst. apply andb_true_iff. split; [apply N.eqb_refl|now apply IH].
Qed.

Lemma str_eqb_refl a : str_eqb a a = true.
Proof. now apply str_eqb_eq. Qed.

Lemma str_eqb_neq a b : str_eqb a b = false <-> a <> b.
Proof.
  split; intros H.
  - intros E. apply str_eqb_eq in E. congruence.
  - destruct (str_eqb a b) eqn:E; [|reflexivity]. apply str_eqb_eq in E. contradiction.
Qed.

Lemma str_eqb_sym a b : str_eqb a b = str_eqb b a.
Proof.
  destruct (str_eqb a b) eqn:E.
  - apply str_eqb_eq in E. subst. now rewrite str_eqb_refl.
  - symmetry. apply str_eqb_neq. apply str_eqb_neq in E. congruence.
Qed.

Lemma mem_In k l : mem k l = true <-> In k l.
Proof.
  unfold mem. rewrite existsb_exists. split.
  - intros [x [Hx E]]. apply str_eqb_eq in E. now subst.
  - intros H. exists k. split; [exact H|apply str_eqb_refl].
Qed.

Lemma NoDup_snoc {A} (l : list A) (x : A) : NoDup l -> ~ In x l -> NoDup (l ++ [x]).
Proof.
  induction l as [|y l IH]; cbn; intros ND N.
  - constructor; [intros []|constructor].
  - inversion ND as [|? ? N1 N2]; subst. constructor.
    + rewrite in_app_iff. intros [F|[F|[]]]; [contradiction|]. subst. apply N. now left.
    + apply IH; [exact N2|]. intros F. apply N. now right.
Qed.

Lemma filter_all {A} (f : A -> bool) (l : list A) : (forall x, In x l -> f x = true) -> filter f l = l.
Proof.
  induction l as [|y l IH]; cbn; intros H; [reflexivity|].
  rewrite (H y) by now left. rewrite IH; [reflexivity|]. intros x Hx. apply H. now right.
Qed.

(* ================================================================ ordered dict primitives *)

Section AssocL.
  Context {V : Type}.
  Implicit Types (l : list (str * V)) (k : str) (v : V).

  Lemma lookup_In k l v : lookup k l = Some v -> In (k, v) l.
  Proof.
    induction l as [|[k' v'] l IH]; cbn; [discriminate|].
    destruct (str_eqb k' k) eqn:E.
    - intros H. inversion H; subst. apply str_eqb_eq in E. subst. now left.
    - intros H. right. now apply IH.
  Qed.

  Lemma lookup_None k l : lookup k l = None <-> ~ In k (map fst l).
  Proof.
    induction l as [|[k' v'] l IH]; cbn.
    - split; [intros _ []|reflexivity].
    - destruct (str_eqb k' k) eqn:E.
      + apply str_eqb_eq in E. subst. split; [discriminate|]. intros H. exfalso. apply H. now left.
      + apply str_eqb_neq in E. rewrite IH. split; intros H.
        * intros [F|F]; [congruence|contradiction].
        * intros F. apply H. now right.
  Qed.

  Lemma has_In k l : has k l = true <-> In k (map fst l).
  Proof.
    unfold has. destruct (lookup k l) eqn:E.
    - split; [|reflexivity]. intros _. apply lookup_In in E. apply in_map_iff. now exists (k, v).
    - split; [discriminate|]. intros H. apply lookup_None in E. contradiction.
  Qed.

  Lemma has_false k l : has k l = false <-> ~ In k (map fst l).
  Proof.
    rewrite <- has_In. destruct (has k l); split; intros H; try reflexivity; try discriminate; try congruence.
  Qed.

  (* In with unique keys determines lookup *)
  Lemma In_lookup k v l : NoDup (map fst l) -> In (k, v) l -> lookup k l = Some v.
  Proof.
    induction l as [|[k' v'] l IH]; cbn; [intros _ []|].
    intros ND [H|H].
    - inversion H; subst. now rewrite str_eqb_refl.
    - inversion ND as [|? ? N1 N2]; subst. destruct (str_eqb k' k) eqn:E.
      + apply str_eqb_eq in E. subst. exfalso. apply N1. apply in_map_iff. now exists (k, v).
      + now apply IH.
  Qed.

  (* ---- assign: d[k] = v ---- *)

  Lemma assign_new k v l : has k l = false -> assign k v l = l ++ [(k, v)].
  Proof.
    unfold has. induction l as [|[k' v'] l IH]; cbn; [reflexivity|].
    destruct (str_eqb k' k) eqn:E; [discriminate|]. intros H. now rewrite IH.
  Qed.

  Lemma assign_keys_existing k v l : has k l = true -> map fst (assign k v l) = map fst l.
  Proof.
    unfold has. induction l as [|[k' v'] l IH]; cbn; [discriminate|].
    destruct (str_eqb k' k) eqn:E; cbn; [reflexivity|]. intros H. now rewrite IH.
  Qed.

  Lemma assign_keys k v l :
    map fst (assign k v l) = if has k l then map fst l else map fst l ++ [k].
  Proof.
    destruct (has k l) eqn:E.
    - now apply assign_keys_existing.
    - rewrite assign_new by exact E. now rewrite map_app.
  Qed.

  Lemma lookup_assign_same k v l : lookup k (assign k v l) = Some v.
  Proof.
    induction l as [|[k' v'] l IH]; cbn.
    - now rewrite str_eqb_refl.
    - destruct (str_eqb k' k) eqn:E; cbn; rewrite E; [reflexivity|exact IH].
  Qed.

  Lemma lookup_assign_other k k' v l : k' <> k -> lookup k' (assign k v l) = lookup k' l.
  Proof.
    intros N. induction l as [|[k2 v2] l IH]; cbn.
    - assert (str_eqb k k' = false) as -> by (apply str_eqb_neq; congruence). reflexivity.
    - destruct (str_eqb k2 k) eqn:E; cbn.
      + apply str_eqb_eq in E. subst.
        assert (str_eqb k k' = false) as -> by (apply str_eqb_neq; congruence). reflexivity.
      + destruct (str_eqb k2 k'); [reflexivity|exact IH].
  Qed.

  Lemma lookup_assign k k' v l :
    lookup k' (assign k v l) = if str_eqb k k' then Some v else lookup k' l.
  Proof.
    destruct (str_eqb k k') eqn:E.
    - apply str_eqb_eq in E. subst. apply lookup_assign_same.
    - apply str_eqb_neq in E. apply lookup_assign_other. congruence.
  Qed.

  Lemma has_assign k k' v l : has k' (assign k v l) = str_eqb k k' || has k' l.
  Proof. unfold has. rewrite lookup_assign. now destruct (str_eqb k k'). Qed.

  Lemma assign_NoDup k v l : NoDup (map fst l) -> NoDup (map fst (assign k v l)).
  Proof.
    intros ND. rewrite assign_keys. destruct (has k l) eqn:E; [exact ND|].
    apply has_false in E. now apply NoDup_snoc.
  Qed.

  (* every entry other than k is untouched, in place *)
  Lemma assign_In k v l kv : In kv (assign k v l) -> kv = (fst kv, v) /\ fst kv = k \/ In kv l.
  Proof.
    induction l as [|[k2 v2] l IH]; cbn.
    - intros [H|[]]. subst. left. now split.
    - destruct (str_eqb k2 k) eqn:E; cbn.
      + intros [H|H]; [|right; now right]. subst. left. apply str_eqb_eq in E. now split.
      + intros [H|H]; [right; now left|]. destruct (IH H) as [A|A]; [now left|right; now right].
  Qed.

  (* ---- remove: del d[k] ---- *)

  Lemma remove_keys k l :
    NoDup (map fst l) -> map fst (remove k l) = filter (fun k' => negb (str_eqb k' k)) (map fst l).
  Proof.
    induction l as [|[k' v'] l IH]; cbn; [reflexivity|]. intros ND. inversion ND as [|? ? N1 N2]; subst.
    destruct (str_eqb k' k) eqn:E; cbn.
    - apply str_eqb_eq in E. subst. symmetry.
      rewrite filter_all; [reflexivity|].
      intros x Hx. apply negb_true_iff. apply str_eqb_neq. intros F. subst. contradiction.
    - now rewrite IH.
  Qed.

  Lemma lookup_remove_same k l : NoDup (map fst l) -> lookup k (remove k l) = None.
  Proof.
    induction l as [|[k' v'] l IH]; cbn; [reflexivity|]. intros ND. inversion ND as [|? ? N1 N2]; subst.
    destruct (str_eqb k' k) eqn:E; cbn.
    - apply str_eqb_eq in E. subst. now apply lookup_None.
    - rewrite E. now apply IH.
  Qed.

  Lemma lookup_remove_other k k' l : k' <> k -> lookup k' (remove k l) = lookup k' l.
  Proof.
    intros N. induction l as [|[k2 v2] l IH]; cbn; [reflexivity|].
    destruct (str_eqb k2 k) eqn:E; cbn.
    - apply str_eqb_eq in E. subst.
      assert (str_eqb k k' = false) as -> by (apply str_eqb_neq; congruence). reflexivity.
    - destruct (str_eqb k2 k'); [reflexivity|exact IH].
  Qed.

  Lemma remove_incl k l kv : In kv (remove k l) -> In kv l.
  Proof.
    induction l as [|[k2 v2] l IH]; cbn; [intros []|].
    destruct (str_eqb k2 k); cbn; [now right|]. intros [H|H]; [now left|right; now apply IH].
  Qed.

  Lemma remove_NoDup k l : NoDup (map fst l) -> NoDup (map fst (remove k l)).
  Proof. intros ND. rewrite remove_keys by exact ND. now apply NoDup_filter. Qed.

  Lemma has_remove_same k l : NoDup (map fst l) -> has k (remove k l) = false.
  Proof. intros ND. unfold has. now rewrite lookup_remove_same. Qed.
End AssocL.


(* positional forms: where the entry sits *)
Lemma assign_split {V} k (v : V) l :
  has k l = true ->
  exists l1 v0 l2, l = l1 ++ (k, v0) :: l2 /\ assign k v l = l1 ++ (k, v) :: l2 /\ ~ In k (map fst l1).
Proof.
  unfold has. induction l as [|[k' v'] l IH]; cbn; [discriminate|].
  destruct (str_eqb k' k) eqn:E.
  - intros _. apply str_eqb_eq in E. subst. exists [], v', l. repeat split. intros [].
  - intros H. destruct (IH H) as (l1 & v0 & l2 & A & B & N). exists ((k', v') :: l1), v0, l2.
    cbn. rewrite A at 1. rewrite B. repeat split. intros [F|F]; [|contradiction].
    apply str_eqb_neq in E. contradiction.
Qed.

Lemma remove_split {V} k (l : list (str * V)) :
  has k l = true ->
  exists l1 v0 l2, l = l1 ++ (k, v0) :: l2 /\ remove k l = l1 ++ l2 /\ ~ In k (map fst l1).
Proof.
  unfold has. induction l as [|[k' v'] l IH]; cbn; [discriminate|].
  destruct (str_eqb k' k) eqn:E.
  - intros _. apply str_eqb_eq in E. subst. exists [], v', l. repeat split. intros [].
  - intros H. destruct (IH H) as (l1 & v0 & l2 & A & B & N). exists ((k', v') :: l1), v0, l2.
    cbn. rewrite A at 1. rewrite B. repeat split. intros [F|F]; [|contradiction].
    apply str_eqb_neq in E. contradiction.
Qed.

(* ================================================================ tags and spellings *)

Definition keys (c : container) : list str := map fst (items c).

Lemma items_with_items c l : items (with_items c l) = l.
Proof. reflexivity. Qed.
Lemma mt_with_items c l : mt (with_items c l) = mt c.
Proof. reflexivity. Qed.
Lemma with_items_id c : with_items c (items c) = c.
Proof. now destruct c. Qed.

Lemma tag_str_int z : tag_str (TInt z) = tag_str (TStr (z_to_dec z)).
Proof. reflexivity. Qed.

(* a decimal string that int() maps to z and str() maps back *)
Definition canonical (s : str) : bool :=
  match py_int s with Some z => str_eqb (z_to_dec z) s | None => false end.

Lemma canonical_spec s : canonical s = true -> exists z, py_int s = Some z /\ s = z_to_dec z.
Proof.
  unfold canonical. destruct (py_int s) as [z|]; [|discriminate]. intros H.
  apply str_eqb_eq in H. now exists z.
Qed.

(* every member of the regenerated FTag table: str(member) is its value, found by name, and the
   value is a canonical decimal string *)
Lemma ftag_table_ok :
  forallb (fun nv => str_eqb (tag_str (TFTag (fst nv))) (snd nv) && canonical (snd nv)) ftag = true.
Proof. vm_compute. reflexivity. Qed.

Lemma ftag_spelling name v :
  In (name, v) ftag ->
  tag_str (TFTag name) = v /\ tag_ok (TFTag name) = true /\
  exists z, tag_str (TFTag name) = tag_str (TInt z) /\ tag_str (TFTag name) = tag_str (TStr (z_to_dec z)).
Proof.
  intros H. pose proof (proj1 (forallb_forall _ _) ftag_table_ok _ H) as G. cbn [fst snd] in G.
  apply andb_true_iff in G. destruct G as [G1 G2]. apply str_eqb_eq in G1.
  destruct (canonical_spec _ G2) as (z & Hz & Ez). split; [exact G1|]. split.
  - unfold tag_ok, key_ok. rewrite G1, Hz. reflexivity.
  - exists z. cbn [tag_str] in *. rewrite G1. now split.
Qed.

(* operations see a tag only through str(tag) *)
Lemma set_spelling t1 t2 v r c : tag_str t1 = tag_str t2 -> c_set t1 v r c = c_set t2 v r c.
Proof. unfold c_set, tag_ok. now intros ->. Qed.
Lemma get_spelling t1 t2 d c : tag_str t1 = tag_str t2 -> c_get t1 d c = c_get t2 d c.
Proof. unfold c_get. now intros ->. Qed.
Lemma del_spelling t1 t2 c : tag_str t1 = tag_str t2 -> c_del t1 c = c_del t2 c.
Proof. unfold c_del. now intros ->. Qed.
Lemma contains_spelling t1 t2 c : tag_str t1 = tag_str t2 -> c_contains t1 c = c_contains t2 c.
Proof. unfold c_contains. now intros ->. Qed.
Lemma is_group_spelling t1 t2 c : tag_str t1 = tag_str t2 -> c_is_group t1 c = c_is_group t2 c.
Proof. unfold c_is_group. now intros ->. Qed.
Lemma add_group_spelling t1 t2 it idx c : tag_str t1 = tag_str t2 -> c_add_group t1 it idx c = c_add_group t2 it idx c.
Proof. unfold c_add_group, tag_ok. now intros ->. Qed.
Lemma set_group_spelling t1 t2 g c : tag_str t1 = tag_str t2 -> c_set_group t1 g c = c_set_group t2 g c.
Proof. unfold c_set_group, tag_ok. now intros ->. Qed.
Lemma group_list_spelling t1 t2 c : tag_str t1 = tag_str t2 -> c_get_group_list t1 c = c_get_group_list t2 c.
Proof. unfold c_get_group_list. now intros ->. Qed.
Lemma group_by_index_spelling t1 t2 i c :
  tag_str t1 = tag_str t2 -> c_get_group_by_index t1 i c = c_get_group_by_index t2 i c.
Proof. unfold c_get_group_by_index. intros H. now rewrite (group_list_spelling _ _ _ H). Qed.
Lemma find_group_spelling g1 g2 gv g : tag_str g1 = tag_str g2 -> find_group g1 gv g = find_group g2 gv g.
Proof.
  intros H. induction g as [|x g IH]; cbn [find_group]; [reflexivity|].
  rewrite (contains_spelling _ _ _ H), (get_spelling _ _ _ _ H), IH. reflexivity.
Qed.
Lemma group_by_tag_spelling t1 t2 g1 g2 gv c :
  tag_str t1 = tag_str t2 -> tag_str g1 = tag_str g2 ->
  c_get_group_by_tag t1 g1 gv c = c_get_group_by_tag t2 g2 gv c.
Proof.
  unfold c_get_group_by_tag. intros H G. rewrite (group_list_spelling _ _ _ H).
  destruct (c_get_group_list t2 c); [|reflexivity]. now apply find_group_spelling.
Qed.

(* ================================================================ set / get / del *)

Lemma set_ok t s r c :
  tag_ok t = true -> r = true \/ has (tag_str t) (items c) = false ->
  c_set t (SVal s) r c = (with_items c (assign (tag_str t) (VStr s) (items c)), Ok tt).
Proof.
  intros T H. unfold c_set. rewrite T. cbn [negb].
  destruct H as [->|H]; [reflexivity|]. rewrite H. now rewrite andb_false_r.
Qed.

Lemma set_inv t v r c c' :
  c_set t v r c = (c', Ok tt) ->
  tag_ok t = true /\
  c' = with_items c (assign (tag_str t)
                       (match v with SVal s => VStr s | SCls k x => VCls k x end) (items c)).
Proof.
  unfold c_set. destruct (tag_ok t); cbn [negb]; [|discriminate]. destruct v as [s|k x].
  - destruct (negb r && has (tag_str t) (items c)); [discriminate|]. intros H. inversion H. now split.
  - intros H. inversion H. now split.
Qed.

(* values read back are the string written, whatever spelling of the tag is used for reading *)
Lemma get_after_set t t' s r d c c' :
  c_set t (SVal s) r c = (c', Ok tt) -> tag_str t' = tag_str t -> c_get t' d c' = Ok (RvStr s).
Proof.
  intros H E. apply set_inv in H. destruct H as [_ ->]. unfold c_get.
  rewrite items_with_items, E, lookup_assign_same. reflexivity.
Qed.

Lemma get_other_after_set t t' v r d c c' :
  c_set t v r c = (c', Ok tt) -> tag_str t' <> tag_str t -> c_get t' d c' = c_get t' d c.
Proof.
  intros H E. apply set_inv in H. destruct H as [_ ->]. unfold c_get.
  rewrite items_with_items, lookup_assign_other by exact E. reflexivity.
Qed.

(* a refused set changes nothing, and is refused for exactly two reasons *)
Lemma set_refused t v r c c' e :
  c_set t v r c = (c', Exc e) ->
  c' = c /\
  ((e = EFIXMessage /\ tag_ok t = false) \/
   (e = EDuplicatedTag /\ tag_ok t = true /\ r = false /\ has (tag_str t) (items c) = true
    /\ exists s, v = SVal s)).
Proof.
  unfold c_set. destruct (tag_ok t); cbn [negb].
  - destruct v as [s|k x]; [|discriminate].
    destruct r; cbn [negb andb]; [discriminate|]. destruct (has (tag_str t) (items c)) eqn:H; [|discriminate].
    intros G. inversion G; subst. split; [reflexivity|]. right. repeat split. now exists s.
  - intros G. inversion G; subst. split; [reflexivity|]. now left.
Qed.

Lemma set_nonint t v r c : tag_ok t = false -> c_set t v r c = (c, Exc EFIXMessage).
Proof. intros H. unfold c_set. now rewrite H. Qed.

Lemma set_duplicate t s c :
  tag_ok t = true -> has (tag_str t) (items c) = true -> c_set t (SVal s) false c = (c, Exc EDuplicatedTag).
Proof. intros T H. unfold c_set. now rewrite T, H. Qed.

(* replace=True keeps the place of the key and everything else *)
Lemma set_replace_in_place t s c :
  tag_ok t = true -> has (tag_str t) (items c) = true ->
  exists l1 v0 l2,
    items c = l1 ++ (tag_str t, v0) :: l2 /\ ~ In (tag_str t) (map fst l1) /\
    c_set t (SVal s) true c = (with_items c (l1 ++ (tag_str t, VStr s) :: l2), Ok tt).
Proof.
  intros T H. destruct (assign_split (tag_str t) (VStr s) _ H) as (l1 & v0 & l2 & A & B & N).
  exists l1, v0, l2. repeat split; [exact A|exact N|]. rewrite set_ok by auto. now rewrite B.
Qed.

Lemma set_replace_keeps_order t s c c' :
  c_set t (SVal s) true c = (c', Ok tt) -> has (tag_str t) (items c) = true ->
  keys c' = keys c /\ mt c' = mt c /\
  forall k, lookup k (items c') = if str_eqb (tag_str t) k then Some (VStr s) else lookup k (items c).
Proof.
  intros H E. apply set_inv in H. destruct H as [_ ->]. unfold keys.
  rewrite items_with_items. split; [now apply assign_keys_existing|]. split; [reflexivity|].
  intros k. apply lookup_assign.
Qed.

Lemma set_new_at_end t s r c :
  tag_ok t = true -> has (tag_str t) (items c) = false ->
  c_set t (SVal s) r c = (with_items c (items c ++ [(tag_str t, VStr s)]), Ok tt).
Proof. intros T H. rewrite set_ok by auto. now rewrite assign_new. Qed.

Lemma del_spec t c :
  c_del t c = if has (tag_str t) (items c)
              then (with_items c (remove (tag_str t) (items c)), Ok tt) else (c, Exc EKeyError).
Proof. reflexivity. Qed.

Lemma del_refused t c c' e : c_del t c = (c', Exc e) -> c' = c /\ e = EKeyError /\ c_contains t c = false.
Proof.
  unfold c_del, c_contains. destruct (has (tag_str t) (items c)); [discriminate|].
  intros H. inversion H. now repeat split.
Qed.

Lemma del_keeps_others t c c' :
  NoDup (keys c) -> c_del t c = (c', Ok tt) ->
  keys c' = filter (fun k => negb (str_eqb k (tag_str t))) (keys c) /\ mt c' = mt c /\
  c_contains t c' = false /\
  forall k, k <> tag_str t -> lookup k (items c') = lookup k (items c).
Proof.
  unfold c_del, c_contains, keys. intros ND. destruct (has (tag_str t) (items c)); [|discriminate].
  intros H. inversion H; subst. rewrite items_with_items. repeat split.
  - now apply remove_keys.
  - now apply has_remove_same.
  - intros k N. now apply lookup_remove_other.
Qed.

(* delete, then add again: the key is now last *)
Lemma del_then_set_at_end t s r c c1 :
  NoDup (keys c) -> tag_ok t = true -> c_del t c = (c1, Ok tt) ->
  c_set t (SVal s) r c1 = (with_items c (remove (tag_str t) (items c) ++ [(tag_str t, VStr s)]), Ok tt).
Proof.
  intros ND T H. destruct (del_keeps_others _ _ _ ND H) as (_ & _ & G & _).
  unfold c_del in H. destruct (has (tag_str t) (items c)); [|discriminate]. inversion H; subst.
  rewrite set_new_at_end; [reflexivity|exact T|exact G].
Qed.

Lemma contains_spec t c : c_contains t c = true <-> In (tag_str t) (keys c).
Proof. unfold c_contains, keys. apply has_In. Qed.

Lemma is_group_spec t c :
  c_is_group t c = match lookup (tag_str t) (items c) with
                   | None => None | Some (VGrp _) => Some true | Some _ => Some false end.
Proof. reflexivity. Qed.

(* get distinguishes missing / plain / group *)
Lemma get_classes t c :
  c_get t DRaise c = match lookup (tag_str t) (items c) with
                     | None => Exc ETagNotFound
                     | Some (VStr s) => Ok (RvStr s)
                     | Some (VGrp _) => Exc EFIXMessage
                     | Some (VCls KTagNotFound _) => Exc ETagNotFound
                     | Some (VCls KRepeating _) => Exc ERepeatingTag
                     | Some (VCls k x) => Ok (RvCls k x)
                     end.
Proof. unfold c_get. destruct (lookup (tag_str t) (items c)) as [[s|g|[] x]|]; reflexivity. Qed.

Lemma get_default t d c :
  lookup (tag_str t) (items c) = None ->
  c_get t d c = match d with DRaise => Exc ETagNotFound | DNone => Ok RvNone | DStr s => Ok (RvStr s) end.
Proof. unfold c_get. now intros ->. Qed.

(* ================================================================ groups *)

Lemma group_list_classes t c :
  c_get_group_list t c = match lookup (tag_str t) (items c) with
                         | None => Exc ETagNotFound
                         | Some (VGrp g) => Ok g
                         | Some _ => Exc EUnmappedGrp
                         end.
Proof.
  unfold c_get_group_list, c_is_group. cbn [tag_str].
  destruct (lookup (tag_str t) (items c)) as [[s|g|k x]|]; reflexivity.
Qed.

Lemma insert_at_split {A} n (x : A) l :
  exists a b, l = a ++ b /\ insert_at n x l = a ++ x :: b /\ length a = Nat.min n (length l).
Proof.
  exists (firstn n l), (skipn n l). split; [symmetry; apply firstn_skipn|]. split; [reflexivity|].
  apply firstn_length.
Qed.

(* list.insert with Python's clamping; -1 appends: old items keep their relative order *)
Lemma py_insert_spec {A} idx (x : A) l :
  let len := Z.of_nat (length l) in
  exists a b, l = a ++ b /\ py_insert idx x l = a ++ x :: b /\
    Z.of_nat (length a) =
      (if idx =? -1 then len else if 0 <=? idx then Z.min idx len else Z.max 0 (len + idx))%Z.
Proof.
  intros len. unfold py_insert. fold len. destruct (idx =? -1)%Z eqn:E1.
  - exists l, []. rewrite app_nil_r. repeat split.
  - destruct (0 <=? idx)%Z eqn:E2.
    + destruct (insert_at_split (Z.to_nat (Z.min idx len)) x l) as (a & b & H1 & H2 & H3).
      exists a, b. repeat split; [exact H1|exact H2|]. rewrite H3. unfold len in *. lia.
    + destruct (insert_at_split (Z.to_nat (Z.max 0 (len + idx))) x l) as (a & b & H1 & H2 & H3).
      exists a, b. repeat split; [exact H1|exact H2|]. rewrite H3. unfold len in *. lia.
Qed.

(* a refused add_group changes nothing, and is refused only for a non-integer tag, a bad item, or a
   tag that exists and is not a group: always with a library error *)
Lemma add_group_refused t item idx c c' e :
  c_add_group t item idx c = (c', Exc e) ->
  c' = c /\
  ((e = EFIXMessage /\ tag_ok t = false) \/
   (tag_ok t = true /\ item = Exc e) \/
   (e = EFIXMessage /\ tag_ok t = true /\ c_is_group t c = Some false)).
Proof.
  unfold c_add_group, c_is_group. destruct (tag_ok t); cbn [negb].
  - destruct item as [it|e'].
    + destruct (lookup (tag_str t) (items c)) as [[s|g|k x]|]; intros H; inversion H; subst;
        (split; [reflexivity|]); right; right; now repeat split.
    + intros H. inversion H; subst. split; [reflexivity|]. right. left. now split.
  - intros H. inversion H; subst. split; [reflexivity|]. now left.
Qed.

Lemma add_group_ok t it idx c :
  tag_ok t = true ->
  c_is_group t c <> Some false ->
  let g := match c_get_group_list t c with Ok g => g | Exc _ => [] end in
  c_add_group t (Ok it) idx c =
    (with_items c (assign (tag_str t) (VGrp (py_insert idx it g)) (items c)), Ok tt).
Proof.
  intros T N. rewrite group_list_classes. unfold c_add_group, c_is_group in *. rewrite T. cbn [negb].
  destruct (lookup (tag_str t) (items c)) as [[s|g|k x]|]; try reflexivity; now exfalso.
Qed.

Lemma add_group_inv t it idx c c' :
  c_add_group t (Ok it) idx c = (c', Ok tt) -> tag_ok t = true /\ c_is_group t c <> Some false.
Proof.
  unfold c_add_group, c_is_group. destruct (tag_ok t); cbn [negb]; [|discriminate].
  destruct (lookup (tag_str t) (items c)) as [[s|g|k x]|]; intros H; try discriminate H; split; congruence.
Qed.

Lemma add_group_then_list t it idx c c' :
  c_add_group t (Ok it) idx c = (c', Ok tt) ->
  c_get_group_list t c' =
    Ok (py_insert idx it (match c_get_group_list t c with Ok g => g | Exc _ => [] end))
  /\ keys c' = (if c_contains t c then keys c else keys c ++ [tag_str t])
  /\ forall k, k <> tag_str t -> lookup k (items c') = lookup k (items c).
Proof.
  unfold c_add_group, c_contains, keys, has. rewrite !group_list_classes.
  destruct (tag_ok t); cbn [negb]; [|discriminate].
  destruct (lookup (tag_str t) (items c)) as [[s|g|k x]|] eqn:L; intros H; inversion H; subst;
    rewrite items_with_items, lookup_assign_same, assign_keys; unfold has; rewrite L; repeat split;
    intros k' N; now apply lookup_assign_other.
Qed.

(* add_group on a tag that holds a plain value or a class object: FIXMessageError, nothing changes *)
Lemma add_group_on_plain t item idx c :
  c_is_group t c = Some false ->
  exists e, c_add_group t item idx c = (c, Exc e) /\ (e = EFIXMessage \/ item = Exc e).
Proof.
  unfold c_add_group, c_is_group. intros G. destruct (tag_ok t); cbn [negb]; [|exists EFIXMessage; auto].
  destruct item as [it|e]; [|exists e; auto].
  destruct (lookup (tag_str t) (items c)) as [[s|g|k x]|]; try discriminate G; exists EFIXMessage; auto.
Qed.

(* a non-integer tag is refused as a group tag, like in set *)
Lemma group_nonint_tag t :
  tag_ok t = false ->
  (forall g c, c_set_group t g c = (c, Exc EFIXMessage)) /\
  (forall it idx c, c_add_group t it idx c = (c, Exc EFIXMessage)).
Proof. intros T. unfold c_set_group, c_add_group. rewrite T. now split. Qed.

Lemma set_group_refused t g c c' e :
  c_set_group t g c = (c', Exc e) ->
  c' = c /\
  ((e = EFIXMessage /\ tag_ok t = false) \/
   (e = EDuplicatedTag /\ tag_ok t = true /\ c_contains t c = true) \/
   (tag_ok t = true /\ c_contains t c = false /\ g = Exc e)).
Proof.
  unfold c_set_group, c_contains. destruct (tag_ok t); cbn [negb].
  - destruct (has (tag_str t) (items c)).
    + intros H. inversion H. split; [reflexivity|]. right. left. now repeat split.
    + destruct g as [g|e']; intros H; inversion H. split; [reflexivity|]. right. right. now repeat split.
  - intros H. inversion H. split; [reflexivity|]. now left.
Qed.

Lemma set_group_ok t g c :
  tag_ok t = true -> c_contains t c = false ->
  c_set_group t (Ok g) c = (with_items c (items c ++ [(tag_str t, VGrp g)]), Ok tt).
Proof. unfold c_set_group, c_contains. intros T H. rewrite T, H. cbn [negb]. now rewrite assign_new. Qed.

Lemma set_group_then_list t g c c' :
  c_set_group t (Ok g) c = (c', Ok tt) ->
  tag_ok t = true /\ c_get_group_list t c' = Ok g /\ keys c' = keys c ++ [tag_str t].
Proof.
  unfold c_set_group, keys. destruct (tag_ok t); cbn [negb]; [|discriminate].
  destruct (has (tag_str t) (items c)) eqn:E; [discriminate|].
  intros H. inversion H; subst. rewrite group_list_classes, items_with_items, lookup_assign_same.
  split; [reflexivity|]. split; [reflexivity|]. rewrite assign_new by exact E. now rewrite map_app.
Qed.

(* get_group_by_index: index order, Python's negative indices *)
Lemma nth_res_ok n g : (n < length g)%nat -> exists x, nth_error g n = Some x /\ nth_res n g = Ok x.
Proof.
  intros H. unfold nth_res. destruct (nth_error g n) eqn:E.
  - now exists c.
  - apply nth_error_None in E. lia.
Qed.

Lemma group_by_index_nonneg t idx c g :
  c_get_group_list t c = Ok g -> (0 <= idx < Z.of_nat (length g))%Z ->
  exists x, nth_error g (Z.to_nat idx) = Some x /\ c_get_group_by_index t idx c = Ok x.
Proof.
  intros G H. unfold c_get_group_by_index. rewrite G.
  assert ((Z.of_nat (length g) <=? idx)%Z || (idx <? - Z.of_nat (length g))%Z = false) as -> by lia.
  assert ((0 <=? idx)%Z = true) as -> by lia. apply nth_res_ok. lia.
Qed.

Lemma group_by_index_negative t idx c g :
  c_get_group_list t c = Ok g -> (- Z.of_nat (length g) <= idx < 0)%Z ->
  exists x, nth_error g (Z.to_nat (Z.of_nat (length g) + idx)) = Some x
            /\ c_get_group_by_index t idx c = Ok x.
Proof.
  intros G H. unfold c_get_group_by_index. rewrite G.
  assert ((Z.of_nat (length g) <=? idx)%Z || (idx <? - Z.of_nat (length g))%Z = false) as -> by lia.
  assert ((0 <=? idx)%Z = false) as -> by lia. apply nth_res_ok. lia.
Qed.

(* outside [-len, len) : TagNotFoundError on both sides *)
Lemma group_by_index_out_of_range t idx c g :
  c_get_group_list t c = Ok g -> (Z.of_nat (length g) <= idx \/ idx < - Z.of_nat (length g))%Z ->
  c_get_group_by_index t idx c = Exc ETagNotFound.
Proof.
  intros G H. unfold c_get_group_by_index. rewrite G.
  assert ((Z.of_nat (length g) <=? idx)%Z || (idx <? - Z.of_nat (length g))%Z = true) as -> by lia.
  reflexivity.
Qed.

(* the only outcomes: an item, or TagNotFoundError / UnmappedRepeatedGrpError *)
Lemma group_by_index_errors t idx c e :
  c_get_group_by_index t idx c = Exc e -> e = ETagNotFound \/ e = EUnmappedGrp.
Proof.
  unfold c_get_group_by_index. rewrite group_list_classes.
  destruct (lookup (tag_str t) (items c)) as [[s|g|k x]|]; try (intros H; inversion H; auto; fail).
  destruct ((Z.of_nat (length g) <=? idx)%Z || (idx <? - Z.of_nat (length g))%Z) eqn:E;
    [intros H; inversion H; auto|].
  destruct (0 <=? idx)%Z eqn:E2; intros H.
  - destruct (nth_res_ok (Z.to_nat idx) g ltac:(lia)) as (x & _ & R). rewrite R in H. discriminate.
  - destruct (nth_res_ok (Z.to_nat (Z.of_nat (length g) + idx)) g ltac:(lia)) as (x & _ & R).
    rewrite R in H. discriminate.
Qed.

Lemma group_by_index_no_group t idx c e :
  c_get_group_list t c = Exc e -> c_get_group_by_index t idx c = Exc e.
Proof. intros G. unfold c_get_group_by_index. now rewrite G. Qed.

(* get_group_by_tag: the first item, in index order, whose inner tag holds the value *)
Definition plain_at (k : str) (x : container) : Prop :=
  match lookup k (items x) with None | Some (VStr _) => True | Some _ => False end.
Definition holds (k gv : str) (x : container) : bool :=
  match lookup k (items x) with Some (VStr s) => str_eqb s gv | _ => false end.

Lemma find_group_plain gt gv g :
  Forall (plain_at (tag_str gt)) g ->
  find_group gt gv g = match find (holds (tag_str gt) gv) g with
                       | Some x => Ok x | None => Exc ETagNotFound end.
Proof.
  induction g as [|x g IH]; intros F; cbn [find_group find]; [reflexivity|].
  inversion F as [|? ? P F']; subst. unfold c_contains, has, c_get, holds, plain_at in *.
  destruct (lookup (tag_str gt) (items x)) as [[s|g0|k y]|]; try contradiction.
  - cbn [rval_is]. destruct (str_eqb s gv); [reflexivity|]. now apply IH.
  - now apply IH.
Qed.

Lemma find_some_first {A} (f : A -> bool) l x :
  find f l = Some x -> exists a b, l = a ++ x :: b /\ f x = true /\ Forall (fun y => f y = false) a.
Proof.
  induction l as [|y l IH]; cbn; [discriminate|]. destruct (f y) eqn:E.
  - intros H. inversion H; subst. exists [], l. repeat split; [exact E|constructor].
  - intros H. destruct (IH H) as (a & b & H1 & H2 & H3). exists (y :: a), b. subst. repeat split; [exact H2|].
    now constructor.
Qed.

Lemma group_by_tag_first t gt gv c g :
  c_get_group_list t c = Ok g -> Forall (plain_at (tag_str gt)) g ->
  (forall x, c_get_group_by_tag t gt gv c = Ok x ->
     exists a b, g = a ++ x :: b /\ lookup (tag_str gt) (items x) = Some (VStr gv)
                 /\ Forall (fun y => lookup (tag_str gt) (items y) <> Some (VStr gv)) a)
  /\ (c_get_group_by_tag t gt gv c = Exc ETagNotFound <->
      Forall (fun y => lookup (tag_str gt) (items y) <> Some (VStr gv)) g)
  /\ (forall e, c_get_group_by_tag t gt gv c = Exc e -> e = ETagNotFound).
Proof.
  intros G P. unfold c_get_group_by_tag. rewrite G, (find_group_plain _ _ _ P).
  assert (HH : forall y, holds (tag_str gt) gv y = true <-> lookup (tag_str gt) (items y) = Some (VStr gv)).
  { intros y. unfold holds. destruct (lookup (tag_str gt) (items y)) as [[s|g0|k z]|]; split; try discriminate.
    - intros H. apply str_eqb_eq in H. now subst.
    - intros H. inversion H. apply str_eqb_refl. }
  split; [|split].
  - intros x H. destruct (find (holds (tag_str gt) gv) g) as [x'|] eqn:F; [|discriminate].
    inversion H; subst. destruct (find_some_first _ _ _ F) as (a & b & H1 & H2 & H3).
    exists a, b. split; [exact H1|]. split; [now apply HH|].
    eapply Forall_impl; [|exact H3]. cbn. intros y Hy F'. apply HH in F'. congruence.
  - destruct (find (holds (tag_str gt) gv) g) as [x'|] eqn:F.
    + split; [discriminate|]. intros A. exfalso. apply find_some in F. destruct F as [F1 F2].
      rewrite Forall_forall in A. apply (A _ F1). now apply HH.
    + split; [|reflexivity]. intros _. apply Forall_forall. intros y Hy F'.
      apply HH in F'. pose proof (find_none _ _ F _ Hy). congruence.
  - intros e. destruct (find (holds (tag_str gt) gv) g); intros H; now inversion H.
Qed.

(* ================================================================ str(int) and int(str) *)

Lemma n_to_dec_fuel_eq f n acc :
  n_to_dec_fuel (S f) n acc =
  let acc' := digit_char (n mod 10) :: acc in
  if n / 10 =? 0 then acc' else n_to_dec_fuel f (n / 10) acc'.
Proof. cbn [n_to_dec_fuel]. unfold N.div, N.modulo. now destruct (N.div_eucl n 10). Qed.

(* digits, least significant first *)
Fixpoint lsd (f : nat) (n : N) : list N :=
  match f with
  | O => []
  | S f' => digit_char (n mod 10) :: (if n / 10 =? 0 then [] else lsd f' (n / 10))
  end.

Lemma n_to_dec_fuel_lsd f n acc : n_to_dec_fuel f n acc = rev (lsd f n) ++ acc.
Proof.
  revert n acc. induction f as [|f IH]; intros n acc; [reflexivity|].
  rewrite n_to_dec_fuel_eq. cbn [lsd rev]. destruct (n / 10 =? 0).
  - reflexivity.
  - rewrite IH, <- app_assoc. reflexivity.
Qed.

Fixpoint lval (l : list N) : N :=
  match l with [] => 0 | c :: l' => (c - 48) + 10 * lval l' end.

Fixpoint p2 (k : nat) : N := match k with O => 1 | S k' => 2 * p2 k' end.

Lemma size_nat_bound n : n < p2 (N.size_nat n).
Proof.
  destruct n as [|p]; [cbn; lia|]. cbn [N.size_nat].
  induction p as [p IH|p IH|]; cbn [Pos.size_nat p2]; lia.
Qed.

Lemma lval_lsd f n : n < p2 f -> lval (lsd f n) = n.
Proof.
  revert n. induction f as [|f IH]; intros n H; cbn [p2] in H; [cbn; lia|].
  cbn [lsd lval]. unfold digit_char. pose proof (N.div_mod n 10 ltac:(lia)) as D.
  pose proof (N.mod_lt n 10 ltac:(lia)) as M.
  destruct (n / 10 =? 0) eqn:E.
  - apply N.eqb_eq in E. cbn [lval]. rewrite E in D. clear E. set (r := n mod 10) in *. clearbody r. lia.
  - rewrite IH; [|apply N.div_lt_upper_bound; lia].
    clear E IH. set (r := n mod 10) in *. set (q := n / 10) in *. clearbody q r. lia.
Qed.

Lemma lsd_digits f n : Forall (fun c => is_digit c = true) (lsd f n).
Proof.
  revert n. induction f as [|f IH]; intros n; cbn [lsd]; constructor.
  - unfold is_digit, digit_char. pose proof (N.mod_lt n 10 ltac:(lia)) as M.
    set (r := n mod 10) in *. clearbody r. lia.
  - destruct (n / 10 =? 0); [constructor|apply IH].
Qed.

Lemma n_to_dec_lsd n : n_to_dec n = rev (lsd (S (N.size_nat n)) n).
Proof. unfold n_to_dec. rewrite n_to_dec_fuel_lsd. apply app_nil_r. Qed.

Lemma n_to_dec_inj n m : n_to_dec n = n_to_dec m -> n = m.
Proof.
  rewrite !n_to_dec_lsd. intros H. apply (f_equal (@rev N)) in H. rewrite !rev_involutive in H.
  apply (f_equal lval) in H. rewrite !lval_lsd in H; [exact H| |];
    (eapply N.lt_le_trans; [apply size_nat_bound|cbn [p2]; lia]).
Qed.

Lemma n_to_dec_digits n : Forall (fun c => is_digit c = true) (n_to_dec n).
Proof. rewrite n_to_dec_lsd. apply Forall_rev. apply lsd_digits. Qed.

Lemma n_to_dec_nonempty n : n_to_dec n <> [].
Proof.
  rewrite n_to_dec_lsd. cbn [lsd rev]. intros H. apply app_eq_nil in H. destruct H; discriminate.
Qed.

(* int(str(n)) = n, below CPython's digit limit *)
Definition dstep (a c : N) : N := 10 * a + (c - 48).

Lemma digits_us_digits s a :
  Forall (fun c => is_digit c = true) s -> digits_us s a false = Some (fold_left dstep s a).
Proof.
  revert a. induction s as [|c s IH]; intros a F; [reflexivity|].
  inversion F as [|? ? D F']; subst. cbn [digits_us fold_left]. rewrite D. now apply IH.
Qed.

Lemma fold_rev_lval l : fold_left dstep (rev l) 0 = lval l.
Proof.
  induction l as [|c l IH]; [reflexivity|].
  cbn [rev lval]. rewrite fold_left_app. cbn [fold_left]. rewrite IH. unfold dstep. lia.
Qed.

Lemma digits_us_n_to_dec n : digits_us (n_to_dec n) 0 false = Some n.
Proof.
  rewrite digits_us_digits by apply n_to_dec_digits. rewrite n_to_dec_lsd, fold_rev_lval.
  rewrite lval_lsd; [reflexivity|]. eapply N.lt_le_trans; [apply size_nat_bound|cbn [p2]; lia].
Qed.

Lemma lstrip_id ws s : match s with [] => True | c :: _ => ws c = false end -> lstrip ws s = s.
Proof. destruct s as [|c s]; [reflexivity|]. cbn [lstrip]. now intros ->. Qed.

Lemma strip_id ws s : Forall (fun c => ws c = false) s -> strip ws s = s.
Proof.
  intros F. unfold strip. rewrite (lstrip_id ws s).
  - rewrite (lstrip_id ws (rev s)); [apply rev_involutive|].
    apply Forall_rev in F. destruct (rev s); [exact I|]. now inversion F.
  - destruct s; [exact I|]. now inversion F.
Qed.

Lemma digit_not_ws c : is_digit c = true -> ws_str c = false.
Proof. unfold is_digit, ws_str. lia. Qed.

Lemma digit_cases c : is_digit c = true ->
  c = 48 \/ c = 49 \/ c = 50 \/ c = 51 \/ c = 52 \/ c = 53 \/ c = 54 \/ c = 55 \/ c = 56 \/ c = 57.
Proof. unfold is_digit. lia. Qed.

Lemma filter_length_le {A} (f : A -> bool) l : (length (filter f l) <= length l)%nat.
Proof. induction l as [|x l IH]; cbn; [lia|]. destruct (f x); cbn; lia. Qed.

Lemma py_int_digits s n :
  Forall (fun c => is_digit c = true) s -> s <> [] -> (length s <= 4300)%nat ->
  digits_us s 0 false = Some n ->
  py_int s = Some (Z.of_N n) /\ py_int (45 :: s) = Some (- Z.of_N n)%Z.
Proof.
  intros F NE L D. unfold py_int, py_int_gen. cbv zeta.
  assert (W : Forall (fun c => ws_str c = false) s).
  { eapply Forall_impl; [|exact F]. intros c. apply digit_not_ws. }
  assert (LIM : (4300 <? N.of_nat (length (filter is_digit s))) = false).
  { pose proof (filter_length_le is_digit s). lia. }
  destruct s as [|c s']; [contradiction|]. inversion F as [|? ? Dc F']; subst.
  split.
  - rewrite strip_id by exact W.
    destruct (digit_cases c Dc) as [->|[->|[->|[->|[->|[->|[->|[->|[->| ->]]]]]]]]];
      cbv iota beta; rewrite LIM, Dc, D; reflexivity.
  - rewrite strip_id by (constructor; [reflexivity|exact W]).
    cbv iota beta. rewrite LIM, Dc, D. reflexivity.
Qed.

Lemma py_int_z_to_dec z : (length (z_to_dec z) <= 4300)%nat -> py_int (z_to_dec z) = Some z.
Proof.
  destruct z as [|p|p]; cbn [z_to_dec length]; intros L.
  - reflexivity.
  - apply (py_int_digits (n_to_dec (Npos p)) (Npos p)); [apply n_to_dec_digits|apply n_to_dec_nonempty|exact L|].
    apply digits_us_n_to_dec.
  - apply (py_int_digits (n_to_dec (Npos p)) (Npos p)); [apply n_to_dec_digits|apply n_to_dec_nonempty|lia|].
    apply digits_us_n_to_dec.
Qed.

(* every int tag (below the digit limit) is accepted, and different ints are different keys *)
Lemma int_tag_ok z : (length (z_to_dec z) <= 4300)%nat -> tag_ok (TInt z) = true.
Proof. intros L. unfold tag_ok, key_ok. cbn [tag_str]. now rewrite py_int_z_to_dec. Qed.

Lemma z_to_dec_inj a b : z_to_dec a = z_to_dec b -> a = b.
Proof.
  assert (H45 : forall n, ~ In 45 (n_to_dec n)).
  { intros n H. pose proof (n_to_dec_digits n) as F. rewrite Forall_forall in F. specialize (F _ H). discriminate. }
  assert (HD : forall n, exists c r, n_to_dec n = c :: r /\ is_digit c = true).
  { intros n. pose proof (n_to_dec_digits n) as F. pose proof (n_to_dec_nonempty n) as NE.
    destruct (n_to_dec n) as [|c r]; [contradiction|]. inversion F; subst. now exists c, r. }
  destruct a as [|p|p], b as [|q|q]; cbn [z_to_dec]; intros H; try reflexivity.
  - change [48] with (n_to_dec 0) in H. apply n_to_dec_inj in H. discriminate.
  - destruct (HD (Npos q)) as (c & r & E & D). rewrite E in H; inversion H; subst; discriminate.
  - change [48] with (n_to_dec 0) in H. apply n_to_dec_inj in H. discriminate.
  - apply n_to_dec_inj in H. now inversion H.
  - destruct (HD (Npos p)) as (c & r & E & D). rewrite E in H; inversion H; subst; discriminate.
  - destruct (HD (Npos p)) as (c & r & E & D). rewrite E in H; inversion H; subst; discriminate.
  - destruct (HD (Npos q)) as (c & r & E & D). rewrite E in H; inversion H; subst; discriminate.
  - inversion H as [H']. apply n_to_dec_inj in H'. now inversion H'.
Qed.

(* ================================================================ induction on nested containers *)

Section ContainerInd.
  Context (P : container -> Prop) (Q : value -> Prop).
  Context (HC : forall m l, Forall (fun kv => Q (snd kv)) l -> P (C m l)).
  Context (HS : forall s, Q (VStr s)).
  Context (HG : forall g, Forall P g -> Q (VGrp g)).
  Context (HK : forall k x, Q (VCls k x)).

  Fixpoint container_ind2 (c : container) : P c :=
    match c with
    | C m l =>
        HC m l ((fix go (l : list (str * value)) : Forall (fun kv => Q (snd kv)) l :=
                   match l with
                   | [] => Forall_nil _
                   | kv :: l' => Forall_cons kv (value_ind2 (snd kv)) (go l')
                   end) l)
    end
  with value_ind2 (v : value) : Q v :=
    match v with
    | VStr s => HS s
    | VGrp g =>
        HG g ((fix go (g : list container) : Forall P g :=
                 match g with
                 | [] => Forall_nil _
                 | c :: g' => Forall_cons c (container_ind2 c) (go g')
                 end) g)
    | VCls k x => HK k x
    end.
End ContainerInd.

(* ================================================================ rendering *)

Definition field (kv : str * value) : str := fst kv ++ 61 :: render_v (snd kv).

Lemma render_C m l : render (C m l) = join [124] (map field l).
Proof. reflexivity. Qed.

Lemma render_items c : render c = join [124] (map field (items c)).
Proof. now destruct c. Qed.

Lemma render_v_grp g :
  render_v (VGrp g) = n_to_dec (N.of_nat (length g)) ++ [61; 62; 91] ++ join [44; 32] (map repr g) ++ [93].
Proof. reflexivity. Qed.

Definition jtail (sep : str) (ps : list str) : str :=
  match ps with [] => [] | _ => sep ++ join sep ps end.

Lemma join_cons sep p ps : join sep (p :: ps) = p ++ jtail sep ps.
Proof. destruct ps; cbn [join jtail]; [now rewrite app_nil_r|reflexivity]. Qed.

(* ================================================================ equality by text: when it is equality of content *)

(* the characters the rendering uses as punctuation *)
Definition delim (c : N) : bool :=
  (c =? 124) || (c =? 61) || (c =? 62) || (c =? 91) || (c =? 93) || (c =? 44) || (c =? 32).
Definition clean_str (s : str) : bool := forallb (fun c => negb (delim c)) s.
(* a key: no punctuation, not empty, not beginning like "msg_type=" *)
Definition clean_tag (s : str) : bool :=
  clean_str s && match s with c :: _ => negb (c =? 109) | [] => false end.

Fixpoint cleanb (c : container) : bool :=
  match c with
  | C m l => match m with Some s => clean_str s | None => true end
             && forallb (fun kv => clean_tag (fst kv) && cleanb_v (snd kv)) l
  end
with cleanb_v (v : value) : bool :=
  match v with
  | VStr s => clean_str s
  | VGrp g => forallb cleanb g
  | VCls _ _ => false
  end.

Definition clean_items (l : list (str * value)) : bool :=
  forallb (fun kv => clean_tag (fst kv) && cleanb_v (snd kv)) l.
(* the msg_type of the outermost container plays no part in __eq__ *)
Definition clean (c : container) : bool := clean_items (items c).

Definition lead (r : str) : Prop := match r with [] => True | c :: _ => delim c = true end.
Definition term (r : str) : Prop := match r with [] => True | c :: _ => c = 44 \/ c = 93 end.
Definition vterm (r : str) : Prop := match r with [] => True | c :: _ => c = 124 \/ c = 44 \/ c = 93 end.

Lemma term_vterm r : term r -> vterm r.
Proof. destruct r; cbn; [auto|]. intros [H|H]; auto. Qed.
Lemma vterm_lead r : vterm r -> lead r.
Proof. destruct r; cbn; [auto|]. intros [H|[H|H]]; subst; reflexivity. Qed.

Lemma split_clean s1 s2 x y :
  clean_str s1 = true -> clean_str s2 = true -> lead x -> lead y ->
  s1 ++ x = s2 ++ y -> s1 = s2 /\ x = y.
Proof.
  revert s2. induction s1 as [|a s1 IH]; intros [|b s2] C1 C2 Lx Ly H; cbn [app] in H.
  - now split.
  - exfalso. subst x. cbn in Lx, C2. apply andb_true_iff in C2. destruct C2 as [C2 _]. rewrite Lx in C2. discriminate.
  - exfalso. subst y. cbn in Ly, C1. apply andb_true_iff in C1. destruct C1 as [C1 _]. rewrite Ly in C1. discriminate.
  - inversion H; subst. cbn in C1, C2. apply andb_true_iff in C1, C2.
    destruct (IH s2 (proj2 C1) (proj2 C2) Lx Ly H2) as [-> ->]. now split.
Qed.

Lemma digits_clean s : Forall (fun c => is_digit c = true) s -> clean_str s = true.
Proof.
  intros F. unfold clean_str. apply forallb_forall. intros c Hc. rewrite Forall_forall in F.
  specialize (F c Hc). unfold is_digit, delim in *. lia.
Qed.

Lemma clean_tag_head t : clean_tag t = true ->
  exists c t', t = c :: t' /\ delim c = false /\ c <> 109 /\ clean_str t = true.
Proof.
  unfold clean_tag. intros H. apply andb_true_iff in H. destruct H as [H1 H2].
  destruct t as [|c t']; [discriminate|]. exists c, t'. repeat split; [|lia|exact H1].
  cbn in H1. apply andb_true_iff in H1. destruct H1 as [H1 _]. now apply negb_true_iff in H1.
Qed.

Section RenderInj.
  Let P (c1 : container) : Prop :=
    forall c2 r1 r2, cleanb c1 = true -> cleanb c2 = true -> term r1 -> term r2 ->
                     repr c1 ++ r1 = repr c2 ++ r2 -> c1 = c2 /\ r1 = r2.
  Let Q (v1 : value) : Prop :=
    forall v2 r1 r2, cleanb_v v1 = true -> cleanb_v v2 = true -> vterm r1 -> vterm r2 ->
                     render_v v1 ++ r1 = render_v v2 ++ r2 -> v1 = v2 /\ r1 = r2.

  Lemma items_inj l1 :
    Forall (fun kv => Q (snd kv)) l1 ->
    forall l2 r1 r2, clean_items l1 = true -> clean_items l2 = true -> term r1 -> term r2 ->
      join [124] (map field l1) ++ r1 = join [124] (map field l2) ++ r2 -> l1 = l2 /\ r1 = r2.
  Proof.
    assert (NIL : forall t v l r r', clean_items ((t, v) :: l) = true -> term r ->
                    r = join [124] (map field ((t, v) :: l)) ++ r' -> False).
    { intros t v l r r' Cl T E. cbn [clean_items forallb fst] in Cl.
      apply andb_true_iff in Cl. destruct Cl as [Cl _]. apply andb_true_iff in Cl. destruct Cl as [Ct _].
      destruct (clean_tag_head _ Ct) as (c & t' & -> & D & _ & _).
      cbn [map] in E. rewrite join_cons in E. unfold field in E. cbn [fst app] in E. subst r. cbn in T.
      unfold delim in D. lia. }
    intros F. induction F as [|[t1 v1] l1 Hv F IH]; intros [|[t2 v2] l2] r1 r2 C1 C2 T1 T2 H.
    - cbn in H. now split.
    - exfalso. change (join [124] (map field [])) with (@nil N) in H. cbn [app] in H.
      eapply NIL; [exact C2|exact T1|exact H].
    - exfalso. change (join [124] (map field [])) with (@nil N) in H. cbn [app] in H. symmetry in H.
      eapply NIL; [exact C1|exact T2|exact H].
    - cbn [map] in H. rewrite !join_cons in H. unfold field in H at 1 3. cbn [fst snd] in H.
      rewrite <- !app_assoc in H. cbn [app] in H.
      cbn [clean_items forallb fst snd] in C1, C2. apply andb_true_iff in C1, C2.
      destruct C1 as [C1 C1'], C2 as [C2 C2']. apply andb_true_iff in C1, C2.
      destruct C1 as [Ct1 Cv1], C2 as [Ct2 Cv2].
      destruct (clean_tag_head _ Ct1) as (_ & _ & _ & _ & _ & Cs1).
      destruct (clean_tag_head _ Ct2) as (_ & _ & _ & _ & _ & Cs2).
      apply split_clean in H; [|exact Cs1|exact Cs2|reflexivity|reflexivity].
      destruct H as [-> H]. inversion H as [H']. clear H.
      cbn [snd] in Hv. apply Hv in H'; [|exact Cv1|exact Cv2| |].
      + destruct H' as [-> H'].
        destruct l1 as [|kv1 l1], l2 as [|kv2 l2]; cbn [map jtail app] in H'.
        * subst. now split.
        * exfalso. subst r1. cbn in T1. lia.
        * exfalso. subst r2. cbn in T2. lia.
        * inversion H' as [H'']. apply (IH (kv2 :: l2)) in H''; [|exact C1'|exact C2'|exact T1|exact T2].
          destruct H'' as [-> ->]. now split.
      + destruct l1; cbn [map jtail app]; [now apply term_vterm|cbn; auto].
      + destruct l2; cbn [map jtail app]; [now apply term_vterm|cbn; auto].
  Qed.

  Lemma group_inj g1 :
    Forall P g1 ->
    forall g2 r1 r2, length g1 = length g2 -> forallb cleanb g1 = true -> forallb cleanb g2 = true ->
      join [44; 32] (map repr g1) ++ 93 :: r1 = join [44; 32] (map repr g2) ++ 93 :: r2 ->
      g1 = g2 /\ r1 = r2.
  Proof.
    intros F. induction F as [|c1 g1 Hc F IH]; intros [|c2 g2] r1 r2 L C1 C2 H; try discriminate L.
    - cbn in H. inversion H. now split.
    - cbn [map] in H. rewrite !join_cons in H. rewrite <- !app_assoc in H.
      cbn [forallb] in C1, C2. apply andb_true_iff in C1, C2. destruct C1 as [Cc1 C1], C2 as [Cc2 C2].
      apply Hc in H; [|exact Cc1|exact Cc2| |].
      + destruct H as [-> H]. cbn [length] in L. inversion L as [L'].
        destruct g1 as [|d1 g1], g2 as [|d2 g2]; try discriminate L'; cbn [map jtail app] in H.
        * inversion H. now split.
        * inversion H as [H']. apply (IH (d2 :: g2)) in H'; [|exact L'|exact C1|exact C2].
          destruct H' as [-> ->]. now split.
      + destruct g1; cbn; auto.
      + destruct g2; cbn; auto.
  Qed.

  Lemma case_C m1 l1 : Forall (fun kv => Q (snd kv)) l1 -> P (C m1 l1).
  Proof.
      intros F [m2 l2] r1 r2 C1 C2 T1 T2 H.
      cbn [cleanb] in C1, C2. apply andb_true_iff in C1, C2. destruct C1 as [Cm1 C1], C2 as [Cm2 C2].
      unfold repr in H. cbn [mt] in H. rewrite !render_C in H.
      destruct m1 as [s1|], m2 as [s2|]; cbn [mt_prefix] in H.
      + rewrite <- !app_assoc in H. apply app_inv_head in H. cbn [app] in H.
        apply split_clean in H; [|exact Cm1|exact Cm2|reflexivity|reflexivity].
        destruct H as [-> H]. inversion H as [H'].
        destruct (items_inj l1 F l2 r1 r2 C1 C2 T1 T2 H') as [-> ->]. now split.
      + exfalso. destruct l2 as [|[t v] l2].
        * cbn in H. subst r2. cbn in T2. lia.
        * cbn [clean_items forallb fst] in C2. apply andb_true_iff in C2. destruct C2 as [C2 _].
          apply andb_true_iff in C2. destruct C2 as [Ct _].
          destruct (clean_tag_head _ Ct) as (c & t' & -> & _ & N & _).
          cbn [map] in H. rewrite join_cons in H. unfold field in H. cbn in H. inversion H. congruence.
      + exfalso. destruct l1 as [|[t v] l1].
        * cbn in H. subst r1. cbn in T1. lia.
        * cbn [clean_items forallb fst] in C1. apply andb_true_iff in C1. destruct C1 as [C1 _].
          apply andb_true_iff in C1. destruct C1 as [Ct _].
          destruct (clean_tag_head _ Ct) as (c & t' & -> & _ & N & _).
          cbn [map] in H. rewrite join_cons in H. unfold field in H. cbn in H. inversion H. congruence.
      + cbn [app] in H. destruct (items_inj l1 F l2 r1 r2 C1 C2 T1 T2 H) as [-> ->]. now split.
  Qed.

  Lemma case_VStr s1 : Q (VStr s1).
  Proof.
      intros [s2|g2|k2 x2] r1 r2 C1 C2 T1 T2 H; cbn [cleanb_v] in C1, C2; try discriminate C2.
      + cbn [render_v] in H. apply split_clean in H; auto using vterm_lead. destruct H as [-> ->]. now split.
      + exfalso. rewrite render_v_grp in H. cbn [render_v] in H. rewrite <- !app_assoc in H. cbn [app] in H.
        apply split_clean in H; [|exact C1|apply digits_clean, n_to_dec_digits|now apply vterm_lead|reflexivity].
        destruct H as [_ H]. subst r1. cbn in T1. lia.
  Qed.

  Lemma case_VGrp g1 : Forall P g1 -> Q (VGrp g1).
  Proof.
      intros F [s2|g2|k2 x2] r1 r2 C1 C2 T1 T2 H; cbn [cleanb_v] in C1, C2; try discriminate C2.
      + exfalso. rewrite render_v_grp in H. cbn [render_v] in H. rewrite <- !app_assoc in H. cbn [app] in H.
        symmetry in H.
        apply split_clean in H; [|exact C2|apply digits_clean, n_to_dec_digits|now apply vterm_lead|reflexivity].
        destruct H as [_ H]. subst r2. cbn in T2. lia.
      + rewrite !render_v_grp in H. rewrite <- !app_assoc in H. cbn [app] in H.
        apply split_clean in H; [|apply digits_clean, n_to_dec_digits|apply digits_clean, n_to_dec_digits
                                 |reflexivity|reflexivity].
        destruct H as [HL H]. apply n_to_dec_inj in HL. apply Nat2N.inj in HL.
        inversion H as [H']. destruct (group_inj g1 F g2 r1 r2 HL C1 C2 H') as [-> ->]. now split.
  Qed.

  Lemma case_VCls k x : Q (VCls k x).
  Proof. intros v2 r1 r2 C1. discriminate C1. Qed.

  Lemma container_inj c : P c.
  Proof. exact (container_ind2 P Q case_C case_VStr case_VGrp case_VCls c). Qed.
  Lemma value_inj v : Q v.
  Proof. exact (value_ind2 P Q case_C case_VStr case_VGrp case_VCls v). Qed.
End RenderInj.

(* __str__ is injective on containers without punctuation in tags and values (a statement about the
   rendering; equality no longer goes through it) *)
Lemma render_inj_clean a b : clean a = true -> clean b = true -> render a = render b -> items a = items b.
Proof.
  intros Ca Cb H. rewrite !render_items in H.
  assert (H' : join [124] (map field (items a)) ++ [] = join [124] (map field (items b)) ++ [])
    by now rewrite !app_nil_r.
  apply items_inj in H'; [now destruct H'| |exact Ca|exact Cb|exact I|exact I].
  apply Forall_forall. intros kv _. apply value_inj.
Qed.

Lemma render_iff_clean a b :
  clean a = true -> clean b = true -> (render a = render b <-> items a = items b).
Proof.
  intros Ca Cb. split; [now apply render_inj_clean|]. intros H. now rewrite !render_items, H.
Qed.

(* ================================================================ equality is equality of content *)

Section ContInd.
  Context (P : cont -> Prop).
  Context (HS : forall s, P (KStr s)) (HE : P KErr) (HK : forall t, P (KCls t)).
  Context (HG : forall g, Forall (Forall (fun kv => P (snd kv))) g -> P (KGrp g)).

  Fixpoint cont_ind2 (a : cont) : P a :=
    match a with
    | KStr s => HS s
    | KErr => HE
    | KCls t => HK t
    | KGrp g =>
        HG g ((fix go (g : list (list (str * cont))) : Forall (Forall (fun kv => P (snd kv))) g :=
                 match g with
                 | [] => Forall_nil _
                 | l :: g' =>
                     Forall_cons l
                       ((fix go2 (l : list (str * cont)) : Forall (fun kv => P (snd kv)) l :=
                           match l with
                           | [] => Forall_nil _
                           | kv :: l' => Forall_cons kv (cont_ind2 (snd kv)) (go2 l')
                           end) l)
                       (go g')
                 end) g)
    end.
End ContInd.

Lemma list_eqb_spec {A} (eqb : A -> A -> bool) l1 :
  Forall (fun x => forall y, eqb x y = true <-> x = y) l1 ->
  forall l2, list_eqb eqb l1 l2 = true <-> l1 = l2.
Proof.
  intros F. induction F as [|x l1 Hx F IH]; intros [|y l2]; cbn [list_eqb]; split; intros H;
    try discriminate; try reflexivity.
  - apply andb_true_iff in H. destruct H as [H1 H2]. apply Hx in H1. apply IH in H2. now subst.
  - inversion H; subst. apply andb_true_iff. split; [now apply Hx|now apply IH].
Qed.

Lemma cont_eqb_eq a : forall b, cont_eqb a b = true <-> a = b.
Proof.
  apply (cont_ind2 (fun a => forall b, cont_eqb a b = true <-> a = b)).
  - intros s [t|h| |t]; cbn [cont_eqb]; split; intros H; try discriminate.
    + apply str_eqb_eq in H. now subst.
    + inversion H. apply str_eqb_refl.
  - intros [t|h| |t]; cbn [cont_eqb]; split; intros H; try discriminate; reflexivity.
  - intros s [t|h| |t]; cbn [cont_eqb]; split; intros H; try discriminate.
    + apply str_eqb_eq in H. now subst.
    + inversion H. apply str_eqb_refl.
  - intros g F [t|h| |t]; cbn [cont_eqb]; try (split; intros H; discriminate).
    assert (G : list_eqb (list_eqb (fun p q => str_eqb (fst p) (fst q) && cont_eqb (snd p) (snd q))) g h = true
                <-> g = h).
    { apply list_eqb_spec. eapply Forall_impl; [|exact F]. intros l Fl l'.
      apply list_eqb_spec. eapply Forall_impl; [|exact Fl]. intros [k v] Hv [k' v']. cbn [fst snd] in *.
      rewrite andb_true_iff, str_eqb_eq, Hv. split; [intros [-> ->]; reflexivity|intros H; now inversion H]. }
    rewrite G. split; [now intros ->|intros H; now inversion H].
Qed.

Lemma pair_eqb_eq p q : pair_eqb p q = true <-> p = q.
Proof.
  destruct p as [k v], q as [k' v']. unfold pair_eqb. cbn [fst snd].
  rewrite andb_true_iff, str_eqb_eq, cont_eqb_eq. split; [intros [-> ->]; reflexivity|intros H; now inversion H].
Qed.

(* container == container, for ALL containers: exactly equality of content *)
Lemma c_eq_iff_content a b : c_eq a b = true <-> content a = content b.
Proof.
  unfold c_eq. apply list_eqb_spec. apply Forall_forall. intros p _ q. apply pair_eqb_eq.
Qed.

Lemma content_items c : content c = map (fun kv => (fst kv, content_v (snd kv))) (items c).
Proof. now destruct c. Qed.

Lemma c_eq_same_items a b : items a = items b -> c_eq a b = true.
Proof. intros H. apply c_eq_iff_content. now rewrite !content_items, H. Qed.

Lemma c_eq_refl a : c_eq a a = true.
Proof. now apply c_eq_same_items. Qed.

Lemma c_eq_sym a b : c_eq a b = c_eq b a.
Proof.
  destruct (c_eq a b) eqn:E, (c_eq b a) eqn:F; try reflexivity.
  - apply c_eq_iff_content in E. symmetry in E. apply c_eq_iff_content in E. congruence.
  - apply c_eq_iff_content in F. symmetry in F. apply c_eq_iff_content in F. congruence.
Qed.

Lemma c_eq_trans a b c : c_eq a b = true -> c_eq b c = true -> c_eq a c = true.
Proof. rewrite !c_eq_iff_content. congruence. Qed.

(* equal containers have the same tags in the same order *)
Lemma c_eq_keys a b : c_eq a b = true -> keys a = keys b.
Proof.
  rewrite c_eq_iff_content, !content_items. unfold keys. intros H.
  apply (f_equal (map fst)) in H. rewrite !map_map in H. exact H.
Qed.

(* containers built from plain strings and plain FIXContainer items only (no class objects, no
   FIXMessage inside a group): content is the items themselves *)
Fixpoint pureb (c : container) : bool :=
  match c with
  | C m l => match m with None => true | Some _ => false end
             && forallb (fun kv => pureb_v (snd kv)) l
  end
with pureb_v (v : value) : bool :=
  match v with
  | VStr _ => true
  | VGrp g => forallb pureb g
  | VCls _ _ => false
  end.
Definition pure (c : container) : bool := forallb (fun kv => pureb_v (snd kv)) (items c).

Section ContentInj.
  Let P (c1 : container) : Prop :=
    forall c2, pureb c1 = true -> pureb c2 = true -> content c1 = content c2 -> c1 = c2.
  Let Q (v1 : value) : Prop :=
    forall v2, pureb_v v1 = true -> pureb_v v2 = true -> content_v v1 = content_v v2 -> v1 = v2.

  Lemma content_items_inj (l1 : list (str * value)) :
    Forall (fun kv => Q (snd kv)) l1 ->
    forall l2 : list (str * value), forallb (fun kv => pureb_v (snd kv)) l1 = true -> forallb (fun kv => pureb_v (snd kv)) l2 = true ->
      map (fun kv => (fst kv, content_v (snd kv))) l1 = map (fun kv => (fst kv, content_v (snd kv))) l2 ->
      l1 = l2.
  Proof.
    intros F. induction F as [|[k v] l1 Hv F IH]; intros [|[k' v'] l2] P1 P2 H; cbn [map] in H;
      try discriminate; [reflexivity|].
    cbn [forallb fst snd] in *. apply andb_true_iff in P1, P2. destruct P1 as [Pv P1], P2 as [Pv' P2].
    injection H as Hk Hc Hl. subst k'. rewrite (Hv v' Pv Pv' Hc), (IH l2 P1 P2 Hl). reflexivity.
  Qed.

  Lemma content_case_C m l : Forall (fun kv => Q (snd kv)) l -> P (C m l).
  Proof.
    intros F [m2 l2] P1 P2 H. cbn [pureb] in P1, P2. apply andb_true_iff in P1, P2.
    destruct P1 as [M1 P1], P2 as [M2 P2]. destruct m as [?|]; [discriminate|]. destruct m2 as [?|]; [discriminate|].
    cbn [content] in H. now rewrite (content_items_inj l F l2 P1 P2 H).
  Qed.

  Lemma content_case_VGrp g : Forall P g -> Q (VGrp g).
  Proof.
    intros F [s|h|k x] P1 P2 H; cbn [pureb_v content_v] in *; try discriminate.
    injection H as H'. f_equal. revert h P2 H'.
    induction F as [|c g Hc F IH]; intros [|d h] P2 H'; cbn [map] in H'; try discriminate; [reflexivity|].
    cbn [forallb] in P1, P2. apply andb_true_iff in P1, P2. destruct P1 as [Pc P1], P2 as [Pd P2].
    injection H' as Hcd Hl. rewrite (Hc d Pc Pd Hcd), (IH P1 h P2 Hl). reflexivity.
  Qed.

  Lemma content_case_VStr s : Q (VStr s).
  Proof.
    intros [t|h|k x] _ P2 H; cbn [pureb_v content_v] in *; try discriminate.
    now inversion H.
  Qed.

  Lemma content_case_VCls k x : Q (VCls k x).
  Proof. intros v2 P1. discriminate P1. Qed.

  Lemma content_value_inj v : Q v.
  Proof. exact (value_ind2 P Q content_case_C content_case_VStr content_case_VGrp content_case_VCls v). Qed.
End ContentInj.

Lemma c_eq_iff_items_pure a b : pure a = true -> pure b = true -> (c_eq a b = true <-> items a = items b).
Proof.
  intros Pa Pb. split; [|apply c_eq_same_items].
  rewrite c_eq_iff_content, !content_items. apply content_items_inj; [|exact Pa|exact Pb].
  apply Forall_forall. intros kv _. apply content_value_inj.
Qed.

Lemma clean_tag_z_to_dec z : clean_tag (z_to_dec z) = true.
Proof.
  assert (D : forall n, clean_tag (n_to_dec n) = true).
  { intros n. unfold clean_tag. rewrite digits_clean by apply n_to_dec_digits.
    pose proof (n_to_dec_digits n) as F. pose proof (n_to_dec_nonempty n) as NE.
    destruct (n_to_dec n) as [|c r]; [contradiction|]. inversion F as [|? ? Dc _]; subst.
    unfold is_digit in Dc. cbn [andb]. lia. }
  destruct z as [|p|p]; cbn [z_to_dec]; [reflexivity|apply D|].
  specialize (D (Npos p)). unfold clean_tag in *. apply andb_true_iff in D. destruct D as [D1 D2].
  cbn [clean_str forallb]. unfold clean_str in D1. rewrite D1. reflexivity.
Qed.

(* ================================================================ unique keys: an invariant of every operation *)

(* well formed: keys are unique and are integer keys (int() accepts them), at every depth *)
Inductive wfc : container -> Prop :=
| wf_C m l : NoDup (map fst l) -> Forall (fun k => key_ok k = true) (map fst l) ->
             Forall (fun kv => wfv (snd kv)) l -> wfc (C m l)
with wfv : value -> Prop :=
| wf_VStr s : wfv (VStr s)
| wf_VGrp g : Forall wfc g -> wfv (VGrp g)
| wf_VCls k x : wfv (VCls k x).

Lemma wfc_keys c : wfc c -> NoDup (keys c).
Proof. intros H. now inversion H. Qed.

Lemma wfc_int_keys c : wfc c -> Forall (fun k => key_ok k = true) (keys c).
Proof. intros H. now inversion H. Qed.

Lemma wfc_values c : wfc c -> Forall (fun kv => wfv (snd kv)) (items c).
Proof. intros H. now inversion H. Qed.

Lemma wfc_intro c :
  NoDup (keys c) -> Forall (fun k => key_ok k = true) (keys c) ->
  Forall (fun kv => wfv (snd kv)) (items c) -> wfc c.
Proof. destruct c. now constructor. Qed.

Lemma wf_empty m : wfc (C m []).
Proof. constructor; constructor. Qed.

Lemma wf_lookup c k v : wfc c -> lookup k (items c) = Some v -> wfv v.
Proof.
  intros W L. apply lookup_In in L. pose proof (wfc_values _ W) as F. rewrite Forall_forall in F.
  now apply (F (k, v)).
Qed.

Lemma wf_assign c k v : wfc c -> key_ok k = true -> wfv v -> wfc (with_items c (assign k v (items c))).
Proof.
  intros W K Wv. apply wfc_intro.
  - unfold keys. rewrite items_with_items. apply assign_NoDup. now apply wfc_keys.
  - unfold keys. rewrite items_with_items, assign_keys. pose proof (wfc_int_keys _ W) as F. unfold keys in F.
    destruct (has k (items c)); [exact F|]. apply Forall_app. split; [exact F|]. now constructor.
  - rewrite items_with_items. apply Forall_forall. intros kv H. apply assign_In in H.
    destruct H as [[E _]|H]; [rewrite E; exact Wv|].
    pose proof (wfc_values _ W) as F. rewrite Forall_forall in F. now apply F.
Qed.

Lemma wf_remove c k : wfc c -> wfc (with_items c (remove k (items c))).
Proof.
  intros W. apply wfc_intro.
  - unfold keys. rewrite items_with_items. apply remove_NoDup. now apply wfc_keys.
  - unfold keys. rewrite items_with_items. apply Forall_forall. intros k' H.
    apply in_map_iff in H. destruct H as (kv & <- & H). apply remove_incl in H.
    pose proof (wfc_int_keys _ W) as F. rewrite Forall_forall in F. apply F. unfold keys.
    apply in_map_iff. now exists kv.
  - rewrite items_with_items. apply Forall_forall. intros kv H. apply remove_incl in H.
    pose proof (wfc_values _ W) as F. rewrite Forall_forall in F. now apply F.
Qed.

Lemma set_wf t v r c : wfc c -> wfc (fst (c_set t v r c)).
Proof.
  intros W. unfold c_set. destruct (tag_ok t) eqn:T; cbn [negb fst]; [|exact W].
  destruct v as [s|k x].
  - destruct (negb r && has (tag_str t) (items c)); cbn [fst]; [exact W|].
    apply wf_assign; [exact W|exact T|constructor].
  - cbn [fst]. apply wf_assign; [exact W|exact T|constructor].
Qed.

Lemma del_wf t c : wfc c -> wfc (fst (c_del t c)).
Proof.
  intros W. unfold c_del. destruct (has (tag_str t) (items c)); cbn [fst]; [|exact W]. now apply wf_remove.
Qed.

Lemma py_insert_Forall {A} (P : A -> Prop) idx x l : P x -> Forall P l -> Forall P (py_insert idx x l).
Proof.
  intros Px F. destruct (py_insert_spec idx x l) as (a & b & E & -> & _). subst l.
  apply Forall_app in F. destruct F as [Fa Fb]. apply Forall_app. split; [exact Fa|now constructor].
Qed.

Lemma add_group_wf t item idx c :
  wfc c -> (forall it, item = Ok it -> wfc it) -> wfc (fst (c_add_group t item idx c)).
Proof.
  intros W Wi. unfold c_add_group. destruct (tag_ok t) eqn:T; cbn [negb fst]; [|exact W].
  destruct item as [it|e]; [|exact W].
  specialize (Wi it eq_refl).
  destruct (lookup (tag_str t) (items c)) as [[s|g|k x]|] eqn:L; cbn [fst]; try exact W.
  - apply wf_assign; [exact W|exact T|]. constructor. apply py_insert_Forall; [exact Wi|].
    pose proof (wf_lookup _ _ _ W L) as Wg. now inversion Wg.
  - apply wf_assign; [exact W|exact T|]. constructor. apply py_insert_Forall; [exact Wi|constructor].
Qed.

Lemma set_group_wf t g c :
  wfc c -> (forall g', g = Ok g' -> Forall wfc g') -> wfc (fst (c_set_group t g c)).
Proof.
  intros W Wg. unfold c_set_group. destruct (tag_ok t) eqn:T; cbn [negb fst]; [|exact W].
  destruct (has (tag_str t) (items c)); cbn [fst]; [exact W|].
  destruct g as [g'|e]; cbn [fst]; [|exact W]. apply wf_assign; [exact W|exact T|]. constructor. now apply Wg.
Qed.

Lemma group_list_wf t c g : wfc c -> c_get_group_list t c = Ok g -> Forall wfc g.
Proof.
  intros W. rewrite group_list_classes.
  destruct (lookup (tag_str t) (items c)) as [[s|g0|k x]|] eqn:L; try discriminate.
  intros H. inversion H; subst. pose proof (wf_lookup _ _ _ W L) as Wg. now inversion Wg.
Qed.

Lemma find_group_In gt gv g x : find_group gt gv g = Ok x -> In x g.
Proof.
  induction g as [|y g IH]; cbn [find_group]; [discriminate|].
  destruct (c_contains gt y).
  - destruct (c_get gt DRaise y) as [r|e]; [|discriminate].
    destruct (rval_is r gv); intros H; [inversion H; now left|right; now apply IH].
  - intros H. right. now apply IH.
Qed.

Lemma group_by_tag_wf t gt gv c x : wfc c -> c_get_group_by_tag t gt gv c = Ok x -> wfc x.
Proof.
  intros W. unfold c_get_group_by_tag. destruct (c_get_group_list t c) as [g|e] eqn:G; [|discriminate].
  intros H. apply find_group_In in H. pose proof (group_list_wf _ _ _ W G) as F.
  rewrite Forall_forall in F. now apply F.
Qed.

Lemma nth_res_In n g x : nth_res n g = Ok x -> In x g.
Proof.
  unfold nth_res. destruct (nth_error g n) eqn:E; [|discriminate]. intros H. inversion H; subst.
  now apply nth_error_In in E.
Qed.

Lemma group_by_index_In t idx c x :
  c_get_group_by_index t idx c = Ok x -> exists g, c_get_group_list t c = Ok g /\ In x g.
Proof.
  unfold c_get_group_by_index. destruct (c_get_group_list t c) as [g|e]; [|discriminate].
  intros H. exists g. split; [reflexivity|].
  destruct ((Z.of_nat (length g) <=? idx)%Z || (idx <? - Z.of_nat (length g))%Z); [discriminate|].
  destruct (0 <=? idx)%Z; now apply nth_res_In in H.
Qed.

Lemma group_by_index_wf t idx c x : wfc c -> c_get_group_by_index t idx c = Ok x -> wfc x.
Proof.
  intros W H. destruct (group_by_index_In _ _ _ _ H) as (g & G & I).
  pose proof (group_list_wf _ _ _ W G) as F. rewrite Forall_forall in F. now apply F.
Qed.

(* ---- argument literals ---- *)

Section DitemInd.
  Context (P : ditem -> Prop) (Q : dval -> Prop).
  Context (HD : forall d, Forall (fun td => Q (snd td)) d -> P (IDict d)).
  Context (HV : forall j, P (IVar j)).
  Context (HB : P IBad).
  Context (HVal : forall v, Q (DVal v)).
  Context (HL : forall l, Forall P l -> Q (DList l)).

  Fixpoint ditem_ind2 (i : ditem) : P i :=
    match i with
    | IDict d =>
        HD d ((fix go (d : list (tag * dval)) : Forall (fun td => Q (snd td)) d :=
                 match d with
                 | [] => Forall_nil _
                 | td :: d' => Forall_cons td (dval_ind2 (snd td)) (go d')
                 end) d)
    | IVar j => HV j
    | IBad => HB
    end
  with dval_ind2 (dv : dval) : Q dv :=
    match dv with
    | DVal v => HVal v
    | DList l =>
        HL l ((fix go (l : list ditem) : Forall P l :=
                 match l with
                 | [] => Forall_nil _
                 | i :: l' => Forall_cons i (ditem_ind2 i) (go l')
                 end) l)
    end.
End DitemInd.

Definition dentry_wf (e : dentry) : Prop :=
  match e with EGrp (Ok g) => Forall wfc g | _ => True end.

Lemma init_step_wf c t e c' : wfc c -> dentry_wf e -> init_step c t e = Ok c' -> wfc c'.
Proof.
  intros W We. unfold init_step. destruct e as [v|g].
  - pose proof (set_wf t v false c W) as H. destruct (c_set t v false c) as [c1 [u|x]]; [|discriminate].
    intros E. inversion E; subst. exact H.
  - assert (H : wfc (fst (c_set_group t g c))).
    { apply set_group_wf; [exact W|]. intros g' ->. exact We. }
    destruct (c_set_group t g c) as [c1 [u|x]]; [|discriminate]. intros E. inversion E; subst. exact H.
Qed.

Lemma build_from_wf conv d :
  Forall (fun td => dentry_wf (conv (snd td))) d ->
  forall c c', wfc c -> build_from conv d c = Ok c' -> wfc c'.
Proof.
  intros F. induction F as [|td d Hd F IH]; intros c c' W; cbn [build_from].
  - intros H. inversion H; subst. exact W.
  - destruct (init_step c (fst td) (conv (snd td))) as [c1|e] eqn:E; [|discriminate].
    apply IH. eapply init_step_wf; eauto.
Qed.

Lemma mapM_Forall {A B} (f : A -> res B) (P : B -> Prop) l ys :
  Forall (fun x => forall y, f x = Ok y -> P y) l -> mapM f l = Ok ys -> Forall P ys.
Proof.
  intros F. revert ys. induction F as [|x l Hx F IH]; intros ys; cbn [mapM].
  - intros H. inversion H. constructor.
  - destruct (f x) as [y|e] eqn:E; [|discriminate]. destruct (mapM f l) as [ys'|e]; [|discriminate].
    intros H. inversion H; subst. constructor; [now apply Hx|now apply IH].
Qed.

Lemma conv_item_dict p d : conv_item p (IDict d) = build_from (conv_dval p) d empty.
Proof. reflexivity. Qed.
Lemma conv_dval_list p l : conv_dval p (DList l) = EGrp (mapM (conv_item p) l).
Proof. reflexivity. Qed.

Section ConvWf.
  Context (p : list container) (Wp : Forall wfc p).

  Lemma var_wf j : wfc (nth j p empty).
  Proof.
    destruct (nth_in_or_default j p empty) as [H| ->]; [|apply wf_empty].
    rewrite Forall_forall in Wp. now apply Wp.
  Qed.

  Lemma conv_item_wf i : forall c, conv_item p i = Ok c -> wfc c.
  Proof.
    apply (ditem_ind2 (fun i => forall c, conv_item p i = Ok c -> wfc c)
                      (fun dv => dentry_wf (conv_dval p dv))).
    - intros d F c H. rewrite conv_item_dict in H. eapply build_from_wf; [exact F|apply wf_empty|exact H].
    - intros j c H. change (conv_item p (IVar j)) with (Ok (nth j p empty)) in H. inversion H. apply var_wf.
    - intros c H. discriminate H.
    - intros v. exact I.
    - intros l F. rewrite conv_dval_list. cbn [dentry_wf]. destruct (mapM (conv_item p) l) as [g|e] eqn:E; [|exact I].
      eapply mapM_Forall; [exact F|exact E].
  Qed.

  Lemma conv_dval_wf dv : dentry_wf (conv_dval p dv).
  Proof.
    destruct dv as [v|l]; [exact I|]. rewrite conv_dval_list. cbn [dentry_wf].
    destruct (mapM (conv_item p) l) as [g|e] eqn:E; [|exact I].
    eapply mapM_Forall; [|exact E]. apply Forall_forall. intros i _. apply conv_item_wf.
  Qed.

  Lemma c_new_wf m d c : c_new p m d = Ok c -> wfc c.
  Proof.
    unfold c_new. apply build_from_wf; [|apply wf_empty].
    apply Forall_forall. intros td _. apply conv_dval_wf.
  Qed.

  Lemma conv_items_wf l g : mapM (conv_item p) l = Ok g -> Forall wfc g.
  Proof. apply mapM_Forall. apply Forall_forall. intros i _. apply conv_item_wf. Qed.
End ConvWf.

(* ---- items reached through the accessors ---- *)

Lemma set_nth_Forall {A} (P : A -> Prop) n x l : P x -> Forall P l -> Forall P (set_nth n x l).
Proof.
  intros Px F. revert n. induction F as [|y l Hy F IH]; intros [|n]; cbn [set_nth]; try constructor; auto.
Qed.


Lemma nth_res_nth_error n g : nth_res n g = match nth_error g n with Some x => Ok x | None => Exc EIndexError end.
Proof. reflexivity. Qed.

(* locate finds the very item the accessor returns *)
Lemma locate_by_index t idx c :
  c_get_group_by_index t idx c =
  match locate (SIdx t idx) c with Ok (_, _, _, x) => Ok x | Exc e => Exc e end.
Proof.
  unfold c_get_group_by_index, locate, idx_pos, py_pos. cbn [step_tag].
  destruct (c_get_group_list t c) as [g|e]; [|reflexivity].
  destruct ((Z.of_nat (length g) <=? idx)%Z || (idx <? - Z.of_nat (length g))%Z); [reflexivity|].
  rewrite !nth_res_nth_error.
  destruct (0 <=? idx)%Z; [destruct (nth_error g (Z.to_nat idx))|destruct (nth_error g (Z.to_nat (Z.of_nat (length g) + idx)))];
    reflexivity.
Qed.

Lemma find_group_by_pos gt gv g :
  find_group gt gv g = match find_group_pos gt gv g with Ok n => nth_res n g | Exc e => Exc e end.
Proof.
  induction g as [|x g IH]; cbn [find_group find_group_pos]; [reflexivity|].
  assert (R : find_group gt gv g =
              match (match find_group_pos gt gv g with Ok n => Ok (S n) | Exc e => Exc e end) with
              | Ok n => nth_res n (x :: g) | Exc e => Exc e end).
  { rewrite IH. destruct (find_group_pos gt gv g); reflexivity. }
  destruct (c_contains gt x); [|exact R].
  destruct (c_get gt DRaise x) as [r|e]; [|reflexivity].
  destruct (rval_is r gv); [reflexivity|exact R].
Qed.

Lemma locate_by_tag t gt gv c :
  c_get_group_by_tag t gt gv c =
  match locate (STag t gt gv) c with Ok (_, _, _, x) => Ok x | Exc e => Exc e end.
Proof.
  unfold c_get_group_by_tag, locate. cbn [step_tag].
  destruct (c_get_group_list t c) as [g|e]; [|reflexivity].
  rewrite find_group_by_pos. destruct (find_group_pos gt gv g) as [n|e]; [|reflexivity].
  rewrite nth_res_nth_error. destruct (nth_error g n); reflexivity.
Qed.

Lemma locate_inv s c k g n x :
  locate s c = Ok (k, g, n, x) ->
  k = tag_str (step_tag s) /\ lookup k (items c) = Some (VGrp g) /\ nth_error g n = Some x.
Proof.
  unfold locate. rewrite group_list_classes.
  destruct (lookup (tag_str (step_tag s)) (items c)) as [[s0|g0|k0 x0]|] eqn:L; try discriminate.
  destruct (match s with SIdx _ idx => _ | STag _ gt gv => _ | SList _ n0 => _ end) as [n0|e]; [|discriminate].
  destruct (nth_error g0 n0) as [x0|] eqn:N; [|discriminate]. intros H. inversion H; subst. auto.
Qed.

Lemma assign_same {V} k (v : V) l : lookup k l = Some v -> assign k v l = l.
Proof.
  induction l as [|[k' v'] l IH]; cbn; [discriminate|]. destruct (str_eqb k' k) eqn:E.
  - intros H. now inversion H.
  - intros H. now rewrite IH.
Qed.

Lemma set_nth_same {A} n (x : A) l : nth_error l n = Some x -> set_nth n x l = l.
Proof.
  revert n. induction l as [|y l IH]; intros [|n]; cbn; try discriminate.
  - intros H. now inversion H.
  - intros H. now rewrite IH.
Qed.

Lemma nth_error_set_nth {A} n (x y : A) l : nth_error l n = Some y -> nth_error (set_nth n x l) n = Some x.
Proof.
  revert n. induction l as [|z l IH]; intros [|n]; cbn; try discriminate; [reflexivity|apply IH].
Qed.

Lemma set_nth_length {A} n (x : A) l : length (set_nth n x l) = length l.
Proof. revert n. induction l as [|z l IH]; intros [|n]; cbn; try reflexivity. now rewrite IH. Qed.

(* a failing accessor, or a call that leaves the item as it is, leaves the container as it is *)
Lemma at_path_error {R} path (f : container -> container * R) c c' e :
  at_path path f c = (c', Exc e) -> c' = c.
Proof.
  revert c c'. induction path as [|s path IH]; intros c c'; cbn [at_path].
  - destruct (f c). discriminate.
  - destruct (locate s c) as [[[[k g] n] x]|e'] eqn:L; [|intros H; now inversion H].
    destruct (at_path path f x) as [x' r] eqn:A. intros H. inversion H; subst.
    apply IH in A. subst x'. destruct (locate_inv _ _ _ _ _ _ L) as (_ & Lk & Ln).
    rewrite (set_nth_same _ _ _ Ln), (assign_same _ _ _ Lk). apply with_items_id.
Qed.

Lemma at_path_id {R} path (f : container -> container * R) c :
  (forall x, fst (f x) = x) -> fst (at_path path f c) = c.
Proof.
  intros F. revert c. induction path as [|s path IH]; intros c; cbn [at_path].
  - specialize (F c). destruct (f c). exact F.
  - destruct (locate s c) as [[[[k g] n] x]|e'] eqn:L; [|reflexivity].
    specialize (IH x). destruct (at_path path f x) as [x' r]. cbn [fst] in *. subst x'.
    destruct (locate_inv _ _ _ _ _ _ L) as (_ & Lk & Ln).
    rewrite (set_nth_same _ _ _ Ln), (assign_same _ _ _ Lk). apply with_items_id.
Qed.

(* one accessor call, then f: the container afterwards holds f's item at that position of that group,
   nothing else moved - the accessor gives back the changed item, and so does every later reading *)
Lemma at_path_one {R} s (f : container -> container * R) c k g n x :
  locate s c = Ok (k, g, n, x) ->
  let c' := fst (at_path [s] f c) in
  at_path [s] f c = (with_items c (assign k (VGrp (set_nth n (fst (f x)) g)) (items c)), Ok (snd (f x)))
  /\ c_get_group_list (step_tag s) c' = Ok (set_nth n (fst (f x)) g)
  /\ nth_error (set_nth n (fst (f x)) g) n = Some (fst (f x))
  /\ keys c' = keys c /\ mt c' = mt c
  /\ forall k', k' <> k -> lookup k' (items c') = lookup k' (items c).
Proof.
  intros L. destruct (locate_inv _ _ _ _ _ _ L) as (Ek & Lk & Ln).
  cbn [at_path]. rewrite L. destruct (f x) as [x' r] eqn:F. cbn [fst snd].
  split; [reflexivity|]. rewrite group_list_classes, items_with_items. subst k.
  rewrite lookup_assign_same. split; [reflexivity|]. split; [now apply (nth_error_set_nth _ _ x)|].
  split; [|split; [reflexivity|]].
  - unfold keys. rewrite items_with_items. apply assign_keys_existing. unfold has. now rewrite Lk.
  - intros k' N. now apply lookup_assign_other.
Qed.

Lemma locate_wf s c k g n x :
  wfc c -> locate s c = Ok (k, g, n, x) -> key_ok k = true /\ Forall wfc g /\ wfc x.
Proof.
  intros W L. destruct (locate_inv _ _ _ _ _ _ L) as (_ & Lk & Ln).
  pose proof (wf_lookup _ _ _ W Lk) as Wg. inversion Wg as [|g' Fg|]; subst. split; [|split].
  - pose proof (wfc_int_keys _ W) as F. rewrite Forall_forall in F. apply F. unfold keys.
    apply lookup_In in Lk. apply in_map_iff. now exists (k, VGrp g).
  - exact Fg.
  - rewrite Forall_forall in Fg. apply Fg. now apply nth_error_In in Ln.
Qed.

Lemma at_path_wf {R} path (f : container -> container * R) :
  (forall x, wfc x -> wfc (fst (f x))) -> forall c, wfc c -> wfc (fst (at_path path f c)).
Proof.
  intros F. induction path as [|s path IH]; intros c W; cbn [at_path].
  - specialize (F c W). destruct (f c). exact F.
  - destruct (locate s c) as [[[[k g] n] x]|e'] eqn:L; [|exact W].
    destruct (locate_wf _ _ _ _ _ _ W L) as (K & Fg & Wx). specialize (IH x Wx).
    destruct (at_path path f x) as [x' r]. cbn [fst] in *.
    apply wf_assign; [exact W|exact K|]. constructor. now apply set_nth_Forall.
Qed.

(* ---- the run ---- *)

Lemma apply_lop_wf p o x : Forall wfc p -> wfc x -> wfc (fst (apply_lop p o x)).
Proof.
  intros Wp W. destruct o; cbn [apply_lop].
  - pose proof (set_wf t v replace x W) as H. destruct (c_set t v replace x). exact H.
  - pose proof (del_wf t x W) as H. destruct (c_del t x). exact H.
  - assert (H : wfc (fst (c_add_group t (conv_item p it) idx x))).
    { apply add_group_wf; [exact W|]. intros it'. now apply conv_item_wf. }
    destruct (c_add_group t (conv_item p it) idx x). exact H.
  - assert (H : wfc (fst (c_set_group t (mapM (conv_item p) l) x))).
    { apply set_group_wf; [exact W|]. intros g'. now apply conv_items_wf. }
    destruct (c_set_group t (mapM (conv_item p) l) x). exact H.
  - cbn [fst]. destruct x as [[m|] l]; cbn [set_msg_type]; [|exact W]. inversion W; subst. now constructor.
  - exact W.
Qed.

Lemma step_wf p o : Forall wfc p -> Forall wfc (fst (step p o)).
Proof.
  intros W. pose proof (var_wf p W) as V.
  destruct o; cbn [step]; try exact W.
  - destruct (c_new p m d) as [c|e] eqn:E; cbn [fst]; [|exact W].
    apply set_nth_Forall; [|exact W]. eapply c_new_wf; eauto.
  - pose proof (set_wf t v replace (var p i) (V i)) as H.
    destruct (c_set t v replace (var p i)) as [c x]. cbn [fst] in *. now apply set_nth_Forall.
  - pose proof (del_wf t (var p i) (V i)) as H.
    destruct (c_del t (var p i)) as [c x]. cbn [fst] in *. now apply set_nth_Forall.
  - assert (H : wfc (fst (c_add_group t (conv_item p it) idx (var p i)))).
    { apply add_group_wf; [apply V|]. intros it'. now apply conv_item_wf. }
    destruct (c_add_group t (conv_item p it) idx (var p i)) as [c x]. cbn [fst] in *. now apply set_nth_Forall.
  - assert (H : wfc (fst (c_set_group t (mapM (conv_item p) l) (var p i)))).
    { apply set_group_wf; [apply V|]. intros g'. now apply conv_items_wf. }
    destruct (c_set_group t (mapM (conv_item p) l) (var p i)) as [c x]. cbn [fst] in *. now apply set_nth_Forall.
  - cbn [fst]. unfold store. destruct dst as [j|]; [|exact W].
    destruct (c_get_group_by_tag t gt gv (var p i)) as [c|e] eqn:E; [|exact W].
    apply set_nth_Forall; [|exact W]. eapply group_by_tag_wf; [apply V|exact E].
  - cbn [fst]. unfold store. destruct dst as [j|]; [|exact W].
    destruct (c_get_group_by_index t idx (var p i)) as [c|e] eqn:E; [|exact W].
    apply set_nth_Forall; [|exact W]. eapply group_by_index_wf; [apply V|exact E].
  - cbn [fst]. pose proof (V i) as H. unfold var in *. destruct (nth i p empty) as [[s0|] l]; [|exact W].
    apply set_nth_Forall; [|exact W]. inversion H; subst. now constructor.
  - pose proof (at_path_wf path (apply_lop p o) (fun x => apply_lop_wf p o x W) (var p i) (V i)) as H.
    destruct (at_path path (apply_lop p o) (var p i)) as [c r]. cbn [fst] in *. now apply set_nth_Forall.
Qed.

Lemma init_wf n : Forall wfc (init n).
Proof. unfold init. induction n; cbn; constructor; [apply wf_empty|assumption]. Qed.

(* keys stay unique and integer, at every depth, in every variable, after every operation sequence *)
Lemma reachable_wf n ops : Forall wfc (run_state n ops).
Proof.
  unfold run_state.
  assert (G : forall p, Forall wfc p -> Forall wfc (fold_left (fun p o => fst (step p o)) ops p)).
  { induction ops as [|o ops IH]; cbn [fold_left]; intros p W; [exact W|]. apply IH. now apply step_wf. }
  apply G. apply init_wf.
Qed.

Lemma reachable_unique_keys n ops c :
  In c (run_state n ops) -> NoDup (keys c) /\ Forall (fun k => key_ok k = true) (keys c).
Proof.
  intros H. pose proof (reachable_wf n ops) as F. rewrite Forall_forall in F.
  split; [apply wfc_keys|apply wfc_int_keys]; now apply F.
Qed.

(* ================================================================ equality with a dict *)

Definition dict_key (tv : tag * str) : str := tag_str (fst tv).
Definition holds_pair (c : container) (tv : tag * str) : Prop :=
  lookup (dict_key tv) (items c) = Some (VStr (snd tv)).
Definition same_core_keys (other : list (tag * str)) (c : container) : Prop :=
  set_eqb (core_keys (map dict_key other)) (core_keys (keys c)) = true.
(* what the property asks for: same tags and same values, the framing tags left out on both sides *)
Definition dict_content_eq (other : list (tag * str)) (c : container) : Prop :=
  same_core_keys other c /\
  Forall (fun tv => mem (dict_key tv) ignore_tags = true \/ holds_pair c tv) other.

Lemma eq_dict_loop_true other c :
  eq_dict_loop other c = Ok true <->
  Forall (fun tv => mem (dict_key tv) ignore_tags = true \/ holds_pair c tv) other.
Proof.
  induction other as [|[t v] o IH]; cbn [eq_dict_loop].
  - split; [constructor|reflexivity].
  - destruct (mem (tag_str t) ignore_tags) eqn:M.
    + rewrite IH. split; intros F; [constructor; [now left|exact F]|now inversion F].
    + assert (HD : forall P : Prop, (mem (dict_key (t, v)) ignore_tags = true \/ P) -> P).
      { intros P [H|H]; [|exact H]. unfold dict_key in H. cbn [fst] in H. congruence. }
      unfold c_is_group, c_get.
      destruct (lookup (tag_str t) (items c)) as [[s|g|[] x]|] eqn:L; cbn [rval_is];
        try (split; [discriminate|intros F; inversion F as [|? ? H _]; subst; apply HD in H;
                                   unfold holds_pair, dict_key in H; cbn [fst snd] in H; rewrite L in H; discriminate]).
      destruct (str_eqb s v) eqn:E.
      * apply str_eqb_eq in E. subst. rewrite IH. split; intros F.
        -- constructor; [|exact F]. right. unfold holds_pair, dict_key. cbn [fst snd]. exact L.
        -- now inversion F.
      * split; [discriminate|]. intros F. inversion F as [|? ? H _]; subst. apply HD in H.
        unfold holds_pair, dict_key in H. cbn [fst snd] in H. rewrite L in H. inversion H; subst.
        rewrite str_eqb_refl in E. discriminate.
Qed.

(* == dict is True exactly when the content is the same, the four framing tags ignored on both sides *)
Lemma eq_dict_iff other c : c_eq_dict other c = Ok true <-> dict_content_eq other c.
Proof.
  unfold c_eq_dict, dict_content_eq, same_core_keys, keys.
  change (map (fun tv => tag_str (fst tv)) other) with (map dict_key other).
  destruct (set_eqb _ _).
  - rewrite eq_dict_loop_true. split; [now split|now intros [_ H]].
  - split; [discriminate|intros [H _]; discriminate].
Qed.

Lemma forallb_mem_incl a b : forallb (fun k => mem k b) a = true -> forall k, In k a -> In k b.
Proof. intros H k I. rewrite forallb_forall in H. apply mem_In. now apply H. Qed.

(* ... and it returns a bool (never raises) when the message holds plain values only *)
Lemma eq_dict_total other c :
  Forall (fun kv => exists s, snd kv = VStr s) (items c) -> exists b, c_eq_dict other c = Ok b.
Proof.
  intros PV. unfold c_eq_dict.
  destruct (set_eqb _ _) eqn:S; [|now exists false].
  unfold set_eqb in S. apply andb_true_iff in S. destruct S as [S _].
  assert (K : forall tv, In tv other -> mem (dict_key tv) ignore_tags = false ->
                         exists s, lookup (dict_key tv) (items c) = Some (VStr s)).
  { intros tv I M. assert (I' : In (dict_key tv) (map fst (items c))).
    { assert (J : In (dict_key tv) (core_keys (map (fun tv0 => tag_str (fst tv0)) other))).
      { unfold core_keys. apply filter_In. split.
        - apply in_map_iff. now exists tv.
        - now rewrite M. }
      pose proof (forallb_mem_incl _ _ S _ J) as J'. unfold core_keys in J'. apply filter_In in J'. now destruct J'. }
    apply has_In in I'. unfold has in I'. destruct (lookup (dict_key tv) (items c)) as [v|] eqn:L; [|discriminate].
    apply lookup_In in L. rewrite Forall_forall in PV. destruct (PV _ L) as [s E]. cbn [snd] in E. subst.
    now exists s. }
  clear S. induction other as [|[t v] o IH]; cbn [eq_dict_loop]; [now exists true|].
  assert (IH' : exists b, eq_dict_loop o c = Ok b).
  { apply IH. intros tv I. apply K. now right. }
  destruct (mem (tag_str t) ignore_tags) eqn:M; [exact IH'|].
  destruct (K (t, v) (or_introl eq_refl) M) as [s L]. unfold dict_key in L. cbn [fst] in L.
  unfold c_is_group, c_get. rewrite L. cbn [rval_is]. destruct (str_eqb s v); [exact IH'|now exists false].
Qed.

(* the errors of == dict: only FIXMessageError (a compared tag is a group) or what a class-valued tag raises *)
Lemma eq_dict_no_missing other c :
  Forall (fun kv => forall k x, snd kv <> VCls k x) (items c) ->
  forall e, c_eq_dict other c = Exc e -> e = EFIXMessage.
Proof.
  intros NC e. unfold c_eq_dict.
  destruct (set_eqb _ _) eqn:S; [|discriminate].
  unfold set_eqb in S. apply andb_true_iff in S. destruct S as [S _].
  assert (K : forall tv, In tv other -> mem (dict_key tv) ignore_tags = false ->
                         lookup (dict_key tv) (items c) <> None).
  { intros tv I M. assert (I' : In (dict_key tv) (map fst (items c))).
    { assert (J : In (dict_key tv) (core_keys (map (fun tv0 => tag_str (fst tv0)) other))).
      { unfold core_keys. apply filter_In. split; [apply in_map_iff; now exists tv|now rewrite M]. }
      pose proof (forallb_mem_incl _ _ S _ J) as J'. unfold core_keys in J'. apply filter_In in J'. now destruct J'. }
    intros L. apply lookup_None in L. contradiction. }
  clear S. induction other as [|[t v] o IH]; cbn [eq_dict_loop]; [discriminate|].
  assert (IH' : eq_dict_loop o c = Exc e -> e = EFIXMessage).
  { apply IH. intros tv I. apply K. now right. }
  destruct (mem (tag_str t) ignore_tags) eqn:M; [exact IH'|].
  pose proof (K (t, v) (or_introl eq_refl) M) as L. unfold dict_key in L. cbn [fst] in L.
  unfold c_is_group, c_get. destruct (lookup (tag_str t) (items c)) as [[s|g|k x]|] eqn:L'; [| | |contradiction].
  - cbn [rval_is]. destruct (str_eqb s v); [exact IH'|discriminate].
  - intros H. now inversion H.
  - exfalso. apply lookup_In in L'. rewrite Forall_forall in NC. now apply (NC _ L' k x).
Qed.

(* ================================================================ one statement for all spellings *)

Lemma spelling_independent t1 t2 :
  tag_str t1 = tag_str t2 ->
  (forall v r c, c_set t1 v r c = c_set t2 v r c) /\
  (forall d c, c_get t1 d c = c_get t2 d c) /\
  (forall c, c_del t1 c = c_del t2 c) /\
  (forall c, c_contains t1 c = c_contains t2 c) /\
  (forall c, c_is_group t1 c = c_is_group t2 c) /\
  (forall it idx c, c_add_group t1 it idx c = c_add_group t2 it idx c) /\
  (forall g c, c_set_group t1 g c = c_set_group t2 g c) /\
  (forall c, c_get_group_list t1 c = c_get_group_list t2 c) /\
  (forall idx c, c_get_group_by_index t1 idx c = c_get_group_by_index t2 idx c) /\
  (forall t gv c, c_get_group_by_tag t1 t gv c = c_get_group_by_tag t2 t gv c) /\
  (forall t gv c, c_get_group_by_tag t t1 gv c = c_get_group_by_tag t t2 gv c).
Proof.
  intros H. repeat split; intros.
  - now apply set_spelling.
  - now apply get_spelling.
  - now apply del_spelling.
  - now apply contains_spelling.
  - now apply is_group_spelling.
  - now apply add_group_spelling.
  - now apply set_group_spelling.
  - now apply group_list_spelling.
  - now apply group_by_index_spelling.
  - now apply group_by_tag_spelling.
  - now apply group_by_tag_spelling.
Qed.

Lemma int_tags_distinct a b : tag_str (TInt a) = tag_str (TInt b) -> a = b.
Proof. apply z_to_dec_inj. Qed.

(* ================================================================ the text collisions of D18 are gone *)

Definition w_a : container := C None [([49], VStr [97; 124; 50; 61; 98])].          (* {1: "a|2=b"} *)
Definition w_b : container := C None [([49], VStr [97]); ([50], VStr [98])].        (* {1: "a", 2: "b"} *)
Definition w_c : container := C None [([49], VStr [49; 61; 62; 91; 93])].           (* {1: "1=>[]"} *)
Definition w_d : container := C None [([49], VGrp [empty])].                        (* {1: [{}]} *)
Definition w_e : container := C None [([50], VStr [98]); ([49], VStr [97])].        (* {2: "b", 1: "a"} *)
Definition w_err1 : container := C None [([49], VCls KTagNotFound [])].             (* {1: TagNotFoundError} *)
Definition w_err2 : container := C None [([49], VCls KRepeating [])].               (* {1: RepeatingTagError} *)
Definition w_errs : container := C None [([49], VStr ERR)].                         (* {1: "#err#"} *)
Definition w_m1 : container := C None [([55; 56], VGrp [C (Some [68]) [([49], VStr [97])]])].  (* {78: [FIXMessage("D", {1: "a"})]} *)
Definition w_m2 : container := C (Some [65]) [([55; 56], VGrp [C None [([49], VStr [97])]])].  (* FIXMessage("A", {78: [{1: "a"}]}) *)

Lemma eq_no_collision :
  render w_a = render w_b /\ c_eq w_a w_b = false
  /\ render w_c = render w_d /\ c_eq w_c w_d = false
  /\ c_eq w_b w_e = false
  /\ render w_err1 = render w_errs /\ c_eq w_err1 w_errs = false /\ c_eq w_err1 w_err2 = true
  /\ c_eq w_m1 w_m2 = true.
Proof. repeat split; vm_compute; reflexivity. Qed.

(* ================================================================ the former D18 witnesses, repaired *)

Definition w_msg : container := C (Some [68]) [([49], VStr [97])].                  (* FIXMessage("D", {1: "a"}) *)
Definition w_dict : list (tag * str) := [(TInt 35, [68]); (TInt 1, [97])].           (* {35: "D", 1: "a"} *)
Definition w_msg2 : container := C (Some [68]) [([51; 53], VStr [68]); ([49], VStr [97])].   (* {35: "D", 1: "a"} *)
Definition w_dict2 : list (tag * str) := [(TInt 35, [88]); (TInt 1, [97])].                  (* {35: "X", 1: "a"} *)
Definition w_grp : container := C None [([55; 56], VGrp [empty; empty])].           (* {78: [{}, {}]} *)

Lemma repaired_witnesses :
  c_eq_dict w_dict w_msg = Ok true /\ c_eq_dict w_dict2 w_msg2 = Ok true
  /\ c_eq_dict [(TInt 1, [98])] w_msg = Ok false
  /\ c_add_group (TInt 1) (Ok empty) (-1) w_msg = (w_msg, Exc EFIXMessage)
  /\ c_get_group_by_index (TInt 78) (-3) w_grp = Exc ETagNotFound
  /\ c_get_group_by_index (TInt 78) (-2) w_grp = Ok empty
  /\ c_set_group (TStr [120]) (Ok []) empty = (empty, Exc EFIXMessage)
  /\ c_add_group (TStr []) (Ok empty) (-1) empty = (empty, Exc EFIXMessage).
Proof. repeat split; vm_compute; reflexivity. Qed.

(* ================================================================ non-vacuity *)

Definition ACCOUNT : str := [65; 99; 99; 111; 117; 110; 116].
Definition ex_ops : list op :=
  [ONew 0 None [(TFTag ACCOUNT, DVal (SVal [97]));
                (TInt 78, DList [IDict [(TStr [55; 57], DVal (SVal [120]))]; IDict []])];
   OSet 1 (TInt 1) (SVal [97]) false;
   OAddGroup 1 (TStr [55; 56]) (IDict [(TInt 79, DVal (SVal [120]))]) (-1);
   OAddGroup 1 (TInt 78) (IDict []) 5;
   OSet 1 (TStr [49]) (SVal [98]) false;
   OSet 2 (TInt 35) (SVal [68]) false;
   OSet 2 (TStr [32; 53]) (SVal [98]) false].

Lemma nonvacuous :
  let p := run_state 3 ex_ops in
  clean (var p 0) = true /\ clean (var p 1) = true /\ c_eq (var p 0) (var p 1) = true
  /\ items (var p 0) = items (var p 1)
  /\ items (var p 0) = [([49], VStr [97]); ([55; 56], VGrp [C None [([55; 57], VStr [120])]; C None []])]
  /\ c_get (TFTag ACCOUNT) DRaise (var p 1) = Ok (RvStr [97])
  /\ dict_content_eq [(TInt 35, [68]); (TInt 1, [97])] (C None [([49], VStr [97])])
  /\ keys (var p 2) = [[51; 53]; [32; 53]] /\ clean (var p 2) = false.
Proof.
  cbv zeta.
  split; [vm_compute; reflexivity|]. split; [vm_compute; reflexivity|].
  split; [vm_compute; reflexivity|]. split; [vm_compute; reflexivity|].
  split; [vm_compute; reflexivity|]. split; [vm_compute; reflexivity|].
  split; [split; [vm_compute; reflexivity
                 |constructor; [left; vm_compute; reflexivity|constructor; [right; reflexivity|constructor]]]|].
  split; vm_compute; reflexivity.
Qed.

(* ================================================================ query *)

(* query(n) for an int: the key is str(n) and the value what get(n, None) gives *)
Lemma query_int z c :
  c_query [TInt z] c = match c_get (TInt z) DNone c with
                       | Ok r => Ok [(z_to_dec z, r)]
                       | Exc e => Exc e
                       end.
Proof.
  unfold c_query. cbn [query_loop]. unfold query_key. cbn [tag_str].
  assert (E : c_get (TStr (z_to_dec z)) DNone c = c_get (TInt z) DNone c) by reflexivity.
  destruct (in_ftag (z_to_dec z)); rewrite E; destruct (c_get (TInt z) DNone c); reflexivity.
Qed.

(* a non-canonical spelling is a key of its own for set/get, but query() reads the canonical key *)
Lemma query_noncanonical :
  let c := C None [([32; 53], VStr [97])] in                               (* {" 5": "a"} *)
  c_get (TStr [32; 53]) DNone c = Ok (RvStr [97]) /\ c_get (TInt 5) DNone c = Ok RvNone
  /\ c_query [TStr [32; 53]] c = Ok [([53], RvNone)] /\ c_query [] c = Ok [([53], RvNone)].
Proof. cbv zeta. repeat split; vm_compute; reflexivity. Qed.

(* ================================================================ equality follows the current content (history) *)

(* two equal containers; == ; append to an existing group of the first ; == ; same on the second ; == ;
   replace a tag inside item 0 reached by get_group_by_index ; == ; same change reached by
   get_group_by_tag on the second ; == *)
Definition hist_dict : list (tag * dval) :=
  [(TInt 11, DVal (SVal [111])); (TInt 78, DList [IDict [(TInt 79, DVal (SVal [97])); (TInt 80, DVal (SVal [49]))];
                                                   IDict [(TInt 79, DVal (SVal [98]))]])].
Definition hist_ops : list op :=
  [ONew 0 None hist_dict; ONew 1 None hist_dict; OEq 0 1;
   OAddGroup 0 (TInt 78) (IDict [(TInt 79, DVal (SVal [99]))]) (-1); OEq 0 1; OEq 1 0;
   OAddGroup 1 (TStr [55; 56]) (IDict [(TInt 79, DVal (SVal [99]))]) 2; OEq 0 1;
   OAt 0 [SIdx (TInt 78) 0] (LSet (TInt 80) (SVal [50]) true); OEq 0 1; OEq 1 0;
   OAt 1 [STag (TInt 78) (TInt 79) [97]] (LSet (TStr [56; 48]) (SVal [50]) true); OEq 0 1;
   OAt 0 [SList (TInt 78) (-1)] (LDel (TInt 79)); OEq 0 1;
   OAt 0 [SIdx (TInt 78) 7] (LDel (TInt 79))].

Fixpoint outcomes (p : pool) (ops : list op) : list outcome :=
  match ops with [] => [] | o :: ops' => let (p', r) := step p o in r :: outcomes p' ops' end.

Lemma eq_follows_history :
  outcomes (init 2) hist_ops =
  [RNone; RNone; RBool true;
   RNone; RBool false; RBool false;
   RNone; RBool true;
   RNone; RBool false; RBool false;
   RNone; RBool true;
   RNone; RBool false;
   RExc ETagNotFound].
Proof. vm_compute. reflexivity. Qed.
