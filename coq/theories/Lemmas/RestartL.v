(* Proofs about the counter-ledger / restart model Fix/Restart.v (C09). *)
From Coq Require Import ZArith List Bool Lia ZifyBool.
From AF Require Import Fix.Restart.
Import ListNotations.
Open Scope Z_scope.

(* ------------------------------------------------------------------ replay / db basics *)

Lemma replay_app : forall b l1 l2, replay b (l1 ++ l2) = fold_left estep l2 (replay b l1).
Proof. intros. unfold replay. apply fold_left_app. Qed.

Definition with_log (w : world) (l : list effect) : world :=
  mkW (nin w) (nout w) (st w) (rl w) (maxres w) (dlv w) (ctor w) (base w) l (past w).

Lemma db_with_log_app : forall w l, db (with_log w (log w ++ l)) = fold_left estep l (db w).
Proof. intros. unfold db. cbn [base log with_log]. apply replay_app. Qed.

Lemma writes_app : forall l1 l2, writes (l1 ++ l2) = writes l1 ++ writes l2.
Proof.
  induction l1 as [|e l1 IH]; intros; cbn [app writes]; [reflexivity|].
  destruct e; cbn [writes app]; rewrite ?IH; reflexivity.
Qed.

Lemma writes_stmts : forall ps, writes (map EStmt ps) = [].
Proof. induction ps; cbn; auto. Qed.

Lemma fold_estep_nonstmt : forall f d, fold_left estep [EWrite f; EDrain] d = d.
Proof. reflexivity. Qed.

(* ------------------------------------------------------------------ the statement lists of the Journaler methods *)

Definition ins_out_tab (t : jtab) (f : frame) : jtab := mkJ (sin t) (f_seq f) (rin t) (rout t ++ [f]).
Definition ins_in_tab (t : jtab) (n : Z) : jtab := mkJ n (sout t) (rin t ++ [n]) (rout t).
Definition set_tab (t : jtab) (i o : Z) : jtab :=
  mkJ (i - 1) (o - 1) (filter (fun n => negb (i <=? n)) (rin t)) (filter (fun f => negb (o <=? f_seq f)) (rout t)).

Definition persist_out_prims (f : frame) := [PInsOut f; PUpdOut (f_seq f); PCommit].
Definition persist_in_prims (n : Z) := [PInsIn n; PUpdIn n; PCommit].
Definition set_prims (i o : Z) := [PUpdBoth (i - 1) (o - 1); PDelIn i; PDelOut o; PCommit].

Lemma persist_out_run_ok : forall d f, has_out (cur d) (f_seq f) = false ->
  run_prims (persist_out_prims f) d = (persist_out_prims f, true)
  /\ fold_left estep (map EStmt (persist_out_prims f)) d = mkDb (ins_out_tab (cur d) f) (ins_out_tab (cur d) f).
Proof.
  intros d f H. unfold persist_out_prims.
  cbn [run_prims exec_prim apply_stmt map fold_left estep fst]. rewrite H.
  cbn [cur committed sin sout rin rout fst]. split; reflexivity.
Qed.

Lemma persist_out_run_dup : forall d f, has_out (cur d) (f_seq f) = true ->
  run_prims (persist_out_prims f) d = ([PInsOut f], false)
  /\ fold_left estep (map EStmt [PInsOut f]) d = d.
Proof.
  intros d f H. unfold persist_out_prims.
  cbn [run_prims exec_prim apply_stmt map fold_left estep fst]. rewrite H. split; reflexivity.
Qed.

Lemma persist_in_run_ok : forall d n, has_in (cur d) n = false ->
  run_prims (persist_in_prims n) d = (persist_in_prims n, true)
  /\ fold_left estep (map EStmt (persist_in_prims n)) d = mkDb (ins_in_tab (cur d) n) (ins_in_tab (cur d) n).
Proof.
  intros d n H. unfold persist_in_prims.
  cbn [run_prims exec_prim apply_stmt map fold_left estep fst]. rewrite H.
  cbn [cur committed sin sout rin rout fst]. split; reflexivity.
Qed.

Lemma persist_in_run_dup : forall d n, has_in (cur d) n = true ->
  run_prims (persist_in_prims n) d = ([PInsIn n], false)
  /\ fold_left estep (map EStmt [PInsIn n]) d = d.
Proof.
  intros d n H. unfold persist_in_prims.
  cbn [run_prims exec_prim apply_stmt map fold_left estep fst]. rewrite H. split; reflexivity.
Qed.

Lemma set_run : forall d i o,
  run_prims (set_prims i o) d = (set_prims i o, true)
  /\ fold_left estep (map EStmt (set_prims i o)) d = mkDb (set_tab (cur d) i o) (set_tab (cur d) i o).
Proof.
  intros. unfold set_prims, set_tab.
  cbn [run_prims exec_prim apply_stmt map fold_left estep fst cur committed sin sout rin rout].
  split; reflexivity.
Qed.

(* ------------------------------------------------------------------ exact results of the Journaler methods *)

Ltac munfold :=
  cbv beta iota delta [bind ret raise get upd catch assert_ set_st set_rl set_maxres set_nin set_nout deliver emit].
Ltac munfold_in H :=
  cbv beta iota delta [bind ret raise get upd catch assert_ set_st set_rl set_maxres set_nin set_nout deliver emit] in H.

Lemma jexec_eq : forall ps w,
  jexec ps w = (inl (snd (run_prims ps (db w))), with_log w (log w ++ map EStmt (fst (run_prims ps (db w))))).
Proof.
  intros. unfold jexec, bind, get, emit, upd, ret. destruct (run_prims ps (db w)) as [done ok]. reflexivity.
Qed.

Lemma persist_out_ok : forall f w, has_out (jt w) (f_seq f) = false ->
  persist_out f w = (inl tt, with_log w (log w ++ map EStmt (persist_out_prims f)))
  /\ db (with_log w (log w ++ map EStmt (persist_out_prims f))) = mkDb (ins_out_tab (jt w) f) (ins_out_tab (jt w) f).
Proof.
  intros f w H. destruct (persist_out_run_ok (db w) f H) as [Hr Hf].
  split.
  - unfold persist_out, bind. fold (persist_out_prims f). rewrite jexec_eq, Hr. reflexivity.
  - rewrite db_with_log_app. exact Hf.
Qed.

Lemma persist_out_dup : forall f w, has_out (jt w) (f_seq f) = true ->
  persist_out f w = (inr XDup, with_log w (log w ++ [EStmt (PInsOut f)]))
  /\ db (with_log w (log w ++ [EStmt (PInsOut f)])) = db w.
Proof.
  intros f w H. destruct (persist_out_run_dup (db w) f H) as [Hr Hf].
  split.
  - unfold persist_out, bind. fold (persist_out_prims f). rewrite jexec_eq, Hr. reflexivity.
  - rewrite db_with_log_app. exact Hf.
Qed.

Lemma persist_in_ok : forall n w, has_in (jt w) n = false ->
  persist_in n w = (inl tt, with_log w (log w ++ map EStmt (persist_in_prims n)))
  /\ db (with_log w (log w ++ map EStmt (persist_in_prims n))) = mkDb (ins_in_tab (jt w) n) (ins_in_tab (jt w) n).
Proof.
  intros n w H. destruct (persist_in_run_ok (db w) n H) as [Hr Hf].
  split.
  - unfold persist_in, bind. fold (persist_in_prims n). rewrite jexec_eq, Hr. reflexivity.
  - rewrite db_with_log_app. exact Hf.
Qed.

Lemma persist_in_dup : forall n w, has_in (jt w) n = true ->
  persist_in n w = (inr XDup, with_log w (log w ++ [EStmt (PInsIn n)]))
  /\ db (with_log w (log w ++ [EStmt (PInsIn n)])) = db w.
Proof.
  intros n w H. destruct (persist_in_run_dup (db w) n H) as [Hr Hf].
  split.
  - unfold persist_in, bind. fold (persist_in_prims n). rewrite jexec_eq, Hr. reflexivity.
  - rewrite db_with_log_app. exact Hf.
Qed.

(* the world after set_seq_num wrote counters i (in) and o (out) *)
Definition set_world (w : world) (i o : Z) : world :=
  mkW i o (st w) (rl w) (maxres w) (dlv w) (ctor w) (base w) (log w ++ map EStmt (set_prims i o)) (past w).

Lemma db_set_world : forall w i o, db (set_world w i o) = mkDb (set_tab (jt w) i o) (set_tab (jt w) i o).
Proof.
  intros. unfold db, set_world. cbn [base log]. rewrite replay_app. apply set_run.
Qed.

Lemma set_seq_num_in : forall v w,
  set_seq_num None (Some v) w = if 0 <? v then (inl tt, set_world w v (nout w)) else (inr XAssert, w).
Proof.
  intros. unfold set_seq_num. munfold.
  destruct (0 <? v); [|reflexivity].
  cbn [nin nout]. fold (set_prims v (nout w)). rewrite jexec_eq.
  destruct (set_run (db (mkW v (nout w) (st w) (rl w) (maxres w) (dlv w) (ctor w) (base w) (log w) (past w))) v (nout w)) as [Hr _].
  rewrite Hr. reflexivity.
Qed.

Lemma set_seq_num_out : forall v w,
  set_seq_num (Some v) None w = if 0 <? v then (inl tt, set_world w (nin w) v) else (inr XAssert, w).
Proof.
  intros. unfold set_seq_num. munfold.
  destruct (0 <? v); [|reflexivity].
  cbn [nin nout]. fold (set_prims (nin w) v). rewrite jexec_eq.
  destruct (set_run (db (mkW (nin w) v (st w) (rl w) (maxres w) (dlv w) (ctor w) (base w) (log w) (past w))) (nin w) v) as [Hr _].
  rewrite Hr. reflexivity.
Qed.

(* ------------------------------------------------------------------ send_msg *)

Definition send_gate (w : world) (m : frame) : option (cstate * role) :=
  if is_disc (st w) then None
  else if cstate_eqb (st w) NCE then
    if mtype_eqb (f_type m) TLogon || mtype_eqb (f_type m) TLogout then Some (LogonSent, Initiator) else None
  else if role_eqb (rl w) Initiator then
    (if cstate_eqb (st w) LogonSent && negb (mtype_eqb (f_type m) TLogout) then None else Some (st w, rl w))
  else if cstate_eqb (st w) LogonRecv && negb (mtype_eqb (f_type m) TLogon) && negb (mtype_eqb (f_type m) TLogout)
  then None else Some (st w, rl w).

Definition own_number (m : frame) : bool := mtype_eqb (f_type m) TSeqReset || f_pd m.

(* the world after an unjournaled frame has been written and drained *)
Definition written (w : world) (s : cstate) (r : role) (no : Z) (f : frame) : world :=
  mkW (nin w) no s r (maxres w) (dlv w) (ctor w) (base w) ((log w ++ [EWrite f]) ++ [EDrain]) (past w).

Definition out_frame (m : frame) (n : Z) : frame := mkF (f_type m) n (f_pd m) (f_a m) (f_b m).

(* the effects of a completed original send: journal first, then the transport *)
Definition send_effects (f : frame) : list effect := map EStmt (persist_out_prims f) ++ [EWrite f; EDrain].

(* the world after a completed original send *)
Definition sent (w : world) (s : cstate) (r : role) (f : frame) : world :=
  mkW (nin w) (nout w + 1) s r (maxres w) (dlv w) (ctor w) (base w) (log w ++ send_effects f) (past w).

Lemma world_eta : forall w, mkW (nin w) (nout w) (st w) (rl w) (maxres w) (dlv w) (ctor w) (base w) (log w) (past w) = w.
Proof. destruct w; reflexivity. Qed.

Ltac gate_cases Hg w m :=
  unfold send_gate in Hg;
  destruct (is_disc (st w)) eqn:Hd;
  [|destruct (cstate_eqb (st w) NCE) eqn:Hn;
    [destruct (mtype_eqb (f_type m) TLogon || mtype_eqb (f_type m) TLogout) eqn:Hl
    |destruct (role_eqb (rl w) Initiator) eqn:Hro;
      [destruct (cstate_eqb (st w) LogonSent && negb (mtype_eqb (f_type m) TLogout)) eqn:Hi
      |destruct (cstate_eqb (st w) LogonRecv && negb (mtype_eqb (f_type m) TLogon) && negb (mtype_eqb (f_type m) TLogout)) eqn:Hi]]].

(* the world in which the number has been selected *)
Definition allocw (w : world) (s : cstate) (r : role) (no : Z) : world :=
  mkW (nin w) no s r (maxres w) (dlv w) (ctor w) (base w) (log w) (past w).

Lemma send_pre_refused : forall w m, send_gate w m = None \/ mtype_eqb (f_type m) TTest = true ->
  send_pre m w = (inr XConn, w).
Proof.
  intros w m H. unfold send_pre. munfold.
  assert (Hg : send_gate w m = send_gate w m) by reflexivity. revert Hg H. generalize (send_gate w m) at 2 3.
  intros g Hg H. gate_cases Hg w m; try reflexivity.
  - destruct H as [H|H]; [subst g; discriminate|]. destruct (f_type m); discriminate.
  - destruct H as [H|H]; [subst g; discriminate|]. rewrite H. reflexivity.
  - destruct H as [H|H]; [subst g; discriminate|]. rewrite H. reflexivity.
Qed.

Lemma send_pre_passed : forall w m s r, send_gate w m = Some (s, r) -> mtype_eqb (f_type m) TTest = false ->
  send_pre m w =
    let n := if own_number m then f_seq m else nout w in
    let W0 := allocw w s r (if own_number m then nout w else nout w + 1) in
    if unjournaled m then (inl (out_frame m n), W0)
    else let (x, W1) := persist_out (out_frame m n) W0 in
         match x with inl _ => (inl (out_frame m n), W1) | inr e => (inr e, W1) end.
Proof.
  intros w m s r Hg Ht. unfold send_pre, own_number, allocw. munfold. cbv zeta.
  gate_cases Hg w m; try discriminate; inversion Hg; subst s r; rewrite Ht;
    cbn [nout nin st rl maxres dlv ctor base log past];
    destruct (mtype_eqb (f_type m) TSeqReset || f_pd m); destruct (unjournaled m);
    cbn [nout nin st rl maxres dlv ctor base log past]; cbv beta iota; rewrite ?world_eta; try reflexivity;
    match goal with |- context [persist_out ?f ?W] => destruct (persist_out f W) as [[[]|e] W1] end; reflexivity.
Qed.

Lemma send_refused : forall w m, send_gate w m = None \/ mtype_eqb (f_type m) TTest = true ->
  send_msg m w = (inr XConn, w).
Proof. intros w m H. unfold send_msg, bind. rewrite (send_pre_refused w m H). reflexivity. Qed.

Lemma send_fault_refused : forall d w m, send_gate w m = None \/ mtype_eqb (f_type m) TTest = true ->
  send_fault d m w = (inr XConn, w).
Proof. intros d w m H. unfold send_fault, bind. rewrite (send_pre_refused w m H). reflexivity. Qed.

Lemma own_unjournaled : forall m, own_number m = false -> unjournaled m = false.
Proof.
  intros m H. unfold own_number in H. unfold unjournaled. apply orb_false_iff in H. destruct H as [H1 H2].
  rewrite H1, H2. reflexivity.
Qed.

(* the world after the journal write of an original send *)
Definition journaled_w (w : world) (s : cstate) (r : role) (f : frame) : world :=
  mkW (nin w) (nout w + 1) s r (maxres w) (dlv w) (ctor w) (base w) (log w ++ map EStmt (persist_out_prims f)) (past w).

Lemma send_pre_alloc_ok : forall w m s r, send_gate w m = Some (s, r) -> mtype_eqb (f_type m) TTest = false ->
  own_number m = false -> has_out (jt w) (nout w) = false ->
  send_pre m w = (inl (out_frame m (nout w)), journaled_w w s r (out_frame m (nout w))).
Proof.
  intros w m s r Hg Ht Ho Hh. rewrite (send_pre_passed w m s r Hg Ht), Ho, (own_unjournaled m Ho). cbv zeta.
  set (f := out_frame m (nout w)). set (W0 := allocw w s r (nout w + 1)).
  destruct (persist_out_ok f W0) as [Hp _]; [exact Hh|]. rewrite Hp. reflexivity.
Qed.

Lemma db_journaled_w : forall w s r f, has_out (jt w) (f_seq f) = false ->
  db (journaled_w w s r f) = mkDb (ins_out_tab (jt w) f) (ins_out_tab (jt w) f).
Proof.
  intros w s r f Hh. unfold db, journaled_w. cbn [base log]. rewrite replay_app.
  change (replay (base w) (log w)) with (db w). apply (persist_out_run_ok (db w) f Hh).
Qed.

(* an original send whose number is free in the journal: journaled, written, drained *)
Lemma send_alloc_ok : forall w m s r, send_gate w m = Some (s, r) -> mtype_eqb (f_type m) TTest = false ->
  own_number m = false -> has_out (jt w) (nout w) = false ->
  send_msg m w = (inl tt, sent w s r (out_frame m (nout w)))
  /\ db (sent w s r (out_frame m (nout w)))
     = mkDb (ins_out_tab (jt w) (out_frame m (nout w))) (ins_out_tab (jt w) (out_frame m (nout w))).
Proof.
  intros w m s r Hg Ht Ho Hh. set (f := out_frame m (nout w)).
  split.
  - unfold send_msg, bind. rewrite (send_pre_alloc_ok w m s r Hg Ht Ho Hh). fold f. munfold.
    unfold journaled_w, sent, send_effects. cbn [nin nout st rl maxres dlv ctor base log past].
    rewrite <- !app_assoc. reflexivity.
  - unfold db, sent, send_effects. cbn [base log]. rewrite replay_app, fold_left_app.
    change (replay (base w) (log w)) with (db w).
    destruct (persist_out_run_ok (db w) f Hh) as [_ Hf]. rewrite Hf. reflexivity.
Qed.

(* an unjournaled frame (PossDup copy, gap fill): written and drained only *)
Lemma send_unj : forall w m s r, send_gate w m = Some (s, r) -> mtype_eqb (f_type m) TTest = false ->
  unjournaled m = true ->
  send_msg m w = (inl tt, written w s r (nout w) (out_frame m (f_seq m))).
Proof.
  intros w m s r Hg Ht Hu.
  assert (Ho : own_number m = true).
  { unfold unjournaled in Hu. unfold own_number. destruct (f_pd m); [apply orb_true_r|]. cbn in Hu. apply andb_prop in Hu.
    destruct Hu as [Hu _]. rewrite Hu. reflexivity. }
  unfold send_msg, bind. rewrite (send_pre_passed w m s r Hg Ht), Ho, Hu. reflexivity.
Qed.

(* the same sends over a transport that raises in write() (d = false) or in drain() after the write (d = true) *)
Definition fault_effects (d : bool) (f : frame) : list effect :=
  map EStmt (persist_out_prims f) ++ (if d then [EWrite f] else []).

Definition fault_sent (w : world) (s : cstate) (r : role) (d : bool) (f : frame) : world :=
  mkW (nin w) (nout w + 1) s r (maxres w) (dlv w) (ctor w) (base w) (log w ++ fault_effects d f) (past w).

Lemma send_fault_alloc_ok : forall d w m s r, send_gate w m = Some (s, r) -> mtype_eqb (f_type m) TTest = false ->
  own_number m = false -> has_out (jt w) (nout w) = false ->
  send_fault d m w = (inr XIO, fault_sent w s r d (out_frame m (nout w)))
  /\ db (fault_sent w s r d (out_frame m (nout w)))
     = mkDb (ins_out_tab (jt w) (out_frame m (nout w))) (ins_out_tab (jt w) (out_frame m (nout w))).
Proof.
  intros d w m s r Hg Ht Ho Hh. set (f := out_frame m (nout w)).
  split.
  - unfold send_fault, bind. rewrite (send_pre_alloc_ok w m s r Hg Ht Ho Hh). fold f.
    destruct d; munfold; unfold journaled_w, fault_sent, fault_effects;
      cbn [nin nout st rl maxres dlv ctor base log past]; rewrite <- ?app_assoc, ?app_nil_r; reflexivity.
  - unfold db, fault_sent, fault_effects. cbn [base log]. rewrite replay_app, fold_left_app.
    change (replay (base w) (log w)) with (db w).
    destruct (persist_out_run_ok (db w) f Hh) as [_ Hf]. rewrite Hf. destruct d; reflexivity.
Qed.

Definition fault_written (w : world) (s : cstate) (r : role) (d : bool) (f : frame) : world :=
  mkW (nin w) (nout w) s r (maxres w) (dlv w) (ctor w) (base w) (log w ++ (if d then [EWrite f] else [])) (past w).

Lemma send_fault_unj : forall d w m s r, send_gate w m = Some (s, r) -> mtype_eqb (f_type m) TTest = false ->
  unjournaled m = true ->
  send_fault d m w = (inr XIO, fault_written w s r d (out_frame m (f_seq m))).
Proof.
  intros d w m s r Hg Ht Hu.
  assert (Ho : own_number m = true).
  { unfold unjournaled in Hu. unfold own_number. destruct (f_pd m); [apply orb_true_r|]. cbn in Hu. apply andb_prop in Hu.
    destruct Hu as [Hu _]. rewrite Hu. reflexivity. }
  unfold send_fault, bind. rewrite (send_pre_passed w m s r Hg Ht), Ho, Hu. cbv zeta.
  destruct d; munfold; unfold fault_written, allocw; cbn [nin nout st rl maxres dlv ctor base log past];
    rewrite ?app_nil_r; reflexivity.
Qed.

(* ------------------------------------------------------------------ invariants *)

Definition clean (w : world) : Prop := committed (db w) = cur (db w).
Definition Stored_eq (w : world) : Prop := sin (jt w) + 1 = nin w /\ sout (jt w) + 1 = nout w.
Definition Out_ok (w : world) : Prop :=
  clean w /\ sout (jt w) + 1 = nout w /\ (forall f, In f (rout (jt w)) -> f_seq f < nout w) /\ 0 < nout w.
Definition In_ok (w : world) : Prop :=
  sin (jt w) + 1 = nin w /\ (forall n, In n (rin (jt w)) -> n < nin w) /\ 0 < nin w.
Definition AwOk (w : world) : Prop := st w = Awaiting -> 0 < maxres w.
Definition Inv (w : world) : Prop := Out_ok w /\ In_ok w /\ AwOk w.

Lemma has_out_false : forall t n, (forall f, In f (rout t) -> f_seq f < n) -> has_out t n = false.
Proof.
  intros t n H. unfold has_out. apply not_true_is_false. intro E.
  apply existsb_exists in E. destruct E as [f [Hf He]]. apply H in Hf. lia.
Qed.

Lemma has_in_false : forall t n, (forall k, In k (rin t) -> k < n) -> has_in t n = false.
Proof.
  intros t n H. unfold has_in. apply not_true_is_false. intro E.
  apply existsb_exists in E. destruct E as [k [Hk He]]. apply H in Hk. lia.
Qed.

(* w' is w after original sends and live-state changes only: inbound side frozen, outbound side consistent *)
Record Rel (w w' : world) : Prop := mkRel {
  r_nin : nin w' = nin w;
  r_sin : sin (jt w') = sin (jt w);
  r_rin : rin (jt w') = rin (jt w);
  r_out : Out_ok w';
  r_mono : nout w <= nout w';
  r_log : exists l, log w' = log w ++ l
                    /\ (forall f, In f (writes l) -> original f = true -> nout w <= f_seq f < nout w');
  r_base : base w' = base w;
  r_past : past w' = past w;
  r_ctor : ctor w' = ctor w;
  r_aw : AwOk w -> AwOk w'
}.

Lemma Rel_refl : forall w, Out_ok w -> Rel w w.
Proof.
  intros w Ho. constructor; auto; try lia.
  exists []. rewrite app_nil_r. split; auto. intros f Hf. cbn in Hf. contradiction.
Qed.

Lemma Rel_trans : forall a b c, Rel a b -> Rel b c -> Rel a c.
Proof.
  intros a b c [n1 s1 i1 o1 m1 [l1 [L1 W1]] b1 p1 c1 a1] [n2 s2 i2 o2 m2 [l2 [L2 W2]] b2 p2 c2 a2].
  constructor; try congruence; try lia; try assumption; auto.
  exists (l1 ++ l2). rewrite L2, L1, app_assoc. split; [reflexivity|].
  intros f Hf Ho. rewrite writes_app in Hf. apply in_app_or in Hf. destruct Hf as [Hf|Hf].
  - specialize (W1 f Hf Ho). lia.
  - specialize (W2 f Hf Ho). lia.
Qed.

(* worlds that differ in live fields other than the counters *)
Definition live_eq (a b : world) : Prop :=
  nin a = nin b /\ nout a = nout b /\ base a = base b /\ log a = log b /\ past a = past b /\ ctor a = ctor b.

Lemma live_eq_db : forall a b, live_eq a b -> db a = db b.
Proof. intros a b (_ & _ & Hb & Hl & _). unfold db. rewrite Hb, Hl. reflexivity. Qed.

Lemma live_eq_refl : forall a, live_eq a a.
Proof. intros. repeat split. Qed.

Lemma Rel_frame : forall a b c d, Rel b c -> live_eq a b -> live_eq c d -> (AwOk a -> AwOk d) -> Rel a d.
Proof.
  intros a b c d [n1 s1 i1 o1 m1 L1 b1 p1 c1 a1] Hab Hcd Ha.
  assert (Hdb1 : db a = db b) by (apply live_eq_db; auto).
  assert (Hdb2 : db c = db d) by (apply live_eq_db; auto).
  assert (Hj1 : jt a = jt b) by (unfold jt; rewrite Hdb1; reflexivity).
  assert (Hj2 : jt c = jt d) by (unfold jt; rewrite Hdb2; reflexivity).
  destruct Hab as (An & Ao & Ab & Al & Ap & Ac). destruct Hcd as (Cn & Co & Cb & Cl & Cp & Cc).
  constructor; try congruence; try lia; auto.
  - destruct o1 as [oc [os [orow op]]]. unfold Out_ok, clean. rewrite <- Hj2, <- Hdb2, <- Co. auto.
  - rewrite Ao, <- Co. destruct L1 as [l [L W]]. exists l. rewrite <- Cl, Al. auto.
Qed.

Lemma Rel_live : forall w w1 w2, Rel w w1 -> live_eq w1 w2 -> (AwOk w -> AwOk w2) -> Rel w w2.
Proof. intros w w1 w2 H Hl Ha. eapply Rel_frame; eauto using live_eq_refl. Qed.

Lemma gate_awaiting : forall w m s r, send_gate w m = Some (s, r) -> s = Awaiting -> st w = Awaiting.
Proof.
  intros w m s r Hg Hs. gate_cases Hg w m; try discriminate; inversion Hg; subst; try discriminate; assumption.
Qed.

(* an original send under Out_ok: refused (nothing changes) or completed *)
Lemma send_orig_cases : forall m w, own_number m = false -> Out_ok w ->
  (send_msg m w = (inr XConn, w) /\ (send_gate w m = None \/ mtype_eqb (f_type m) TTest = true))
  \/ (exists s r w', send_gate w m = Some (s, r) /\ send_msg m w = (inl tt, w') /\ Rel w w'
                     /\ st w' = s /\ rl w' = r /\ maxres w' = maxres w /\ dlv w' = dlv w /\ nout w' = nout w + 1
                     /\ writes (log w') = writes (log w) ++ [out_frame m (nout w)]
                     /\ log w' = log w ++ send_effects (out_frame m (nout w))
                     /\ jt w' = ins_out_tab (jt w) (out_frame m (nout w))).
Proof.
  intros m w Ho Hout.
  destruct (mtype_eqb (f_type m) TTest) eqn:Ht.
  { left. split; auto. apply send_refused; auto. }
  destruct (send_gate w m) as [[s ro]|] eqn:Hg.
  2:{ left. split; auto. apply send_refused; auto. }
  right. exists s, ro.
  destruct Hout as [Hc [Hso [Hrow Hpos]]].
  set (f := out_frame m (nout w)) in *.
  assert (Hh : has_out (jt w) (nout w) = false) by (apply has_out_false; exact Hrow).
  destruct (send_alloc_ok w m s ro Hg Ht Ho Hh) as [Hs Hd]. fold f in Hs, Hd.
  set (W' := sent w s ro f) in *.
  exists W'. split; [reflexivity|]. split; [exact Hs|].
  assert (HjW' : jt W' = ins_out_tab (jt w) f) by (unfold jt at 1; rewrite Hd; reflexivity).
  split; [|split; [reflexivity|split; [reflexivity|split; [reflexivity|split; [reflexivity|split; [reflexivity|]]]]]].
  2:{ split; [|split; [reflexivity|exact HjW']].
      cbn [W' sent log]. unfold send_effects. rewrite !writes_app, writes_stmts. reflexivity. }
  constructor.
  - reflexivity.
  - rewrite HjW'. reflexivity.
  - rewrite HjW'. reflexivity.
  - unfold Out_ok, clean. rewrite Hd, HjW'. cbn [committed cur sout rout ins_out_tab nout W' sent f out_frame f_seq].
    repeat split; try lia.
    intros g Hg'. apply in_app_or in Hg'. destruct Hg' as [Hg'|[Hg'|[]]].
    + apply Hrow in Hg'. lia.
    + subst g. cbn. lia.
  - cbn. lia.
  - exists (send_effects f). split; [reflexivity|].
    intros g Hg' Hor. unfold send_effects in Hg'. rewrite writes_app, writes_stmts in Hg'. cbn in Hg'.
    destruct Hg' as [Hg'|[]]. subst g. cbn. lia.
  - reflexivity.
  - reflexivity.
  - reflexivity.
  - unfold AwOk. cbn [st maxres W' sent]. intros Haw Hst. apply Haw.
    eapply gate_awaiting; eauto.
Qed.

Lemma send_orig_rel : forall m w r w', own_number m = false -> Out_ok w ->
  send_msg m w = (r, w') -> Rel w w'.
Proof.
  intros m w r w' Ho Hout Hs.
  destruct (send_orig_cases m w Ho Hout) as [[He _]|(s & ro & W' & _ & He & HR & _)]; rewrite He in Hs; inversion Hs; subst.
  - apply Rel_refl; auto.
  - exact HR.
Qed.

(* an original send over a raising transport: refused, or journaled (and written when the fault is in drain()) *)
Lemma send_fault_orig_rel : forall d m w r w', own_number m = false -> Out_ok w ->
  send_fault d m w = (r, w') -> Rel w w'.
Proof.
  intros d m w r w' Ho Hout Hs.
  destruct (mtype_eqb (f_type m) TTest) eqn:Ht.
  { rewrite send_fault_refused in Hs by auto. inversion Hs; subst. apply Rel_refl; auto. }
  destruct (send_gate w m) as [[s ro]|] eqn:Hg.
  2:{ rewrite send_fault_refused in Hs by auto. inversion Hs; subst. apply Rel_refl; auto. }
  destruct Hout as [Hc [Hso [Hrow Hpos]]].
  set (f := out_frame m (nout w)) in *.
  assert (Hh : has_out (jt w) (nout w) = false) by (apply has_out_false; exact Hrow).
  destruct (send_fault_alloc_ok d w m s ro Hg Ht Ho Hh) as [He Hd]. fold f in He, Hd.
  set (W' := fault_sent w s ro d f) in *.
  rewrite He in Hs. inversion Hs; subst r w'. clear Hs.
  assert (HjW' : jt W' = ins_out_tab (jt w) f) by (unfold jt at 1; rewrite Hd; reflexivity).
  constructor.
  - reflexivity.
  - rewrite HjW'. reflexivity.
  - rewrite HjW'. reflexivity.
  - unfold Out_ok, clean. rewrite Hd, HjW'. cbn [committed cur sout rout ins_out_tab nout W' fault_sent f out_frame f_seq].
    repeat split; try lia.
    intros g Hg'. apply in_app_or in Hg'. destruct Hg' as [Hg'|[Hg'|[]]].
    + apply Hrow in Hg'. lia.
    + subst g. cbn. lia.
  - cbn. lia.
  - exists (fault_effects d f). split; [reflexivity|].
    intros g Hg' Hor. unfold fault_effects in Hg'. rewrite writes_app, writes_stmts in Hg'. destruct d; cbn in Hg'.
    + destruct Hg' as [Hg'|[]]. subst g. cbn. lia.
    + contradiction.
  - reflexivity.
  - reflexivity.
  - reflexivity.
  - unfold AwOk. cbn [st maxres W' fault_sent]. intros Haw Hst. apply Haw.
    eapply gate_awaiting; eauto.
Qed.


(* ------------------------------------------------------------------ sends that are not journaled; ResendRequest servicing *)

Fixpoint nstmts (l : list effect) : nat :=
  match l with
  | [] => O
  | EStmt _ :: l' => S (nstmts l')
  | _ :: l' => nstmts l'
  end.

Lemma nstmts_app : forall l1 l2, nstmts (l1 ++ l2) = (nstmts l1 + nstmts l2)%nat.
Proof. induction l1 as [|e l1 IH]; intros; cbn [app nstmts]; [reflexivity|]. destruct e; cbn; rewrite ?IH; reflexivity. Qed.

Lemma fold_estep_nostmt : forall l d, nstmts l = O -> fold_left estep l d = d.
Proof.
  induction l as [|e l IH]; intros d H; cbn [fold_left]; [reflexivity|].
  destruct e; cbn [nstmts] in H; try discriminate; cbn [estep]; apply IH; exact H.
Qed.

(* w' is w after PossDup copies / gap fills and state changes only: no SQL statement, counters untouched,
   nothing original on the wire *)
Record Quiet (w w' : world) : Prop := mkQuiet {
  k_nin : nin w' = nin w;
  k_nout : nout w' = nout w;
  k_log : exists l, log w' = log w ++ l /\ nstmts l = O /\ (forall f, In f (writes l) -> original f = false);
  k_base : base w' = base w;
  k_past : past w' = past w;
  k_ctor : ctor w' = ctor w;
  k_aw : AwOk w -> AwOk w'
}.

Lemma Quiet_refl : forall w, Quiet w w.
Proof.
  intros w. constructor; auto. exists []. rewrite app_nil_r. repeat split; auto. intros f Hf; cbn in Hf; contradiction.
Qed.

Lemma Quiet_trans : forall a b c, Quiet a b -> Quiet b c -> Quiet a c.
Proof.
  intros a b c [n1 o1 [l1 [L1 [C1 W1]]] b1 p1 t1 a1] [n2 o2 [l2 [L2 [C2 W2]]] b2 p2 t2 a2].
  constructor; try congruence; auto.
  exists (l1 ++ l2). rewrite L2, L1, app_assoc. split; [reflexivity|]. split.
  - rewrite nstmts_app, C1, C2. reflexivity.
  - intros f Hf. rewrite writes_app in Hf. apply in_app_or in Hf. destruct Hf; auto.
Qed.

Lemma Quiet_db : forall w w', Quiet w w' -> db w' = db w.
Proof.
  intros w w' [_ _ [l [L [C _]]] B _ _ _]. unfold db. rewrite B, L, replay_app. apply fold_estep_nostmt. exact C.
Qed.

Lemma Quiet_Rel : forall w w', Out_ok w -> Quiet w w' -> Rel w w'.
Proof.
  intros w w' (Hc & Hs & Hr & Hp) Q. pose proof (Quiet_db _ _ Q) as Hdb.
  assert (Hj : jt w' = jt w) by (unfold jt; rewrite Hdb; reflexivity).
  destruct Q as [n o [l [L [C W]]] b p t a].
  constructor; try congruence; auto.
  - unfold Out_ok, clean. rewrite Hdb, Hj, o. auto.
  - lia.
  - exists l. split; auto. intros f Hf Ho. rewrite (W f Hf) in Ho. discriminate.
Qed.

Lemma own_not_original : forall m n, own_number m = true -> original (out_frame m n) = false.
Proof.
  intros m n H. unfold own_number in H. unfold original, out_frame. cbn [f_pd f_type].
  destruct (f_pd m); cbn; [reflexivity|]. rewrite orb_false_r in H. rewrite H. reflexivity.
Qed.

Lemma unjournaled_own : forall m, unjournaled m = true -> own_number m = true.
Proof.
  intros m H. unfold unjournaled in H. unfold own_number. destruct (f_pd m); [apply orb_true_r|].
  cbn in H. apply andb_prop in H. destruct H as [H _]. rewrite H. reflexivity.
Qed.

Lemma send_quiet : forall m w r w', unjournaled m = true -> send_msg m w = (r, w') -> Quiet w w'.
Proof.
  intros m w r w' Hu Hs. pose proof (unjournaled_own m Hu) as Ho.
  destruct (mtype_eqb (f_type m) TTest) eqn:Ht.
  { rewrite send_refused in Hs by auto. inversion Hs; subst. apply Quiet_refl. }
  destruct (send_gate w m) as [[s ro]|] eqn:Hg.
  2:{ rewrite send_refused in Hs by auto. inversion Hs; subst. apply Quiet_refl. }
  rewrite (send_unj w m s ro Hg Ht Hu) in Hs. inversion Hs; subst r w'. clear Hs.
  constructor; try reflexivity.
  - exists [EWrite (out_frame m (f_seq m)); EDrain]. split; [cbn [written log]; rewrite <- app_assoc; reflexivity|].
    split; [reflexivity|]. intros g Hg'. cbn in Hg'. destruct Hg' as [Hg'|[]]. subst g. apply own_not_original; auto.
  - unfold AwOk. cbn [st maxres written]. intros Ha Hst. apply Ha. eapply gate_awaiting; eauto.
Qed.

Lemma send_fault_quiet : forall d m w r w', unjournaled m = true -> send_fault d m w = (r, w') -> Quiet w w'.
Proof.
  intros d m w r w' Hu Hs. pose proof (unjournaled_own m Hu) as Ho.
  destruct (mtype_eqb (f_type m) TTest) eqn:Ht.
  { rewrite send_fault_refused in Hs by auto. inversion Hs; subst. apply Quiet_refl. }
  destruct (send_gate w m) as [[s ro]|] eqn:Hg.
  2:{ rewrite send_fault_refused in Hs by auto. inversion Hs; subst. apply Quiet_refl. }
  rewrite (send_fault_unj d w m s ro Hg Ht Hu) in Hs. inversion Hs; subst r w'. clear Hs.
  constructor; try reflexivity.
  - exists (if d then [EWrite (out_frame m (f_seq m))] else []). split; [reflexivity|].
    split; [destruct d; reflexivity|]. intros g Hg'. destruct d; cbn in Hg'; [|contradiction].
    destruct Hg' as [Hg'|[]]. subst g. apply own_not_original; auto.
  - unfold AwOk. cbn [st maxres fault_written]. intros Ha Hst. apply Ha. eapply gate_awaiting; eauto.
Qed.

Definition QuietM {A} (m : M A) : Prop := forall w r w', m w = (r, w') -> Quiet w w'.

Lemma QuietM_ret : forall A (a : A), QuietM (ret a).
Proof. intros A a w r w' H. inversion H; subst. apply Quiet_refl. Qed.
Lemma QuietM_raise : forall A e, QuietM (@raise A e).
Proof. intros A e w r w' H. inversion H; subst. apply Quiet_refl. Qed.
Lemma QuietM_get : QuietM get.
Proof. intros w r w' H. inversion H; subst. apply Quiet_refl. Qed.
Lemma QuietM_assert : forall b, QuietM (assert_ b).
Proof. intros []; [apply QuietM_ret|apply QuietM_raise]. Qed.
Lemma QuietM_bind : forall A B (m : M A) (k : A -> M B), QuietM m -> (forall a, QuietM (k a)) -> QuietM (bind m k).
Proof.
  intros A B m k Hm Hk w r w' H. unfold bind in H.
  destruct (m w) as [[a|e] w1] eqn:E.
  - eapply Quiet_trans; [eapply Hm; eauto|eapply Hk; eauto].
  - inversion H; subst. eapply Hm; eauto.
Qed.
Lemma QuietM_set_st : forall s, s <> Awaiting -> QuietM (set_st s).
Proof.
  intros s Hs w r w' H. unfold set_st, upd in H. inversion H; subst.
  constructor; try reflexivity.
  - exists []. cbn [log]. rewrite app_nil_r. repeat split; auto. intros f Hf; cbn in Hf; contradiction.
  - intros _ E. cbn in E. contradiction.
Qed.
Lemma QuietM_send : forall m, unjournaled m = true -> QuietM (send_msg m).
Proof. intros m Hm w r w' H. eapply send_quiet; eauto. Qed.

Lemma QuietM_replay_loop : forall rows gfb gfe, QuietM (replay_loop rows gfb gfe).
Proof.
  induction rows as [|x rows IH]; intros gfb gfe; cbn [replay_loop].
  - apply QuietM_ret.
  - destruct (is_session_type (f_type x)); [apply IH|].
    cbv zeta.
    apply QuietM_bind; [match goal with |- QuietM (if ?c then _ else _) => destruct c end;
                        [apply QuietM_send; reflexivity|apply QuietM_ret]|intros _].
    apply QuietM_bind; [apply QuietM_send; reflexivity|intros _].
    apply IH.
Qed.

(* servicing a ResendRequest writes neither the journal nor a counter, whatever the request and the journal *)
Lemma QuietM_process_resend : forall f, QuietM (process_resend f).
Proof.
  intros f. unfold process_resend.
  apply QuietM_bind; [apply QuietM_get|intros w0].
  apply QuietM_bind; [destruct (cstate_eqb (st w0) Awaiting); [apply QuietM_ret|apply QuietM_set_st; discriminate]|intros _].
  apply QuietM_bind; [apply QuietM_get|intros w1].
  apply QuietM_bind; [apply QuietM_replay_loop|intros g].
  apply QuietM_bind; [apply QuietM_assert|intros _].
  apply QuietM_bind; [match goal with |- QuietM (if ?c then _ else _) => destruct c end;
                      [apply QuietM_send; reflexivity|apply QuietM_ret]|intros _].
  apply QuietM_bind; [apply QuietM_get|intros w2].
  destruct (cstate_eqb (st w2) Awaiting); [apply QuietM_ret|apply QuietM_set_st; discriminate].
Qed.

Lemma resend_keeps_journal : forall f w r w', process_resend f w = (r, w') ->
  db w' = db w /\ nin w' = nin w /\ nout w' = nout w
  /\ exists l, log w' = log w ++ l /\ nstmts l = O /\ (forall g, In g (writes l) -> original g = false).
Proof.
  intros f w r w' H. pose proof (QuietM_process_resend f w r w' H) as Q.
  split; [apply Quiet_db; exact Q|]. split; [apply Q|]. split; [apply Q|apply Q].
Qed.

(* ------------------------------------------------------------------ handlers that only send originals *)

Ltac live_tac := repeat split; reflexivity.

Lemma gate_logout : forall w m, is_disc (st w) = false -> f_type m = TLogout -> send_gate w m <> None.
Proof.
  intros w m Hd Ht. unfold send_gate. rewrite Hd, Ht. cbn [mtype_eqb orb negb andb].
  destruct (cstate_eqb (st w) NCE); [discriminate|]. rewrite !andb_false_r.
  destruct (role_eqb (rl w) Initiator); discriminate.
Qed.

Lemma Out_ok_live : forall a b, live_eq a b -> Out_ok a -> Out_ok b.
Proof.
  intros a b Hl [Hc [Hs [Hr Hp]]].
  assert (Hdb : db a = db b) by (apply live_eq_db; auto).
  assert (Hj : jt a = jt b) by (unfold jt; rewrite Hdb; reflexivity).
  destruct Hl as (_ & Ho & _). unfold Out_ok, clean. rewrite <- Hj, <- Hdb, <- Ho. auto.
Qed.

Lemma disconnect_rel : forall b w r w', Out_ok w -> disconnect b w = (r, w') -> Rel w w'.
Proof.
  intros b w r w' Hout H. unfold disconnect in H. munfold_in H.
  destruct (is_disc (st w)) eqn:Hd.
  { inversion H; subst. apply Rel_refl; auto. }
  set (w1 := mkW (nin w) (nout w) (st w) (rl w) 0 (dlv w) (ctor w) (base w) (log w) (past w)) in *.
  assert (Hl1 : live_eq w w1) by live_tac.
  assert (Hout1 : Out_ok w1) by (eapply Out_ok_live; eauto).
  destruct b.
  - destruct (send_orig_cases (mkF TLogout 0 false 0 0) w1 eq_refl Hout1)
      as [[He [Hg|Hg]]|(s & ro & W' & Hg & He & HR & Hst & _)].
    + exfalso. revert Hg. apply gate_logout; auto.
    + discriminate.
    + rewrite He in H. inversion H; subst r w'. clear H.
      eapply Rel_frame; [exact HR|exact Hl1|live_tac|].
      intros _ Hs. cbn in Hs. discriminate.
  - inversion H; subst r w'. clear H.
    eapply Rel_frame; [apply (Rel_refl w Hout)|apply live_eq_refl|live_tac|].
    intros _ Hs. cbn in Hs. discriminate.
Qed.

Lemma disconnect_disc : forall b w r w', Out_ok w -> disconnect b w = (r, w') -> r = inl tt /\ is_disc (st w') = true.
Proof.
  intros b w r w' Hout H. unfold disconnect in H. munfold_in H.
  destruct (is_disc (st w)) eqn:Hd.
  { inversion H; subst. auto. }
  set (w1 := mkW (nin w) (nout w) (st w) (rl w) 0 (dlv w) (ctor w) (base w) (log w) (past w)) in *.
  assert (Hl1 : live_eq w w1) by live_tac.
  assert (Hout1 : Out_ok w1) by (eapply Out_ok_live; eauto).
  destruct b.
  - destruct (send_orig_cases (mkF TLogout 0 false 0 0) w1 eq_refl Hout1)
      as [[He [Hg|Hg]]|(s & ro & W' & Hg & He & HR & Hst & _)].
    + exfalso. revert Hg. apply gate_logout; auto.
    + discriminate.
    + rewrite He in H. inversion H; subst r w'. auto.
  - inversion H; subst r w'. auto.
Qed.

Lemma process_logon_rel : forall f w r w', Out_ok w -> process_logon f w = (r, w') -> Rel w w'.
Proof.
  intros f w r w' Hout H. unfold process_logon in H. munfold_in H.
  destruct (role_eqb (rl w) Acceptor).
  - destruct (cstate_eqb (st w) LogonRecv) eqn:Hs.
    2:{ inversion H; subst. apply Rel_refl; auto. }
    destruct (nin w <=? f_seq f).
    + destruct (send_msg (mkF TLogon 0 false 0 0) w) as [[[]|e] w1] eqn:Hsend;
        apply send_orig_rel in Hsend; auto.
      * destruct (f_seq f =? nin w1); inversion H; subst r w'; clear H;
          (eapply Rel_live; [exact Hsend|live_tac|intros _ Hst; cbn in Hst; discriminate]).
      * inversion H; subst. exact Hsend.
    + destruct (f_seq f =? nin w); inversion H; subst r w'; clear H;
        (eapply Rel_live; [apply Rel_refl; auto|live_tac|intros _ Hst; cbn in Hst; discriminate]).
  - destruct (f_seq f =? nin w); inversion H; subst r w'; clear H;
      (eapply Rel_live; [apply Rel_refl; auto|live_tac|intros _ Hst; cbn in Hst; discriminate]).
Qed.

Lemma check_gaps_rel : forall n w r w', Out_ok w -> 0 < nin w -> check_gaps n w = (r, w') -> Rel w w'.
Proof.
  intros n w r w' Hout Hpos H. unfold check_gaps in H. munfold_in H.
  destruct (nin w <? n) eqn:Hlt.
  2:{ inversion H; subst. apply Rel_refl; auto. }
  destruct (cstate_eqb (st w) Awaiting) eqn:Hs.
  { inversion H; subst. apply Rel_refl; auto. }
  set (w1 := mkW (nin w) (nout w) (st w) (rl w) n (dlv w) (ctor w) (base w) (log w) (past w)) in *.
  assert (Hl1 : live_eq w w1) by live_tac.
  assert (Hout1 : Out_ok w1) by (eapply Out_ok_live; eauto).
  assert (Hst1 : st w1 <> Awaiting).
  { cbn. intro E. rewrite E in Hs. discriminate. }
  destruct (send_orig_cases (mkF TResend 0 false (nin w) 0) w1 eq_refl Hout1)
    as [[He _]|(s & ro & W' & Hg & He & HR & Hst & _ & Hmax & _)]; rewrite He in H; inversion H; subst r w'; clear H.
  - eapply Rel_frame; [apply (Rel_refl w Hout)|apply live_eq_refl|exact Hl1|].
    intros _ E. contradiction.
  - eapply Rel_frame; [exact HR|exact Hl1|live_tac|].
    intros _ _. cbn [maxres]. rewrite Hmax. cbn. lia.
Qed.

(* combinators: a computation that only makes Rel-steps *)
Definition RelM {A} (m : M A) : Prop :=
  forall w r w', Out_ok w -> 0 < nin w -> m w = (r, w') -> Rel w w'.

Lemma RelM_ret : forall A (a : A), RelM (ret a).
Proof. intros A a w r w' Ho Hp H. inversion H; subst. apply Rel_refl; auto. Qed.

Lemma RelM_raise : forall A e, RelM (@raise A e).
Proof. intros A e w r w' Ho Hp H. inversion H; subst. apply Rel_refl; auto. Qed.

Lemma RelM_get : RelM get.
Proof. intros w r w' Ho Hp H. inversion H; subst. apply Rel_refl; auto. Qed.

Lemma RelM_bind : forall A B (m : M A) (k : A -> M B), RelM m -> (forall a, RelM (k a)) -> RelM (bind m k).
Proof.
  intros A B m k Hm Hk w r w' Ho Hp H. unfold bind in H.
  destruct (m w) as [[a|e] w1] eqn:E.
  - specialize (Hm _ _ _ Ho Hp E).
    eapply Rel_trans; [exact Hm|]. eapply Hk; [apply Hm|rewrite (r_nin _ _ Hm); auto|exact H].
  - inversion H; subst. eapply Hm; eauto.
Qed.

Lemma RelM_catch : forall A (m : M A), RelM m -> RelM (catch m).
Proof.
  intros A m Hm w r w' Ho Hp H. unfold catch in H. destruct (m w) as [x w1] eqn:E.
  inversion H; subst. eapply Hm; eauto.
Qed.

Lemma RelM_assert : forall b, RelM (assert_ b).
Proof. intros []; [apply RelM_ret|apply RelM_raise]. Qed.

Lemma RelM_set_st : forall s, s <> Awaiting -> RelM (set_st s).
Proof.
  intros s Hs w r w' Ho Hp H. unfold set_st, upd in H. inversion H; subst.
  eapply Rel_live; [apply Rel_refl; auto|live_tac|]. intros _ E. cbn in E. contradiction.
Qed.

Lemma RelM_set_rl : forall x, RelM (set_rl x).
Proof.
  intros x w r w' Ho Hp H. unfold set_rl, upd in H. inversion H; subst.
  eapply Rel_live; [apply Rel_refl; auto|live_tac|]. intros E. exact E.
Qed.

Lemma RelM_deliver : forall n, RelM (deliver n).
Proof.
  intros n w r w' Ho Hp H. unfold deliver, upd in H. inversion H; subst.
  eapply Rel_live; [apply Rel_refl; auto|live_tac|]. intros E. exact E.
Qed.

Lemma RelM_send : forall m, own_number m = false -> RelM (send_msg m).
Proof. intros m Hm w r w' Ho Hp H. eapply send_orig_rel; eauto. Qed.

Lemma RelM_process_resend : forall f, RelM (process_resend f).
Proof. intros f w r w' Ho Hp H. apply Quiet_Rel; auto. eapply QuietM_process_resend; eauto. Qed.

Lemma RelM_disconnect : forall b, RelM (disconnect b).
Proof. intros b w r w' Ho Hp H. eapply disconnect_rel; eauto. Qed.

Lemma RelM_check_gaps : forall n, RelM (check_gaps n).
Proof. intros n w r w' Ho Hp H. eapply check_gaps_rel; eauto. Qed.

Ltac relm :=
  repeat first
    [ apply RelM_ret | apply RelM_raise | apply RelM_get | apply RelM_assert | apply RelM_set_rl
    | apply RelM_deliver | apply RelM_disconnect | apply RelM_check_gaps | apply RelM_process_resend
    | apply RelM_set_st; discriminate
    | apply RelM_send; reflexivity
    | apply RelM_catch
    | apply RelM_bind; [|intro]
    | match goal with
      | |- RelM (if ?c then _ else _) => destruct c
      | |- RelM (match ?x with _ => _ end) => destruct x
      end ].

Lemma RelM_process_logon : forall f, RelM (process_logon f).
Proof. intros f. unfold process_logon. relm. Qed.

Lemma RelM_pm_head : forall f, mtype_eqb (f_type f) TSeqReset = false -> mtype_eqb (f_type f) TLogout = false ->
  RelM (pm_head f).
Proof.
  intros f Hf Hl. unfold pm_head, process_logout. destruct (f_type f) eqn:Ht; try discriminate;
    relm; try apply RelM_process_logon; relm.
Qed.

Lemma RelM_pm_dispatch : forall f v, RelM (pm_dispatch f v).
Proof.
  intros f v. unfold pm_dispatch. destruct (f_type f) eqn:Ht; relm.
Qed.

(* ------------------------------------------------------------------ operation-level step relation *)

Record Step (w w' : world) : Prop := mkStep {
  s_inv : Inv w';
  s_mono : nout w <= nout w';
  s_log : exists l, log w' = log w ++ l
                    /\ (forall f, In f (writes l) -> original f = true -> nout w <= f_seq f < nout w');
  s_base : base w' = base w;
  s_past : past w' = past w;
  s_ctor : ctor w' = ctor w
}.

Lemma Step_refl : forall w, Inv w -> Step w w.
Proof.
  intros w H. constructor; auto; try lia. exists []. rewrite app_nil_r. split; auto.
  intros f Hf. cbn in Hf. contradiction.
Qed.

Lemma Step_trans : forall a b c, Step a b -> Step b c -> Step a c.
Proof.
  intros a b c [i1 m1 [l1 [L1 W1]] b1 p1 c1] [i2 m2 [l2 [L2 W2]] b2 p2 c2].
  constructor; try congruence; try lia; auto.
  exists (l1 ++ l2). rewrite L2, L1, app_assoc. split; [reflexivity|].
  intros f Hf Ho. rewrite writes_app in Hf. apply in_app_or in Hf. destruct Hf as [Hf|Hf].
  - specialize (W1 f Hf Ho). lia.
  - specialize (W2 f Hf Ho). lia.
Qed.

Lemma Rel_Step : forall w w', Inv w -> Rel w w' -> Step w w'.
Proof.
  intros w w' (Ho & (Hs & Hr & Hp) & Ha) [n1 s1 i1 o1 m1 [l [L W]] b1 p1 c1 a1].
  constructor; auto.
  - split; [exact o1|]. split; [|auto].
    unfold In_ok. rewrite s1, i1, n1. auto.
  - exists l. auto.
Qed.

Lemma Out_ok_ext : forall a b, nout a = nout b -> base a = base b -> log a = log b -> Out_ok a -> Out_ok b.
Proof.
  intros a b Hn Hb Hl [Hc [Hs [Hr Hp]]].
  assert (Hdb : db a = db b) by (unfold db; rewrite Hb, Hl; reflexivity).
  assert (Hj : jt a = jt b) by (unfold jt; rewrite Hdb; reflexivity).
  unfold Out_ok, clean. rewrite <- Hj, <- Hdb, <- Hn. auto.
Qed.

(* the journal write of an accepted inbound frame numbered n, live counter already n + 1 *)
Lemma persist_in_inv : forall W n r W', Out_ok W -> (forall k, In k (rin (jt W)) -> k < n) ->
  0 < n -> nin W = n + 1 -> AwOk W -> persist_in n W = (r, W') ->
  Inv W' /\ r = inl tt /\ nout W' = nout W /\ log W' = log W ++ map EStmt (persist_in_prims n)
  /\ base W' = base W /\ past W' = past W /\ ctor W' = ctor W /\ nin W' = n + 1 /\ st W' = st W.
Proof.
  intros W n r W' [Hc [Hs [Hr Hp]]] Hrin Hn Hnin Ha H.
  assert (Hh : has_in (jt W) n = false) by (apply has_in_false; auto).
  destruct (persist_in_ok n W Hh) as [He Hd].
  set (W2 := with_log W (log W ++ map EStmt (persist_in_prims n))) in *.
  rewrite He in H. inversion H; subst r W'. clear H. rename W2 into W'.
  assert (Hj : jt W' = ins_in_tab (jt W) n) by (unfold jt at 1; rewrite Hd; reflexivity).
  repeat split; try reflexivity; auto.
  - unfold clean. rewrite Hd. reflexivity.
  - rewrite Hj. exact Hs.
  - rewrite Hj. exact Hr.
  - rewrite Hj. cbn [sin ins_in_tab nin W' with_log]. lia.
  - rewrite Hj. cbn [rin ins_in_tab nin W' with_log]. intros k Hk. apply in_app_or in Hk.
    destruct Hk as [Hk|[Hk|[]]]; [apply Hrin in Hk; lia|lia].
  - cbn [nin W' with_log]. lia.
Qed.

Lemma finalize_step : forall f w r w', mtype_eqb (f_type f) TSeqReset = false -> Inv w ->
  finalize f w = (r, w') ->
  Step w w' /\ nout w' = nout w /\ (exists l, log w' = log w ++ l /\ writes l = []).
Proof.
  intros f w r w' Hty HI H. pose proof HI as (Ho & (Hs & Hr & Hp) & Ha).
  unfold finalize in H. rewrite Hty in H. munfold_in H.
  destruct (f_seq f =? nin w) eqn:Heq.
  2:{ cbn in H. inversion H; subst. split; [apply Step_refl; auto|]. split; auto.
      exists []. rewrite app_nil_r. auto. }
  assert (Hfn : f_seq f = nin w) by lia.
  destruct (f_seq f <=? 0) eqn:Hle; [lia|].
  cbn [st maxres nin nout rl dlv ctor base log past] in H.
  assert (Hgen : forall W, nout W = nout w -> base W = base w -> log W = log w -> past W = past w -> ctor W = ctor w ->
                 nin W = f_seq f + 1 -> AwOk W -> persist_in (f_seq f) W = (r, w') ->
                 Step w w' /\ nout w' = nout w /\ (exists l, log w' = log w ++ l /\ writes l = [])).
  { intros W Hn Hb Hl Hpa Hc Hni HaW HP.
    assert (HoW : Out_ok W) by (eapply Out_ok_ext; [| | |exact Ho]; auto).
    assert (HjW : jt W = jt w) by (unfold jt, db; rewrite Hb, Hl; reflexivity).
    destruct (persist_in_inv W (f_seq f) r w' HoW) as (I' & _ & N' & L' & B' & P' & C' & _); auto.
    - rewrite HjW. intros k Hk. apply Hr in Hk. lia.
    - lia.
    - split; [|split].
      + constructor; try congruence; try lia.
        exists (map EStmt (persist_in_prims (f_seq f))). rewrite L', Hl. split; [reflexivity|].
        rewrite writes_stmts. intros g Hg. contradiction.
      + congruence.
      + exists (map EStmt (persist_in_prims (f_seq f))). rewrite L', Hl. rewrite writes_stmts. auto. }
  destruct (cstate_eqb (st w) Awaiting) eqn:Hst.
  - assert (Hmx : 0 < maxres w). { apply Ha. destruct (st w); try discriminate; reflexivity. }
    assert (Hmb : (0 <? maxres w) = true) by lia. rewrite Hmb in H.
    destruct (maxres w <=? f_seq f).
    + eapply Hgen; [| | | | | | |exact H]; try reflexivity. unfold AwOk. cbn. discriminate.
    + eapply Hgen; [| | | | | | |exact H]; try reflexivity. unfold AwOk. cbn. auto.
  - eapply Hgen; [| | | | | | |exact H]; try reflexivity. unfold AwOk. cbn. intro E. rewrite E in Hst. discriminate.
Qed.

Lemma Inv_Out : forall w, Inv w -> Out_ok w. Proof. intros w H; apply H. Qed.
Lemma Inv_nin : forall w, Inv w -> 0 < nin w. Proof. intros w (_ & (_ & _ & H) & _); exact H. Qed.

(* a world that differs from w only by effects without transport writes and with the same outbound counter *)
Lemma Step_quiet : forall w w' l, Inv w' -> nout w' = nout w -> log w' = log w ++ l -> writes l = [] ->
  base w' = base w -> past w' = past w -> ctor w' = ctor w -> Step w w'.
Proof.
  intros w w' l HI Hn Hl Hw Hb Hp Hc. constructor; auto; try lia.
  exists l. split; auto. rewrite Hw. intros f Hf. contradiction.
Qed.

(* computations that make Steps (may journal an inbound frame) *)
Definition StepM {A} (m : M A) : Prop := forall w r w', Inv w -> m w = (r, w') -> Step w w'.

Lemma StepM_of_RelM : forall A (m : M A), RelM m -> StepM m.
Proof. intros A m Hm w r w' HI H. apply Rel_Step; auto. eapply Hm; eauto using Inv_Out, Inv_nin. Qed.

Lemma StepM_bind : forall A B (m : M A) (k : A -> M B), StepM m -> (forall a, StepM (k a)) -> StepM (bind m k).
Proof.
  intros A B m k Hm Hk w r w' HI H. unfold bind in H.
  destruct (m w) as [[a|e] w1] eqn:E.
  - pose proof (Hm _ _ _ HI E) as S1. eapply Step_trans; [exact S1|]. eapply Hk; [apply S1|exact H].
  - inversion H; subst. eapply Hm; eauto.
Qed.

(* the peer's in-sequence Logout is counted and journaled *)
Lemma count_logout_spec : forall f w r w', Inv w -> count_logout f w = (r, w') ->
  Step w w' /\ st w' = st w /\ rl w' = rl w
  /\ (f_seq f = nin w -> r = inl tt /\ nin w' = nin w + 1 /\ sin (jt w') = nin w)
  /\ (f_seq f <> nin w -> w' = w).
Proof.
  intros f w r w' HI H. pose proof HI as (Ho & (Hs & Hr & Hp) & Ha).
  unfold count_logout in H. munfold_in H.
  destruct (f_seq f =? nin w) eqn:Heq.
  2:{ inversion H; subst. split; [apply Step_refl; auto|]. split; [reflexivity|]. split; [reflexivity|].
      split; [intros E; lia|intros _; reflexivity]. }
  assert (Hfn : f_seq f = nin w) by lia.
  cbn [st maxres nin nout rl dlv ctor base log past] in H. rewrite Hfn in H.
  set (W := mkW (nin w + 1) (nout w) (st w) (rl w) (maxres w) (dlv w) (ctor w) (base w) (log w) (past w)) in *.
  assert (HoW : Out_ok W) by (eapply Out_ok_ext; [| | |exact Ho]; reflexivity).
  assert (HaW : AwOk W) by exact Ha.
  destruct (persist_in_inv W (nin w) r w' HoW Hr Hp eq_refl HaW H) as (I' & R' & N' & L' & B' & P' & C' & Ni' & S').
  split.
  { eapply (Step_quiet w w' (map EStmt (persist_in_prims (nin w)))); auto; try apply writes_stmts. }
  split; [exact S'|]. split.
  { destruct (persist_in_ok (nin w) W) as [E _]; [apply has_in_false; exact Hr|].
    rewrite E in H. inversion H; subst. reflexivity. }
  split; [|intros E; contradiction].
  intros _. split; [exact R'|]. split; [exact Ni'|].
  destruct I' as (_ & (Hs' & _) & _). lia.
Qed.

Lemma StepM_catch : forall A (m : M A), StepM m -> StepM (catch m).
Proof.
  intros A m Hm w r w' HI H. unfold catch in H. destruct (m w) as [x w1] eqn:E. inversion H; subst. eapply Hm; eauto.
Qed.

Lemma StepM_count_logout : forall f, StepM (count_logout f).
Proof. intros f w r w' HI H. apply (count_logout_spec f w r w' HI H). Qed.

Lemma StepM_pm_head : forall f, mtype_eqb (f_type f) TSeqReset = false -> StepM (pm_head f).
Proof.
  intros f Hs. destruct (mtype_eqb (f_type f) TLogout) eqn:Hl.
  2:{ apply StepM_of_RelM. apply RelM_pm_head; auto. }
  assert (Ht : f_type f = TLogout) by (destruct (f_type f); try discriminate; reflexivity).
  unfold pm_head, process_logout. rewrite Ht. cbn [mtype_eqb].
  apply StepM_bind; [apply StepM_of_RelM; relm|intros w0].
  apply StepM_bind; [apply StepM_of_RelM; relm|intros _].
  apply StepM_bind; [apply StepM_of_RelM; relm|intros ok].
  destruct (negb ok); [apply StepM_of_RelM; relm|].
  apply StepM_bind; [|intros _; apply StepM_of_RelM; relm].
  apply StepM_bind; [apply StepM_catch; apply StepM_count_logout|intros _; apply StepM_of_RelM; relm].
Qed.

Lemma pm_plain_step : forall f w r w',
  mtype_eqb (f_type f) TSeqReset = false -> Inv w ->
  process_message f w = (r, w') -> Step w w'.
Proof.
  intros f w r w' Hs HI H. unfold process_message in H.
  cbv beta iota delta [bind get] in H.
  destruct (too_low f w).
  { apply Rel_Step; auto. eapply disconnect_rel; eauto using Inv_Out. }
  unfold catch at 1 in H.
  destruct (pm_head f w) as [h w1] eqn:Eh.
  assert (S1 : Step w w1) by (eapply StepM_pm_head; eauto).
  destruct h as [[v|]|e]; try (inversion H; subst; exact S1; fail).
  unfold catch in H.
  destruct (pm_dispatch f v w1) as [d w2] eqn:Ed.
  assert (R2 : Rel w1 w2).
  { eapply RelM_pm_dispatch; eauto; [apply Inv_Out; apply S1|apply Inv_nin; apply S1]. }
  assert (S2 : Step w w2) by (eapply Step_trans; [exact S1|apply Rel_Step; auto; apply S1]).
  destruct v.
  - destruct (finalize_step f w2 r w' Hs (s_inv _ _ S2) H) as [S3 _].
    eapply Step_trans; eauto.
  - unfold ret in H. inversion H; subst. exact S2.
Qed.

(* ------------------------------------------------------------------ inbound SequenceReset *)

Lemma jt_set_world : forall w i o, jt (set_world w i o) = set_tab (jt w) i o.
Proof. intros. unfold jt at 1. rewrite db_set_world. reflexivity. Qed.

Lemma set_world_in_inv : forall w i, Out_ok w -> AwOk w -> 0 < i ->
  Inv (set_world w i (nout w)) /\ (forall k, In k (rin (jt (set_world w i (nout w)))) -> k < i).
Proof.
  intros w i (Hc & Hs & Hr & Hp) Ha Hi.
  assert (Hk : forall k, In k (rin (jt (set_world w i (nout w)))) -> k < i).
  { rewrite jt_set_world. cbn [rin set_tab]. intros k Hk. apply filter_In in Hk. destruct Hk as [_ Hk]. lia. }
  split; [|exact Hk].
  split; [|split].
  - unfold Out_ok, clean. rewrite db_set_world, jt_set_world. cbn [committed cur sout rout set_tab nout set_world].
    repeat split; try lia. intros g Hg. apply filter_In in Hg. destruct Hg as [_ Hg]. lia.
  - unfold In_ok. rewrite jt_set_world in *. cbn [sin set_tab nin set_world]. repeat split; try lia. exact Hk.
  - exact Ha.
Qed.

Lemma set_world_out_inv : forall w o, clean w -> In_ok w -> AwOk w -> 0 < o ->
  Inv (set_world w (nin w) o).
Proof.
  intros w o Hc (Hs & Hr & Hp) Ha Ho.
  split; [|split].
  - unfold Out_ok, clean. rewrite db_set_world, jt_set_world. cbn [committed cur sout rout set_tab nout set_world].
    repeat split; try lia. intros g Hg. apply filter_In in Hg. destruct Hg as [_ Hg]. lia.
  - unfold In_ok. rewrite jt_set_world. cbn [sin rin set_tab nin set_world]. repeat split; try lia.
    intros k Hk. apply filter_In in Hk. destruct Hk as [Hk _]. auto.
  - exact Ha.
Qed.

Lemma check_gaps_val : forall n w v w', check_gaps n w = (inl v, w') -> v = negb (nin w <? n).
Proof.
  intros n w v w' H. unfold check_gaps in H. munfold_in H.
  destruct (nin w <? n); [|inversion H; reflexivity].
  destruct (cstate_eqb (st w) Awaiting); [inversion H; reflexivity|].
  match type of H with (let (_, _) := ?X in _) = _ => destruct X as [[[]|e] w1] end; inversion H; reflexivity.
Qed.

Definition seqreset_lag (f : frame) : bool :=
  (0 <? f_seq f) && (f_seq f <=? f_a f) && (1 <? f_a f) && negb (f_seq f + 1 =? f_a f).


Lemma process_seqreset_cases : forall f w, Inv w ->
  let s := f_seq f in let n := f_a f in
  process_seqreset f w =
    if 0 <? s then
      if 0 <? n then (inl tt, set_world (set_world w s (nout w)) n (nout w))
      else (inr XAssert, set_world w s (nout w))
    else (inr XAssert, w).
Proof.
  intros f w HI s n. unfold process_seqreset, bind. rewrite set_seq_num_in. fold s.
  destruct (0 <? s); [|reflexivity].
  rewrite set_seq_num_in. fold n. destruct (0 <? n); reflexivity.
Qed.

Lemma finalize_seqreset_step : forall f w r w',
  f_type f = TSeqReset -> Inv w -> nin w = f_a f -> (forall k, In k (rin (jt w)) -> k < f_seq f) ->
  0 < f_seq f -> f_seq f <= f_a f -> seqreset_lag f = false ->
  finalize f w = (r, w') -> Step w w'.
Proof.
  intros f w r w' Ht HI Hn Hrows Hs Hle Hlag H. pose proof HI as (Ho & (Hsi & Hr & Hp) & Ha).
  unfold finalize in H. rewrite Ht in H. cbn [mtype_eqb] in H. munfold_in H.
  cbn [st maxres nin nout rl dlv ctor base log past] in H.
  destruct (f_a f - 1 <=? 0) eqn:Hz.
  { inversion H; subst r w'. clear H.
    eapply (Step_quiet w _ []); try reflexivity; [|cbn; rewrite app_nil_r; reflexivity].
    split; [|split].
    - eapply Out_ok_ext; [| | |exact Ho]; reflexivity.
    - unfold In_ok. assert (E : jt (mkW (f_a f) (nout w) (st w) (rl w) (maxres w) (dlv w) (ctor w) (base w) (log w) (past w)) = jt w) by reflexivity.
      rewrite E. cbn [nin]. rewrite <- Hn. auto.
    - exact Ha. }
  assert (Hsn : f_seq f + 1 = f_a f).
  { unfold seqreset_lag in Hlag. lia. }
  assert (Hgen : forall W, nout W = nout w -> base W = base w -> log W = log w -> past W = past w -> ctor W = ctor w ->
                 nin W = f_a f -> AwOk W -> persist_in (f_seq f) W = (r, w') -> Step w w').
  { intros W Hno Hb Hl Hpa Hc Hni HaW HP.
    assert (HoW : Out_ok W) by (eapply Out_ok_ext; [| | |exact Ho]; auto).
    assert (HjW : jt W = jt w) by (unfold jt, db; rewrite Hb, Hl; reflexivity).
    destruct (persist_in_inv W (f_seq f) r w' HoW) as (I' & _ & N' & L' & B' & P' & C' & _); auto.
    - rewrite HjW. exact Hrows.
    - lia.
    - eapply (Step_quiet w w' (map EStmt (persist_in_prims (f_seq f)))); try congruence.
      apply writes_stmts. }
  cbn [st maxres nin nout rl dlv ctor base log past] in H.
  destruct (cstate_eqb (st w) Awaiting) eqn:Hst.
  - assert (Hmx : 0 < maxres w). { apply Ha. destruct (st w); try discriminate; reflexivity. }
    assert (Hmb : (0 <? maxres w) = true) by lia. rewrite Hmb in H.
    destruct (maxres w <=? f_a f - 1).
    + eapply Hgen; [| | | | | | |exact H]; try reflexivity. unfold AwOk. cbn. discriminate.
    + eapply Hgen; [| | | | | | |exact H]; try reflexivity. unfold AwOk. cbn. auto.
  - eapply Hgen; [| | | | | | |exact H]; try reflexivity. unfold AwOk. cbn. intro E. rewrite E in Hst. discriminate.
Qed.

Lemma too_low_seqreset : forall f w, f_type f = TSeqReset -> too_low f w = false.
Proof. intros f w Ht. unfold too_low. rewrite Ht. cbn. rewrite andb_false_r. reflexivity. Qed.

Lemma pm_seqreset_step : forall f w r w', f_type f = TSeqReset -> seqreset_lag f = false -> Inv w ->
  process_message f w = (r, w') -> Step w w'.
Proof.
  intros f w r w' Ht Hlag HI H. pose proof HI as (Ho & HIn & Ha).
  unfold process_message in H. cbv beta iota delta [bind get] in H.
  rewrite (too_low_seqreset f w Ht) in H.
  unfold catch at 1 in H.
  destruct (pm_head f w) as [h w1] eqn:Eh.
  (* what pm_head did *)
  assert (Hhead : Step w w1 /\
            (forall v, h = inl (Some v) ->
               v = (f_seq f <=? f_a f) /\ nin w1 = f_a f /\ 0 < f_seq f
               /\ (forall k, In k (rin (jt w1)) -> k < f_seq f))).
  { unfold pm_head in Eh. rewrite Ht in Eh.
    cbv beta iota delta [bind get ret raise assert_ set_st set_rl upd] in Eh. cbn [mtype_eqb] in Eh.
    destruct (is_disc (st w)) eqn:Hd; cbn [negb] in Eh.
    { inversion Eh; subst. split; [apply Step_refl; auto|]. intros v E; discriminate. }
    destruct (cstate_eqb (st w) NCE) eqn:Hn.
    { destruct (disconnect false w) as [x w2] eqn:Ed.
      pose proof (disconnect_rel _ _ _ _ Ho Ed) as R.
      destruct x as [[]|e]; cbn [negb] in Eh; inversion Eh; subst; (split; [apply Rel_Step; auto|intros v E; discriminate]). }
    cbn [negb andb] in Eh. rewrite !andb_true_r in Eh.
    destruct (cstate_eqb (st w) LogonSent || cstate_eqb (st w) LogonRecv) eqn:Hlg.
    { destruct (disconnect false w) as [x w2] eqn:Ed.
      pose proof (disconnect_rel _ _ _ _ Ho Ed) as R.
      destruct x as [[]|e]; cbn [negb] in Eh; inversion Eh; subst; (split; [apply Rel_Step; auto|intros v E; discriminate]). }
    cbn [negb] in Eh. rewrite (process_seqreset_cases f w HI) in Eh. cbv zeta in Eh.
    destruct (0 <? f_seq f) eqn:Hs.
    2:{ inversion Eh; subst. split; [apply Step_refl; auto|]. intros v E; discriminate. }
    set (wa := set_world w (f_seq f) (nout w)) in *.
    destruct (set_world_in_inv w (f_seq f) Ho Ha ltac:(lia)) as [Ia Ra]. fold wa in Ia, Ra.
    assert (Sa : Step w wa).
    { eapply (Step_quiet w wa (map EStmt (set_prims (f_seq f) (nout w)))); try reflexivity; auto; try apply writes_stmts. }
    destruct (0 <? f_a f) eqn:Hn2.
    2:{ inversion Eh; subst. split; [exact Sa|]. intros v E; discriminate. }
    set (wb := set_world wa (f_a f) (nout w)) in *.
    destruct Ia as (Oa & Ina & Aa).
    destruct (set_world_in_inv wa (f_a f) Oa Aa ltac:(lia)) as [Ib Rb].
    change (nout wa) with (nout w) in Ib, Rb. fold wb in Ib, Rb.
    assert (Sb : Step wa wb).
    { eapply (Step_quiet wa wb (map EStmt (set_prims (f_a f) (nout w)))); try reflexivity; auto; try apply writes_stmts. }
    assert (Rb2 : forall k, In k (rin (jt wb)) -> k < f_seq f).
    { intros k Hk. unfold wb in Hk. rewrite jt_set_world in Hk. cbn [rin set_tab] in Hk.
      apply filter_In in Hk. destruct Hk as [Hk _]. apply Ra. exact Hk. }
    change (is_disc (st wb)) with (is_disc (st w)) in Eh. rewrite Hd in Eh.
    destruct (check_gaps (f_seq f) wb) as [x w3] eqn:Ec.
    pose proof (check_gaps_rel _ _ _ _ (Inv_Out _ Ib) (Inv_nin _ Ib) Ec) as R3.
    assert (S3 : Step w w3).
    { eapply Step_trans; [exact Sa|]. eapply Step_trans; [exact Sb|]. apply Rel_Step; auto. }
    destruct x as [v|e]; inversion Eh; subst h w1; clear Eh.
    - split; [exact S3|]. intros v' E. inversion E; subst v'.
      apply check_gaps_val in Ec. change (nin wb) with (f_a f) in Ec.
      repeat split.
      + rewrite Ec. lia.
      + rewrite (r_nin _ _ R3). reflexivity.
      + lia.
      + rewrite (r_rin _ _ R3). exact Rb2.
    - split; [exact S3|]. intros v' E; discriminate. }
  destruct Hhead as [S1 Hv].
  destruct h as [[v|]|e]; try (inversion H; subst; exact S1; fail).
  destruct (Hv v eq_refl) as (Ev & Hn1 & Hs & Hrows).
  unfold catch, pm_dispatch in H. rewrite Ht in H. unfold ret at 1 in H.
  destruct v.
  - eapply Step_trans; [exact S1|].
    eapply finalize_seqreset_step; eauto; [apply S1|lia].
  - unfold ret in H. inversion H; subst. exact S1.
Qed.

Lemma Inv_live : forall a b, live_eq a b -> Inv a -> AwOk b -> Inv b.
Proof.
  intros a b Hl (Ho & (Hs & Hr & Hp) & _) Ha.
  assert (Hdb : db a = db b) by (apply live_eq_db; auto).
  assert (Hj : jt a = jt b) by (unfold jt; rewrite Hdb; reflexivity).
  split; [eapply Out_ok_live; eauto|]. split; [|exact Ha].
  destruct Hl as (Hn & _). unfold In_ok. rewrite <- Hj, <- Hn. auto.
Qed.

(* ------------------------------------------------------------------ known-finding classes and the main invariant *)

(* D11: an inbound SequenceReset that is finalized (MsgSeqNum <= NewSeqNo, NewSeqNo > 1) and whose NewSeqNo is not
   its own MsgSeqNum + 1: the stored inbound counter becomes the frame's own number *)
Definition KF_D11 (o : op) : bool :=
  match o with OIn f => mtype_eqb (f_type f) TSeqReset && seqreset_lag f | _ => false end.

(* D20: the application sends a SequenceReset WITHOUT GapFillFlag (and without PossDupFlag): it is journaled under its
   own number, the live counter does not move.  (Gap fills and PossDup messages are not journaled since the repair of D12.) *)
Definition KF_D20 (o : op) : bool :=
  match o with
  | OSend m | OSendFault _ m => own_number m && negb (unjournaled m)
  | _ => false
  end.

Definition class_free (h : list op) : bool :=
  forallb (fun o => negb (KF_D11 o) && negb (KF_D20 o)) h.

Lemma skipn_app_exact : forall A (l1 l2 : list A), skipn (length l1) (l1 ++ l2) = l2.
Proof. induction l1; intros; cbn; auto. Qed.

Lemma db_boot : forall r t sent, db (boot r t sent) = mkDb t t.
Proof. reflexivity. Qed.

Lemma restart_inv : forall w, Inv w ->
  Inv (restart w) /\ nin (restart w) = nin w /\ nout (restart w) = nout w /\ allwire (restart w) = allwire w
  /\ st (restart w) = Disc /\ ctor (restart w) = ctor w /\ log (restart w) = [] /\ jt (restart w) = jt w.
Proof.
  intros w ((Hc & Hso & Hro & Hpo) & (Hsi & Hri & Hpi) & Ha).
  unfold restart.
  assert (Hj : jt (boot (ctor w) (committed (db w)) (allwire w)) = jt w).
  { unfold jt at 1. rewrite db_boot. cbn [cur]. exact Hc. }
  assert (Hn : nin (boot (ctor w) (committed (db w)) (allwire w)) = nin w).
  { cbn [boot nin]. rewrite Hc. exact Hsi. }
  assert (Hno : nout (boot (ctor w) (committed (db w)) (allwire w)) = nout w).
  { cbn [boot nout]. rewrite Hc. exact Hso. }
  set (B := boot (ctor w) (committed (db w)) (allwire w)) in *.
  assert (HI : Inv B).
  { split; [|split].
    - split; [unfold clean; reflexivity|]. rewrite Hj, Hno. auto.
    - unfold In_ok. rewrite Hj, Hn. auto.
    - unfold AwOk. cbn. discriminate. }
  split; [exact HI|]. split; [exact Hn|]. split; [exact Hno|].
  split; [unfold allwire; cbn [B boot past log writes]; rewrite app_nil_r; reflexivity|].
  repeat split; auto.
Qed.

(* one operation outside the classes keeps the invariant; unless it is a restart it is a Step *)
Lemma op_step : forall w o, Inv w -> KF_D11 o = false -> KF_D20 o = false ->
  Inv (run_op w o) /\ (o <> ORestart -> Step w (run_op w o)).
Proof.
  intros w o HI H11 H20.
  assert (Hgo : o <> ORestart -> Step w (run_op w o)).
  { intros Hnr. unfold run_op. destruct o as [|f|m|d m|b|]; cbn [step].
    - unfold set_st, upd. cbn [snd]. apply Rel_Step; auto.
      eapply Rel_live; [apply Rel_refl; apply HI|live_tac|]. intros _ E. cbn in E. discriminate.
    - destruct (process_message f w) as [r w'] eqn:E. cbn [snd].
      destruct (mtype_eqb (f_type f) TSeqReset) eqn:Hs.
      + cbn [KF_D11] in H11. rewrite Hs in H11. cbn in H11.
        eapply pm_seqreset_step; eauto. destruct (f_type f); try discriminate; reflexivity.
      + eapply pm_plain_step; eauto.
    - destruct (send_msg m w) as [r w'] eqn:E. cbn [snd]. cbn [KF_D20] in H20.
      apply Rel_Step; auto.
      destruct (own_number m) eqn:Ho.
      + cbn [andb] in H20. apply negb_false_iff in H20.
        apply Quiet_Rel; [apply HI|]. eapply send_quiet; eauto.
      + eapply send_orig_rel; eauto. apply HI.
    - destruct (send_fault d m w) as [r w'] eqn:E. cbn [snd]. cbn [KF_D20] in H20.
      apply Rel_Step; auto.
      destruct (own_number m) eqn:Ho.
      + cbn [andb] in H20. apply negb_false_iff in H20.
        apply Quiet_Rel; [apply HI|]. eapply send_fault_quiet; eauto.
      + eapply send_fault_orig_rel; eauto. apply HI.
    - destruct (disconnect b w) as [r w'] eqn:E. cbn [snd].
      apply Rel_Step; auto. eapply disconnect_rel; eauto. apply HI.
    - contradiction. }
  split; [|exact Hgo].
  destruct o; try (apply Hgo; discriminate).
  unfold run_op. cbn [step upd snd]. apply restart_inv; auto.
Qed.

Lemma fresh_inv : forall r, Inv (fresh r).
Proof.
  intros r. unfold Inv, Out_ok, In_ok, AwOk, clean. cbn. repeat split; try lia; try contradiction; try discriminate.
Qed.

Lemma class_free_cons : forall o h, class_free (o :: h) = true ->
  KF_D11 o = false /\ KF_D20 o = false /\ class_free h = true.
Proof.
  intros o h H. unfold class_free in H. cbn [forallb] in H. apply andb_prop in H. destruct H as [H Hr].
  apply andb_prop in H. destruct H as [H1 H2]. apply negb_true_iff in H1, H2. auto.
Qed.

Lemma run_inv : forall h w, Inv w -> class_free h = true -> Inv (run w h).
Proof.
  induction h as [|o h IH]; intros w HI Hc; cbn [run fold_left]; [exact HI|].
  apply class_free_cons in Hc. destruct Hc as (H11 & H20 & Hrest).
  apply IH; [exact (proj1 (op_step w o HI H11 H20))|exact Hrest].
Qed.

Lemma class_free_app : forall h1 h2, class_free (h1 ++ h2) = true -> class_free h1 = true /\ class_free h2 = true.
Proof. intros h1 h2 H. unfold class_free in *. rewrite forallb_app in H. apply andb_prop in H. exact H. Qed.

Lemma Inv_stored_eq : forall w, Inv w -> Stored_eq w.
Proof. intros w ((_ & Hso & _) & (Hsi & _) & _). split; auto. Qed.

Lemma stored_eq_partial : forall r h1 h2, class_free (h1 ++ h2) = true -> Stored_eq (run (fresh r) h1).
Proof.
  intros r h1 h2 H. apply class_free_app in H. destruct H as [H _].
  apply Inv_stored_eq. apply run_inv; auto using fresh_inv.
Qed.

(* ------------------------------------------------------------------ the Logon exchange after a restart *)

Lemma finalize_accept : forall f w, mtype_eqb (f_type f) TSeqReset = false -> Inv w -> f_seq f = nin w ->
  cstate_eqb (st w) Awaiting = false ->
  exists w', finalize f w = (inl tt, w') /\ st w' = st w /\ nin w' = nin w + 1 /\ nout w' = nout w
             /\ writes (log w') = writes (log w) /\ Inv w'.
Proof.
  intros f w Hty HI Hseq Hst. pose proof HI as (Ho & (Hs & Hr & Hp) & Ha).
  unfold finalize. rewrite Hty. munfold. rewrite Hseq, Z.eqb_refl.
  assert (Hle : (nin w <=? 0) = false) by lia. rewrite Hle.
  cbn [st maxres nin nout rl dlv ctor base log past]. rewrite Hst.
  set (W := mkW (nin w + 1) (nout w) (st w) (rl w) (maxres w) (dlv w) (ctor w) (base w) (log w) (past w)).
  destruct (persist_in (nin w) W) as [r w'] eqn:E.
  assert (HoW : Out_ok W) by (eapply Out_ok_ext; [| | |exact Ho]; reflexivity).
  assert (HaW : AwOk W).
  { unfold AwOk. cbn [st W]. intro E0. rewrite E0 in Hst. discriminate. }
  destruct (persist_in_inv W (nin w) r w' HoW Hr Hp eq_refl HaW E) as (I' & R' & N' & L' & B' & P' & C' & Ni' & S').
  subst r. exists w'. split; [reflexivity|]. split; [exact S'|]. split; [exact Ni'|]. split; [exact N'|].
  split; [|exact I']. rewrite L', writes_app, writes_stmts, app_nil_r. reflexivity.
Qed.


(* an acceptor with a fresh transport receives the peer's Logon numbered exactly next_num_in *)
Lemma logon_acceptor : forall w pd a b, Inv w -> st w = NCE ->
  exists w', process_message (mkF TLogon (nin w) pd a b) w = (inl tt, w') /\ st w' = Active
             /\ writes (log w') = writes (log w) ++ [mkF TLogon (nout w) false 0 0]
             /\ nin w' = nin w + 1 /\ nout w' = nout w + 1 /\ Inv w'.
Proof.
  intros w pd a b HI Hst. pose proof HI as (Ho & HIn & Ha).
  set (f := mkF TLogon (nin w) pd a b).
  unfold process_message. cbv beta iota delta [bind get].
  assert (Htl : too_low f w = false) by (unfold too_low; cbn [f f_seq]; rewrite Z.ltb_irrefl; reflexivity).
  rewrite Htl. unfold catch at 1.
  (* pm_head *)
  set (wL := mkW (nin w) (nout w) LogonRecv Acceptor (maxres w) (dlv w) (ctor w) (base w) (log w) (past w)).
  assert (IL : Inv wL).
  { eapply Inv_live; [|exact HI|]; [live_tac|]. unfold AwOk. cbn. discriminate. }
  destruct (send_orig_cases (mkF TLogon 0 false 0 0) wL eq_refl (Inv_Out _ IL))
    as [[_ [Hg|Hg]]|(s & ro & wS & Hg & He & HR & HsS & HrS & HmS & HdS & HnS & HwS & _)].
  { unfold send_gate in Hg. cbn in Hg. discriminate. }
  { discriminate. }
  unfold send_gate in Hg. cbn in Hg. inversion Hg; subst s ro. clear Hg.
  set (wA := mkW (nin wS) (nout wS) Active (rl wS) (maxres wS) (dlv wS) (ctor wS) (base wS) (log wS) (past wS)).
  assert (IS : Inv wS) by (apply (Rel_Step _ _ IL HR)).
  assert (IA : Inv wA).
  { eapply Inv_live; [|exact IS|]; [live_tac|]. unfold AwOk. cbn. discriminate. }
  assert (HninS : nin wS = nin w) by (rewrite (r_nin _ _ HR); reflexivity).
  assert (Hhead : pm_head f w = (inl (Some true), wA)).
  { unfold pm_head. cbv beta iota delta [bind get ret raise assert_ set_st set_rl upd].
    rewrite Hst. cbn [is_disc cstate_eqb negb f f_type mtype_eqb].
    cbn [nin nout st rl maxres dlv ctor base log past].
    fold wL. unfold process_logon. cbv beta iota delta [bind get ret raise assert_ set_st upd].
    cbn [rl st wL role_eqb cstate_eqb nin f_seq]. rewrite Z.leb_refl. rewrite He.
    rewrite HninS, Z.eqb_refl. fold wA.
    cbn [st wA is_disc cstate_eqb]. unfold check_gaps. cbv beta iota delta [bind get ret].
    cbn [nin wA]. rewrite HninS, Z.ltb_irrefl. reflexivity. }
  rewrite Hhead. unfold catch, pm_dispatch. cbn [f f_type]. unfold ret at 1.
  destruct (finalize_accept f wA eq_refl IA) as (w' & Ef & Sf & Nf & Of & Wf & If).
  { cbn [f f_seq nin wA]. symmetry. exact HninS. }
  { reflexivity. }
  exists w'. rewrite Ef. split; [reflexivity|]. split; [rewrite Sf; reflexivity|].
  split; [rewrite Wf; cbn [log wA]; rewrite HwS; reflexivity|].
  split; [rewrite Nf; cbn [nin wA]; rewrite HninS; reflexivity|].
  split; [rewrite Of; cbn [nout wA]; rewrite HnS; reflexivity|exact If].
Qed.

(* an initiator with a fresh transport sends its Logon and receives the peer's Logon numbered exactly next_num_in *)
Lemma logon_initiator : forall w pd a b, Inv w -> st w = NCE ->
  exists w1 w', send_msg (mkF TLogon 0 false 0 0) w = (inl tt, w1)
             /\ process_message (mkF TLogon (nin w) pd a b) w1 = (inl tt, w') /\ st w' = Active
             /\ writes (log w') = writes (log w) ++ [mkF TLogon (nout w) false 0 0]
             /\ nin w' = nin w + 1 /\ nout w' = nout w + 1 /\ Inv w'.
Proof.
  intros w pd a b HI Hst. pose proof HI as (Ho & HIn & Ha).
  destruct (send_orig_cases (mkF TLogon 0 false 0 0) w eq_refl Ho)
    as [[_ [Hg|Hg]]|(s & ro & wS & Hg & He & HR & HsS & HrS & HmS & HdS & HnS & HwS & _)].
  { unfold send_gate in Hg. rewrite Hst in Hg. discriminate. }
  { discriminate. }
  unfold send_gate in Hg. rewrite Hst in Hg. cbn in Hg. injection Hg as E1 E2.
  rewrite <- E1 in HsS. rewrite <- E2 in HrS.
  exists wS.
  assert (IS : Inv wS) by (apply (Rel_Step _ _ HI HR)).
  assert (HninS : nin wS = nin w) by (rewrite (r_nin _ _ HR); reflexivity).
  set (f := mkF TLogon (nin w) pd a b).
  set (wA := mkW (nin wS) (nout wS) Active (rl wS) (maxres wS) (dlv wS) (ctor wS) (base wS) (log wS) (past wS)).
  assert (IA : Inv wA).
  { eapply Inv_live; [|exact IS|]; [live_tac|]. unfold AwOk. cbn. discriminate. }
  assert (Hhead : pm_head f wS = (inl (Some true), wA)).
  { unfold pm_head. cbv beta iota delta [bind get ret raise assert_ set_st set_rl upd].
    rewrite HsS. cbn [is_disc cstate_eqb negb f f_type mtype_eqb orb andb].
    unfold process_logon. cbv beta iota delta [bind get ret raise assert_ set_st upd].
    rewrite HrS. cbn [role_eqb f_seq]. rewrite HninS, Z.eqb_refl.
    fold wA. cbn [st wA is_disc cstate_eqb]. unfold check_gaps. cbv beta iota delta [bind get ret].
    cbn [nin wA]. rewrite HninS, Z.ltb_irrefl. reflexivity. }
  assert (Htl : too_low f wS = false) by (unfold too_low; cbn [f f_seq]; rewrite HninS, Z.ltb_irrefl; reflexivity).
  destruct (finalize_accept f wA eq_refl IA) as (w' & Ef & Sf & Nf & Of & Wf & If).
  { cbn [f f_seq nin wA]. symmetry. exact HninS. }
  { reflexivity. }
  exists w'. split; [exact He|].
  split.
  { unfold process_message. cbv beta iota delta [bind get]. rewrite Htl. unfold catch at 1. rewrite Hhead.
    unfold catch, pm_dispatch. cbn [f f_type]. unfold ret at 1. exact Ef. }
  split; [rewrite Sf; reflexivity|].
  split; [rewrite Wf; cbn [log wA]; rewrite HwS; reflexivity|].
  split; [rewrite Nf; cbn [nin wA]; rewrite HninS; reflexivity|].
  split; [rewrite Of; cbn [nout wA]; rewrite HnS; reflexivity|exact If].
Qed.

(* ------------------------------------------------------------------ restart resumes *)

Definition logon_ops (r : role) (n : Z) : list op :=
  match r with
  | Acceptor => [OConnect; OIn (mkF TLogon n false 0 0)]
  | Initiator => [OConnect; OSend (mkF TLogon 0 false 0 0); OIn (mkF TLogon n false 0 0)]
  end.

Lemma connect_inv : forall w, Inv w -> Inv (run_op w OConnect) /\ st (run_op w OConnect) = NCE
  /\ nin (run_op w OConnect) = nin w /\ nout (run_op w OConnect) = nout w /\ log (run_op w OConnect) = log w.
Proof.
  intros w HI. unfold run_op. cbn [step set_st upd snd]. split; [|repeat split].
  eapply Inv_live; [|exact HI|]; [live_tac|]. unfold AwOk. cbn. discriminate.
Qed.

Lemma restart_resumes : forall w, Inv w ->
  let w' := restart w in
  nin w' = nin w /\ nout w' = nout w
  /\ let w2 := run w' (logon_ops (ctor w) (nin w)) in
     st w2 = Active /\ writes (log w2) = [mkF TLogon (nout w) false 0 0]
     /\ nin w2 = nin w + 1 /\ nout w2 = nout w + 1 /\ Inv w2.
Proof.
  intros w HI. destruct (restart_inv w HI) as (IR & Hn & Ho & _ & _ & Hc & Hl & _).
  cbv zeta. split; [exact Hn|]. split; [exact Ho|].
  destruct (connect_inv _ IR) as (IC & SC & NC & OC & LC).
  set (wc := run_op (restart w) OConnect) in *.
  destruct (ctor w) eqn:Hr; unfold logon_ops, run; cbn [fold_left]; fold wc.
  - destruct (logon_initiator wc false 0 0 IC SC) as (w1 & w2 & E1 & E2 & S2 & W2 & N2 & O2 & I2).
    assert (Hnc : nin wc = nin w) by congruence. rewrite Hnc in E2.
    assert (A1 : run_op wc (OSend (mkF TLogon 0 false 0 0)) = w1) by (unfold run_op; cbn [step]; rewrite E1; reflexivity).
    assert (A2 : run_op w1 (OIn (mkF TLogon (nin w) false 0 0)) = w2) by (unfold run_op; cbn [step]; rewrite E2; reflexivity).
    rewrite A1, A2.
    split; [exact S2|]. split; [rewrite W2, LC, Hl, OC, Ho; reflexivity|].
    split; [rewrite N2, NC, Hn; reflexivity|]. split; [rewrite O2, OC, Ho; reflexivity|exact I2].
  - destruct (logon_acceptor wc false 0 0 IC SC) as (w2 & E2 & S2 & W2 & N2 & O2 & I2).
    assert (Hnc : nin wc = nin w) by congruence. rewrite Hnc in E2.
    assert (A2 : run_op wc (OIn (mkF TLogon (nin w) false 0 0)) = w2) by (unfold run_op; cbn [step]; rewrite E2; reflexivity).
    rewrite A2.
    split; [exact S2|]. split; [rewrite W2, LC, Hl, OC, Ho; reflexivity|].
    split; [rewrite N2, NC, Hn; reflexivity|]. split; [rewrite O2, OC, Ho; reflexivity|exact I2].
Qed.

(* ------------------------------------------------------------------ no number is reused *)

(* every original frame handed to the transport after the first m frames carries a number in [n0, next_num_out) *)
Definition Wire (n0 : Z) (m : nat) (w : world) : Prop :=
  (m <= length (allwire w))%nat /\ n0 <= nout w /\
  forall f, In f (skipn m (allwire w)) -> original f = true -> n0 <= f_seq f < nout w.

Lemma skipn_app_le : forall A (l1 l2 : list A) m, (m <= length l1)%nat -> skipn m (l1 ++ l2) = skipn m l1 ++ l2.
Proof.
  intros A l1 l2 m H. rewrite skipn_app. replace (m - length l1)%nat with O by lia. reflexivity.
Qed.

Lemma wire_op : forall n0 m w o, Inv w -> KF_D11 o = false -> KF_D20 o = false ->
  Wire n0 m w -> Wire n0 m (run_op w o).
Proof.
  intros n0 m w o HI H11 H20 (Hm & Hn & HW).
  destruct (op_step w o HI H11 H20) as [_ HS].
  destruct o as [|f|x|d x|b|].
  6:{ unfold run_op. cbn [step upd snd].
      destruct (restart_inv w HI) as (_ & _ & Ho & Haw & _). unfold Wire. rewrite Haw, Ho. auto. }
  all: match goal with |- Wire _ _ (run_op ?ww ?o) =>
         assert (S : Step ww (run_op ww o)) by (apply HS; discriminate); set (w' := run_op ww o) in * end.
  all: destruct S as [_ Hmono [l [L Wl]] Hb Hp Hc];
       assert (Haw : allwire w' = allwire w ++ writes l) by (unfold allwire; rewrite Hp, L, writes_app, app_assoc; reflexivity);
       unfold Wire; rewrite Haw; (split; [rewrite app_length; lia|]); (split; [lia|]);
       intros g Hg Hor; rewrite skipn_app_le in Hg by exact Hm; apply in_app_or in Hg; destruct Hg as [Hg|Hg];
       [specialize (HW g Hg Hor); lia|specialize (Wl g Hg Hor); lia].
Qed.

Lemma wire_run : forall n0 m h w, Inv w -> class_free h = true -> Wire n0 m w -> Wire n0 m (run w h).
Proof.
  induction h as [|o h IH]; intros w HI Hc HW; cbn [run fold_left]; [exact HW|].
  apply class_free_cons in Hc. destruct Hc as (H11 & H20 & Hrest).
  apply IH; [exact (proj1 (op_step w o HI H11 H20))|exact Hrest|apply wire_op; auto].
Qed.

Lemma crash_at_all : forall w, crash_at (length (log w)) w = restart w.
Proof. intros w. unfold crash_at, restart, db, allwire. rewrite firstn_all. reflexivity. Qed.

Lemma boot_inv : forall r t sent, 0 <= sin t -> 0 <= sout t ->
  (forall n, In n (rin t) -> n <= sin t) -> (forall g, In g (rout t) -> f_seq g <= sout t) ->
  Inv (boot r t sent) /\ jt (boot r t sent) = t.
Proof.
  intros r t sent Hi Ho Hri Hro.
  assert (Hj : jt (boot r t sent) = t) by reflexivity.
  split; [|exact Hj]. split; [|split].
  - split; [unfold clean; reflexivity|]. rewrite Hj. cbn [boot nout]. repeat split; try lia.
    intros g Hg. apply Hro in Hg. lia.
  - unfold In_ok. rewrite Hj. cbn [boot nin]. repeat split; try lia. intros n Hn. apply Hri in Hn. lia.
  - unfold AwOk. cbn. discriminate.
Qed.

Lemma firstn_app_exact : forall A (l1 l2 : list A) j, firstn (length l1 + j) (l1 ++ l2) = l1 ++ firstn j l2.
Proof. intros. rewrite firstn_app_2. reflexivity. Qed.

(* death after the first j effects of a completed original send (journal statement, counter statement, commit, write,
   drain): what is durable and what reached the transport *)
Lemma send_crash_cases : forall d f j, has_out (cur d) (f_seq f) = false -> committed d = cur d -> (j <= 5)%nat ->
  let X := firstn j (send_effects f) in
  (committed (fold_left estep X d) = cur d /\ writes X = [] /\ (j < 3)%nat)
  \/ (committed (fold_left estep X d) = ins_out_tab (cur d) f /\ writes X = [] /\ j = 3%nat)
  \/ (committed (fold_left estep X d) = ins_out_tab (cur d) f /\ writes X = [f] /\ (3 < j)%nat).
Proof.
  intros d f j Hh Hc Hj. unfold send_effects, persist_out_prims.
  destruct j as [|[|[|[|[|[|j]]]]]]; try lia;
    cbn [map app firstn fold_left estep exec_prim apply_stmt fst writes]; rewrite ?Hh;
    cbn [cur committed sin sout rin rout fst fold_left estep exec_prim apply_stmt].
  - left. repeat split; auto; lia.
  - left. repeat split; auto; lia.
  - left. repeat split; auto; lia.
  - right. left. repeat split; auto; lia.
  - right. right. repeat split; auto; lia.
  - right. right. repeat split; auto; lia.
Qed.

(* an original send that completed, and a death right after ANY of its effects (k = number of effects of the incarnation
   that were executed): the restarted endpoint satisfies the invariant, its next_num_out is the old one or the old one
   + 1, it is the latter whenever the frame reached the transport, and in every class-free continuation every original
   frame it hands to the transport carries a number above every original number the transport ever saw *)
Lemma no_number_reuse : forall r h m w1 k,
  class_free h = true -> own_number m = false ->
  let w := run (fresh r) h in
  send_msg m w = (inl tt, w1) ->
  (length (log w) <= k <= length (log w1))%nat ->
  let w2 := crash_at k w1 in
  let f := out_frame m (nout w) in
  log w1 = log w ++ send_effects f
  /\ Inv w2 /\ nin w2 = nin w
  /\ (nout w2 = nout w \/ nout w2 = nout w + 1)
  /\ (In f (allwire w2) -> nout w2 = nout w + 1)
  /\ forall h', class_free h' = true ->
       forall g f', In g (allwire w2) -> original g = true ->
                    In f' (skipn (length (allwire w2)) (allwire (run w2 h'))) -> original f' = true ->
                    f_seq g < f_seq f'.
Proof.
  intros r h m w1 k Hc Hm w Hs Hk w2 f.
  assert (HI : Inv w) by (apply run_inv; auto using fresh_inv).
  assert (HW0 : Wire 1 0 w).
  { apply wire_run; auto using fresh_inv. split; [cbn; lia|]. split; [cbn; lia|]. intros g Hg. cbn in Hg. contradiction. }
  destruct HW0 as (_ & _ & HW0). cbn [skipn] in HW0.
  pose proof HI as ((Hcl & Hso & Hro & Hpo) & (Hsi & Hri & Hpi) & Ha).
  destruct (send_orig_cases m w Hm (Inv_Out _ HI)) as [[He _]|(s & ro & W' & _ & He & HR & _ & _ & _ & _ & Hn & Hw & HL & HJ)];
    rewrite He in Hs; inversion Hs; subst W'. clear Hs.
  fold f in HL, HJ, Hw.
  split; [exact HL|].
  (* the crash point *)
  assert (Hlen : length (log w1) = (length (log w) + 5)%nat) by (rewrite HL, app_length; reflexivity).
  set (j := (k - length (log w))%nat).
  assert (Hkj : k = (length (log w) + j)%nat) by lia.
  assert (Hj5 : (j <= 5)%nat) by lia.
  assert (Hh : has_out (cur (db w)) (f_seq f) = false) by (apply has_out_false; exact Hro).
  pose proof (send_crash_cases (db w) f j Hh Hcl Hj5) as Hcases. cbv zeta in Hcases.
  set (X := firstn j (send_effects f)) in *.
  assert (Hw2 : w2 = boot (ctor w) (committed (fold_left estep X (db w))) (allwire w ++ writes X)).
  { unfold w2, crash_at. rewrite (r_base _ _ HR), (r_past _ _ HR), (r_ctor _ _ HR), HL, Hkj, firstn_app_exact.
    fold X. rewrite replay_app, writes_app, app_assoc. reflexivity. }
  assert (Hf : f_seq f = nout w) by reflexivity.
  assert (Hfo : original f = true).
  { unfold original, f, out_frame. cbn [f_pd f_type]. unfold own_number in Hm. apply orb_false_iff in Hm.
    destruct Hm as [A B]. rewrite A, B. reflexivity. }
  (* the two possible journals *)
  assert (B0 : Inv (boot (ctor w) (cur (db w)) (allwire w ++ writes X)) /\ jt (boot (ctor w) (cur (db w)) (allwire w ++ writes X)) = jt w).
  { apply boot_inv; fold (jt w); try lia. - intros n Hn'. apply Hri in Hn'. lia. - intros g Hg. apply Hro in Hg. lia. }
  assert (B1 : Inv (boot (ctor w) (ins_out_tab (jt w) f) (allwire w ++ writes X))
               /\ jt (boot (ctor w) (ins_out_tab (jt w) f) (allwire w ++ writes X)) = ins_out_tab (jt w) f).
  { apply boot_inv; cbn [ins_out_tab sin sout rin rout]; try lia.
    - intros n Hn'. apply Hri in Hn'. lia.
    - intros g Hg. apply in_app_or in Hg. destruct Hg as [Hg|[Hg|[]]]; [apply Hro in Hg; lia|subst g; lia]. }
  assert (Hall : allwire w2 = allwire w ++ writes X).
  { rewrite Hw2. unfold allwire at 1. cbn [boot past log writes]. rewrite app_nil_r. reflexivity. }
  assert (Hfacts : Inv w2 /\ nin w2 = nin w /\ (nout w2 = nout w \/ nout w2 = nout w + 1)
                   /\ (In f (writes X) -> nout w2 = nout w + 1)).
  { destruct Hcases as [(C & Wx & Hj)|[(C & Wx & Hj)|(C & Wx & Hj)]]; rewrite Hw2, C.
    - destruct B0 as [I0 J0]. split; [exact I0|]. cbn [boot nin nout]. fold (jt w).
      split; [lia|]. split; [left; lia|]. rewrite Wx. intros []. 
    - destruct B1 as [I1 J1]. fold (jt w). split; [exact I1|]. cbn [boot nin nout ins_out_tab sin sout].
      split; [lia|]. split; [right; lia|]. intros _. lia.
    - destruct B1 as [I1 J1]. fold (jt w). split; [exact I1|]. cbn [boot nin nout ins_out_tab sin sout].
      split; [lia|]. split; [right; lia|]. intros _. lia. }
  destruct Hfacts as (I2 & N2 & O2 & F2).
  assert (Hfw : forall g, In g (writes X) -> g = f).
  { intros g Hg. destruct Hcases as [(_ & Wx & _)|[(_ & Wx & _)|(_ & Wx & _)]]; rewrite Wx in Hg; cbn in Hg;
      try contradiction. destruct Hg as [Hg|[]]. auto. }
  split; [exact I2|]. split; [exact N2|]. split; [exact O2|].
  split.
  { intros Hin. rewrite Hall in Hin. apply in_app_or in Hin. destruct Hin as [Hin|Hin]; [|auto].
    specialize (HW0 f Hin Hfo). lia. }
  intros h' Hc' g f' Hg Hog Hf' Hof'.
  assert (HW : Wire (nout w2) (length (allwire w2)) w2).
  { split; [lia|]. split; [lia|]. intros x Hx. rewrite skipn_all in Hx. contradiction. }
  destruct (wire_run _ _ h' _ I2 Hc' HW) as (_ & _ & K).
  specialize (K f' Hf' Hof').
  rewrite Hall in Hg. apply in_app_or in Hg. destruct Hg as [Hg|Hg].
  - specialize (HW0 g Hg Hog). lia.
  - pose proof (Hfw g Hg) as E. subst g. specialize (F2 Hg). lia.
Qed.


(* ------------------------------------------------------------------ a send whose transport raises *)

Lemma run_snoc : forall w h o, run w (h ++ [o]) = run_op (run w h) o.
Proof. intros. unfold run. rewrite fold_left_app. reflexivity. Qed.

Lemma class_free_snoc : forall h o, class_free h = true -> KF_D11 o = false -> KF_D20 o = false ->
  class_free (h ++ [o]) = true.
Proof.
  intros h o H A B. unfold class_free in *. rewrite forallb_app, H. cbn [forallb]. rewrite A, B. reflexivity.
Qed.

(* an original send over a transport that raises in write() (d = false) or in drain() after write() took the bytes
   (d = true); the caller gets the exception, the object lives on.  Nothing is undone: the journal row stays, the number
   is spent; whatever follows (further traffic, restarts) never uses a number again that the transport saw *)
Lemma transport_fault_keeps_number : forall r h d m w',
  class_free h = true -> own_number m = false ->
  let w := run (fresh r) h in
  send_fault d m w = (inr XIO, w') ->
  let f := out_frame m (nout w) in
  Inv w' /\ nout w' = nout w + 1 /\ sout (jt w') = nout w /\ In f (rout (jt w'))
  /\ writes (log w') = writes (log w) ++ (if d then [f] else [])
  /\ nout (restart w') = nout w + 1
  /\ forall h', class_free h' = true ->
       forall g f', In g (allwire w') -> original g = true ->
                    In f' (skipn (length (allwire w')) (allwire (run w' h'))) -> original f' = true ->
                    f_seq g < f_seq f'.
Proof.
  intros r h d m w' Hc Hm w Hs f.
  assert (HI : Inv w) by (apply run_inv; auto using fresh_inv).
  pose proof HI as ((Hcl & Hso & Hro & Hpo) & _ & _).
  destruct (mtype_eqb (f_type m) TTest) eqn:Ht.
  { rewrite send_fault_refused in Hs by auto. discriminate. }
  destruct (send_gate w m) as [[s ro]|] eqn:Hg.
  2:{ rewrite send_fault_refused in Hs by auto. discriminate. }
  assert (Hh : has_out (jt w) (nout w) = false) by (apply has_out_false; exact Hro).
  destruct (send_fault_alloc_ok d w m s ro Hg Ht Hm Hh) as [He Hd]. fold f in He, Hd.
  rewrite He in Hs. inversion Hs; subst w'. clear Hs.
  set (W' := fault_sent w s ro d f) in *.
  assert (HjW' : jt W' = ins_out_tab (jt w) f) by (unfold jt at 1; rewrite Hd; reflexivity).
  assert (Ho11 : KF_D11 (OSendFault d m) = false) by reflexivity.
  assert (Ho20 : KF_D20 (OSendFault d m) = false) by (cbn [KF_D20]; rewrite Hm; reflexivity).
  assert (Hrun : run (fresh r) (h ++ [OSendFault d m]) = W').
  { rewrite run_snoc. fold w. unfold run_op. cbn [step]. rewrite He. reflexivity. }
  assert (Hc1 : class_free (h ++ [OSendFault d m]) = true) by (apply class_free_snoc; auto).
  assert (I' : Inv W') by (rewrite <- Hrun; apply run_inv; auto using fresh_inv).
  assert (HW1 : Wire 1 0 W').
  { rewrite <- Hrun. apply wire_run; auto using fresh_inv.
    split; [cbn; lia|]. split; [cbn; lia|]. intros g Hg'. cbn in Hg'. contradiction. }
  destruct HW1 as (_ & _ & HW1). cbn [skipn] in HW1.
  split; [exact I'|]. split; [reflexivity|].
  split; [rewrite HjW'; reflexivity|].
  split; [rewrite HjW'; cbn [rout ins_out_tab]; apply in_or_app; right; left; reflexivity|].
  split.
  { cbn [W' fault_sent log]. unfold fault_effects. rewrite !writes_app, writes_stmts. destruct d; reflexivity. }
  split; [destruct (restart_inv W' I') as (_ & _ & O & _); rewrite O; reflexivity|].
  intros h' Hc' g f' Hg' Hog Hf' Hof'.
  assert (HW : Wire (nout W') (length (allwire W')) W').
  { split; [lia|]. split; [lia|]. intros x Hx. rewrite skipn_all in Hx. contradiction. }
  destruct (wire_run _ _ h' _ I' Hc' HW) as (_ & _ & K).
  specialize (K f' Hf' Hof'). specialize (HW1 g Hg' Hog). lia.
Qed.

(* ------------------------------------------------------------------ statements over class-free histories *)

Lemma invariant_partial : forall r h, class_free h = true -> Inv (run (fresh r) h).
Proof. intros. apply run_inv; auto using fresh_inv. Qed.

Lemma restart_counters : forall w, clean w -> Stored_eq w -> nin (restart w) = nin w /\ nout (restart w) = nout w.
Proof.
  intros w Hc [Hi Ho]. unfold restart. cbn [boot nin nout]. rewrite Hc. split; assumption.
Qed.

Lemma restart_resumes_history : forall r h, class_free h = true ->
  let w := run (fresh r) h in
  let w' := restart w in
  nin w' = nin w /\ nout w' = nout w
  /\ let w2 := run w' (logon_ops (ctor w) (nin w)) in
     st w2 = Active /\ writes (log w2) = [mkF TLogon (nout w) false 0 0]
     /\ nin w2 = nin w + 1 /\ nout w2 = nout w + 1 /\ Inv w2.
Proof. intros r h H. apply restart_resumes. apply invariant_partial; auto. Qed.

(* ------------------------------------------------------------------ witnesses *)

Definition app_frame (n body : Z) : frame := mkF TApp n false body 0.
Definition logon_frame (n : Z) : frame := mkF TLogon n false 0 0.
Definition acc_logon : list op := [OConnect; OIn (logon_frame 1)].

Definition has_resend (l : list frame) : bool := existsb (fun f => mtype_eqb (f_type f) TResend) l.

(* numbers of the frames the peer sent, in order *)
Fixpoint inbound_seqs (h : list op) : list Z :=
  match h with
  | [] => []
  | OIn f :: h' => f_seq f :: inbound_seqs h'
  | _ :: h' => inbound_seqs h'
  end.

(* D11: a gap fill 2 -> 6 as the next frame *)
Definition w_d11 : list op := acc_logon.
Definition o_d11 : op := OIn (mkF TSeqReset 2 false 6 1).

Lemma gapfill_lag_refuted :
  exists r h o, class_free h = true /\ KF_D11 o = true /\
    let w := run (fresh r) (h ++ [o]) in
    ~ Stored_eq w /\ nin w = 6 /\ sin (jt w) = 2 /\ nin (restart w) = 3
    /\ has_resend (writes (log (run (restart w) (logon_ops r 6)))) = true.
Proof.
  exists Acceptor, w_d11, o_d11. split; [vm_compute; reflexivity|]. split; [vm_compute; reflexivity|].
  cbv zeta. split; [|vm_compute; repeat split; reflexivity].
  intros [H _]. vm_compute in H. discriminate.
Qed.

(* the former D12 witness (a second ResendRequest over a replayed range): both requests are answered, the journal and
   the counters are as before, the invariant holds *)
Definition h_resend2 : list op :=
  acc_logon ++ [OSend (app_frame 0 1); OSend (app_frame 0 2); OIn (mkF TResend 2 false 3 0); OIn (mkF TResend 3 false 2 0)].

Lemma resend_twice_example :
  class_free h_resend2 = true /\
  let w := run (fresh Acceptor) h_resend2 in
  Stored_eq w /\ nout w = 4 /\ sout (jt w) = 3 /\ nin w = 4 /\ st w = Active
  /\ rout (jt w) = [logon_frame 1; app_frame 2 1; app_frame 3 2]
  /\ skipn 3 (writes (log w)) = [mkF TApp 3 true 2 0; mkF TApp 2 true 1 0; mkF TApp 3 true 2 0].
Proof. vm_compute. repeat split; reflexivity. Qed.

(* D20: the application sends SequenceReset(34 = next_num_out) without GapFillFlag *)
Definition o_d20 : op := OSend (mkF TSeqReset 2 false 5 0).

Lemma app_seqreset_refuted :
  exists r h o, class_free h = true /\ KF_D20 o = true /\
    let w := run (fresh r) (h ++ [o]) in
    ~ Stored_eq w /\ nout w = 2 /\ sout (jt w) = 2 /\ nout (restart w) = 3.
Proof.
  exists Acceptor, acc_logon, o_d20. split; [vm_compute; reflexivity|]. split; [vm_compute; reflexivity|].
  cbv zeta. split; [|vm_compute; repeat split; reflexivity].
  intros [_ H]. vm_compute in H. discriminate.
Qed.

(* the former D22 witness: the peer's Logout is in sequence and is counted; after the restart the peer's Logon
   numbered 3 is accepted, no ResendRequest *)
Definition h_d22 : list op := acc_logon ++ [OIn (mkF TLogout 2 false 0 0)].

Lemma peer_logout_counted_example :
  class_free h_d22 = true /\ inbound_seqs h_d22 = [1; 2] /\
  let w := run (fresh Acceptor) h_d22 in
  Stored_eq w /\ nin w = 3 /\ sin (jt w) = 2 /\ rin (jt w) = [1; 2] /\ st w = Disc /\ nin (restart w) = 3
  /\ let w2 := run (restart w) (logon_ops Acceptor 3) in
     has_resend (writes (log w2)) = false /\ st w2 = Active.
Proof. vm_compute. repeat split; reflexivity. Qed.

(* the former D14 witness: every crash point of the send of an application message (effects 9..13 of the incarnation:
   INSERT, counter UPDATE, COMMIT, transport write, drain).  Before the commit nothing is on the wire and the number is
   still free; from the commit on the number is taken, whether or not the frame reached the wire *)
Definition w_send9 : world := run (fresh Acceptor) (acc_logon ++ [OSend (app_frame 0 9)]).

Lemma send_crash_points_example :
  length (log (run (fresh Acceptor) acc_logon)) = 8%nat /\ length (log w_send9) = 13%nat
  /\ map (fun k => (nout (crash_at k w_send9), skipn 1 (allwire (crash_at k w_send9)))) [8; 9; 10; 11; 12; 13]%nat
     = [(2, []); (2, []); (2, []); (3, []); (3, [app_frame 2 9]); (3, [app_frame 2 9])].
Proof. vm_compute. repeat split; reflexivity. Qed.

(* death after the journal commit and before the transport write: the message is journaled but was never sent; the
   restarted endpoint answers the peer's Logon under number 3, the peer (which expects 2) asks for a resend and gets
   the journaled message as a PossDup copy - the message really was lost, and it is recovered *)
Lemma journaled_unwritten_recovered :
  let w2 := run (crash_at 11 w_send9) [OConnect; OIn (logon_frame 2); OIn (mkF TResend 3 false 2 0)] in
  st w2 = Active /\ nin w2 = 4 /\ nout w2 = 4
  /\ writes (log w2) = [logon_frame 3; mkF TApp 2 true 9 0; mkF TSeqReset 3 false 4 1].
Proof. vm_compute. repeat split; reflexivity. Qed.

(* the seeded scenario: initiator, Logon, order A (2), order B (3) whose bytes leave before drain() raises; the endpoint
   is rebuilt from its journal: next_num_out 4, its Logon goes out under 4 - number 3 is not used again *)
Definition h_drain_fault : list op :=
  [OConnect; OSend (logon_frame 0); OIn (logon_frame 1); OSend (app_frame 0 1); OSendFault true (app_frame 0 2)].

Lemma drain_fault_example :
  class_free h_drain_fault = true /\
  let w := run (fresh Initiator) h_drain_fault in
  nout w = 4 /\ sout (jt w) = 3 /\ writes (log w) = [logon_frame 1; app_frame 2 1; app_frame 3 2]
  /\ nout (restart w) = 4
  /\ writes (log (run (restart w) [OConnect; OSend (logon_frame 0)])) = [logon_frame 4].
Proof. vm_compute. repeat split; reflexivity. Qed.

(* before the Logon exchange has completed nothing but Logon / Logout is acceptable: an application frame makes the
   initiator drop the connection; it is neither counted nor delivered *)
Lemma logon_exchange_gate_example :
  let w := run (fresh Initiator) [OConnect; OSend (logon_frame 0); OIn (app_frame 1 5)] in
  st w = Disc /\ nin w = 1 /\ sin (jt w) = 0 /\ dlv w = [] /\ writes (log w) = [logon_frame 1].
Proof. vm_compute. repeat split; reflexivity. Qed.

(* what a duplicate inbound row does: the live counter advances, the journal does not, the error escapes *)
Lemma duplicate_inbound_row_example :
  let w := run (fresh Acceptor) (acc_logon ++ [OIn (mkF TSeqReset 2 false 2 1)]) in
  nin w = 2 /\ sin (jt w) = 2 /\ has_in (jt w) 2 = true /\
  let (r, w') := step (OIn (app_frame 2 1)) w in
  r = inr XDup /\ nin w' = 3 /\ sin (jt w') = 2 /\ rin (jt w') = rin (jt w).
Proof. vm_compute. repeat split; reflexivity. Qed.

(* non-vacuity: a class-free history with a gap, our ResendRequest, replay, single-number gap fills, a
   TestRequest answered, a peer ResendRequest serviced completely (two counter statements), a restart,
   the next Logon exchange and a send *)
Definition h_nonvac : list op :=
  acc_logon ++
  [OIn (app_frame 5 1); OIn (mkF TApp 2 true 2 0); OIn (mkF TSeqReset 3 true 4 1); OIn (mkF TSeqReset 4 true 5 1);
   OIn (mkF TSeqReset 5 true 6 1); OIn (app_frame 6 3); OSend (app_frame 0 7); OIn (mkF TTest 7 false 77 0);
   OIn (mkF TResend 8 false 2 0); ORestart; OConnect; OIn (logon_frame 9); OSend (app_frame 0 8)].

Lemma nonvacuous :
  class_free h_nonvac = true
  /\ let w := run (fresh Acceptor) h_nonvac in
     nin w = 10 /\ nout w = 7 /\ sin (jt w) = 9 /\ sout (jt w) = 6 /\ st w = Active /\ dlv w = [].
Proof. vm_compute. repeat split; reflexivity. Qed.

(* ------------------------------------------------------------------ every in-sequence plain frame is counted *)

Lemma finalize_counts : forall f w r w', mtype_eqb (f_type f) TSeqReset = false -> Inv w -> f_seq f = nin w ->
  finalize f w = (r, w') -> r = inl tt /\ nin w' = nin w + 1 /\ sin (jt w') = nin w /\ Inv w'.
Proof.
  intros f w r w' Hty HI Hseq H. pose proof HI as (Ho & (Hs & Hr & Hp) & Ha).
  unfold finalize in H. rewrite Hty in H. munfold_in H. rewrite Hseq, Z.eqb_refl in H.
  assert (Hle : (nin w <=? 0) = false) by lia. rewrite Hle in H.
  cbn [st maxres nin nout rl dlv ctor base log past] in H.
  assert (Hgen : forall W, nout W = nout w -> base W = base w -> log W = log w ->
                 nin W = nin w + 1 -> AwOk W -> persist_in (nin w) W = (r, w') ->
                 r = inl tt /\ nin w' = nin w + 1 /\ sin (jt w') = nin w /\ Inv w').
  { intros W Hn Hb Hl Hni HaW HP.
    assert (HoW : Out_ok W) by (eapply Out_ok_ext; [| | |exact Ho]; auto).
    assert (HjW : jt W = jt w) by (unfold jt, db; rewrite Hb, Hl; reflexivity).
    assert (HrW : forall k, In k (rin (jt W)) -> k < nin w) by (rewrite HjW; exact Hr).
    destruct (persist_in_inv W (nin w) r w' HoW HrW Hp Hni HaW HP) as (I' & R' & _ & _ & _ & _ & _ & Ni' & _).
    split; [exact R'|]. split; [exact Ni'|]. split; [|exact I'].
    destruct I' as (_ & (Hs' & _) & _). lia. }
  destruct (cstate_eqb (st w) Awaiting) eqn:Hst.
  - assert (Hmx : 0 < maxres w). { apply Ha. destruct (st w); try discriminate; reflexivity. }
    assert (Hmb : (0 <? maxres w) = true) by lia. rewrite Hmb in H.
    destruct (maxres w <=? nin w).
    + eapply Hgen; [| | | | |exact H]; try reflexivity. unfold AwOk. cbn. discriminate.
    + eapply Hgen; [| | | | |exact H]; try reflexivity. unfold AwOk. cbn. auto.
  - eapply Hgen; [| | | | |exact H]; try reflexivity. unfold AwOk. cbn. intro E. rewrite E in Hst. discriminate.
Qed.

Definition plain_type (t : mtype) : bool :=
  match t with TApp | THb | TTest => true | _ => false end.

(* the Logon exchange has completed *)
Definition established (s : cstate) : bool :=
  match s with Handling | TooHigh | Awaiting | Active => true | _ => false end.

Lemma established_facts : forall s, established s = true ->
  is_disc s = false /\ cstate_eqb s NCE = false /\ cstate_eqb s LogonSent = false /\ cstate_eqb s LogonRecv = false.
Proof. intros s H. destruct s; try discriminate; repeat split; reflexivity. Qed.

Lemma pm_head_plain : forall f w, plain_type (f_type f) = true -> f_seq f = nin w ->
  established (st w) = true ->
  pm_head f w = (inl (Some true), w).
Proof.
  intros f w Hp Hseq He. destruct (established_facts _ He) as (Hd & Hn & Hs & Hr). unfold pm_head.
  destruct (f_type f); try discriminate;
    cbv beta iota delta [bind get ret raise assert_ set_st set_rl upd];
    rewrite Hd, Hn, Hs, Hr; cbn [negb orb andb]; rewrite Hd; unfold check_gaps; cbv beta iota delta [bind get ret];
    rewrite Hseq, Z.ltb_irrefl; reflexivity.
Qed.

(* on an established connection (any state past NETWORK_CONN_ESTABLISHED) every in-sequence application message,
   Heartbeat and TestRequest is counted and journaled - the counterpart of D22, where a Logout is not *)
Lemma accepted_counted_plain : forall f w, Inv w -> plain_type (f_type f) = true -> f_seq f = nin w ->
  established (st w) = true ->
  let w' := run_op w (OIn f) in
  nin w' = nin w + 1 /\ sin (jt w') = nin w /\ Inv w'.
Proof.
  intros f w HI Hp Hseq Hes. cbv zeta. unfold run_op. cbn [step].
  assert (Hs : mtype_eqb (f_type f) TSeqReset = false) by (destruct (f_type f); try discriminate; reflexivity).
  destruct (process_message f w) as [r w'] eqn:E. cbn [snd].
  unfold process_message in E. cbv beta iota delta [bind get] in E.
  assert (Htl : too_low f w = false) by (unfold too_low; rewrite Hseq, Z.ltb_irrefl; reflexivity).
  rewrite Htl in E. unfold catch at 1 in E. rewrite (pm_head_plain f w Hp Hseq Hes) in E.
  unfold catch in E. destruct (pm_dispatch f true w) as [d w2] eqn:Ed.
  assert (R2 : Rel w w2) by (eapply RelM_pm_dispatch; eauto using Inv_Out, Inv_nin).
  assert (I2 : Inv w2) by (apply (Rel_Step _ _ HI R2)).
  assert (Hseq2 : f_seq f = nin w2) by (rewrite (r_nin _ _ R2); exact Hseq).
  destruct (finalize_counts f w2 r w' Hs I2 Hseq2 E) as (_ & N3 & S3 & I3).
  rewrite N3, S3, (r_nin _ _ R2). auto.
Qed.

(* the peer's in-sequence Logout: counted, journaled, then the session is torn down *)
Lemma logout_counted : forall f w, Inv w -> f_type f = TLogout -> f_seq f = nin w ->
  is_disc (st w) = false -> cstate_eqb (st w) NCE = false ->
  let w' := run_op w (OIn f) in
  nin w' = nin w + 1 /\ sin (jt w') = nin w /\ Inv w' /\ is_disc (st w') = true.
Proof.
  intros f w HI Ht Hseq Hd Hn. cbv zeta. unfold run_op. cbn [step].
  destruct (process_message f w) as [r w'] eqn:E. cbn [snd].
  unfold process_message in E. cbv beta iota delta [bind get] in E.
  assert (Htl : too_low f w = false) by (unfold too_low; rewrite Hseq, Z.ltb_irrefl; reflexivity).
  rewrite Htl in E. unfold catch at 1 in E.
  (* pm_head: count, then disconnect, then `return` *)
  destruct (count_logout f w) as [rc wc] eqn:Ec.
  destruct (count_logout_spec f w rc wc HI Ec) as (Sc & Stc & _ & Hcnt & _).
  destruct (Hcnt Hseq) as (Rc & Nc & Sic). subst rc.
  destruct (disconnect false wc) as [rd wd] eqn:Edc.
  assert (Ic : Inv wc) by apply Sc.
  pose proof (disconnect_rel _ _ _ _ (Inv_Out _ Ic) Edc) as Rd.
  destruct (disconnect_disc _ _ _ _ (Inv_Out _ Ic) Edc) as [Erd Hdd]. subst rd.
  assert (Hhead : pm_head f w = (inl None, wd)).
  { unfold pm_head, process_logout. rewrite Ht. cbn [mtype_eqb].
    cbv beta iota delta [bind get ret raise assert_ set_st set_rl upd catch]. rewrite Hd, Hn. cbn [negb andb].
    rewrite !andb_false_r. cbn [negb].
    rewrite Ec, Edc. rewrite Hdd. reflexivity. }
  rewrite Hhead in E. unfold ret in E. inversion E; subst r w'. clear E.
  assert (Id : Inv wd) by (apply (Rel_Step _ _ Ic Rd)).
  rewrite (r_nin _ _ Rd), (r_sin _ _ Rd), Nc, Sic. auto.
Qed.

Definition counted_type (t : mtype) : bool :=
  match t with TApp | THb | TTest | TLogout => true | _ => false end.

Lemma accepted_counted : forall f w, Inv w -> counted_type (f_type f) = true -> f_seq f = nin w ->
  established (st w) = true ->
  let w' := run_op w (OIn f) in
  nin w' = nin w + 1 /\ sin (jt w') = nin w /\ Inv w'.
Proof.
  intros f w HI Hc Hseq Hes. destruct (established_facts _ Hes) as (Hd & Hn & _ & _).
  destruct (mtype_eqb (f_type f) TLogout) eqn:Hl.
  - assert (Ht : f_type f = TLogout) by (destruct (f_type f); try discriminate; reflexivity).
    destruct (logout_counted f w HI Ht Hseq Hd Hn) as (A & B & C & _). cbv zeta. auto.
  - apply accepted_counted_plain; auto. destruct (f_type f); try discriminate; reflexivity.
Qed.
