"""Datatypes and fields of the two dictionaries, by reflection over the *parsed* FIXSchema objects.

Emits, for tests/FIX44.xml and tests/TT-FIX44.xml: the set of datatype names used, and every field as
(tag, datatype name, enumerators in dictionary order) - so that the C19 theorems about datatype coverage and about
enumerated fields are re-checked against what the dictionaries say on every run."""
import os

from vlib import core

from .coqfmt import HEADER, clist, cstr

NAME = "GenLex"
SOURCES = ["asyncfix/protocol/schema.py", "tests/FIX44.xml", "tests/TT-FIX44.xml"]
CHUNK = 150     # fields per Definition (keeps coqc fast on the 912-field dictionary)


def dump(schema, stem):
    fields = []
    for tag, f in schema._tag2field.items():
        assert isinstance(f.tag, str) and isinstance(f.ftype, str) and tag == f.tag
        vals = list(f.values.keys())
        assert all(isinstance(v, str) for v in vals)
        fields.append("(%s, %s, %s)" % (cstr(f.tag), cstr(f.ftype), clist([cstr(v) for v in vals], per_line=16)))
    types = sorted({f.ftype for f in schema._tag2field.values()})
    assert set(types) == set(schema._types)
    t = "Definition types_%s : list (list N) :=\n  %s.\n\n" % (stem, clist([cstr(x) for x in types], per_line=2))
    parts = []
    for i in range(0, len(fields), CHUNK):
        name = "fields_%s_%d" % (stem, i // CHUNK)
        parts.append(name)
        t += "Definition %s : list (list N * list N * list (list N)) :=\n  %s.\n\n" % (
            name, clist(fields[i:i + CHUNK], per_line=1))
    t += "Definition fields_%s : list (list N * list N * list (list N)) :=\n  %s.\n\n" % (stem, " ++ ".join(parts) or "[]")
    return t


def generate():
    from asyncfix.protocol.schema import FIXSchema

    t = HEADER
    t += dump(FIXSchema(os.path.join(core.REPO, "tests", "FIX44.xml")), "fix44")
    t += dump(FIXSchema(os.path.join(core.REPO, "tests", "TT-FIX44.xml")), "tt")
    return t
