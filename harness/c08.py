"""C08 - the journal survives a process crash at any point.

Theorems (Props/C08.v) are about the model of SQLite + Python's sqlite3 transaction control in
coq/theories/Fix/Journal.v and the crash runs of Fix/JournalRun.v.  This harness validates that
abstraction against real files and real process deaths:

  * operation sequences (exhaustive over a small alphabet up to a length bound + random ones) are
    run by a child process on a real SQLite file; `sqlite3.connect` of the child returns a proxy
    connection / cursor pair that counts every `execute` and `commit` call and calls `os._exit`
    before or after the chosen one - EVERY such boundary of every sequence is used, including the
    DDL of `Journaler.__init__`, the SELECTs and the calls of a reopen; further crash points are
    every boundary between two operations, and the three normal ends (close(), `del`, plain exit);
  * the parent reopens the file with a fresh Journaler and reads sessions(), get_all_msgs(),
    create_or_load of every stored session and recover_messages of every session and direction,
    then checks that the recovered journal is usable (next session id, a new write survives);
  * correspondence: the child reports how many primitives (INSERT/UPDATE/DELETE statements incl. a
    failing INSERT, and commits) it had executed; the extracted model's request [1, ops, k] must
    predict the recovered state for that k, and the model's count of completed operations for
    every k must equal the one derived from the implementation's own primitive counts per operation;
  * oracle (independent of the Coq model): with the dict-based reference store of harness/c13.py
    the recovered state must be the state at an operation boundary - after the operations that
    returned, or that plus the operation in flight applied entirely (at an operation boundary and at a
    normal end: exactly the former); every message whose persist_msg returned is present
    byte-for-byte unless a later completed set_seq_num removed it; the effect of a completed
    set_seq_num is present; a row written by the operation in flight is there only together with
    its counter."""
import json
import os
import select
import shutil
import signal
import subprocess
import sys
import time
from concurrent.futures import ThreadPoolExecutor

from harness import journal_common as jc

META = {
    "level": "proof",
    "tables": [],
    "files": ["asyncfix/journaler.py"],
    "rule": "a case is one (operation sequence, crash point) pair executed by a real child process on a real SQLite file: "
            "(a) all sequences over a 7 (quick) / 12 (thorough; 10 at length 4) operation alphabet (create/load new and existing "
            "sessions, persist in/out incl. duplicates, set_seq_num incl. refused, reopen, listing) up to length 3 / 4, each x every crash point of its "
            "last operation (every prefix is a sequence of its own): before each execute/commit call, and the boundary after it; "
            "(b) random longer sequences (lenient number spellings, malformed messages, negative / 2^62 numbers, several sessions) x "
            "every execute/commit call boundary (before and after; DDL and SELECTs included) x every operation boundary x "
            "close()/del/exit in a child, plus a crash-free run of every sequence; non-trivial when death is inside a writing "
            "operation after at least one of its statements ran; distinct by (canonical op list, crash point)",
    "trusted_base": [
        "SQLite's atomic commit / hot-journal rollback and Python sqlite3's implicit-BEGIN rule are MODELLED in Fix/Journal.v; "
        "this harness validates the model against real files and real process deaths (os._exit in a forked child), "
        "not against power loss or OS crashes (no claim about fsync)",
        "the crash-injection proxy around sqlite3.connect (harness/c08.py) and the reference store harness/c13.py:RefStore",
    ],
    "assumptions": ["sequence numbers fit SQLite's 64-bit INTEGER (outside that range set_seq_num can fail half way, see notes/C08.md)",
                    "one process / one connection writes the journal file at a time"],
}

PY = "/venv/bin/python"
INT64 = 2 ** 63 - 1
PRIM_KINDS = ("INSERT", "UPDATE", "DELETE", "REPLACE")


def show(ops):
    return [[(x.hex() if isinstance(x, bytes) else x) for x in o] for o in ops]


def load(ops):
    return [[(bytes.fromhex(x) if (o[0] in (1, 7) and isinstance(x, str)) else x) for x in o] for o in ops]


# ----------------------------------------------------------------------------------------
# child: runs the operations on the real Journaler and dies at the chosen point
# ----------------------------------------------------------------------------------------

class _State:
    def __init__(self, spec, wfd):
        self.spec = spec
        self.wfd = wfd
        self.raw = 0            # execute/commit calls started
        self.prims = 0          # primitives executed (model's budget unit)
        self.in_op = None       # index of the operation in flight
        self.results = []       # results of the operations that returned
        self.cum = []           # prims after each returned operation
        self.trace = []         # [in_op, kind, is_prim] per raw call
        self.commits_in_op = 0  # commit calls that returned during the operation in flight

    def report(self, where):
        return {"results": self.results, "cum": self.cum, "prims": self.prims, "raw": self.raw,
                "in_op": self.in_op, "commits_in_op": self.commits_in_op, "where": where, "trace": self.trace}

    def die(self, where):
        os.write(self.wfd, json.dumps(self.report(where)).encode())
        os._exit(0)

    def before(self, kind, is_prim):
        self.raw += 1
        self.trace.append([self.in_op, kind, 1 if is_prim else 0])
        if self.spec[0] == "raw" and self.spec[1] == self.raw and self.spec[2] == "before":
            self.die("before")

    def after(self, kind, is_prim):
        if is_prim:
            self.prims += 1
        if kind == "COMMIT":
            self.commits_in_op += 1
        if self.spec[0] == "raw" and self.spec[1] == self.raw and self.spec[2] == "after":
            self.die("after")


class _PCursor:
    def __init__(self, cur, st):
        self._c, self._st = cur, st

    def execute(self, sql, params=()):
        kind = sql.lstrip().split(None, 1)[0].upper()
        is_prim = kind in PRIM_KINDS
        self._st.before(kind, is_prim)
        try:
            self._c.execute(sql, params)
        except BaseException:
            self._st.after(kind, is_prim)     # a failing statement has been executed
            raise
        self._st.after(kind, is_prim)
        return self

    def __iter__(self):
        return iter(self._c)

    def __next__(self):
        return next(self._c)

    def __getattr__(self, name):
        return getattr(self._c, name)


class _PConn:
    def __init__(self, conn, st):
        self._conn, self._st = conn, st

    def cursor(self):
        return _PCursor(self._conn.cursor(), self._st)

    def commit(self):
        self._st.before("COMMIT", True)
        try:
            self._conn.commit()
        except BaseException:
            self._st.after("COMMIT", True)
            raise
        self._st.after("COMMIT", True)

    def execute(self, sql, params=()):
        return self.cursor().execute(sql, params)

    def __enter__(self):            # `with conn:` commits on success, rolls back on an exception
        return self

    def __exit__(self, et, ev, tb):
        if et is None:
            self.commit()
        else:
            self._conn.rollback()
        return False

    def __getattr__(self, name):
        return getattr(self._conn, name)


def drive(path, ops, st):
    """Run ops on a real Journaler whose sqlite3 connection is the counting / dying proxy."""
    import sqlite3
    spec = st.spec
    real_connect = sqlite3.connect
    sqlite3.connect = lambda *a, **kw: _PConn(real_connect(*a, **kw), st)
    try:
        im = jc.Impl(path)
        if spec[0] == "op" and spec[1] == 0:
            st.die("op-boundary")
        for idx, op in enumerate(ops):
            st.in_op, st.commits_in_op = idx, 0
            r = im.step(op)
            st.results.append(r)
            st.cum.append(st.prims)
            st.in_op = None
            if spec[0] == "op" and spec[1] == idx + 1:
                st.die("op-boundary")
        if spec[0] == "none":
            if spec[1] in ("close", "close-in-process"):
                im.close()
            elif spec[1] == "del":
                import gc
                im.j = None
                gc.collect()
    finally:
        sqlite3.connect = real_connect


def child_main(path, ops, spec, wfd):
    st = _State(spec, wfd)
    drive(path, ops, st)
    st.die("end")


def dry_run(ops):
    """Crash-free run inside the worker process (no process death needed): call trace, primitive
    counts per operation, results, and what a fresh Journaler sees after the normal close."""
    d = jc.tmpdir()
    path = os.path.join(d, "j.db")
    try:
        st = _State(["none", "close-in-process"], None)
        drive(path, ops, st)
        return st.report("end"), observe(path)
    finally:
        shutil.rmtree(d, ignore_errors=True)


# ----------------------------------------------------------------------------------------
# worker: one real process death per case, then observation with a fresh Journaler
# ----------------------------------------------------------------------------------------

def crash_run(ops, spec, timeout=30):
    """Fork a child that runs ops and dies at spec; return (report, observation)."""
    d = jc.tmpdir()
    path = os.path.join(d, "j.db")
    try:
        rfd, wfd = os.pipe()
        pid = os.fork()
        if pid == 0:
            try:
                os.close(rfd)
                child_main(path, ops, spec, wfd)
            finally:
                os._exit(3)
        os.close(wfd)
        buf, deadline, hung = b"", time.time() + timeout, False
        while True:
            left = deadline - time.time()
            if left <= 0:
                hung = True
                break
            r, _, _ = select.select([rfd], [], [], left)
            if not r:
                hung = True
                break
            chunk = os.read(rfd, 1 << 16)
            if not chunk:
                break
            buf += chunk
        os.close(rfd)
        if hung:
            os.kill(pid, signal.SIGKILL)
        _, status = os.waitpid(pid, 0)
        if hung:
            return {"error": "child hung (killed after %ss)" % timeout}, None
        if not buf:
            return {"error": "child died without report, wait status %d" % status}, None
        rep = json.loads(buf.decode())
        return rep, observe(path)
    finally:
        shutil.rmtree(d, ignore_errors=True)


POST = b"8=FIX.4.4\x0134=1\x01after-recovery"


def observe(path):
    """What a fresh Journaler on the file reports, and whether the journal is usable."""
    im = None
    try:
        im = jc.Impl(path)
        sessions = im.step([5])
        allm = im.step([6, None, None])
        loads, recs = [], []
        for row in sessions:
            t, s = "".join(map(chr, row[1])), "".join(map(chr, row[2]))
            loads.append(im.step([0, t, s]))
            h = len(im.hs) - 1
            for d in (0, 1):
                recs.append([row[0], d, im.step([3, h, d, -INT64 - 1, INT64])])
        again = [im.step([5]), im.step([6, None, None])]
        # usable: the next session id is the next one, a write commits and survives close + reopen
        new = im.step([0, "\x7fpost", "\x7fcrash"])
        h = len(im.hs) - 1
        w = im.step([1, h, 1, POST])
        im.step([8])
        back = im.step([6, [h], None])
        usable = {"reads_stable": again == [sessions, allm],
                  "new_session": isinstance(new, list) and new[0] == len(sessions) + 1 and new[3:] == [1, 1],
                  "write_ok": w == 0,
                  "write_survives": isinstance(new, list) and back == [[1, list(POST), 1, new[0]]]}
        return {"sessions": sessions, "all": allm, "loads": loads, "recs": recs, "usable": usable}
    except Exception as e:   # an unusable journal is an observation, not a harness crash
        return {"error": "%s: %s" % (type(e).__name__, str(e)[:200])}
    finally:
        if im is not None:
            im.close()


def specs_of(dry, nops, mode):
    """Crash points of one sequence, from the call trace of its crash-free run.

    full: every execute/commit call (DDL, SELECTs, statements, commits) x before/after, every
          operation boundary, and the three normal ends in a real child process.
    last: only the points that are new with respect to the sequence without its last operation
          (used by the exhaustive enumeration, where every prefix is a sequence of its own): before
          every call of the last operation, after its last call, and the boundary after it."""
    trace = dry["trace"]
    out = []
    if mode == "full":
        for r in range(1, dry["raw"] + 1):
            out.append(["raw", r, "before"])
            out.append(["raw", r, "after"])
        out += [["op", j] for j in range(nops + 1)]
        out += [["none", "close"], ["none", "exit"], ["none", "del"]]
    else:
        mine = [r for r in range(1, dry["raw"] + 1) if trace[r - 1][0] == nops - 1]
        out += [["raw", r, "before"] for r in mine]
        if mine and mode == "last+":
            out.append(["raw", mine[-1], "after"])
        out.append(["op", nops])
        if nops == 1:
            out += [["raw", 1, "before"], ["raw", 1, "after"], ["raw", 2, "before"], ["raw", 2, "after"], ["op", 0]]
    return out


def worker_main():
    import faulthandler
    faulthandler.dump_traceback_later(1500, exit=True)
    job = json.load(sys.stdin)
    out = sys.stdout
    for seq in job["seqs"]:
        ops = load(seq["ops"])
        dry, dobs = dry_run(ops)
        res = {"id": seq["id"], "dry": dry, "dry_obs": dobs, "runs": []}
        only = seq.get("specs")
        for spec in (only if only is not None else specs_of(dry, len(ops), seq.get("mode", "full"))):
            rep, obs = crash_run(ops, spec)
            rep.pop("trace", None)
            res["runs"].append({"spec": spec, "rep": rep, "obs": obs})
        out.write(json.dumps(res) + "\n")
        out.flush()


def run_workers(seqs, modes=None, nproc=None, timeout=1400, specs=None):
    """seqs: list of op lists; modes: crash-point selection per sequence (see specs_of).
    Returns {id: result} computed by worker subprocesses (process creation is the bottleneck and
    does not scale with the number of workers on the build machine: 8 workers)."""
    from vlib import core
    nproc = nproc or 8
    jobs = [{"seqs": []} for _ in range(min(nproc, max(1, len(seqs))))]
    cost = lambda i: (-(len(seqs[i]) * (6 if (modes is None or modes[i] == "full") else 1)), i)
    for n, i in enumerate(sorted(range(len(seqs)), key=cost)):
        item = {"id": i, "ops": show(seqs[i]), "mode": modes[i] if modes else "full"}
        if specs is not None:
            item["specs"] = specs[i]
        jobs[n % len(jobs)]["seqs"].append(item)

    def one(job):
        p = subprocess.run([PY, "-m", "harness.c08", "--worker"], input=json.dumps(job).encode(),
                           stdout=subprocess.PIPE, stderr=subprocess.PIPE, timeout=timeout,
                           env=core.child_env(), cwd=core.ROOT)
        if p.returncode != 0:
            raise RuntimeError("crash worker failed rc=%s: %s" % (p.returncode, p.stderr.decode()[-800:]))
        return [json.loads(line) for line in p.stdout.decode().splitlines() if line.strip()]

    results = {}
    with ThreadPoolExecutor(len(jobs)) as ex:
        for lst in ex.map(one, jobs):
            for r in lst:
                results[r["id"]] = r
    return results


# ----------------------------------------------------------------------------------------
# oracle (independent of the Coq model)
# ----------------------------------------------------------------------------------------

def snapshots(ops):
    """State of the reference store at every operation boundary: [sessions listing, all messages]."""
    from harness.c13 import RefStore
    ref = RefStore()
    snaps = [[ref.step([5]), ref.step([6, None, None])]]
    for o in ops:
        ref.step(o)
        snaps.append([ref.step([5]), ref.step([6, None, None])])
    return snaps


def seq_of(msg):
    from harness.c13 import RefStore
    return RefStore.seq_of(msg)


def oracle(ops, spec, rep, obs, snaps):
    """List of property breaches of one crash run (decided on the implementation's behaviour only)."""
    bad = []
    if obs is None or "error" in obs:
        return ["the journal cannot be reopened / read after the crash: %r" % (obs,)]
    c = len(rep["results"])
    got = [obs["sessions"], obs["all"]]
    # (1) the recovered state is a boundary between completed operations; the operation in flight
    #     is applied entirely or not at all
    if rep["where"] in ("op-boundary", "end"):
        if got != snaps[c]:
            bad.append("death %s after %d completed operation(s): recovered %r, the state after those operations is %r"
                       % ("between operations" if rep["where"] == "op-boundary" else "at normal end (%s)" % spec[1],
                          c, got, snaps[c]))
    else:
        adm = [snaps[c]] + ([snaps[c + 1]] if c < len(ops) else [])
        if got not in adm:
            bad.append("death inside operation %d (%d returned): recovered %r is neither the state before it %r nor after it %r"
                       % (c, c, got, adm[0], adm[-1]))
    # (2)/(4) explicit: what completed calls promised, from the implementation's own return values
    sids, must, ctr = [], {}, {}
    for j in range(c):
        op, r = ops[j], rep["results"][j]
        if op[0] == 0 and isinstance(r, list) and len(r) == 5:
            sids.append(r[0])
        elif op[0] == 1 and r == 0:
            sid, n = sids[op[1]], seq_of(op[3])
            must[(n, sid, op[2])] = op[3]
            ctr.setdefault(sid, [None, None])[0 if op[2] == 1 else 1] = n
        elif op[0] == 2 and isinstance(r, list) and r[0] == 0:
            sid = sids[op[1]]
            for key in [k for k in must if k[1] == sid and k[0] >= (r[1] if k[2] == 1 else r[2])]:
                del must[key]
            ctr[sid] = [r[1] - 1, r[2] - 1]
    fl = ops[c] if (c < len(ops) and rep["where"] not in ("op-boundary", "end")) else None
    fl_sid = sids[fl[1]] if (fl and fl[0] in (1, 2) and fl[1] < len(sids)) else None
    rows = {(r[0], r[3], r[2]): bytes(r[1]) for r in obs["all"]}
    srow = {r[0]: r for r in obs["sessions"]}
    for key, msg in must.items():
        if fl and fl[0] == 2 and key[1] == fl_sid:
            continue        # the set_seq_num in flight may have removed it
        if rows.get(key) != msg:
            bad.append("message %r whose persist_msg had returned is %s after the crash"
                       % (key, "missing" if key not in rows else "altered"))
    for sid, (o, i) in ctr.items():
        if fl_sid == sid:
            continue
        row = srow.get(sid)
        if row is None or (o is not None and row[3] != o + 1) or (i is not None and row[4] != i + 1):
            bad.append("stored counters of session %r after completed persist/set_seq_num calls should give next numbers "
                       "(out, in) = %r, recovered row %r" % (sid, (None if o is None else o + 1, None if i is None else i + 1), row))
    # (3) a row written by the operation in flight exists only together with its counter
    if fl and fl[0] == 1 and fl_sid is not None:
        n = seq_of(fl[3])
        key = (n, fl_sid, fl[2])
        if n is not None and key in rows and key not in must:
            row = srow.get(fl_sid)
            if row is None or row[3 if fl[2] == 1 else 4] != n + 1:
                bad.append("row %r of the persist_msg in flight is stored but the counter was not updated: %r" % (key, row))
    for k, v in obs.get("usable", {}).items():
        if not v:
            bad.append("recovered journal not usable: %s failed" % k)
    return bad


def expected_done(cum, k):
    """Operations completed after k primitives, from the implementation's own counts per operation."""
    done = 0
    for j, cj in enumerate(cum):
        if cj <= k:
            done = j + 1
        else:
            break
    return done


# ----------------------------------------------------------------------------------------
# generators
# ----------------------------------------------------------------------------------------

def m(n, tail=b""):
    return b"8=FIX.4.4\x0135=D\x0134=%d\x01" % n + tail


ALPHABET = [
    [0, "A", "B"], [0, "B", "A"],
    [1, 0, 1, m(1, b"o1")], [1, 0, 1, m(2, b"o2\x00\xff")], [1, 0, 0, m(1, b"i1")], [1, -1, 1, m(1, b"last")],
    [2, 0, 1, 1], [2, 0, None, 2], [2, 0, 2, None], [2, 0, 0, None],
    [8], [5],
]


# quick tier: process creation costs 10-100 ms on the build machine and does not parallelise, so the
# quick alphabet keeps one representative per behaviour (load existing = transaction left open, new
# session, persist out/in incl. the duplicate, set_seq_num that deletes / that only moves a counter, reopen)
QUICK_ALPHABET = [ALPHABET[i] for i in (0, 1, 2, 4, 6, 7, 10)]


MID_ALPHABET = [o for o in ALPHABET if o not in ([2, 0, 2, None], [5])]


def exhaustive(n, alphabet):
    """All sequences create(A,B) . w with w over the alphabet, |w| = n; handle -1 = the latest handle."""
    import itertools
    out = []
    for w in itertools.product(alphabet, repeat=n):
        ops, nh = [[0, "A", "B"]], 1
        for o in w:
            o = list(o)
            if o[0] == 0:
                nh += 1
            if o[0] == 1 and o[1] == -1:
                o[1] = nh - 1
            ops.append(o)
        out.append(ops)
    return out


def gen_seq(rng, n):
    """Write-heavy random sequence over several sessions."""
    ops, pairs = [], []
    for _ in range(n):
        r = rng.random()
        if not pairs or r < 0.12:
            p = rng.choice(jc.PAIRS)
            ops.append([0, p[0], p[1]])
            pairs.append(p)
        elif r < 0.20:
            p = rng.choice(pairs)                      # load an existing session: leaves a transaction open
            ops.append([0, p[0], p[1]])
            pairs.append(p)
        elif r < 0.60:
            x = rng.random()
            if x < 0.07:
                msg = jc.gen_msg(rng, malformed=True)
            elif x < 0.25:
                msg = jc.gen_msg(rng)
            else:
                msg = jc.gen_msg(rng, seq=rng.choice([1, 1, 2, 2, 3, 4, 5]))
            ops.append([1, rng.randrange(len(pairs)), rng.randrange(2), msg])
        elif r < 0.80:
            def v():
                x = rng.random()
                return None if x < 0.35 else (rng.choice([1, 2, 3, 4, 6, 2 ** 62]) if x < 0.92 else rng.choice([0, -1]))
            ops.append([2, rng.randrange(len(pairs)), v(), v()])
        elif r < 0.88:
            ops.append([8])
        elif r < 0.93:
            ops.append([5])
        elif r < 0.97:
            ops.append([6, None, None])
        else:
            ops.append([3, rng.randrange(len(pairs)), rng.randrange(2), 0, INT64])
    return ops


def corpus():
    import glob
    out = []
    for f in sorted(glob.glob(os.path.join(os.path.dirname(__file__), "..", "corpus", "C08", "*.json"))):
        out.append(load(json.load(open(f))["ops"]))
    return out


# ----------------------------------------------------------------------------------------
# check
# ----------------------------------------------------------------------------------------

def derive_reads(mobs):
    """create_or_load / recover_messages of every stored session as implied by the model's observation."""
    sessions, allm = mobs
    loads = [list(r) for r in sessions]
    recs = []
    for r in sessions:
        for d in (0, 1):
            rows = sorted([x for x in allm if x[3] == r[0] and x[2] == d], key=lambda x: x[0])
            recs.append([r[0], d, [x[1] for x in rows]])
    return loads, recs


def evaluate(ctx, seqs, results, use_model=True):
    """Oracle on every crash run; correspondence with the extracted model when available."""
    model = ctx.model if use_model else None
    lines, where = [], []
    for i, ops in enumerate(seqs):
        res = results.get(i)
        if res is None:
            raise RuntimeError("crash harness: no result for sequence %d" % i)
        total = res["dry"]["prims"]
        if model:
            sxo = jc.sx_ops(ops)
            for k in range(total + 2):
                lines.append("[1,%s,%d]" % (sxo, k))
                where.append((i, k))
    table = {}
    if model:
        for (i, k), out in zip(where, model.batch(lines)):
            table[(i, k)] = out
    for i, ops in enumerate(seqs):
        res = results[i]
        dry = res["dry"]
        total, cum = dry["prims"], dry["cum"]
        snaps = snapshots(ops)
        case0 = {"ops": show(ops)}
        # numbering: the model's completed-operation count for every budget
        if model:
            for k in range(total + 2):
                mo = table[(i, k)]
                want = [expected_done(cum, k), 1 if expected_done(cum, k) < len(ops) else 0]
                if mo[1:] != want:
                    ctx.disagree(dict(case0, budget=k), want, mo[1:], "primitive-numbering")
                    break
        runs = [{"spec": ["none", "close-in-process"], "rep": dry, "obs": res["dry_obs"]}] + res["runs"]
        for run in runs:
            spec, rep, obs = run["spec"], run["rep"], run["obs"]
            case = dict(case0, spec=spec)
            if "error" in rep:
                ctx.fail(case, "crash run did not finish: %s" % rep["error"], None)
                continue
            c, k = len(rep["results"]), rep["prims"]
            if rep["results"] != dry["results"][:c] or rep["cum"] != cum[:c]:
                ctx.notes.append("non-deterministic run: %r" % (case,))
            inside = rep["where"] in ("before", "after")
            fl = ops[c] if (inside and c < len(ops)) else None
            started = fl is not None and fl[0] in (0, 1, 2) and k > (cum[c - 1] if c else 0)
            ctx.case((show(ops), spec), started,
                     sample={"ops": show(ops), "spec": spec, "prims_executed": k, "returned": c,
                             "recovered": [obs.get("sessions"), obs.get("all")] if obs else None}
                     if (started and len(ctx.samples) < 4 and len(ops) > 3) else None)
            ctx.count("crash:" + (spec[0] if spec[0] != "raw" else "call-" + spec[2]))
            if fl is not None:
                ctx.count("in-flight:op%d" % fl[0])
            if inside and rep["in_op"] is None:
                ctx.count("in-flight:open")
            ctx.traces += 1
            for what in oracle(ops, spec, rep, obs, snaps):
                ctx.fail(case, what, None)
            if obs and "error" not in obs and inside and c < len(ops) and snaps[c] != snaps[c + 1]:
                ctx.count("recovered:" + ("after" if [obs["sessions"], obs["all"]] == snaps[c + 1] else "before"))
            if model and obs and "error" not in obs:
                mo = table[(i, min(k, total + 1))]
                if [obs["sessions"], obs["all"]] != mo[0]:
                    ctx.disagree(dict(case, budget=k), [obs["sessions"], obs["all"]], mo[0], "recovered-state")
                else:
                    loads, recs = derive_reads(mo[0])
                    if obs["loads"] != loads:
                        ctx.disagree(dict(case, budget=k), obs["loads"], loads, "recovered-create_or_load")
                    if obs["recs"] != recs:
                        ctx.disagree(dict(case, budget=k), obs["recs"], recs, "recovered-recover_messages")


# ----------------------------------------------------------------------------------------
# large journals: atomicity must not depend on the amount of data one operation rewrites
# ----------------------------------------------------------------------------------------
# SQLite's atomic commit is an ASSUMPTION of Fix/Sqlite.v (trusted base).  It holds for the rollback-journal and WAL modes
# and is lost when the code switches the rollback journal off or into memory (dirty pages beyond the 2 MB page cache are
# spilled into the database file before COMMIT) or when one operation is split into several transactions for long journals.
# Neither is visible on the small histories above, so one journal with more than 1000 rows / 3 MB per direction is built
# once with the real Journaler and a renumbering (full reset, partial truncation) is killed at EVERY execute / commit call.

BIG_ROWS, BIG_TAIL = 1200, 3000


def big_digest(path):
    """(sessions listing, sorted (seqNo, direction, session, sha1(msg)) of every stored message, usable?) via a fresh Journaler."""
    import hashlib
    im = None
    try:
        im = jc.Impl(path)
        sessions = im.step([5])
        rows = sorted((r[0], r[2], r[3], hashlib.sha1(bytes(r[1])).hexdigest()) for r in im.j.get_all_msgs(None, None))
        again = im.step([5])
        new = im.step([0, "\x7fpost", "\x7fcrash"])
        h = len(im.hs) - 1
        w = im.step([1, h, 1, POST])
        im.step([8])
        back = im.step([6, [h], None])
        usable = again == sessions and isinstance(new, list) and new[3:] == [1, 1] and w == 0 and \
            back == [[1, list(POST), 1, new[0]]]
        return {"sessions": sessions, "rows": [list(r) for r in rows], "usable": usable}
    except Exception as e:
        return {"error": "%s: %s" % (type(e).__name__, str(e)[:200])}
    finally:
        if im is not None:
            im.close()


def big_child(path, op, spec, wfd):
    st = _State(["none", "setup"], wfd)          # no crash point while the journal is opened and the session loaded
    import sqlite3
    real_connect = sqlite3.connect
    sqlite3.connect = lambda *a, **kw: _PConn(real_connect(*a, **kw), st)
    im = jc.Impl(path)
    im.step([0, "A", "B"])
    # crash points are numbered from the first execute / commit call of the renumbering itself
    st.spec, st.raw, st.trace = spec, 0, []
    st.in_op, st.commits_in_op = 1, 0
    r = im.step(op)
    st.results.append(r)
    st.in_op = None
    st.die("end")


def big_run(base, op, spec, timeout=60):
    d = jc.tmpdir()
    path = os.path.join(d, "j.db")
    try:
        shutil.copyfile(base, path)
        rfd, wfd = os.pipe()
        pid = os.fork()
        if pid == 0:
            try:
                os.close(rfd)
                big_child(path, op, spec, wfd)
            finally:
                os._exit(3)
        os.close(wfd)
        buf, deadline = b"", time.time() + timeout
        while True:
            left = deadline - time.time()
            r = select.select([rfd], [], [], max(left, 0))[0] if left > 0 else None
            if not r:
                os.kill(pid, signal.SIGKILL)
                os.waitpid(pid, 0)
                os.close(rfd)
                return {"error": "child hung"}, None
            chunk = os.read(rfd, 1 << 16)
            if not chunk:
                break
            buf += chunk
        os.close(rfd)
        os.waitpid(pid, 0)
        if not buf:
            return {"error": "child died without report"}, None
        return json.loads(buf.decode()), big_digest(path)
    finally:
        shutil.rmtree(d, ignore_errors=True)


def big_base(base):
    im = jc.Impl(base)
    im.step([0, "A", "B"])
    for direction, tail in ((1, b"o"), (0, b"i")):
        for n in range(1, BIG_ROWS + 1):
            assert im.step([1, 0, direction, m(n, tail * BIG_TAIL)]) == 0
    im.close()


def big_family(ctx):
    """Renumbering of a journal with BIG_ROWS rows of BIG_TAIL bytes per direction, killed at every call."""
    d = jc.tmpdir()
    base = os.path.join(d, "base.db")
    t0 = time.time()
    try:
        big_base(base)
        shutil.copyfile(base, base + ".probe")      # the usability probe writes: never on the base file itself
        before = big_digest(base + ".probe")
        if "error" in before or not before["usable"]:
            ctx.fail({"big": "build"}, "a journal of %d rows per direction cannot be read back: %r" % (BIG_ROWS, before), None)
            return
        import hashlib
        huge = m(BIG_ROWS + 1, b"h" * (3 << 20))          # one message larger than SQLite's page cache
        for op in ([2, 0, 1, 1], [2, 0, BIG_ROWS // 2, None], [2, 0, None, 5], [1, 0, 1, huge]):
            newout, newin = (op[2], op[3]) if op[0] == 2 else (None, None)
            case0 = {"big_journal": {"rows_per_direction": BIG_ROWS, "message_bytes": BIG_TAIL + 20},
                     "op": ["set_seq_num", {"next_num_out": newout, "next_num_in": newin}] if op[0] == 2
                     else ["persist_msg", {"direction": "OUTBOUND", "seq": BIG_ROWS + 1, "bytes": len(huge)}]}
            rep, after = big_run(base, op, ["none", "end"])
            if "error" in rep or after is None or "error" in after:
                ctx.fail(case0, "crash-free renumbering of a large journal failed: %r %r" % (rep, after), None)
                continue
            # the state a completed renumbering must leave, from the property (not from the run)
            srow = list(before["sessions"][0])
            if newout is not None:
                srow[3] = newout
            if newin is not None:
                srow[4] = newin
            want_rows = [r for r in before["rows"]
                         if not ((r[1] == 1 and newout is not None and r[0] >= newout) or
                                 (r[1] == 0 and newin is not None and r[0] >= newin))]
            if op[0] == 1:
                srow[3] = BIG_ROWS + 2
                want_rows = sorted(want_rows + [[BIG_ROWS + 1, 1, srow[0], hashlib.sha1(huge).hexdigest()]])
            want = {"sessions": [srow], "rows": want_rows}
            got = {"sessions": after["sessions"], "rows": after["rows"]}
            if got != want or not after["usable"]:
                ctx.fail(case0, "completed operation on a large journal: stored counters %r with %d rows, expected %r with %d rows"
                         % (after["sessions"], len(after["rows"]), want["sessions"], len(want_rows)), None)
                continue
            ncalls = len(rep["trace"])
            for r_ in range(1, ncalls + 1):
                for when in ("before", "after"):
                    spec = ["raw", r_, when]
                    rep2, obs = big_run(base, op, spec)
                    case = dict(case0, spec=spec)
                    ctx.traces += 1
                    ctx.count("big-journal:call-" + when)
                    if "error" in rep2:
                        ctx.fail(case, "crash run on the large journal did not finish: %s" % rep2["error"], None)
                        continue
                    started = True
                    ctx.case((json.dumps(case0, sort_keys=True), tuple(spec)), started)
                    if obs is None or "error" in obs:
                        ctx.fail(case, "the journal cannot be reopened / read after the crash: %r" % (obs,), None)
                        continue
                    st_ = {"sessions": obs["sessions"], "rows": obs["rows"]}
                    old = {"sessions": before["sessions"], "rows": before["rows"]}
                    if st_ != old and st_ != want:
                        ctx.fail(case, "death inside an operation on a large journal (call %d, %s): recovered counters %r with %d "
                                 "rows are neither the state before it (%r, %d rows) nor after it (%r, %d rows)"
                                 % (r_, when, obs["sessions"], len(obs["rows"]), before["sessions"], len(before["rows"]),
                                    want["sessions"], len(want_rows)), None)
                    elif not obs["usable"]:
                        ctx.fail(case, "recovered large journal not usable", None)
                    else:
                        ctx.count("big-journal:recovered-" + ("before" if st_ == old else "after"))
    finally:
        shutil.rmtree(d, ignore_errors=True)
        ctx.extra["big_journal_s"] = round(time.time() - t0, 1)


def plan(ctx):
    """Sequences and their crash-point selection.  The exhaustive part enumerates every sequence up
    to the length bound, so each one only contributes the crash points of its last operation; the
    random part (longer, several sessions, odd numbers) uses every crash point."""
    rng = ctx.rng
    seqs = corpus()
    modes = ["full"] * len(seqs)
    if ctx.tier == "thorough":
        levels = [(0, ALPHABET, "last+"), (1, ALPHABET, "last+"), (2, ALPHABET, "last+"), (3, MID_ALPHABET, "last")]
    else:
        levels = [(0, QUICK_ALPHABET, "last"), (1, QUICK_ALPHABET, "last"), (2, QUICK_ALPHABET, "last")]
    for n, alphabet, mode in levels:
        for ops in exhaustive(n, alphabet):
            seqs.append(ops)
            modes.append(mode)
    for _ in range(ctx.scale(4, 30)):
        seqs.append(gen_seq(rng, rng.randrange(4, ctx.scale(7, 10))))
        modes.append("full")
    return seqs, modes


def run(ctx):
    seqs, modes = plan(ctx)
    t = time.time()
    results = run_workers(seqs, modes)
    ctx.extra["crash_runs_s"] = round(time.time() - t, 1)
    ctx.extra["sequences"] = {"total": len(seqs), "exhaustive_last_op": sum(1 for x in modes if x != "full"),
                              "all_crash_points": sum(1 for x in modes if x == "full"),
                              "exhaustive_length_bound": ctx.scale(3, 4)}
    evaluate(ctx, seqs, results)
    big_family(ctx)


def search(ctx, cases):
    """A proof or the correspondence broke: look for a crash point at which the implementation itself breaks the property."""
    import random
    rng = random.Random(ctx.seed + 1)
    seqs, seen = [], set()
    for c in cases:
        key = json.dumps(c.get("ops"))
        if c.get("ops") and key not in seen:
            seen.add(key)
            seqs.append(load(c["ops"]))
    seqs = seqs[:10] + [gen_seq(rng, rng.randrange(3, 8)) for _ in range(ctx.scale(6, 40))]
    evaluate(ctx, seqs, run_workers(seqs), use_model=False)


def replay(path):
    rec = json.load(open(path))
    case = rec.get("input")
    if case and case.get("big_journal"):
        class _C:      # minimal context: re-run the whole large-journal family and print what fails
            traces = 0
            extra = {}

            def fail(self, c, what, cls=None):
                self.bad.append((c, what))

            def count(self, *a):
                pass

            def case(self, *a, **k):
                pass
        c = _C()
        c.bad = []
        big_family(c)
        for cs, what in c.bad:
            print("  BREACH:", json.dumps(cs), what)
        return 1 if c.bad else 0
    if not case or not case.get("ops"):
        print("replay: no concrete input; broken:", rec.get("broken"))
        return 1
    ops = load(case["ops"])
    specs = [case["spec"]] if case.get("spec") else None
    if specs is None:
        specs = specs_of(dry_run(ops)[0], len(ops), "full")
    snaps, rc = snapshots(ops), 0
    for spec in specs:
        rep, obs = crash_run(ops, spec)
        rep.pop("trace", None)
        bad = ["crash run did not finish: " + rep["error"]] if "error" in rep else oracle(ops, spec, rep, obs, snaps)
        print("ops=%s\n crash point=%s primitives executed=%s operations returned=%s\n recovered=%s" % (
            show(ops), spec, rep.get("prims"), len(rep.get("results", [])),
            obs and [obs.get("sessions"), obs.get("all")]))
        for b in bad:
            print("  BREACH:", b)
            rc = 1
    return rc


if __name__ == "__main__" and "--worker" in sys.argv:
    worker_main()
