(* C03: the reader loop on streams of encoder frames.
   wait lemma (a proper prefix of a frame, at least 6 bytes long, is kept untouched), the reader loop
   on whole frames followed by such a prefix, and the induction over the reads. *)
From Coq Require Import ZArith NArith List Bool Lia ZifyBool.
From AF Require Import Base.Sx Py.Str Fix.Codec Fix.WfMsg Lemmas.StrB Lemmas.RoundTripL.
Import ListNotations.
Open Scope N_scope.

(* ------------------------------------------------------------------ the wait lemma *)

Lemma prefixb_app_short : forall p a b, prefixb p (a ++ b) = true -> (length p <= length a)%nat -> prefixb p a = true.
Proof.
  induction p as [|x p IH]; intros a b H L; [reflexivity|].
  destruct a as [|y a]; cbn in *; [lia|].
  apply andb_true_iff in H as [H1 H2]. rewrite H1. cbn. apply (IH a b H2). lia.
Qed.

Lemma decode_fields_few : forall G bs rawlen idx enc fields, (length fields < 3)%nat ->
  decode_fields G bs true rawlen idx enc fields = Ok (None, Z.of_nat idx, None).
Proof.
  intros G bs rawlen idx enc fields H. destruct fields as [|a [|b [|c r]]]; try reflexivity. cbn in H. lia.
Qed.

Lemma decode_fields_short : forall G bs rawlen idx enc t0 f1v bl Y,
  cfree 61 t0 -> py_int f1v = Some bl ->
  (rawlen < zlen (field t0 bs) + zlen (field T9 f1v) + 9 + bl)%Z ->
  decode_fields G bs true rawlen idx enc (field t0 bs :: field T9 f1v :: Y) = Ok (None, Z.of_nat idx, None).
Proof.
  intros G bs rawlen idx enc t0 f1v bl Y Ht0 Hbl Hlen.
  destruct Y as [|y ys]; [reflexivity|].
  unfold decode_fields.
  unfold field at 1. rewrite (split1_field 61 t0 bs Ht0). rewrite str_eqb_refl. cbn [negb].
  unfold field at 1, T9. rewrite (split1_field 61 [57] f1v) by (intros [E|[]]; discriminate).
  fold T9. rewrite str_eqb_refl. cbn [negb]. rewrite Hbl.
  fold (field t0 bs). fold (field T9 f1v).
  destruct (rawlen <? _)%Z eqn:E; [reflexivity | lia].
Qed.

Definition strip_last (l : list str) : list str :=
  match rev l with [] :: r => rev r | _ => l end.

Lemma fields_of_strip : forall s, fields_of s = strip_last (split_on 1 s).
Proof. reflexivity. Qed.

Lemma strip_last_two : forall a b X, X <> [] -> exists Y, strip_last (a :: b :: X) = a :: b :: Y.
Proof.
  intros a b X HX. unfold strip_last.
  destruct (exists_last HX) as [X' [x EX]]. subst X.
  change (a :: b :: X' ++ [x]) with ((a :: b :: X') ++ [x]). rewrite rev_app_distr. cbn [rev app].
  destruct x as [|c x].
  - exists X'. rewrite rev_app_distr. cbn [rev app]. rewrite rev_app_distr, rev_involutive. reflexivity.
  - exists (X' ++ [c :: x]). reflexivity.
Qed.

Lemma strip_last_short : forall l, (length l <= 2)%nat -> (length (strip_last l) <= 2)%nat.
Proof.
  intros l H. unfold strip_last. destruct (rev l) as [|[|c x] r] eqn:E; try assumption.
  rewrite rev_length. assert (length (rev l) = length l) by apply rev_length. rewrite E in H0. cbn in H0. lia.
Qed.

Lemma cfree_prefix : forall c a b, cfree c (a ++ b) -> cfree c a.
Proof. intros c a b H. apply cfree_app in H. tauto. Qed.

(* the field list of any proper prefix of a good frame is rejected as incomplete, whatever offset it
   has in the buffer, as long as the buffer is shorter than the frame's declared length *)
Lemma wait_fields : forall G bs F dm P Q rawlen idx,
  frame_ok G bs F dm -> F = P ++ Q -> Q <> [] -> (rawlen < zlen F)%Z ->
  decode_fields G bs true rawlen idx P (fields_of P) = Ok (None, Z.of_nat idx, None).
Proof.
  intros G bs F dm P Q rawlen idx [f1v [f2 [rest [bl [st H]]]]] EF HQ Hraw. cbv zeta in H.
  destruct H as [HF [Hsoh [_ [_ [Hbl [Hlen _]]]]]].
  rewrite fields_of_strip.
  pose proof (Forall_inv Hsoh) as S0. pose proof (Forall_inv (Forall_inv_tail Hsoh)) as S1.
  assert (HlenP : (rawlen < zlen (field T8 bs) + zlen (field T9 f1v) + 9 + bl)%Z) by (rewrite Hlen; exact Hraw).
  assert (H1 : P ++ Q = flat (field T8 bs :: field T9 f1v :: f2 :: rest)) by congruence.
  clear Hlen EF HF Hsoh.
  remember (field T8 bs) as f0 eqn:Ef0. remember (field T9 f1v) as f1 eqn:Ef1.
  rewrite (flat_cons f0), (flat_cons f1) in H1. remember (flat (f2 :: rest)) as R eqn:ER. clear ER.
  apply app_eq_app in H1 as [l [[E1 E2]|[E1 E2]]].
  - (* P = f0 ++ l *)
    destruct l as [|c l].
    + rewrite app_nil_r in E1. subst P. rewrite (split_on_free 1 _ S0).
      apply decode_fields_few. apply Nat.lt_succ_r. apply strip_last_short. cbn. lia.
    + cbn [app] in E2. injection E2 as Ec E2. subst c.
      apply app_eq_app in E2 as [l2 [[E3 E4]|[E3 E4]]].
      * (* f1 = l ++ l2 *)
        subst P. rewrite (split_on_app_sep 1 _ _ S0). rewrite E3 in S1.
        rewrite (split_on_free 1 _ (cfree_prefix _ _ _ S1)).
        apply decode_fields_few. apply Nat.lt_succ_r. apply strip_last_short. cbn. lia.
      * (* l = f1 ++ l2 *)
        destruct l2 as [|c l2].
        -- rewrite app_nil_r in E3. subst l P. rewrite (split_on_app_sep 1 _ _ S0), (split_on_free 1 _ S1).
           apply decode_fields_few. apply Nat.lt_succ_r. apply strip_last_short. cbn. lia.
        -- cbn [app] in E4. injection E4 as Ec E4. subst c l P.
           rewrite (split_on_app_sep 1 _ _ S0), (split_on_app_sep 1 _ _ S1).
           destruct (strip_last_two f0 f1 (split_on 1 l2) (split_on_nonempty 1 l2)) as [Y EY].
           rewrite EY. subst f0 f1. apply (decode_fields_short G bs _ _ _ T8 f1v bl Y); try assumption.
           apply cfreeb_spec. reflexivity.
  - (* f0 = P ++ l *)
    rewrite E1 in S0. rewrite (split_on_free 1 _ (cfree_prefix _ _ _ S0)).
    apply decode_fields_few. apply Nat.lt_succ_r. apply strip_last_short. cbn. lia.
Qed.


Lemma frame_ok_prefix_marks : forall G bs F dm P Q,
  frame_ok G bs F dm -> F = P ++ Q -> (6 <= length P)%nat ->
  prefixb MARK P = true /\ find_sub MARK (skipn 5 P) = None.
Proof.
  intros G bs F dm P Q [f1v [f2 [rest [bl [st H]]]]] EF HP. cbv zeta in H.
  destruct H as [_ [_ [Hmark [Hnom _]]]]. split.
  - rewrite EF in Hmark. apply (prefixb_app_short _ _ _ Hmark). exact HP.
  - rewrite EF, (skipn_app_le 5 P Q) in Hnom by lia. apply (find_sub_none_prefix _ _ _ Hnom).
Qed.

(* wait lemma: a proper prefix (at least 6 bytes) of a good frame is left in the buffer *)
Lemma frame_ok_wait : forall G bs F dm P Q,
  frame_ok G bs F dm -> F = P ++ Q -> Q <> [] -> (6 <= length P)%nat ->
  decode G bs P true = Ok (None, 0%Z, None).
Proof.
  intros G bs F dm P Q Hok EF HQ HP.
  destruct (frame_ok_prefix_marks G bs F dm P Q Hok EF HP) as [HmP HnP].
  rewrite (decode_nocut G bs P true HmP HnP).
  apply (wait_fields G bs F dm P Q (zlen P) 0 Hok EF HQ).
  rewrite EF, zlen_app. unfold zlen. destruct Q; [contradiction | cbn [length]; lia].
Qed.

(* ------------------------------------------------------------------ the reader loop *)

Definition swap (fm : str * message) : message * str := (snd fm, fst fm).

Definition frames_ok (G : group_table) (bs : str) (fms : list (str * message)) : Prop :=
  Forall (fun fm => frame_ok G bs (fst fm) (snd fm)) fms.

(* what may be left in the buffer: nothing, or at least 6 bytes of a good frame that is not complete *)
Definition wait_ok (G : group_table) (bs : str) (P : str) : Prop :=
  P = [] \/ exists F dm Q, frame_ok G bs F dm /\ F = P ++ Q /\ Q <> [] /\ (6 <= length P)%nat.

Lemma frame_ok_facts : forall G bs F dm, frame_ok G bs F dm -> prefixb MARK F = true /\ (6 <= length F)%nat.
Proof.
  intros G bs F dm [f1v [f2 [rest [bl [st H]]]]]. cbv zeta in H. destruct H as [_ [_ [Hm _]]].
  split; [assumption | apply (prefixb_length _ _ Hm)].
Qed.

Lemma wait_ok_mark : forall G bs P, wait_ok G bs P -> P = [] \/ prefixb MARK P = true.
Proof.
  intros G bs P [E|[F [dm [Q [Hok [EF [_ HP]]]]]]]; [left; assumption | right].
  destruct (frame_ok_facts _ _ _ _ Hok) as [Hm _]. rewrite EF in Hm. apply (prefixb_app_short _ _ _ Hm). exact HP.
Qed.

Lemma skipn_exact : forall {A} (a b : list A), skipn (length a) (a ++ b) = b.
Proof. induction a; intros; cbn; [reflexivity | apply IHa]. Qed.

Lemma reader_loop_frames : forall G bs fms, frames_ok G bs fms ->
  forall P, wait_ok G bs P -> forall fuel acc, (length fms < fuel)%nat ->
  reader_loop G bs fuel (concat (map fst fms) ++ P) acc = (P, rev acc ++ map swap fms, 0).
Proof.
  intros G bs fms. induction fms as [|[F dm] fms IH]; intros Hok P HP fuel acc Hfuel.
  - destruct fuel as [|f]; [lia|]. cbn [map concat app reader_loop].
    assert (Hd : decode G bs P true = Ok (None, 0%Z, None)).
    { destruct HP as [E|[F [dm [Q [HF [EF [HQ HL]]]]]]]; [subst P; reflexivity|].
      apply (frame_ok_wait G bs F dm P Q HF EF HQ HL). }
    rewrite Hd. cbn. rewrite app_nil_r. reflexivity.
  - destruct fuel as [|f]; [lia|]. inversion Hok as [|? ? HF Hok']; subst. cbn [fst snd] in HF.
    cbn [map concat fst]. rewrite <- app_assoc. cbn [reader_loop].
    set (R := concat (map fst fms) ++ P).
    assert (HR : R = [] \/ prefixb MARK R = true).
    { unfold R. destruct fms as [|[F2 dm2] fms2].
      - cbn. apply (wait_ok_mark G bs P HP).
      - right. inversion Hok' as [|? ? HF2 _]; subst. cbn [fst snd map concat] in *.
        destruct (frame_ok_facts _ _ _ _ HF2) as [Hm _]. rewrite <- app_assoc. apply prefixb_app_r. assumption. }
    rewrite (frame_ok_decode G bs F dm R true HF HR).
    destruct (frame_ok_facts _ _ _ _ HF) as [_ HL].
    assert (Hpos : (0 <? zlen F)%Z = true) by (unfold zlen; lia). rewrite Hpos.
    unfold zlen. rewrite Nat2Z.id, skipn_exact.
    unfold R. rewrite (IH Hok' P HP f ((dm, F) :: acc)) by (cbn [length] in Hfuel; lia).
    cbn [rev map swap fst snd]. rewrite <- app_assoc. reflexivity.
Qed.

Lemma frames_length : forall G bs fms, frames_ok G bs fms -> (length fms <= length (concat (map fst fms)))%nat.
Proof.
  intros G bs fms H. induction H as [|[F dm] fms HF _ IH]; [cbn; lia|].
  cbn [map concat fst length]. rewrite app_length. destruct (frame_ok_facts _ _ _ _ HF) as [_ HL]. cbn [fst] in HL. lia.
Qed.

(* one read that completes the buffer to whole frames plus a harmless remainder *)
Lemma reader_step_frames : forall G bs buf chunk fms P,
  frames_ok G bs fms -> wait_ok G bs P -> buf ++ chunk = concat (map fst fms) ++ P ->
  reader_step G bs buf chunk = (P, map swap fms, 0).
Proof.
  intros G bs buf chunk fms P Hok HP E. unfold reader_step. rewrite E.
  rewrite (reader_loop_frames G bs fms Hok P HP); [reflexivity|].
  pose proof (frames_length G bs fms Hok). rewrite app_length. lia.
Qed.

(* any grouping of whole frames into reads: every frame is delivered, in order, nothing is left *)
Theorem whole_frames : forall G bs (groups : list (list (str * message))),
  Forall (frames_ok G bs) groups ->
  reader_run G bs [] (map (fun g => concat (map fst g)) groups)
  = ([], map swap (concat groups), map (fun _ => 0) groups).
Proof.
  intros G bs groups H. induction H as [|g groups Hg _ IH]; [reflexivity|].
  cbn [map reader_run].
  rewrite (reader_step_frames G bs [] _ g [] Hg (or_introl eq_refl)) by (rewrite app_nil_r; reflexivity).
  rewrite IH. cbn [concat]. rewrite map_app. reflexivity.
Qed.

(* ------------------------------------------------------------------ arbitrary chunkings *)

Lemma cut_ok_zero : forall frames, cut_ok frames 0 = true.
Proof. destruct frames; reflexivity. Qed.

Lemma cut_ok_skip : forall f fs pos, (length f <= pos)%nat -> cut_ok (f :: fs) pos = cut_ok fs (pos - length f).
Proof.
  intros f fs pos H. cbn [cut_ok]. destruct (Nat.eqb pos 0) eqn:E.
  - apply Nat.eqb_eq in E. subst pos. replace (0 - length f)%nat with 0%nat by lia. symmetry. apply cut_ok_zero.
  - assert (E2 : Nat.ltb pos (length f) = false) by (apply Nat.ltb_ge; assumption). rewrite E2. reflexivity.
Qed.

Lemma cut_ok_shift : forall j frames x,
  cut_ok frames (length (concat (firstn j frames)) + x) = cut_ok (skipn j frames) x.
Proof.
  induction j as [|j IH]; intros frames x; [reflexivity|].
  destruct frames as [|f fs]; [reflexivity|].
  cbn [firstn skipn concat]. rewrite app_length, cut_ok_skip by lia.
  replace (length f + length (concat (firstn j fs)) + x - length f)%nat with (length (concat (firstn j fs)) + x)%nat by lia.
  apply IH.
Qed.

Lemma cut_positions_shift : forall K cs a, cut_positions (K + a) cs = map (Nat.add K) (cut_positions a cs).
Proof.
  intros K cs. induction cs as [|c cs IH]; intro a; [reflexivity|].
  cbn [cut_positions map]. rewrite <- Nat.add_assoc. rewrite IH. reflexivity.
Qed.

(* a prefix of the stream that ends at an allowed offset = whole frames + an allowed remainder *)
Lemma decompose : forall frames B R,
  B ++ R = concat frames -> cut_ok frames (length B) = true ->
  exists j P', B = concat (firstn j frames) ++ P' /\ P' ++ R = concat (skipn j frames)
    /\ (P' = [] \/ ((6 <= length P')%nat /\ exists F rest Q, skipn j frames = F :: rest /\ F = P' ++ Q /\ Q <> [])).
Proof.
  induction frames as [|f fs IH]; intros B R E Hc.
  - cbn in E. apply app_nil_both in E as [EB ER]. subst. exists 0%nat, []. repeat split; left; reflexivity.
  - cbn [cut_ok] in Hc. destruct (Nat.eqb (length B) 0) eqn:E0.
    + apply Nat.eqb_eq in E0. destruct B; [|discriminate]. exists 0%nat, []. split; [reflexivity|]. split; [exact E | left; reflexivity].
    + destruct (Nat.ltb (length B) (length f)) eqn:E1.
      * apply Nat.ltb_lt in E1. apply Nat.leb_le in Hc. cbn [concat] in E.
        apply app_eq_app in E as [l [[EB ER]|[Ef ER]]].
        -- rewrite EB, app_length in E1. lia.
        -- exists 0%nat, B. split; [reflexivity|]. split; [cbn [skipn concat]; rewrite Ef, ER, app_assoc; reflexivity|].
           right. split; [assumption|]. exists f, fs, l. split; [reflexivity|]. split; [assumption|].
           intro El. subst l. rewrite app_nil_r in Ef. subst f. lia.
      * apply Nat.ltb_ge in E1. cbn [concat] in E.
        assert (Hl : exists l, B = f ++ l /\ concat fs = l ++ R).
        { apply app_eq_app in E as [l [[EB ER]|[Ef ER]]].
          - exists l. split; assumption.
          - assert (l = []) by (rewrite Ef, app_length in E1; destruct l; [reflexivity | cbn in E1; lia]).
            subst l. rewrite app_nil_r in Ef. subst f. exists []. rewrite app_nil_r. split; [reflexivity | cbn in ER; cbn; congruence]. }
        destruct Hl as [l [EB EC]].
        assert (Hc' : cut_ok fs (length l) = true).
        { rewrite EB, app_length in Hc. replace (length f + length l - length f)%nat with (length l) in Hc by lia. exact Hc. }
        destruct (IH l R (eq_sym EC) Hc') as [j [P' [E1' [E2' E3']]]].
        exists (S j), P'. cbn [firstn skipn concat]. split; [rewrite EB, E1', app_assoc; reflexivity|].
        split; assumption.
Qed.

Definition pend_ok (fms : list (str * message)) (P : str) : Prop :=
  P = [] \/ ((6 <= length P)%nat /\ exists F dm rest Q, fms = (F, dm) :: rest /\ F = P ++ Q /\ Q <> []).

Lemma frames_ok_firstn : forall G bs j fms, frames_ok G bs fms -> frames_ok G bs (firstn j fms).
Proof.
  intros G bs j fms H. unfold frames_ok in *. rewrite Forall_forall in *. intros x I. apply H.
  apply (In_nth _ _ x) in I as [n [Hn En]]. rewrite <- (firstn_skipn j fms). apply in_or_app. left.
  rewrite <- En. apply nth_In. assumption.
Qed.

Lemma frames_ok_skipn : forall G bs j fms, frames_ok G bs fms -> frames_ok G bs (skipn j fms).
Proof.
  intros G bs j fms H. unfold frames_ok in *. rewrite Forall_forall in *. intros x I. apply H.
  rewrite <- (firstn_skipn j fms). apply in_or_app. right. assumption.
Qed.

Lemma run_chunks : forall G bs chunks fms P,
  frames_ok G bs fms -> P ++ concat chunks = concat (map fst fms) -> pend_ok fms P ->
  forallb (cut_ok (map fst fms)) (cut_positions (length P) chunks) = true ->
  reader_run G bs P chunks = ([], map swap fms, map (fun _ => 0) chunks).
Proof.
  intros G bs chunks. induction chunks as [|c cs IH]; intros fms P Hok E HP Hcuts.
  - cbn [concat] in E. rewrite app_nil_r in E.
    assert (fms = [] /\ P = []).
    { destruct HP as [EP|[HL [F [dm [rest [Q [Ef [EF HQ]]]]]]]].
      - rewrite EP in E. pose proof (frames_length G bs fms Hok) as L. rewrite <- E in L.
        destruct fms; [split; [reflexivity | assumption] | cbn in L; lia].
      - rewrite Ef in E. cbn [map concat fst] in E. rewrite EF in E. apply (f_equal (@length N)) in E.
        rewrite !app_length in E. destruct Q; [contradiction | cbn in E; lia]. }
    destruct H as [E1 E2]. subst. reflexivity.
  - cbn [concat] in E. rewrite app_assoc in E.
    cbn [cut_positions forallb] in Hcuts. apply andb_true_iff in Hcuts as [Hc Hcuts].
    rewrite <- app_length in Hc.
    destruct (decompose (map fst fms) (P ++ c) (concat cs) E Hc) as [j [P' [EB [ER HP']]]].
    rewrite firstn_map in EB. rewrite skipn_map in ER, HP'.
    assert (Hw : wait_ok G bs P').
    { destruct HP' as [EP|[HL [F [rest [Q [Es [EF HQ]]]]]]]; [left; assumption | right].
      destruct (skipn j fms) as [|[F2 dm2] rest2] eqn:Esk; [discriminate|].
      cbn [map fst] in Es. injection Es as EF2 _. subst F2.
      pose proof (frames_ok_skipn G bs j fms Hok) as Hsk. rewrite Esk in Hsk. inversion Hsk as [|? ? HF _]; subst.
      exists (P' ++ Q), dm2, Q. repeat split; assumption. }
    cbn [reader_run map].
    rewrite (reader_step_frames G bs P c (firstn j fms) P' (frames_ok_firstn G bs j fms Hok) Hw EB).
    assert (HP2 : pend_ok (skipn j fms) P').
    { destruct HP' as [EP|[HL [F [rest [Q [Es [EF HQ]]]]]]]; [left; assumption | right]. split; [assumption|].
      destruct (skipn j fms) as [|[F2 dm2] rest2] eqn:Esk; [discriminate|].
      cbn [map fst] in Es. injection Es as EF2 Er. exists F2, dm2, rest2, Q. subst F2. repeat split; assumption. }
    assert (Hcuts2 : forallb (cut_ok (map fst (skipn j fms))) (cut_positions (length P') cs) = true).
    { rewrite <- app_length in Hcuts. rewrite EB, app_length, cut_positions_shift in Hcuts.
      rewrite forallb_forall in *. intros x I. rewrite <- skipn_map, <- cut_ok_shift, firstn_map.
      apply Hcuts. apply in_map. assumption. }
    rewrite (IH (skipn j fms) P' (frames_ok_skipn G bs j fms Hok) ER HP2 Hcuts2).
    rewrite <- map_app, firstn_skipn. reflexivity.
Qed.

(* for all chunkings whose cuts are at frame boundaries or at least 6 bytes into a frame the reader
   delivers exactly the frames, in order, and ends with an empty buffer: the same as in one read *)
Theorem chunk_independent : forall G bs fms chunks,
  frames_ok G bs fms -> concat chunks = concat (map fst fms) ->
  no_cut_inside_marker (map fst fms) chunks = true ->
  reader_run G bs [] chunks = ([], map swap fms, map (fun _ => 0) chunks)
  /\ reader_run G bs [] [concat (map fst fms)] = ([], map swap fms, [0]).
Proof.
  intros G bs fms chunks Hok E Hc. split.
  - apply run_chunks; [assumption | exact E | left; reflexivity | exact Hc].
  - pose proof (whole_frames G bs [fms] (Forall_cons _ Hok (Forall_nil _))) as H.
    cbn [map concat] in H. rewrite app_nil_r in H. exact H.
Qed.

(* ------------------------------------------------------------------ C03 on encoder frames *)

Lemma encoder_frame_ok : forall G bs fm, wf_table G = true -> encoder_frame G bs fm ->
  frame_ok G bs (fst fm) (snd fm).
Proof.
  intros G bs fm HG [m [sess [time [raw [sess' [seq [H1 [H2 [H3 [H4 [H5 [H6 [H7 [H8 H9]]]]]]]]]]]]]].
  rewrite H9. apply (encode_frame_ok G HG bs m sess time raw (fst fm) sess' seq); assumption.
Qed.

Lemma encoder_frames_ok : forall G bs fms, wf_table G = true -> Forall (encoder_frame G bs) fms -> frames_ok G bs fms.
Proof.
  intros G bs fms HG H. unfold frames_ok. eapply Forall_impl; [|exact H].
  intros fm Hfm. apply encoder_frame_ok; assumption.
Qed.

Theorem complete_prefix : forall G bs fm P silent, wf_table G = true -> encoder_frame G bs fm ->
  P = [] \/ prefixb MARK P = true ->
  decode G bs (fst fm ++ P) silent = Ok (Some (snd fm), zlen (fst fm), Some (fst fm)).
Proof.
  intros G bs fm P silent HG Hfm HP. apply frame_ok_decode; [apply encoder_frame_ok; assumption | assumption].
Qed.

Theorem wait_for_more : forall G bs fm P Q, wf_table G = true -> encoder_frame G bs fm ->
  fst fm = P ++ Q -> Q <> [] -> (6 <= length P)%nat ->
  decode G bs P true = Ok (None, 0%Z, None).
Proof.
  intros G bs fm P Q HG Hfm E HQ HL.
  apply (frame_ok_wait G bs (fst fm) (snd fm) P Q (encoder_frame_ok G bs fm HG Hfm) E HQ HL).
Qed.

Theorem whole_frames_enc : forall G bs (groups : list (list (str * message))),
  wf_table G = true -> Forall (Forall (encoder_frame G bs)) groups ->
  reader_run G bs [] (map (fun g => concat (map fst g)) groups)
  = ([], map delivered (concat groups), map (fun _ => 0) groups).
Proof.
  intros G bs groups HG H. apply whole_frames. eapply Forall_impl; [|exact H].
  intros g Hg. apply encoder_frames_ok; assumption.
Qed.

Theorem chunk_independent_enc : forall G bs fms chunks,
  wf_table G = true -> Forall (encoder_frame G bs) fms ->
  concat chunks = concat (map fst fms) ->
  no_cut_inside_marker (map fst fms) chunks = true ->
  reader_run G bs [] chunks = ([], map delivered fms, map (fun _ => 0) chunks)
  /\ reader_run G bs [] [concat (map fst fms)] = ([], map delivered fms, [0]).
Proof.
  intros G bs fms chunks HG H E Hc. apply chunk_independent; [apply encoder_frames_ok; assumption | assumption | assumption].
Qed.

(* ------------------------------------------------------------------ marker-free junk *)

(* a pattern whose first character does not recur in it cannot overlap itself: an occurrence cannot
   start inside marker-free junk and run into a following occurrence *)
Lemma prefixb_no_border_aux : forall x q s w, ~ In x q -> prefixb q s = false -> prefixb q (s ++ x :: w) = false.
Proof.
  intros x q. induction q as [|y q IH]; intros s w Hx H; [discriminate|].
  destruct s as [|c s]; cbn [app prefixb] in *.
  - destruct (y =? x) eqn:E; [apply N.eqb_eq in E; subst; exfalso; apply Hx; left; reflexivity | reflexivity].
  - destruct (y =? c); cbn [andb] in *; [|reflexivity]. apply IH; [intro I; apply Hx; right; exact I | exact H].
Qed.

Lemma find_sub_junk : forall x p' J X, ~ In x p' ->
  find_sub (x :: p') J = None -> prefixb (x :: p') X = true ->
  find_sub (x :: p') (J ++ X) = Some (length J).
Proof.
  intros x p' J X Hx. induction J as [|c J IH]; intros HJ HX.
  - cbn [app length]. apply find_sub_head. exact HX.
  - cbn [app length]. rewrite find_sub_cons in *.
    destruct (prefixb (x :: p') (c :: J)) eqn:E; [discriminate|].
    destruct (find_sub (x :: p') J) eqn:F; [discriminate|].
    apply prefixb_spec in HX as [r Er]. subst X.
    assert (E2 : prefixb (x :: p') (c :: J ++ (x :: p') ++ r) = false).
    { cbn [prefixb] in *. destruct (x =? c); cbn [andb] in *; [|reflexivity].
      cbn [app]. apply prefixb_no_border_aux; assumption. }
    rewrite E2, (IH eq_refl) by (apply prefixb_app). reflexivity.
Qed.

Lemma MARK_no_border : ~ In 56 [61; 70; 73; 88; 46].
Proof. intro I. cbn in I. repeat (destruct I as [I|I]; [discriminate|]). exact I. Qed.

Lemma find_mark_junk : forall J X, find_sub MARK J = None -> prefixb MARK X = true ->
  find_sub MARK (J ++ X) = Some (length J).
Proof. intros J X. exact (find_sub_junk 56 [61; 70; 73; 88; 46] J X MARK_no_border). Qed.

(* the buffer is junk followed by one candidate frame: decode works on the candidate, but compares
   BodyLength with the length of the WHOLE buffer and reports offsets from its start *)
Lemma decode_junk_nocut : forall G bs J X silent,
  find_sub MARK J = None -> prefixb MARK X = true -> find_sub MARK (skipn 5 X) = None ->
  decode G bs (J ++ X) silent = decode_fields G bs silent (zlen (J ++ X)) (length J) X (fields_of X).
Proof.
  intros G bs J X silent HJ Hp Hn. rewrite decode_eq, (find_mark_junk J X HJ Hp).
  cbv zeta. rewrite skipn_exact, Hn, firstn_all. reflexivity.
Qed.

Lemma decode_junk_cut : forall G bs J F' P silent,
  find_sub MARK J = None ->
  prefixb MARK (F' ++ [1]) = true -> (5 <= length F')%nat -> find_sub MARK (skipn 5 (F' ++ [1])) = None ->
  P = [] \/ prefixb MARK P = true ->
  decode G bs (J ++ (F' ++ [1]) ++ P) silent =
  decode_fields G bs silent (zlen (J ++ (F' ++ [1]) ++ P)) (length J) (F' ++ [1]) (fields_of (F' ++ [1])).
Proof.
  intros G bs J F' P silent HJ Hp Hl Hn HP.
  rewrite decode_eq, (find_mark_junk J _ HJ (prefixb_app_r _ _ P Hp)).
  cbv zeta. rewrite skipn_exact.
  assert (Hcut : match find_sub MARK (skipn 5 ((F' ++ [1]) ++ P)) with
                 | Some k => (k + 5)%nat | None => length ((F' ++ [1]) ++ P) end = length (F' ++ [1])).
  { rewrite (skipn_app_le 5 F' [1] Hl) in Hn.
    rewrite <- app_assoc. rewrite (skipn_app_le 5 F' ([1] ++ P) Hl). cbn [app].
    pose proof (find_sub_none_prefix _ _ _ Hn) as Hn'.
    rewrite (find_sub_sep 1 MARK _ P MARK_soh_free MARK_nonempty Hn').
    rewrite !app_length, skipn_length. cbn [length].
    destruct HP as [HP|HP].
    - subst P. cbn. lia.
    - rewrite (find_sub_head _ _ HP). cbn [option_map]. lia. }
  rewrite Hcut, firstn_exact. reflexivity.
Qed.

(* junk in front of a complete frame is skipped with it (valid_idx): consumed = |junk| + |frame| *)
Lemma frame_ok_decode_junk : forall G bs J F dm P silent,
  find_sub MARK J = None -> frame_ok G bs F dm -> P = [] \/ prefixb MARK P = true ->
  decode G bs (J ++ F ++ P) silent = Ok (Some dm, (zlen J + zlen F)%Z, Some F).
Proof.
  intros G bs J F dm P silent HJ [f1v [f2 [rest [bl [st H]]]]] HP. cbv zeta in H.
  destruct H as [HF [Hsoh [Hmark [Hnom [Hbl [Hlen [Hloop [Hck Hdm]]]]]]]].
  destruct (flat_last (field T8 bs :: field T9 f1v :: f2 :: rest) ltac:(discriminate)) as [F' EF'].
  assert (EF : F = F' ++ [1]) by congruence.
  assert (H5 : (5 <= length F')%nat).
  { apply prefixb_length in Hmark. rewrite EF, app_length in Hmark. cbn in Hmark. lia. }
  rewrite EF in Hmark, Hnom. rewrite EF at 1.
  rewrite (decode_junk_cut G bs J F' P silent HJ Hmark H5 Hnom HP).
  rewrite <- EF. rewrite HF at 3. rewrite (fields_of_flat _ Hsoh).
  rewrite (decode_fields_ok G bs silent _ (length J) F T8 f1v f2 rest bl st); try assumption.
  - rewrite Hlen, Hdm. reflexivity.
  - apply cfreeb_spec. reflexivity.
  - rewrite Hlen, !zlen_app. unfold zlen. lia.
Qed.

(* the same behind marker-free junk, as long as junk + prefix are shorter than the frame: the junk is
   dropped, the prefix waits.  (When |junk| + |prefix| >= |frame| the completeness test passes wrongly:
   junk_prefix_cut_refuted.) *)
Lemma frame_ok_wait_junk : forall G bs J F dm P Q,
  find_sub MARK J = None -> frame_ok G bs F dm -> F = P ++ Q -> Q <> [] -> (6 <= length P)%nat ->
  (length J + length P < length F)%nat ->
  decode G bs (J ++ P) true = Ok (None, zlen J, None).
Proof.
  intros G bs J F dm P Q HJ Hok EF HQ HP Hshort.
  destruct (frame_ok_prefix_marks G bs F dm P Q Hok EF HP) as [HmP HnP].
  rewrite (decode_junk_nocut G bs J P true HJ HmP HnP).
  apply (wait_fields G bs F dm P Q _ (length J) Hok EF HQ).
  rewrite zlen_app. unfold zlen. lia.
Qed.

(* what may follow the junk in one buffer: at least one whole frame and then an allowed remainder, or
   no whole frame and a remainder that, together with the junk, is still shorter than its frame *)
Definition junk_tail_ok (G : group_table) (bs : str) (J : str) (fms : list (str * message)) (P : str) : Prop :=
  (fms <> [] /\ wait_ok G bs P)
  \/ (fms = [] /\ (P = [] \/ exists F dm Q, frame_ok G bs F dm /\ F = P ++ Q /\ Q <> [] /\ (6 <= length P)%nat
                                       /\ (length J + length P < length F)%nat)).

Lemma decode_junk_only : forall G bs J, find_sub MARK J = None -> decode G bs J true = Ok (None, zlen J, None).
Proof. intros G bs J H. rewrite decode_eq, H. reflexivity. Qed.

Lemma reader_loop_junk : forall G bs J fms P, find_sub MARK J = None -> frames_ok G bs fms ->
  junk_tail_ok G bs J fms P -> forall fuel acc, (length fms < fuel)%nat ->
  reader_loop G bs fuel (J ++ concat (map fst fms) ++ P) acc = (P, rev acc ++ map swap fms, 0).
Proof.
  intros G bs J fms P HJ Hok Htail fuel acc Hfuel.
  destruct fuel as [|f]; [lia|].
  destruct Htail as [[Hne HP]|[Hnil HP]].
  - destruct fms as [|[F dm] fms]; [contradiction|]. clear Hne.
    inversion Hok as [|? ? HF Hok']; subst. cbn [fst snd] in HF.
    cbn [map concat fst]. rewrite <- app_assoc. cbn [reader_loop].
    set (R := concat (map fst fms) ++ P).
    assert (HR : R = [] \/ prefixb MARK R = true).
    { unfold R. destruct fms as [|[F2 dm2] fms2].
      - cbn. apply (wait_ok_mark G bs P HP).
      - right. inversion Hok' as [|? ? HF2 _]; subst. cbn [fst snd map concat] in *.
        destruct (frame_ok_facts _ _ _ _ HF2) as [Hm _]. rewrite <- app_assoc. apply prefixb_app_r. assumption. }
    rewrite (frame_ok_decode_junk G bs J F dm R true HJ HF HR).
    destruct (frame_ok_facts _ _ _ _ HF) as [_ HL].
    assert (Hpos : (0 <? zlen J + zlen F)%Z = true) by (unfold zlen; lia). rewrite Hpos.
    assert (Hn : Z.to_nat (zlen J + zlen F) = length (J ++ F)) by (unfold zlen; rewrite app_length; lia).
    rewrite Hn, app_assoc, skipn_exact.
    unfold R. rewrite (reader_loop_frames G bs fms Hok' P HP f ((dm, F) :: acc)) by (cbn [length] in Hfuel; lia).
    cbn [rev map swap fst snd]. rewrite <- app_assoc. reflexivity.
  - subst fms. cbn [map concat app reader_loop].
    assert (Hd : decode G bs (J ++ P) true = Ok (None, zlen J, None)).
    { destruct HP as [E|[F [dm [Q [HF [EF [HQ [HL Hs]]]]]]]].
      - subst P. rewrite app_nil_r. apply decode_junk_only. exact HJ.
      - apply (frame_ok_wait_junk G bs J F dm P Q HJ HF EF HQ HL Hs). }
    rewrite Hd. cbn [map]. rewrite app_nil_r.
    destruct (0 <? zlen J)%Z eqn:E.
    + unfold zlen. rewrite Nat2Z.id, skipn_exact. reflexivity.
    + assert (J = []) by (unfold zlen in E; destruct J; [reflexivity | cbn in E; lia]). subst J. reflexivity.
Qed.

(* (2) junk at the front of a read: skipped together with the first whole frame that follows it *)
Theorem junk_prefix_step : forall G bs buf chunk J fms P,
  find_sub MARK J = None -> frames_ok G bs fms -> junk_tail_ok G bs J fms P ->
  buf ++ chunk = J ++ concat (map fst fms) ++ P ->
  reader_step G bs buf chunk = (P, map swap fms, 0).
Proof.
  intros G bs buf chunk J fms P HJ Hok Htail E. unfold reader_step. rewrite E.
  rewrite (reader_loop_junk G bs J fms P HJ Hok Htail); [reflexivity|].
  pose proof (frames_length G bs fms Hok). rewrite !app_length. lia.
Qed.

Lemma reader_run_app : forall G bs cs1 cs2 buf,
  reader_run G bs buf (cs1 ++ cs2) =
  let '(b1, o1, s1) := reader_run G bs buf cs1 in
  let '(b2, o2, s2) := reader_run G bs b1 cs2 in (b2, o1 ++ o2, s1 ++ s2).
Proof.
  intros G bs cs1. induction cs1 as [|c cs1 IH]; intros cs2 buf.
  - cbn [app reader_run]. destruct (reader_run G bs buf cs2) as [[b o] st]. reflexivity.
  - cbn [app reader_run]. destruct (reader_step G bs buf c) as [[b1 o1] s1]. rewrite IH.
    destruct (reader_run G bs b1 cs1) as [[b2 o2] s2]. destruct (reader_run G bs b2 cs2) as [[b3 o3] s3].
    rewrite app_assoc. reflexivity.
Qed.

(* every read = marker-free junk (possibly empty) followed by whole frames (possibly none) *)
Theorem junk_prefix_whole_frames : forall G bs (groups : list (str * list (str * message))),
  Forall (fun g => find_sub MARK (fst g) = None /\ frames_ok G bs (snd g)) groups ->
  reader_run G bs [] (map (fun g => fst g ++ concat (map fst (snd g))) groups)
  = ([], map swap (concat (map snd groups)), map (fun _ => 0) groups).
Proof.
  intros G bs groups H. induction H as [|[J g] groups [HJ Hg] _ IH]; [reflexivity|].
  cbn [map reader_run fst snd] in *.
  assert (Ht : junk_tail_ok G bs J g []).
  { destruct g; [right; split; [reflexivity | left; reflexivity] | left; split; [discriminate | left; reflexivity]]. }
  rewrite (junk_prefix_step G bs [] _ J g [] HJ Hg Ht) by (rewrite app_nil_r; reflexivity).
  rewrite IH. cbn [concat]. rewrite map_app. reflexivity.
Qed.

(* (1) junk-only reads at frame boundaries: the stream is cut at some frame boundaries into blocks, each
   block is chunked with allowed cuts, and after each block any number of marker-free reads arrive *)
Definition block_ok (G : group_table) (bs : str) (b : block) : Prop :=
  frames_ok G bs (block_frames b)
  /\ concat (block_chunks b) = concat (map fst (block_frames b))
  /\ no_cut_inside_marker (map fst (block_frames b)) (block_chunks b) = true
  /\ Forall (fun J => find_sub MARK J = None) (block_junk b).

Lemma junk_reads_run : forall G bs junk, Forall (fun J => find_sub MARK J = None) junk ->
  reader_run G bs [] junk = ([], [], map (fun _ => 0) junk).
Proof.
  intros G bs junk H. induction H as [|J junk HJ _ IH]; [reflexivity|].
  cbn [reader_run map].
  rewrite (junk_prefix_step G bs [] J J [] [] HJ (Forall_nil _)) by
    (try (right; split; [reflexivity | left; reflexivity]); cbn; rewrite !app_nil_r; reflexivity).
  rewrite IH. reflexivity.
Qed.

Theorem junk_reads_skipped : forall G bs (blocks : list block),
  Forall (block_ok G bs) blocks ->
  reader_run G bs [] (concat (map block_reads blocks))
  = ([], map swap (concat (map block_frames blocks)), map (fun _ => 0) (concat (map block_reads blocks))).
Proof.
  intros G bs blocks H. induction H as [|b blocks [Hf [Hc [Hcut Hj]]] _ IH]; [reflexivity|].
  cbn [map concat]. rewrite reader_run_app. unfold block_reads at 1. rewrite reader_run_app.
  destruct (chunk_independent G bs (block_frames b) (block_chunks b) Hf Hc Hcut) as [H1 _].
  rewrite H1, (junk_reads_run G bs (block_junk b) Hj), IH.
  rewrite app_nil_r, !map_app. unfold block_reads. rewrite !map_app. reflexivity.
Qed.

(* ---------- the junk theorems on encoder frames ---------- *)

Lemma enc_wait_ok_wait : forall G bs P, wf_table G = true -> enc_wait_ok G bs P -> wait_ok G bs P.
Proof.
  intros G bs P HG [E|[fm [Q [Hfm [EF [HQ HL]]]]]]; [left; assumption | right].
  exists (fst fm), (snd fm), Q. repeat split; try assumption. apply encoder_frame_ok; assumption.
Qed.

Lemma enc_junk_tail : forall G bs J fms P, wf_table G = true -> enc_junk_tail_ok G bs J fms P -> junk_tail_ok G bs J fms P.
Proof.
  intros G bs J fms P HG [[Hne HP]|[Hnil HP]].
  - left. split; [assumption | apply enc_wait_ok_wait; assumption].
  - right. split; [assumption|]. destruct HP as [E|[fm [Q [Hfm [EF [HQ [HL Hs]]]]]]]; [left; assumption | right].
    exists (fst fm), (snd fm), Q. repeat split; try assumption. apply encoder_frame_ok; assumption.
Qed.

Theorem junk_prefix_same_read_enc : forall G bs buf chunk J fms P,
  wf_table G = true -> find_sub MARK J = None -> Forall (encoder_frame G bs) fms ->
  enc_junk_tail_ok G bs J fms P -> buf ++ chunk = J ++ concat (map fst fms) ++ P ->
  reader_step G bs buf chunk = (P, map delivered fms, 0).
Proof.
  intros G bs buf chunk J fms P HG HJ Hf Ht E.
  apply (junk_prefix_step G bs buf chunk J fms P HJ (encoder_frames_ok G bs fms HG Hf) (enc_junk_tail G bs J fms P HG Ht) E).
Qed.

Theorem junk_prefix_whole_frames_enc : forall G bs (groups : list (str * list (str * message))),
  wf_table G = true ->
  Forall (fun g => find_sub MARK (fst g) = None /\ Forall (encoder_frame G bs) (snd g)) groups ->
  reader_run G bs [] (map (fun g => fst g ++ concat (map fst (snd g))) groups)
  = ([], map delivered (concat (map snd groups)), map (fun _ => 0) groups).
Proof.
  intros G bs groups HG H. apply junk_prefix_whole_frames. eapply Forall_impl; [|exact H].
  intros g [A B]. split; [assumption | apply encoder_frames_ok; assumption].
Qed.

Theorem junk_reads_skipped_enc : forall G bs (blocks : list block),
  wf_table G = true -> Forall (enc_block_ok G bs) blocks ->
  reader_run G bs [] (concat (map block_reads blocks))
  = ([], map delivered (concat (map block_frames blocks)), map (fun _ => 0) (concat (map block_reads blocks))).
Proof.
  intros G bs blocks HG H. apply junk_reads_skipped. eapply Forall_impl; [|exact H].
  intros b [A [B [C D]]]. split; [apply encoder_frames_ok; assumption | split; [assumption | split; assumption]].
Qed.

(* ------------------------------------------------------------------ D6 witnesses on encoder frames *)
From Coq Require Import String Ascii.
From AFGen Require Import GenGroups.

Definition ex_mA : message := mkMsg (txt "D") [plain "11" "id1"; plain "55" "MSFT"].
Definition ex_mB : message := mkMsg (txt "D") [plain "11" "id2"; plain "55" "IBM"].
Definition ex_sess_at (n : Z) : session := mkSession (txt "SND") (txt "TGT") n.
Definition ex_frame_at (n : Z) (m : message) : str :=
  match encode beginstring m (ex_sess_at n) ex_time false with Ok (f, _) => f | Exc _ => [] end.
Definition ex_FA : str := ex_frame_at 17 ex_mA.
Definition ex_FB : str := ex_frame_at 18 ex_mB.
Definition ex_dA : message := decoded_of beginstring ex_mA (ex_sess_at 17) (z_to_dec 17) ex_time.
Definition ex_dB : message := decoded_of beginstring ex_mB (ex_sess_at 18) (z_to_dec 18) ex_time.
Definition ex_stream : list (str * message) := [(ex_FA, ex_dA); (ex_FB, ex_dB)].
Definition ex_garbage : str := txt "xyz".

Lemma ex_stream_encoder : Forall (encoder_frame GenGroups.table beginstring) ex_stream.
Proof.
  constructor; [|constructor; [|constructor]].
  - exists ex_mA, (ex_sess_at 17), ex_time, false, (ex_sess_at 18), (z_to_dec 17).
    repeat split; vm_compute; reflexivity.
  - exists ex_mB, (ex_sess_at 18), ex_time, false, (ex_sess_at 19), (z_to_dec 18).
    repeat split; vm_compute; reflexivity.
Qed.

(* a read that ends k = 1..5 bytes into the next frame: the PRECEDING complete frame is lost
   (for k = 1 both frames are lost); if the preceding frame was already delivered, the frame that
   was cut is lost instead *)
Lemma cut_in_marker_refuted : forall k, In k [1; 2; 3; 4; 5]%nat ->
  let chunks1 := [ex_FA ++ firstn k ex_FB; skipn k ex_FB] in
  let chunks2 := [ex_FA; firstn k ex_FB; skipn k ex_FB] in
  Forall (encoder_frame GenGroups.table beginstring) ex_stream
  /\ List.concat chunks1 = List.concat (List.map fst ex_stream) /\ List.concat chunks2 = List.concat (List.map fst ex_stream)
  /\ no_cut_inside_marker (List.map fst ex_stream) chunks1 = false
  /\ no_cut_inside_marker (List.map fst ex_stream) chunks2 = false
  /\ reader_run GenGroups.table beginstring [] chunks1
     = ([], if Nat.eqb k 1 then [] else [(ex_dB, ex_FB)], [0; 0])
  /\ reader_run GenGroups.table beginstring [] chunks2 = ([], [(ex_dA, ex_FA)], [0; 0; 0])
  /\ reader_run GenGroups.table beginstring [] [List.concat (List.map fst ex_stream)]
     = ([], [(ex_dA, ex_FA); (ex_dB, ex_FB)], [0]).
Proof.
  intros k Hk. cbv zeta. split; [exact ex_stream_encoder|].
  cbn [In] in Hk. repeat (destruct Hk as [Hk|Hk]; [subst k; repeat split; vm_compute; reflexivity|]).
  destruct Hk.
Qed.

(* marker-free bytes after a frame, arriving in the same read, destroy that frame *)
Lemma garbage_refuted :
  find_sub MARK ex_garbage = None
  /\ reader_run GenGroups.table beginstring [] [ex_FA ++ ex_garbage; ex_FB] = ([], [(ex_dB, ex_FB)], [0; 0])
  /\ reader_run GenGroups.table beginstring [] [ex_FA; ex_FB] = ([], [(ex_dA, ex_FA); (ex_dB, ex_FB)], [0; 0]).
Proof. repeat split; vm_compute; reflexivity. Qed.

(* one-byte reads deliver nothing at all *)
Lemma one_byte_reads_refuted :
  let chunks := List.map (fun c => [c]) ex_FA in
  List.concat chunks = ex_FA
  /\ reader_run GenGroups.table beginstring [] chunks = ([], [], List.map (fun _ => 0) chunks)
  /\ reader_run GenGroups.table beginstring [] [ex_FA] = ([], [(ex_dA, ex_FA)], [0]).
Proof. cbv zeta. repeat split; vm_compute; reflexivity. Qed.

(* non-vacuity of the chunking theorem: a chunking with cuts inside BodyLength, inside a value,
   inside CheckSum and exactly 6 bytes into the second frame meets the hypothesis *)
Lemma chunks_nonvacuous :
  let chunks := [firstn 11 ex_FA; firstn 30 (skipn 11 ex_FA); firstn 43 (skipn 41 ex_FA);
                 skipn 84 ex_FA ++ firstn 6 ex_FB; skipn 6 ex_FB] in
  List.concat chunks = List.concat (List.map fst ex_stream)
  /\ no_cut_inside_marker (List.map fst ex_stream) chunks = true
  /\ reader_run GenGroups.table beginstring [] chunks
     = ([], [(ex_dA, ex_FA); (ex_dB, ex_FB)], [0; 0; 0; 0; 0]).
Proof. cbv zeta. repeat split; vm_compute; reflexivity. Qed.

(* D8 (junk prefix counted in the completeness test): junk J in front of a frame that is cut k bytes
   before its end, 2 <= k <= |J|: the test  BodyLength-derived length <= len(buffer)  passes, the truncated
   frame fails its checksum and is dropped.  k = |J| + 1 is the first cut that waits correctly.
   (k = 1 happens to work: only the final SOH is missing and is made up for by the over-long skip.) *)
Lemma junk_prefix_cut_refuted : forall k, In k [2; 3]%nat ->
  find_sub MARK ex_garbage = None /\ List.length ex_garbage = 3%nat /\ List.length ex_FA = 87%nat
  /\ reader_run GenGroups.table beginstring []
       [ex_garbage ++ firstn (87 - k) ex_FA; skipn (87 - k) ex_FA ++ ex_FB] = ([], [(ex_dB, ex_FB)], [0; 0])
  /\ reader_run GenGroups.table beginstring []
       [ex_garbage ++ firstn (87 - 4) ex_FA; skipn (87 - 4) ex_FA ++ ex_FB]
     = ([], [(ex_dA, ex_FA); (ex_dB, ex_FB)], [0; 0])
  /\ reader_run GenGroups.table beginstring [] [ex_garbage ++ ex_FA ++ ex_FB]
     = ([], [(ex_dA, ex_FA); (ex_dB, ex_FB)], [0]).
Proof.
  intros k Hk. cbn [In] in Hk.
  repeat (destruct Hk as [Hk|Hk]; [subst k; repeat split; vm_compute; reflexivity|]). destruct Hk.
Qed.

(* non-vacuity of the junk theorems: junk reads (one ending in "8=FI", a proper prefix of the marker) before,
   between and after chunked frames; junk in front of whole frames followed by the start of the next *)
Lemma junk_nonvacuous :
  let j2 : str := [120; 56; 61; 70; 73] in
  find_sub MARK j2 = None
  /\ reader_run GenGroups.table beginstring []
       (List.concat (List.map block_reads
          [([], [], [ex_garbage; j2]);
           ([(ex_FA, ex_dA)], [firstn 11 ex_FA; skipn 11 ex_FA], [j2]);
           ([(ex_FB, ex_dB)], [ex_FB], [ex_garbage; ex_garbage])]))
     = ([], [(ex_dA, ex_FA); (ex_dB, ex_FB)], [0; 0; 0; 0; 0; 0; 0; 0])
  /\ reader_step GenGroups.table beginstring [] (j2 ++ ex_FA ++ ex_FB ++ firstn 10 ex_FA)
     = (firstn 10 ex_FA, [(ex_dA, ex_FA); (ex_dB, ex_FB)], 0)
  /\ reader_step GenGroups.table beginstring [] (ex_garbage ++ firstn 83 ex_FA) = (firstn 83 ex_FA, [], 0).
Proof. cbv zeta. repeat split; vm_compute; reflexivity. Qed.
