(* Every state reachable by journal operations (incl. close / crash and reopen) is well formed. *)
From Coq Require Import ZArith NArith List Bool Lia.
From AF Require Import Base.Sx Py.Str Fix.Journal Fix.JournalRun Lemmas.JournalL.
Import ListNotations.
Open Scope Z_scope.

Lemma step_wf st o : db_wf (r_db st) -> db_wf (r_db (fst (step st o))).
Proof.
  intros W. destruct o as [tg sd|h dir msg|h o i|h dir lo hi|h dir n| |hs dir|msg|]; cbn [step]; try exact W.
  - pose proof (create_or_load_wf tg sd (r_db st) W) as H.
    destruct (create_or_load tg sd (r_db st)) as [d' [s|]]; exact H.
  - pose proof (persist_msg_wf msg (handle (r_hs st) h) dir (r_db st) W) as H.
    destruct (persist_msg _ _ _ _) as [d' e]. exact H.
  - pose proof (set_seq_num_wf (handle (r_hs st) h) o i (r_db st) W) as H.
    destruct (set_seq_num _ _ _ _) as [[d' s'] e]. exact H.
  - cbn. now apply crash_wf.
Qed.

Definition run_state (ops : list op) : rstate := fold_left (fun st o => fst (step st o)) ops init.

Lemma reachable_wf ops : db_wf (r_db (run_state ops)).
Proof.
  unfold run_state.
  assert (G : forall st, db_wf (r_db st) -> db_wf (r_db (fold_left (fun st o => fst (step st o)) ops st))).
  { induction ops as [|o ops IH]; cbn; intros st W; [exact W|]. apply IH. now apply step_wf. }
  apply G. split; apply wf_empty.
Qed.

(* run_ops is the same state sequence as run_state *)
Lemma run_ops_length st ops : length (run_ops st ops) = length ops.
Proof. revert st. induction ops as [|o ops IH]; cbn; intros st; [reflexivity|]. destruct (step st o). cbn. now rewrite IH. Qed.
