(* String lemmas used by C02 / C10: decimal printing, "%0.3i", sums, joins, utf-8 on ASCII,
   the literal/field readers of the reference framer, find_sub. *)
From Coq Require Import ZArith NArith List Bool Lia.
From AF Require Import Base.Sx Py.Str Py.Utf8 Fix.Framing.
Import ListNotations.
Open Scope N_scope.

(* ------------------------------------------------------------------ equality *)

Lemma streqb_eq a b : str_eqb a b = true <-> a = b.
Proof.
  revert b. induction a as [|x a IH]; destruct b as [|y b]; cbn; split; try congruence; auto.
  - rewrite andb_true_iff, N.eqb_eq. intros [-> H]. apply IH in H. now subst.
  - intros H. inversion H. subst. rewrite andb_true_iff, N.eqb_eq. split; auto. now apply IH.
Qed.

Lemma streqb_refl a : str_eqb a a = true.
Proof. now apply streqb_eq. Qed.

Lemma streqb_neq a b : str_eqb a b = false <-> a <> b.
Proof. rewrite <- streqb_eq. destruct (str_eqb a b); split; congruence. Qed.

(* ------------------------------------------------------------------ decimal printing *)

Lemma dec_value_from_app acc ds d :
  dec_value_from acc (ds ++ [d]) = 10 * dec_value_from acc ds + (d - 48).
Proof. revert acc. induction ds as [|x ds IH]; intros acc; cbn; [reflexivity|]. apply IH. Qed.

Lemma div_eucl_10 n q r : N.div_eucl n 10 = (q, r) -> q = n / 10 /\ r = n mod 10.
Proof. intros E. unfold N.div, N.modulo. rewrite E. auto. Qed.

Lemma n_to_dec_fuel_S f n acc :
  n_to_dec_fuel (S f) n acc =
  let (q, r) := N.div_eucl n 10 in
  let acc' := digit_char r :: acc in
  if N.eqb q 0 then acc' else n_to_dec_fuel f q acc'.
Proof. reflexivity. Qed.

Lemma n_to_dec_fuel_spec f : forall n acc, n < 2 ^ N.of_nat (S f) ->
  exists ds, n_to_dec_fuel (S f) n acc = ds ++ acc /\ ds <> [] /\
             forallb ascii_digit ds = true /\ dec_value ds = n.
Proof.
  induction f as [|f IH]; intros n acc Hn.
  - (* n < 2: one digit *)
    change (2 ^ N.of_nat 1) with 2 in Hn.
    rewrite n_to_dec_fuel_S. destruct (N.div_eucl n 10) as [q r] eqn:E. cbv zeta.
    apply div_eucl_10 in E. destruct E as [-> ->].
    assert (Hq : n / 10 = 0) by (apply N.div_small; lia).
    rewrite Hq. cbn [N.eqb]. exists [digit_char (n mod 10)]. split; [reflexivity|].
    split; [discriminate|].
    rewrite N.mod_small by lia. unfold digit_char, dec_value. cbn [forallb dec_value_from].
    unfold ascii_digit. split; [|lia].
    rewrite andb_true_r, andb_true_iff, !N.leb_le. lia.
  - rewrite n_to_dec_fuel_S. destruct (N.div_eucl n 10) as [q r] eqn:E. cbv zeta.
    apply div_eucl_10 in E. destruct E as [-> ->].
    assert (Hr : n mod 10 < 10) by (apply N.mod_lt; lia).
    assert (Hdm : n = 10 * (n / 10) + n mod 10) by (apply N.div_mod; lia).
    destruct (N.eqb (n / 10) 0) eqn:Eq.
    + apply N.eqb_eq in Eq. exists [digit_char (n mod 10)]. split; [reflexivity|].
      split; [discriminate|]. unfold digit_char, dec_value. cbn [forallb dec_value_from].
      unfold ascii_digit. split; [|lia].
      rewrite andb_true_r, andb_true_iff, !N.leb_le. lia.
    + apply N.eqb_neq in Eq.
      assert (Hq : n / 10 < 2 ^ N.of_nat (S f)).
      { replace (N.of_nat (S (S f))) with (N.succ (N.of_nat (S f))) in Hn by lia.
        rewrite N.pow_succ_r' in Hn.
        remember (n / 10) as q. remember (2 ^ N.of_nat (S f)) as P. remember (n mod 10) as r. lia. }
      destruct (IH (n / 10) (digit_char (n mod 10) :: acc) Hq) as (ds & E1 & E2 & E3 & E4).
      exists (ds ++ [digit_char (n mod 10)]). split; [rewrite E1, <- app_assoc; reflexivity|].
      split; [destruct ds; discriminate|]. split.
      * rewrite forallb_app, E3. cbn [forallb andb]. unfold ascii_digit, digit_char.
        rewrite andb_true_r, andb_true_iff, !N.leb_le. clear - Hr. remember (n mod 10) as r. lia.
      * unfold dec_value in *. rewrite dec_value_from_app, E4. unfold digit_char. lia.
Qed.

Lemma pos_size_nat_gt p : N.pos p < 2 ^ N.of_nat (Pos.size_nat p).
Proof.
  induction p as [p IH|p IH|]; cbn [Pos.size_nat].
  - replace (N.of_nat (S (Pos.size_nat p))) with (N.succ (N.of_nat (Pos.size_nat p))) by lia.
    rewrite N.pow_succ_r'. lia.
  - replace (N.of_nat (S (Pos.size_nat p))) with (N.succ (N.of_nat (Pos.size_nat p))) by lia.
    rewrite N.pow_succ_r'. lia.
  - cbn. lia.
Qed.

Lemma n_to_dec_spec n :
  n_to_dec n <> [] /\ forallb ascii_digit (n_to_dec n) = true /\ dec_value (n_to_dec n) = n.
Proof.
  unfold n_to_dec.
  assert (Hn : n < 2 ^ N.of_nat (S (N.size_nat n))).
  { replace (N.of_nat (S (N.size_nat n))) with (N.succ (N.of_nat (N.size_nat n))) by lia.
    rewrite N.pow_succ_r'. destruct n as [|p]; [cbn; lia|].
    pose proof (pos_size_nat_gt p) as H. cbn [N.size_nat]. lia. }
  destruct (n_to_dec_fuel_spec (N.size_nat n) n [] Hn) as (ds & E1 & E2 & E3 & E4).
  rewrite E1, app_nil_r. auto.
Qed.
