(* Sx front end of the two-endpoint model (C07).

   request  [0, [action..], fuel, verbose]
     action  [0, s] ASend   [1, s] ASendFail   [2, s] ADeliver (towards s)   [3] ABreak   [4] AReconnect
             s: 0 = A (initiator), 1 = B (acceptor)
   result   [[proj..], key, [settled proj, holds, quiescent]]
     proj   after each action when verbose <> 0 (otherwise only after the last one):
            [[stA, ninA, noutA, maxresA, wrA, soutA, sinA, [out keys A], [in keys A]],
             [stB, ...],  [frames A->B], [frames B->A], gA, gB, sA, sB, [pendingA, pendingB, link_down]]
            frame = [type, [[tag, value]..]];   g = [[text]?..] (Text(58) handed to on_message);  s = [text..]
     key    everything else that determines the future (roles, test-request ids, flags, journal row
            contents, next payload id): used with proj as the identity of a state by the explorer
     settled  = settle fuel (final state): drain, reconnect + Logon + drain when the link is down *)
From Coq Require Import ZArith NArith List Bool.
From AF Require Import Base.Sx Py.Str Fix.Session Fix.SessionRun Fix.Net.
Import ListNotations.
Open Scope Z_scope.

Definition get_side (s : sx) : option side :=
  match s with SI 0 => Some SA | SI 1 => Some SB | _ => None end.

Definition get_action (s : sx) : option action :=
  match s with
  | SL [SI 0; x] => option_map ASend (get_side x)
  | SL [SI 1; x] => option_map ASendFail (get_side x)
  | SL [SI 2; x] => option_map ADeliver (get_side x)
  | SL [SI 3] => Some ABreak
  | SL [SI 4] => Some AReconnect
  | _ => None
  end.

Definition sx_wproj (w : world) : sx :=
  SL [SI (st w); SI (nin w); SI (nout w); SI (maxres w); sx_of_bool (wr w);
      SI (j_sout (jr w)); SI (j_sin (jr w));
      sx_of_list (fun r => SI (fst r)) (j_out (jr w)); sx_of_list SI (j_in (jr w))].

Definition sx_proj (n : net) : sx :=
  SL [sx_wproj (wa n); sx_wproj (wb n);
      sx_of_list sx_msg (ab n); sx_of_list sx_msg (ba n);
      sx_of_list (sx_of_opt sx_of_str) (ga n); sx_of_list (sx_of_opt sx_of_str) (gb n);
      sx_of_list sx_of_str (sa n); sx_of_list sx_of_str (sb n);
      SL [sx_of_bool (pending SA n); sx_of_bool (pending SB n); sx_of_bool (link_down n)]].

Definition sx_wkey (w : world) : sx :=
  SL [SI (role w); sx_of_opt SI (treq w); sx_of_bool (wasact w); SI (lastt w);
      sx_of_list (fun r => SL [SI (fst r); sx_msg (snd r)]) (j_out (jr w))].

Definition sx_key (n : net) : sx := SL [sx_wkey (wa n); sx_wkey (wb n); SI (nid n)].

Fixpoint run_projs (n : net) (l : list action) : list sx * net :=
  match l with
  | [] => ([], n)
  | a :: l' => let n1 := step a n in
               let (ps, nf) := run_projs n1 l' in (sx_proj n1 :: ps, nf)
  end.

Definition run_req (req : sx) : sx :=
  match req with
  | SL [SI 0; acts; SI fuel; SI verbose] =>
      match get_list get_action acts with
      | Some l =>
          let f := Z.to_nat fuel in
          let (ps, nf) := run_projs net0 l in
          let ns := settle f nf in
          SL [SL (if verbose =? 0 then [sx_proj nf] else ps); sx_key nf;
              SL [sx_proj ns; sx_of_bool (holds ns); sx_of_bool (quiescent ns)]]
      | None => err_sx 1
      end
  | _ => err_sx 2
  end.

Definition entry (line : str) : str := run_line run_req line.
