(* Executable model of asyncfix/codec.py (Codec.encode, Codec.decode) and of the inner loop
   of AsyncFIXConnection.socket_read_task.  Follows the Python line by line, defects included.
   No proofs here. *)
From Coq Require Import ZArith NArith List Bool.
From AF Require Import Base.Sx Py.Str.
Import ListNotations.
Open Scope N_scope.

(* ------------------------------------------------------------------ messages *)

(* a tag value: text, a repeating group (list of items), or the RepeatingTagError marker the
   decoder stores for a repeated root tag *)
Inductive value :=
| VStr (s : str)
| VGrp (items : list (list (str * value)))
| VErr.

Definition container := list (str * value).
Record message := mkMsg { msg_type : str; msg_tags : container }.

Definition group_table := list (str * list str).

Inductive exc :=
| EEncoding | ETagNotFound | ERepeatingTag | EFIXMessage | EValue | EAttribute | EAssertion | EDuplicatedTag.

Inductive result (A : Type) := Ok (a : A) | Exc (e : exc).
Arguments Ok {A} a.
Arguments Exc {A} e.

Definition bind {A B} (r : result A) (f : A -> result B) : result B :=
  match r with Ok a => f a | Exc e => Exc e end.
Notation "'do' x <- r ; k" := (bind r (fun x => k)) (at level 200, x name, r at level 100, k at level 200).

Definition mem_str (x : str) (l : list str) : bool := existsb (str_eqb x) l.

Fixpoint ct_get (t : str) (c : container) : option value :=
  match c with
  | [] => None
  | (k, v) :: c' => if str_eqb k t then Some v else ct_get t c'
  end.
Definition ct_mem (t : str) (c : container) : bool :=
  match ct_get t c with Some _ => true | None => false end.

(* dict assignment: existing key keeps its position, new key goes last *)
Fixpoint ct_put (t : str) (v : value) (c : container) : container :=
  match c with
  | [] => [(t, v)]
  | (k, w) :: c' => if str_eqb k t then (k, v) :: c' else (k, w) :: ct_put t v c'
  end.

Fixpoint ct_del (t : str) (c : container) : container :=
  match c with
  | [] => []
  | (k, w) :: c' => if str_eqb k t then c' else (k, w) :: ct_del t c'
  end.

(* FIXContainer.get(tag) *)
Definition ct_getitem (t : str) (c : container) : result str :=
  match ct_get t c with
  | None => Exc ETagNotFound
  | Some VErr => Exc ERepeatingTag
  | Some (VGrp _) => Exc EFIXMessage
  | Some (VStr s) => Ok s
  end.

(* FIXContainer.set(tag, value) with a string value, replace=False *)
Definition ct_set (t : str) (s : str) (c : container) : result container :=
  match py_int t with
  | None => Exc EFIXMessage
  | Some _ => if ct_mem t c then Exc EDuplicatedTag else Ok (ct_put t (VStr s) c)
  end.

(* FIXContainer.add_group(tag, item) with index -1 *)
Definition ct_add_group (t : str) (item : container) (c : container) : result container :=
  match ct_get t c with
  | None => Ok (ct_put t (VGrp [item]) c)
  | Some (VGrp items) => Ok (ct_put t (VGrp (items ++ [item])) c)
  | Some _ => Exc EAttribute
  end.

Definition SOHs : str := [1].
Definition s_eq : str := [61].
Definition field (t v : str) : str := t ++ 61 :: v.

(* ------------------------------------------------------------------ encode *)

Definition T8 : str := [56].   Definition T9 : str := [57].    Definition T10 : str := [49; 48].
Definition T34 : str := [51; 52].  Definition T35 : str := [51; 53].  Definition T43 : str := [52; 51].
Definition T49 : str := [52; 57].  Definition T52 : str := [53; 50].  Definition T56 : str := [53; 54].
Definition MT_SEQRESET : str := [52].    (* "4" *)
Definition Y : str := [89].  Definition Nn : str := [78].

Definition skip_tags : list str := [T34; T52; T49; T56].

(* Codec._addTag: one tag of a container rendered as fields *)
Fixpoint render_value (t : str) (v : value) : result (list str) :=
  match v with
  | VStr s => Ok [field t s]
  | VErr => Exc ERepeatingTag
  | VGrp items =>
      let fix items_go (items : list (list (str * value))) : result (list str) :=
        match items with
        | [] => Ok []
        | it :: rest =>
            let fix item_go (it : list (str * value)) : result (list str) :=
              match it with
              | [] => Ok []
              | (t', v') :: it' =>
                  do a <- render_value t' v'; do b <- item_go it'; Ok (a ++ b)
              end in
            do a <- item_go it; do b <- items_go rest; Ok (a ++ b)
        end in
      do fs <- items_go items; Ok (field t (n_to_dec (N.of_nat (length items))) :: fs)
  end.

Fixpoint render_body (c : container) : result (list str) :=
  match c with
  | [] => Ok []
  | (t, v) :: c' =>
      if mem_str t skip_tags then render_body c'
      else do a <- render_value t v; do b <- render_body c'; Ok (a ++ b)
  end.

Record session := mkSession { sender : str; target : str; next_out : Z }.

(* int(msg[FTag.MsgSeqNum]) *)
Definition seq_of_msg (c : container) : result Z :=
  do s <- ct_getitem T34 c;
  match py_int s with Some z => Ok z | None => Exc EValue end.

(* sequence number text and session afterwards *)
Definition select_seq (m : message) (sess : session) (raw_seq_num : bool) : result (str * session) :=
  if raw_seq_num then do z <- seq_of_msg (msg_tags m); Ok (z_to_dec z, sess)
  else if str_eqb (msg_type m) MT_SEQRESET then
    if ct_mem T34 (msg_tags m) then do z <- seq_of_msg (msg_tags m); Ok (z_to_dec z, sess)
    else Exc EEncoding
  else
    do pd <- (match ct_get T43 (msg_tags m) with
              | None => Ok Nn
              | Some _ => ct_getitem T43 (msg_tags m)
              end);
    if str_eqb pd Y then
      if ct_mem T34 (msg_tags m) then do z <- seq_of_msg (msg_tags m); Ok (z_to_dec z, sess)
      else Exc EEncoding
    else Ok (z_to_dec (next_out sess), mkSession (sender sess) (target sess) (next_out sess + 1)).

Definition checksum (s : str) : N := (sum_codes s) mod 256.

Definition encode (beginstring : str) (m : message) (sess : session) (time : str) (raw_seq_num : bool)
  : result (str * session) :=
  do sq <- select_seq m sess raw_seq_num;
  let (seq, sess') := sq in
  do rest <- render_body (msg_tags m);
  let fields := field T49 (sender sess) :: field T56 (target sess) :: field T34 seq :: field T52 time :: rest in
  let body := join SOHs fields ++ SOHs in
  let mt := field T35 (msg_type m) in
  let blen := N.of_nat (length body + length mt + 1) in
  let header := [field T8 beginstring; field T9 (n_to_dec blen); mt] in
  let fixmsg := join SOHs header ++ SOHs ++ body in
  Ok (fixmsg ++ field T10 (fmt03 (checksum fixmsg)) ++ SOHs, sess').

(* ------------------------------------------------------------------ decode *)

Definition MARK : str := [56; 61; 70; 73; 88; 46].     (* "8=FIX." *)

Record ctx := mkCtx { c_tag : str; c_members : list str; c_tags : container }.

Definition lookup_group (G : group_table) (t : str) : option (list str) :=
  option_map snd (find (fun e => str_eqb (fst e) t) G).

Definition add_pending (p : option (str * container)) (c : container) : result container :=
  match p with
  | None => Ok c
  | Some (t, item) => ct_add_group t item c
  end.

(* the two pop loops: close contexts until the tag is a member of the current one or none is left *)
Fixpoint pop_while (tag : str) (stack : list ctx) (pending : option (str * container)) (root : container)
  : result (list ctx * container) :=
  match stack with
  | [] => do r <- add_pending pending root; Ok ([], r)
  | c :: rest =>
      do tg <- add_pending pending (c_tags c);
      let c' := mkCtx (c_tag c) (c_members c) tg in
      if mem_str tag (c_members c') then Ok (c' :: rest, root)
      else pop_while tag rest (Some (c_tag c', c_tags c')) root
  end.

(* `len(value) == 3 and value.isascii() and value.isdigit()` and the number it denotes *)
Definition is_digit (c : N) : bool := (48 <=? c)%N && (c <=? 57)%N.
Definition three_digits (v : str) : bool := Nat.eqb (length v) 3 && forallb is_digit v.
Definition digits_value (v : str) : Z := fold_left (fun a c => (a * 10 + Z.of_N (c - 48))%Z) v 0%Z.

Record dst := mkD { d_root : container; d_stack : list ctx; d_type : str; d_ck : bool }.

Inductive fstep := FCont (st : dst) | FReturnBad | FExc (e : exc).

(* one iteration of `for m in msg:`;  ck_base = sum over SOH.join(msg[:-1]) + 1 *)
Definition field_step (G : group_table) (ck_expect : N) (st : dst) (m : str) : fstep :=
  match split1 61 m with
  | (_, None) => FReturnBad
  | (tag, Some val) =>
    match py_int tag with
    | None => FReturnBad                 (* `int(tag)` fails: the frame is rejected *)
    | Some _ =>
      (* checksum / msg type bookkeeping *)
      let r1 : result dst :=
        if str_eqb tag T10 then
          Ok (mkD (d_root st) (d_stack st) (d_type st) (three_digits val && Z.eqb (Z.of_N ck_expect) (digits_value val)))
        else if str_eqb tag T35 then Ok (mkD (d_root st) (d_stack st) val (d_ck st))
        else Ok st in
      match r1 with
      | Exc e => FExc e
      | Ok st =>
          match lookup_group G tag with
          | Some members =>
              (* start of a repeating group *)
              match (match d_stack st with
                     | [] => Ok ([], d_root st)
                     | _ => pop_while tag (d_stack st) None (d_root st)
                     end) with
              | Exc e => FExc e
              | Ok (stack, root) => FCont (mkD root (mkCtx tag members [] :: stack) (d_type st) (d_ck st))
              end
          | None =>
              match d_stack st with
              | [] =>
                  if ct_mem tag (d_root st) then
                    match py_int tag with
                    | None => FExc EFIXMessage
                    | Some _ => FCont (mkD (ct_put tag VErr (d_root st)) [] (d_type st) (d_ck st))
                    end
                  else
                    match ct_set tag val (d_root st) with
                    | Exc e => FExc e
                    | Ok r => FCont (mkD r [] (d_type st) (d_ck st))
                    end
              | _ =>
                  match pop_while tag (d_stack st) None (d_root st) with
                  | Exc e => FExc e
                  | Ok ([], root) =>
                      (* every group is closed: the tag belongs to the message itself *)
                      if ct_mem tag root then FCont (mkD (ct_put tag VErr root) [] (d_type st) (d_ck st))
                      else match ct_set tag val root with
                           | Exc e => FExc e
                           | Ok r => FCont (mkD r [] (d_type st) (d_ck st))
                           end
                  | Ok (c :: rest, root) =>
                      if ct_mem tag (c_tags c) then
                        (* the item already has this field: close it and start the next item *)
                        let fresh := mkCtx (c_tag c) (c_members c) [] in
                        match (match rest with
                               | [] => do r <- ct_add_group (c_tag c) (c_tags c) root; Ok ([], r)
                               | p :: rest' =>
                                   do tg <- ct_add_group (c_tag c) (c_tags c) (c_tags p);
                                   Ok (mkCtx (c_tag p) (c_members p) tg :: rest', root)
                               end) with
                        | Exc e => FExc e
                        | Ok (rest2, root2) =>
                            match ct_set tag val [] with
                            | Exc e => FExc e
                            | Ok tg => FCont (mkD root2 (mkCtx (c_tag c) (c_members c) tg :: rest2) (d_type st) (d_ck st))
                            end
                        end
                      else
                        match ct_set tag val (c_tags c) with
                        | Exc e => FExc e
                        | Ok tg => FCont (mkD root (mkCtx (c_tag c) (c_members c) tg :: rest) (d_type st) (d_ck st))
                        end
                  end
              end
          end
      end
    end
  end.

Fixpoint fields_loop (G : group_table) (ck_expect : N) (st : dst) (fs : list str) : fstep :=
  match fs with
  | [] => FCont st
  | m :: fs' =>
      match field_step G ck_expect st m with
      | FCont st' => fields_loop G ck_expect st' fs'
      | other => other
      end
  end.

Definition UNKNOWN : str := [85; 78; 75; 78; 79; 87; 78].

(* decode result: (message or None, bytes consumed, raw frame or None) *)
Definition dres := (option message * Z * option str)%type.

Definition zlen {A} (l : list A) : Z := Z.of_nat (length l).

(* the longest proper prefix of the marker (5 .. 1 bytes) the buffer ends with; 0 when there is none:
   `for tail in range(5, 0, -1): if rawmsg.endswith(b"8=FIX."[:tail])` *)
Definition ends_with (p s : str) : bool := prefixb (rev p) (rev s).
Fixpoint marker_tail_from (k : nat) (raw : str) : nat :=
  match k with
  | O => O
  | S k' => if ends_with (firstn k MARK) raw then k else marker_tail_from k' raw
  end.
Definition marker_tail (raw : str) : nat := marker_tail_from 5 raw.

(* "\00110=" *)
Definition CKSEP : str := 1 :: T10 ++ [61].

(* a frame ends with its CheckSum field: the first SOH after the first "<SOH>10=" inside [0, next_msg) *)
Definition cut_at_checksum (msg : str) (next_msg : nat) : nat :=
  let head := firstn next_msg msg in
  match find_sub CKSEP head with
  | None => next_msg
  | Some ci =>
      match find_sub SOHs (skipn (ci + 1) head) with
      | None => next_msg
      | Some j => (ci + 1 + j + 1)%nat
      end
  end.

Definition decode (G : group_table) (beginstring : str) (raw : str) (silent : bool) : result dres :=
  let bad (n : Z) : result dres := if silent then Ok (None, n, None) else Exc EAssertion in
  match find_sub MARK raw with
  | None => bad (zlen raw - Z.of_nat (marker_tail raw))%Z
  | Some valid_idx =>
      let msg := skipn valid_idx raw in
      let has_next := match find_sub MARK (skipn 5 msg) with Some _ => true | None => false end in
      let next_msg0 :=
        match find_sub MARK (skipn 5 msg) with
        | Some k => (k + 5)%nat
        | None => length msg
        end in
      let next_msg := cut_at_checksum msg next_msg0 in
      let encoded := firstn next_msg msg in
      (* a malformed frame is dropped alone; an accepted frame is consumed as parsed *)
      let frame_len := (Z.of_nat valid_idx + Z.of_nat next_msg)%Z in
      let fields0 := split_on 1 encoded in
      let fields := match rev fields0 with
                    | [] :: r => rev r
                    | _ => fields0
                    end in
      match fields with
      | f0 :: f1 :: _ :: _ =>
          match split1 61 f0 with
          | (_, None) => Exc EValue          (* unreachable: f0 starts with "8=FIX." *)
          | (_, Some v0) =>
              if negb (str_eqb v0 beginstring) then bad frame_len
              else
                match split1 61 f1 with
                | (_, None) => bad frame_len
                | (tag1, Some v1) =>
                    if negb (str_eqb tag1 T9) then bad frame_len
                    else
                      match py_int v1 with
                      | None => bad frame_len
                      | Some bl =>
                         if (bl <? 0)%Z then bad frame_len else
                          let msg_length := (zlen f0 + zlen f1 + 9 + bl)%Z in
                          if (zlen raw - Z.of_nat valid_idx <? msg_length)%Z then bad (Z.of_nat valid_idx)
                          else
                            let parsed := frame_len in
                            let ck_expect := ((sum_codes (join SOHs (removelast fields)) + 1) mod 256) in
                            match fields_loop G ck_expect (mkD [] [] UNKNOWN false) fields with
                            | FExc e => Exc e
                            | FReturnBad => bad frame_len
                            | FCont st =>
                                if d_ck st then Ok (Some (mkMsg (d_type st) (d_root st)), parsed, Some encoded)
                                else bad parsed
                            end
                      end
                end
          end
      | _ => if has_next then bad frame_len else bad (Z.of_nat valid_idx)
      end
  end.

(* ------------------------------------------------------------------ reader loop *)

(* socket_read_task between two read() calls: append the chunk, then decode repeatedly.
   delivered = (message, raw frame) handed to _process_message, oldest first.
   status: 0 = waiting for more bytes, 1 = decode raised (buffer kept, task logs and goes on),
           2 = fuel exhausted (the real loop would not terminate by itself) *)
Fixpoint reader_loop (G : group_table) (bs : str) (fuel : nat) (buf : str) (acc : list (message * str))
  : str * list (message * str) * N :=
  match fuel with
  | O => (buf, rev acc, 2)
  | S f =>
      match decode G bs buf true with
      | Exc _ => (buf, rev acc, 1)
      | Ok (m, n, raw) =>
          let buf' := if (0 <? n)%Z then skipn (Z.to_nat n) buf else buf in
          match m, raw with
          | Some m, Some r => reader_loop G bs f buf' ((m, r) :: acc)
          | Some m, None => reader_loop G bs f buf' ((m, []) :: acc)
          | None, _ => if (0 <? n)%Z then reader_loop G bs f buf' acc     (* rejected / skipped: look at what follows *)
                       else (buf', rev acc, 0)
          end
      end
  end.

Definition reader_step (G : group_table) (bs : str) (buf chunk : str) : str * list (message * str) * N :=
  let b := buf ++ chunk in reader_loop G bs (S (length b)) b [].

(* fold over the chunks of a stream; a chunk is processed whatever happened before
   (an exception is logged and the task continues with the next read) *)
Fixpoint reader_run (G : group_table) (bs : str) (buf : str) (chunks : list str)
  : str * list (message * str) * list N :=
  match chunks with
  | [] => (buf, [], [])
  | c :: cs =>
      let '(buf1, out1, st1) := reader_step G bs buf c in
      let '(buf2, out2, sts) := reader_run G bs buf1 cs in
      (buf2, out1 ++ out2, st1 :: sts)
  end.
