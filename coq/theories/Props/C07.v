(* C07 - placeholder while the proofs are written *)
From Coq Require Import ZArith NArith List Bool.
From AF Require Import Base.Sx Py.Str Fix.Session Fix.Net Lemmas.NetL.
Import ListNotations.
Open Scope Z_scope.

Theorem C07_double_break_refuted :
  let n := settle 80 (run net0 sched_double_break) in
  sa n = [payload 1] /\ gb n = [] /\ quiescent n = true
  /\ st (wa n) = ST_HANDLING /\ st (wb n) = ST_AWAITING /\ nout (wa n) = 2 /\ nin (wb n) = 2.
Proof. exact double_break_refuted. Qed.
Print Assumptions C07_double_break_refuted.
