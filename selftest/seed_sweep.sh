#!/bin/bash
# Development tool: run every claimed check with several seeds; print one line per run.
cd "$(dirname "$0")/.."
./run setup > /dev/null 2>&1
for seed in "$@"; do
  for p in $(python3 -c "import json; print(' '.join(c['property_id'] for c in json.load(open('MANIFEST.json'))['checks']))"); do
    out=$(VERIF_SEED=$seed ./run $p quick 2>&1 | grep -v "^KNOWN" | tail -1 | cut -c1-140)
    echo "seed=$seed $out"
  done
done
