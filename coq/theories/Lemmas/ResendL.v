(* Proofs about the resend model Fix/Resend.v (C06). *)
From Coq Require Import ZArith NArith List Bool Lia ZifyBool.
From AF Require Import Base.Sx Py.Str Fix.Resend.
From AFGen Require Import GenEnums.
Import ListNotations.
Open Scope Z_scope.

(* ------------------------------------------------------------------ specification vocabulary *)

(* the application message r is retransmitted: not session level, and the application agrees *)
Definition replayable (f : row -> bool) (r : row) : bool := negb (is_sess_type (r_type r)) && f r.

(* an original send that does not itself carry PossDupFlag / OrigSendingTime in its body *)
Definition clean (r : row) : bool :=
  negb (has_tag T_PossDupFlag (r_body r)) && negb (has_tag T_OrigSendingTime (r_body r)).

(* a frame as the encoder writes it: the four tags it skips never occur in a body *)
Definition codec_row (r : row) : bool := forallb (fun fd => negb (header_skipped (fst fd))) (r_body r).

(* number n must be gap-filled: no journaled message with that number is retransmitted *)
Definition skipped (J : list row) (f : row -> bool) (n : Z) : Prop :=
  forall r, In r J -> r_seq r = n -> replayable f r = false.

(* the body of the retransmission of r - "otherwise identical body": the journaled body with
   PossDupFlag := Y and then OrigSendingTime := the journaled SendingTime, where := overwrites the
   value of a tag the message already carries (position kept) and appends a new tag at the end.
   For a message that carries neither tag this is  body ++ [43=Y; 122=SendingTime]  (copy_body_clean). *)
Definition copy_body (r : row) : list field :=
  upsert T_OrigSendingTime (r_time r) (upsert T_PossDupFlag V_Y (r_body r)).

Definition is_copy_of (r fr : row) : Prop :=
  r_seq fr = r_seq r /\ r_type fr = r_type r /\ r_body fr = copy_body r.

Definition is_gap_fill (fr : row) (a h : Z) : Prop :=
  r_seq fr = a /\ r_type fr = MT_SEQUENCERESET
  /\ r_body fr = [(T_GapFillFlag, V_Y); (T_NewSeqNo, z_to_dec h)].

(* chain J f lim a c W: the frames W cover exactly the numbers [a, c), in order: a retransmission
   (number kept, PossDupFlag=Y, OrigSendingTime = original SendingTime, body otherwise identical)
   for every number whose journaled message is replayable, one GapFill(seq = first, NewSeqNo = next)
   per maximal run of other numbers (a run ends at lim or right before a replayable number). *)
Inductive chain (J : list row) (f : row -> bool) (lim : Z) : Z -> Z -> list row -> Prop :=
| chain_nil : forall a, chain J f lim a a []
| chain_replay : forall a c r fr rest,
    In r J -> r_seq r = a -> replayable f r = true -> is_copy_of r fr ->
    chain J f lim (a + 1) c rest -> chain J f lim a c (fr :: rest)
| chain_gap : forall a h c fr rest,
    a < h -> (forall n, a <= n < h -> skipped J f n) -> (h = lim \/ ~ skipped J f h) ->
    is_gap_fill fr a h -> chain J f lim h c rest -> chain J f lim a c (fr :: rest).

(* what the replay loop needs of the recovered rows: strictly ascending from p *)
Fixpoint rows_ok (f : row -> bool) (p : Z) (rs : list row) : Prop :=
  match rs with
  | [] => True
  | r :: rest =>
      p <= r_seq r /\ True /\ rows_ok f (r_seq r + 1) rest
  end.

(* ------------------------------------------------------------------ strings, tags *)

Lemma str_eqb_eq a b : str_eqb a b = true <-> a = b.
Proof.
  revert b; induction a as [|x a IH]; destruct b as [|y b]; cbn; try (split; congruence).
  rewrite andb_true_iff, N.eqb_eq. fold (str_eqb a b). rewrite IH. split; [intros []|intros [=]]; subst; auto.
Qed.

Lemma str_eqb_refl a : str_eqb a a = true.
Proof. apply str_eqb_eq; reflexivity. Qed.

Lemma has_tag_app t a b : has_tag t (a ++ b) = has_tag t a || has_tag t b.
Proof. unfold has_tag. apply existsb_app. Qed.

Lemma get_tag_app_notin t a b : has_tag t a = false -> get_tag t (a ++ b) = get_tag t b.
Proof.
  unfold has_tag, get_tag. induction a as [|x a IH]; cbn; auto.
  intros H. apply orb_false_iff in H as [H1 H2]. rewrite H1. auto.
Qed.

Lemma filter_all {A} (p : A -> bool) l : forallb p l = true -> filter p l = l.
Proof.
  induction l as [|x l IH]; cbn; auto. intros H. apply andb_true_iff in H as [H1 H2].
  rewrite H1, IH; auto.
Qed.

Lemma sess_false_types t : is_sess_type t = false ->
  str_eqb t MT_TESTREQUEST = false /\ str_eqb t MT_SEQUENCERESET = false.
Proof.
  unfold is_sess_type, mem_str, noreply_msgs. cbn [existsb]. intros H.
  repeat (apply orb_false_iff in H as [? H]). auto.
Qed.

Lemma upsert_notin t v l : has_tag t l = false -> upsert t v l = l ++ [(t, v)].
Proof.
  unfold has_tag. induction l as [|x l IH]; cbn [existsb upsert app]; [reflexivity|]. intros H.
  apply orb_false_iff in H as [H1 H2]. rewrite H1, IH by exact H2. reflexivity.
Qed.

Lemma get_tag_upsert_same t v l : get_tag t (upsert t v l) = Some v.
Proof.
  unfold get_tag. induction l as [|x l IH]; cbn [upsert find fst snd].
  - rewrite str_eqb_refl. reflexivity.
  - destruct (str_eqb (fst x) t) eqn:E; cbn [find fst snd]; [rewrite str_eqb_refl; reflexivity|]. rewrite E. exact IH.
Qed.

Lemma get_tag_upsert_other t u v l : str_eqb u t = false -> get_tag t (upsert u v l) = get_tag t l.
Proof.
  intros Hne. unfold get_tag. induction l as [|x l IH]; cbn [upsert find fst snd].
  - rewrite Hne. reflexivity.
  - destruct (str_eqb (fst x) u) eqn:E; cbn [find fst snd].
    + rewrite Hne. apply str_eqb_eq in E. destruct (str_eqb (fst x) t) eqn:E2; [|reflexivity].
      apply str_eqb_eq in E2. rewrite E in E2. subst t. rewrite str_eqb_refl in Hne. discriminate.
    + destruct (str_eqb (fst x) t); [reflexivity|exact IH].
Qed.

Lemma forallb_upsert (q : str -> bool) t v l :
  q t = true -> forallb (fun fd => q (fst fd)) l = true -> forallb (fun fd : field => q (fst fd)) (upsert t v l) = true.
Proof.
  intros Hq. induction l as [|x l IH]; cbn [upsert forallb fst].
  - intros _. rewrite Hq. reflexivity.
  - intros H. apply andb_true_iff in H as [H1 H2].
    destruct (str_eqb (fst x) t); cbn [forallb fst].
    + rewrite Hq. exact H2.
    + rewrite H1. exact (IH H2).
Qed.

(* ------------------------------------------------------------------ sending inside the handler *)

Definition sending_ok (s : st) : Prop := cstate s = ST_HANDLING \/ cstate s = ST_AWAITING.

Lemma gates_ok m s : sending_ok s -> send_gates m s = Ok s.
Proof.
  unfold send_gates. intros [H|H]; rewrite H; cbn; rewrite ?andb_false_r; destruct (initiator s); reflexivity.
Qed.

(* the state after a reply frame fr was written: the journal and the counters are not touched *)
Definition sent (fr : row) (s : st) : st :=
  mkSt (cstate s) (initiator s) (testreq_id s) (nout s) (sout s) (clock s + 1)
       (rows s) (wire s ++ [fr]) (calls s) (states s).

Definition gap_frame (a h k : Z) : row :=
  mkRow a MT_SEQUENCERESET (time_str k) [(T_GapFillFlag, V_Y); (T_NewSeqNo, z_to_dec h)].

Lemma send_gap_fill a h s :
  sending_ok s -> send_msg (gap_fill_msg a h) s = Ok (sent (gap_frame a h (clock s + 1)) s).
Proof.
  intros Hs. unfold send_msg. rewrite gates_ok by assumption. reflexivity.
Qed.

Definition copy_frame (r : row) (k : Z) : row := mkRow (r_seq r) (r_type r) (time_str k) (copy_body r).

Lemma copy_body_clean r : clean r = true ->
  copy_body r = r_body r ++ [(T_PossDupFlag, V_Y); (T_OrigSendingTime, r_time r)].
Proof.
  unfold clean, copy_body. intros H. apply andb_true_iff in H as [H1 H2]. apply negb_true_iff in H1, H2.
  rewrite (upsert_notin _ _ _ H1), upsert_notin, <- app_assoc; [reflexivity|].
  rewrite has_tag_app, H2. reflexivity.
Qed.

(* a retransmission built by mk_replay is written under its own number and not journaled *)
Lemma send_replay_gen r s :
  sending_ok s -> is_sess_type (r_type r) = false ->
  send_msg (mk_replay r) s
  = Ok (sent (mkRow (r_seq r) (r_type r) (time_str (clock s + 1))
                    (filter (fun fd => negb (header_skipped (fst fd))) (copy_body r))) s).
Proof.
  intros Hs Ht. unfold send_msg, mk_replay. rewrite gates_ok by assumption.
  destruct (sess_false_types _ Ht) as [Ht1 Ht4]. unfold testreq_refused. cbn [m_type m_seq m_fields].
  rewrite Ht1. cbn [andb]. unfold select_seq, is_resend_reply, tag_is_Y. cbn [m_type m_seq m_fields]. rewrite Ht4.
  rewrite (get_tag_upsert_other T_PossDupFlag T_OrigSendingTime) by reflexivity.
  rewrite get_tag_upsert_same.
  cbv iota beta. change (str_eqb V_Y V_Y) with true. cbv iota beta. cbn [orb]. reflexivity.
Qed.

Lemma send_replay r s :
  sending_ok s -> is_sess_type (r_type r) = false -> codec_row r = true ->
  send_msg (mk_replay r) s = Ok (sent (copy_frame r (clock s + 1)) s).
Proof.
  intros Hs Ht Hcr. rewrite (send_replay_gen r s Hs Ht). unfold copy_frame.
  rewrite filter_all; [reflexivity|]. unfold copy_body, codec_row in *.
  apply (forallb_upsert (fun t => negb (header_skipped t))); [reflexivity|].
  apply (forallb_upsert (fun t => negb (header_skipped t))); [reflexivity|exact Hcr].
Qed.

(* ------------------------------------------------------------------ the replay / gap-fill loop *)

Lemma rows_ok_lb f p rs : rows_ok f p rs -> forall r, In r rs -> p <= r_seq r.
Proof.
  revert p; induction rs as [|x rs IH]; cbn; intros p H r Hin; [tauto|].
  destruct H as (H1 & _ & H3). destruct Hin as [<-|Hin]; [lia|]. specialize (IH _ H3 _ Hin). lia.
Qed.

(* s' differs from s only by the frames W written (and by the clock and the hook records): the
   journal, both counters and the state are the same *)
Definition same_but (s s' : st) (W : list row) : Prop :=
  cstate s' = cstate s /\ nout s' = nout s /\ sout s' = sout s /\ rows s' = rows s
  /\ wire s' = wire s ++ W /\ states s' = states s.

Lemma same_but_refl s : same_but s s [].
Proof. unfold same_but. rewrite !app_nil_r. auto 10. Qed.

Lemma same_but_trans s s1 s2 W1 W2 : same_but s s1 W1 -> same_but s1 s2 W2 -> same_but s s2 (W1 ++ W2).
Proof.
  unfold same_but. intros (a1 & a2 & a3 & a4 & a5 & a6) (b1 & b2 & b3 & b4 & b5 & b6).
  rewrite b1, b2, b3, b4, b5, b6, a1, a2, a3, a4, a5, a6, !app_assoc. auto 10.
Qed.

Lemma same_but_sent fr s : same_but s (sent fr s) [fr].
Proof. unfold same_but, sent; cbn. auto 10. Qed.

Lemma same_but_note n s : same_but s (note_call n s) [].
Proof. unfold same_but, note_call; cbn. rewrite !app_nil_r. auto 10. Qed.

(* loop invariant.  J = the journal, hi = one past the last requested already-sent number,
   rs = the recovered rows not yet visited, p = max gfb gfe = lower bound of their numbers:
   [gfb, p) are numbers to be gap-filled, rs holds every journaled row numbered in [p, hi) *)
Definition pre (J : list row) (f : row -> bool) (c hi : Z) (rs : list row) (gfb gfe : Z) : Prop :=
  rows_ok f (Z.max gfb gfe) rs
  /\ (forall r, In r rs -> In r J /\ codec_row r = true /\ r_seq r < hi)
  /\ (forall r, In r J -> Z.max gfb gfe <= r_seq r < hi -> In r rs)
  /\ (forall n, gfb <= n < Z.max gfb gfe -> skipped J f n)
  /\ gfe <= c /\ hi <= c.

Lemma pre_skip J f c hi r rest gfb gfe :
  pre J f c hi (r :: rest) gfb gfe -> replayable f r = false -> pre J f c hi rest gfb (r_seq r + 1).
Proof.
  intros (H2 & H3 & H4 & H5 & H6 & H7) Hr. cbn [rows_ok] in H2. destruct H2 as (H2a & _ & H2c).
  assert (Hmax : Z.max gfb (r_seq r + 1) = r_seq r + 1) by lia.
  pose proof (rows_ok_lb _ _ _ H2c) as Hlb.
  destruct (H3 r (or_introl eq_refl)) as (_ & _ & Hc).
  unfold pre. rewrite Hmax.
  split; [exact H2c|]. split; [intros x Hx; apply H3; right; exact Hx|].
  split; [intros x Hx Hge; destruct (H4 x Hx ltac:(lia)) as [<-|Hin]; [lia|exact Hin]|].
  split; [|lia].
  intros n Hn x Hx Hsx. destruct (Z.ltb_spec n (Z.max gfb gfe)) as [Hlt|Hge].
  - apply (H5 n ltac:(lia) x Hx Hsx).
  - destruct (H4 x Hx ltac:(lia)) as [<-|Hin]; [exact Hr|]. specialize (Hlb _ Hin). lia.
Qed.

(* at a replayed row: every number from gfb up to it is to be gap-filled *)
Lemma pre_replay J f c hi r rest gfb gfe g :
  pre J f c hi (r :: rest) gfb gfe -> replayable f r = true -> g <= r_seq r ->
  pre J f c hi rest (r_seq r + 1) g
  /\ gfb <= r_seq r /\ (forall n, gfb <= n < r_seq r -> skipped J f n)
  /\ In r J /\ codec_row r = true /\ r_seq r < hi.
Proof.
  intros (H2 & H3 & H4 & H5 & H6 & H7) Hr Hg. cbn [rows_ok] in H2. destruct H2 as (H2a & H2b & H2c).
  assert (Hmax : Z.max (r_seq r + 1) g = r_seq r + 1) by lia.
  destruct (H3 r (or_introl eq_refl)) as (HJ & Hcr & Hc).
  pose proof (rows_ok_lb _ _ _ H2c) as Hlb.
  split.
  - unfold pre. rewrite Hmax.
    split; [exact H2c|].
    split; [intros x Hx; apply H3; right; exact Hx|].
    split; [intros x Hx Hge; destruct (H4 x Hx ltac:(lia)) as [<-|Hin]; [lia|exact Hin]|].
    split; [intros n Hn; lia|lia].
  - split; [lia|]. split; [|auto].
    intros n Hn x Hx Hsx. destruct (Z.ltb_spec n (Z.max gfb gfe)) as [Hlt|Hge].
    + apply (H5 n ltac:(lia) x Hx Hsx).
    + destruct (H4 x Hx ltac:(lia)) as [<-|Hin]; [lia|]. specialize (Hlb _ Hin). lia.
Qed.

Lemma copy_is_copy r k : is_copy_of r (copy_frame r k).
Proof. unfold is_copy_of, copy_frame; cbn; auto. Qed.
Lemma gap_is_gap a h k : is_gap_fill (gap_frame a h k) a h.
Proof. unfold is_gap_fill, gap_frame; cbn; auto. Qed.

Lemma loop_ok J f lim c hi : forall rs gfb gfe s,
  sending_ok s -> pre J f c hi rs gfb gfe ->
  exists gfb' gfe' s' W,
    replay_loop f rs gfb gfe s = LOk gfb' gfe' s'
    /\ same_but s s' W
    /\ chain J f lim gfb gfb' W
    /\ (forall n, gfb' <= n < hi -> skipped J f n)
    /\ gfb <= gfb' <= Z.max gfb hi /\ gfe' <= c.
Proof.
  induction rs as [|r rest IH]; intros gfb gfe s Hs Hpre.
  - exists gfb, gfe, s, []. destruct Hpre as (H2 & H3 & H4 & H5 & H6 & H7).
    split; [reflexivity|]. split; [apply same_but_refl|]. split; [constructor|].
    split; [|lia].
    intros n Hn x Hx Hsx. destruct (Z.ltb_spec n (Z.max gfb gfe)) as [Hlt|Hge].
    + apply (H5 n ltac:(lia) x Hx Hsx).
    + destruct (H4 x Hx ltac:(lia)).
  - cbn [replay_loop]. destruct (is_sess_type (r_type r)) eqn:Hst.
    + assert (Hr : replayable f r = false) by (unfold replayable; rewrite Hst; reflexivity).
      exact (IH gfb (r_seq r + 1) s Hs (pre_skip _ _ _ _ _ _ _ _ Hpre Hr)).
    + set (s0 := note_call (r_seq r) s).
      assert (Hs0 : sending_ok s0) by exact Hs.
      destruct (f r) eqn:Hf; cbn [negb].
      2:{ assert (Hr : replayable f r = false) by (unfold replayable; rewrite Hf, andb_false_r; reflexivity).
          destruct (IH gfb (r_seq r + 1) s0 Hs0 (pre_skip _ _ _ _ _ _ _ _ Hpre Hr)) as (g1 & g2 & s' & W & E & Hsb & rest').
          exists g1, g2, s', W. split; [exact E|]. split; [|exact rest'].
          exact (same_but_trans _ _ _ _ _ (same_but_note (r_seq r) s) Hsb). }
      assert (Hr : replayable f r = true) by (unfold replayable; rewrite Hst, Hf; reflexivity).
      cbv zeta. set (g := if gfb <? r_seq r then r_seq r else gfe).
      assert (Hp0 : Z.max gfb gfe <= r_seq r) by (destruct Hpre as ((Hp & _) & _); exact Hp).
      assert (Hg : g <= r_seq r) by (unfold g; destruct (gfb <? r_seq r); lia).
      destruct (pre_replay _ _ _ _ _ _ _ _ g Hpre Hr Hg) as (Hpre' & Hle & Hsk & HJ & Hcr & Hhi).
      destruct (gfb <? g) eqn:Hcmp.
      * (* gap fill [gfb, r_seq r) first *)
        assert (Eg : g = r_seq r) by (unfold g in *; destruct (gfb <? r_seq r) eqn:E; lia).
        set (gf := gap_frame gfb g (clock s0 + 1)). set (s1 := sent gf s0).
        rewrite (send_gap_fill gfb g s0 Hs0). fold gf. fold s1.
        assert (Hs1 : sending_ok s1) by exact Hs.
        set (cp := copy_frame r (clock s1 + 1)). set (s2 := sent cp s1).
        rewrite (send_replay r s1 Hs1 Hst Hcr). fold cp. fold s2.
        assert (Hs2 : sending_ok s2) by exact Hs.
        destruct (IH (r_seq r + 1) g s2 Hs2 Hpre') as (g1 & g2 & s' & W & E & Hsb & Hch & Hsk' & Hb' & He').
        exists g1, g2, s', (gf :: cp :: W). split; [exact E|]. split; [|split; [|split; [exact Hsk'|split; [lia|exact He']]]].
        -- change (gf :: cp :: W) with ([] ++ [gf] ++ [cp] ++ W).
           eapply same_but_trans; [apply same_but_note|]. eapply same_but_trans; [apply same_but_sent|].
           eapply same_but_trans; [apply same_but_sent|]. exact Hsb.
        -- apply chain_gap with (h := g); [lia| | |apply gap_is_gap|].
           ++ intros n Hn. apply Hsk. lia.
           ++ right. intros Hskip. specialize (Hskip r HJ ltac:(lia)). congruence.
           ++ rewrite Eg. apply chain_replay with (r := r); auto; apply copy_is_copy.
      * (* gfb = r_seq r: nothing pending *)
        assert (Eb : gfb = r_seq r) by (unfold g in *; destruct (gfb <? r_seq r) eqn:E; lia).
        set (cp := copy_frame r (clock s0 + 1)). set (s2 := sent cp s0).
        rewrite (send_replay r s0 Hs0 Hst Hcr). fold cp. fold s2.
        assert (Hs2 : sending_ok s2) by exact Hs.
        destruct (IH (r_seq r + 1) g s2 Hs2 Hpre') as (g1 & g2 & s' & W & E & Hsb & Hch & Hsk' & Hb' & He').
        exists g1, g2, s', (cp :: W). split; [exact E|]. split; [|split; [|split; [exact Hsk'|split; [lia|exact He']]]].
        -- change (cp :: W) with ([] ++ [cp] ++ W).
           eapply same_but_trans; [apply same_but_note|]. eapply same_but_trans; [apply same_but_sent|]. exact Hsb.
        -- rewrite Eb. apply chain_replay with (r := r); auto; apply copy_is_copy.
Qed.

(* ------------------------------------------------------------------ chain facts *)

Lemma chain_le J f lim a c W : chain J f lim a c W -> a <= c.
Proof. induction 1; lia. Qed.

Lemma chain_app J f lim a b c W1 W2 :
  chain J f lim a b W1 -> chain J f lim b c W2 -> chain J f lim a c (W1 ++ W2).
Proof.
  induction 1; intros Hbc; cbn; [exact Hbc| |].
  - eapply chain_replay; eauto.
  - eapply chain_gap; eauto.
Qed.

Lemma chain_seqs J f lim a c W : chain J f lim a c W -> forall fr, In fr W -> a <= r_seq fr < c.
Proof.
  induction 1 as [|a c r fr rest Hin Hseq Hrep Hcp Hch IH|a h c fr rest Hlt Hsk Hmax Hgf Hch IH]; intros x Hx.
  - destruct Hx.
  - pose proof (chain_le _ _ _ _ _ _ Hch). destruct Hx as [<-|Hx].
    + destruct Hcp as (E & _). lia.
    + specialize (IH _ Hx). lia.
  - pose proof (chain_le _ _ _ _ _ _ Hch). destruct Hx as [<-|Hx].
    + destruct Hgf as (E & _). lia.
    + specialize (IH _ Hx). lia.
Qed.

Lemma chain_empty_gen J f lim a c W : chain J f lim a c W -> a = c -> W = [].
Proof.
  destruct 1 as [|a c r fr rest ? ? ? ? Hch|a h c fr rest ? ? ? ? Hch]; intros E; auto;
    apply chain_le in Hch; lia.
Qed.
Lemma chain_empty J f lim a W : chain J f lim a a W -> W = [].
Proof. intros H. exact (chain_empty_gen _ _ _ _ _ _ H eq_refl). Qed.

(* every frame of a chain is a retransmission of a replayable journaled message or a gap fill:
   session-level messages are never retransmitted *)
Lemma chain_frames J f lim a c W : chain J f lim a c W -> forall fr, In fr W ->
  (exists r, In r J /\ replayable f r = true /\ is_copy_of r fr) \/ (exists x h, is_gap_fill fr x h).
Proof.
  induction 1; intros x Hx; [destruct Hx| |]; (destruct Hx as [<-|Hx]; [|auto]).
  - left. eauto.
  - right. eauto.
Qed.

(* ------------------------------------------------------------------ the range query *)

Lemma in_insert r x l : In x (insert_by_seq r l) <-> x = r \/ In x l.
Proof.
  induction l as [|y l IH]; cbn; [intuition|].
  destruct (r_seq r <=? r_seq y); cbn; rewrite ?IH; intuition.
Qed.

Lemma in_sort x l : In x (sort_by_seq l) <-> In x l.
Proof.
  induction l as [|y l IH]; cbn; [tauto|]. rewrite in_insert, IH. intuition.
Qed.

Lemma in_recover x lo hi l : In x (recover lo hi l) <-> In x l /\ lo <= r_seq x <= hi.
Proof.
  unfold recover. rewrite in_sort, filter_In. intuition; lia.
Qed.

(* ------------------------------------------------------------------ the property, as one predicate *)

(* the numbers [lo, hi) a ResendRequest asks for, None for a request that must not be answered
   (unreadable, EndSeqNo below BeginSeqNo) *)
Definition requested_range (s : st) (bs es : option str) : option (Z * Z) :=
  match bs, es with
  | Some bs, Some es =>
      match py_int bs, py_int es with
      | Some b0, Some e0 =>
          let b := clamp1 b0 in          (* BeginSeqNo below 1 means "from the first message" *)
          if (1 <=? b) && ((e0 =? 0) || (b <=? e0))
          then Some (b, Z.max b (if e0 =? 0 then nout s else Z.min (e0 + 1) (nout s)))
          else None
      | _, _ => None
      end
  | _, _ => None
  end.

(* the property for the handler _process_resend alone (the property for the call site, which also
   restores the state after an abort, is resend_correct below): the frames written form the chain over
   the requested range; journal, counters and state are what they were. *)
Definition handler_correct (f : row -> bool) (s : st) (bs es : option str) : Prop :=
  let s' := fst (process_resend f bs es s) in
  exists W, wire s' = wire s ++ W
    /\ match requested_range s bs es with
       | Some (lo, hi) => chain (rows s) f hi lo hi W
       | None => W = []
       end
    /\ rows s' = rows s /\ nout s' = nout s /\ sout s' = sout s /\ cstate s' = cstate s.

Definition journal_ok (s : st) : Prop :=
  Forall (fun r => r_seq r < nout s /\ codec_row r = true) (rows s)   (* rows written by send_msg below the counter *)
  /\ nout s <= INT64_MAX.


Definition eff_end (e0 : Z) : Z := if (e0 =? 0) || (sys_maxsize <? e0) then sys_maxsize else e0.

Lemma body_ok f s b e0 :
  sending_ok s -> journal_ok s ->
  1 <= b <= nout s -> INT64_MIN <= e0 ->
  rows_ok f b (recover b (eff_end e0) (rows s)) ->
  let hi := Z.max b (Z.min (nout s) (eff_end e0 + 1)) in
  exists W s', resend_body f b e0 s = (s', None)
    /\ wire s' = wire s ++ W /\ chain (rows s) f hi b hi W
    /\ nout s' = nout s /\ sout s' = sout s /\ rows s' = rows s
    /\ cstate s' = (if cstate s =? ST_AWAITING then cstate s else ST_ACTIVE).
Proof.
  intros Hs (HJ & Hmax) Hb He0 Hok hi.
  set (J := rows s) in *. set (c := nout s) in *. set (e := eff_end e0) in *.
  set (last := Z.min c (e + 1)) in *.
  rewrite Forall_forall in HJ.
  assert (Hsm : sys_maxsize = INT64_MAX) by reflexivity.
  unfold resend_body. fold (eff_end e0). fold e. fold c. fold J.
  assert (Hfb : fits_int64 b = true) by (unfold fits_int64, INT64_MIN, INT64_MAX in *; lia).
  assert (Hfe : fits_int64 e = true).
  { unfold e, eff_end, fits_int64. rewrite Hsm.
    destruct ((e0 =? 0) || (INT64_MAX <? e0)) eqn:E0; unfold INT64_MIN, INT64_MAX in *; lia. }
  rewrite Hfb, Hfe. cbn [andb negb].
  assert (Hpre : pre J f c last (recover b e J) b b).
  { unfold pre. rewrite Z.max_id. split; [exact Hok|split; [|split; [|split; [|split]]]].
    - intros r Hr. apply in_recover in Hr as [Hr Hrg]. destruct (HJ _ Hr). unfold last. repeat split; auto; lia.
    - intros r Hr Hge. apply in_recover. split; [exact Hr|]. unfold last in Hge. lia.
    - intros n Hn. lia.
    - lia.
    - unfold last. lia. }
  destruct (loop_ok J f hi c last _ _ _ _ Hs Hpre) as (g1 & g2 & s2 & W & E & Hsb & Hch & Hsk & Hg1 & Hg2).
  rewrite E. destruct Hsb as (Hc2 & Hn2 & Hso2 & Hr2 & Hw2 & Hst2).
  destruct (g2 <=? c) eqn:Hg2'; [|lia]. cbn [negb]. cbv zeta. fold last.
  assert (Hs2 : sending_ok s2) by (unfold sending_ok; rewrite Hc2; exact Hs).
  assert (Htail : exists W' s3,
            (if g1 <? last then send_msg (gap_fill_msg g1 last) s2 else Ok s2) = Ok s3
            /\ same_but s2 s3 W' /\ chain J f hi g1 hi W').
  { destruct (g1 <? last) eqn:Hlt.
    - assert (Ehi : hi = last) by (unfold hi; fold last; lia).
      eexists [_], _. split; [apply send_gap_fill; exact Hs2|]. split; [apply same_but_sent|].
      rewrite Ehi. apply chain_gap with (h := last); [lia| |left; reflexivity|apply gap_is_gap|constructor].
      intros n Hn. apply Hsk. lia.
    - exists [], s2. split; [reflexivity|]. split; [apply same_but_refl|].
      replace g1 with hi by (unfold hi; fold last; lia). constructor. }
  destruct Htail as (W' & s3 & E3 & (Hc3 & Hn3 & Hso3 & Hr3 & Hw3 & Hst3) & Hch3). rewrite E3.
  pose proof (chain_app _ _ _ _ _ _ _ _ Hch Hch3) as Hchain.
  exists (W ++ W'). eexists. split; [reflexivity|].
  assert (Hcs : cstate s3 = cstate s) by (rewrite Hc3, Hc2; reflexivity).
  rewrite Hcs.
  destruct (cstate s =? ST_AWAITING) eqn:Haw; cbn [wire nout sout rows cstate state_set];
    rewrite Hw3, Hw2, Hn3, Hn2, Hso3, Hso2, Hr3, Hr2, app_assoc; auto 10.
Qed.

Lemma resend_partial f s bs es b0 b e0 :
  py_int bs = Some b0 -> clamp1 b0 = b -> py_int es = Some e0 ->
  (cstate s = ST_ACTIVE \/ cstate s = ST_AWAITING) -> journal_ok s ->
  b <= nout s -> INT64_MIN <= e0 ->
  rows_ok f b (recover b (eff_end e0) (rows s)) ->
  handler_correct f s (Some bs) (Some es).
Proof.
  intros Hpb Hcl Hpe Hst Hj Hb He0 Hok.
  assert (H1 : 1 <= b) by (subst b; unfold clamp1; destruct (b0 <? 1) eqn:E; lia).
  unfold handler_correct, process_resend, requested_range. rewrite Hpb, Hpe. cbv zeta. rewrite Hcl.
  set (sa := if cstate s =? ST_AWAITING then s else state_set ST_HANDLING s).
  assert (Hsa : sending_ok sa /\ rows sa = rows s /\ nout sa = nout s /\ sout sa = sout s /\ wire sa = wire s
                /\ (if cstate sa =? ST_AWAITING then cstate sa else ST_ACTIVE) = cstate s).
  { unfold sa. destruct Hst as [H|H]; rewrite H; cbn; unfold sending_ok; cbn; rewrite ?H; auto 10. }
  destruct Hsa as (Hs & Er & En & Eso & Ew & Ec).
  assert (Hja : journal_ok sa) by (unfold journal_ok; rewrite Er, En; exact Hj).
  rewrite <- Er in Hok. rewrite <- En in Hb.
  destruct (body_ok f sa b e0 Hs Hja (conj H1 Hb) He0 Hok) as (W & s' & E & Hw & Hch & Hn & Hso & Hr & Hc).
  rewrite E. cbn [fst]. rewrite Er, En, ?Ew, ?Eso in *. clear E.
  destruct Hj as (_ & Hmax). assert (Hsm : sys_maxsize = INT64_MAX) by reflexivity.
  exists W. split; [exact Hw|]. split; [|rewrite Hc, Ec; auto].
  destruct ((1 <=? b) && ((e0 =? 0) || (b <=? e0))) eqn:Hvalid.
  - assert (Hhi : Z.max b (if e0 =? 0 then nout s else Z.min (e0 + 1) (nout s))
                  = Z.max b (Z.min (nout s) (eff_end e0 + 1))).
    { unfold eff_end. rewrite Hsm. destruct (e0 =? 0) eqn:E0; cbn [orb]; [unfold INT64_MAX in *; lia|].
      destruct (INT64_MAX <? e0) eqn:E1; unfold INT64_MAX in *; lia. }
    rewrite Hhi. exact Hch.
  - assert (Hhi : Z.max b (Z.min (nout s) (eff_end e0 + 1)) = b).
    { unfold eff_end. rewrite Hsm. destruct (e0 =? 0) eqn:E0; cbn [orb]; [lia|].
      destruct (INT64_MAX <? e0) eqn:E1; unfold INT64_MAX in *; lia. }
    rewrite Hhi in Hch. exact (chain_empty _ _ _ _ _ Hch).
Qed.

(* ------------------------------------------------------------------ the range query is ascending *)

(* strictly ascending from p *)
Fixpoint asc (p : Z) (rs : list row) : Prop :=
  match rs with
  | [] => True
  | r :: rest => p <= r_seq r /\ asc (r_seq r + 1) rest
  end.

Lemma insert_asc y : forall l p, asc p l -> p <= r_seq y -> (forall x, In x l -> r_seq x <> r_seq y) ->
  asc p (insert_by_seq y l).
Proof.
  induction l as [|x l IH]; intros p Ha Hp Hne; cbn; [auto|].
  destruct Ha as [Hx Ha]. pose proof (Hne x (or_introl eq_refl)) as Hxy.
  destruct (r_seq y <=? r_seq x) eqn:E; cbn.
  - repeat split; try lia. exact Ha.
  - split; [exact Hx|]. apply IH; [exact Ha|lia|]. intros z Hz. apply Hne. right; exact Hz.
Qed.

Lemma sort_asc : forall l p, NoDup (map r_seq l) -> (forall r, In r l -> p <= r_seq r) -> asc p (sort_by_seq l).
Proof.
  induction l as [|y l IH]; intros p Hnd Hlb; [cbn; auto|].
  change (sort_by_seq (y :: l)) with (insert_by_seq y (sort_by_seq l)).
  cbn [map] in Hnd. inversion Hnd as [|? ? Hnotin Hnd']; subst.
  apply insert_asc.
  - apply IH; [exact Hnd'|]. intros r Hr. apply Hlb. right; exact Hr.
  - apply Hlb. left; reflexivity.
  - intros x Hx Heq. rewrite in_sort in Hx. apply Hnotin. rewrite <- Heq. apply in_map. exact Hx.
Qed.

Lemma NoDup_map_filter {A B} (g : A -> B) (p : A -> bool) l : NoDup (map g l) -> NoDup (map g (filter p l)).
Proof.
  induction l as [|x l IH]; cbn; intros H; [constructor|].
  inversion H as [|? ? Hn Hd]; subst. destruct (p x); cbn; [constructor|]; auto.
  intros Hin. apply Hn. apply in_map_iff in Hin as (y & E & Hy). apply filter_In in Hy as [Hy _].
  rewrite <- E. apply in_map. exact Hy.
Qed.

Lemma recover_asc b e J : NoDup (map r_seq J) -> asc b (recover b e J).
Proof.
  intros H. unfold recover. apply sort_asc; [apply NoDup_map_filter; exact H|].
  intros r Hr. apply filter_In in Hr as [_ Hr]. lia.
Qed.

Lemma asc_lb : forall rs p, asc p rs -> forall r, In r rs -> p <= r_seq r.
Proof.
  induction rs as [|x rs IH]; cbn; intros p Ha r Hin; [tauto|].
  destruct Ha as [H1 H2]. destruct Hin as [<-|Hin]; [lia|]. specialize (IH _ H2 _ Hin). lia.
Qed.


Lemma asc_rows_ok f : forall rs p, asc p rs -> rows_ok f p rs.
Proof.
  induction rs as [|r rest IH]; intros p Ha; cbn; [auto|].
  destruct Ha as [Hp Ha]. split; [exact Hp|]. split; [exact I|]. apply IH. exact Ha.
Qed.

Lemma recover_rows_ok f s b e : NoDup (map r_seq (rows s)) -> rows_ok f b (recover b e (rows s)).
Proof. intros Hnd. apply asc_rows_ok. apply recover_asc. exact Hnd. Qed.

(* ------------------------------------------------------------------ pristine journals *)

(* numbers k, k+1, ... in rowid order: nothing missing *)
Fixpoint contig (k : Z) (l : list row) : Prop :=
  match l with
  | [] => True
  | r :: t => r_seq r = k /\ contig (k + 1) t
  end.

(* a journal of original sends: numbers 1..n contiguous (a suffix below next_num_out may be
   missing), no PossDup tags in a body, rows as the encoder writes them *)
Definition pristine (s : st) : Prop :=
  contig 1 (rows s)
  /\ Forall (fun r => clean r = true /\ codec_row r = true) (rows s)
  /\ Z.of_nat (length (rows s)) < nout s /\ nout s <= INT64_MAX.

Lemma contig_seqs : forall l k, contig k l -> forall r, In r l -> k <= r_seq r < k + Z.of_nat (length l).
Proof.
  induction l as [|x l IH]; intros k H r Hin; [destruct Hin|].
  destruct H as [E H]. cbn [length]. destruct Hin as [<-|Hin]; [lia|]. specialize (IH _ H _ Hin). lia.
Qed.

Lemma contig_has : forall l k, contig k l -> forall n, k <= n < k + Z.of_nat (length l) -> has_key n l = true.
Proof.
  induction l as [|x l IH]; intros k H n Hn; cbn [length] in Hn; [lia|].
  destruct H as [E H]. unfold has_key. cbn [existsb]. destruct (r_seq x =? n) eqn:Ex; [reflexivity|].
  apply (IH _ H). lia.
Qed.

Lemma contig_nodup : forall l k, contig k l -> NoDup (map r_seq l).
Proof.
  induction l as [|x l IH]; intros k H; cbn; [constructor|]. destruct H as [E H].
  constructor; [|exact (IH _ H)]. intros Hin. apply in_map_iff in Hin as (y & Ey & Hy).
  pose proof (contig_seqs _ _ H _ Hy). lia.
Qed.

Lemma existsb_all_false {A} (p : A -> bool) l : (forall x, In x l -> p x = false) -> existsb p l = false.
Proof.
  intros H. apply not_true_is_false. intros Hx. apply existsb_exists in Hx as (x & Hin & Hp).
  rewrite (H _ Hin) in Hp. discriminate.
Qed.



(* rows written by send_msg are rows as the encoder writes them (the hypothesis codec_row of
   journal_ok / pristine is an invariant), and a frame with PossDupFlag=Y never reaches the journal *)
Lemma forallb_filter {A} (p : A -> bool) l : forallb p (filter p l) = true.
Proof. induction l as [|x l IH]; cbn; auto. destruct (p x) eqn:E; cbn; rewrite ?E; auto. Qed.

Lemma gates_rows m s s1 : send_gates m s = Ok s1 -> rows s1 = rows s.
Proof.
  unfold send_gates.
  repeat match goal with |- context [if ?c then _ else _] => destruct c end; intros [= <-]; reflexivity.
Qed.

Lemma send_msg_frame_codec_row m s s' :
  send_msg m s = Ok s' ->
  rows s' = rows s \/ exists fr, rows s' = rows s ++ [fr] /\ codec_row fr = true.
Proof.
  unfold send_msg. destruct (send_gates m s) as [s1|] eqn:Hg; [|discriminate].
  apply gates_rows in Hg.
  destruct (testreq_refused m s1); [discriminate|].
  destruct (select_seq m s1) as [[n no]|]; [|discriminate].
  destruct (is_resend_reply m).
  - intros [= <-]. left. exact Hg.
  - unfold persist. cbn [r_seq rows]. destruct (has_key n (rows s1)) eqn:Hk; [discriminate|].
    intros [= <-]. cbn [rows]. rewrite Hg. right. eexists. split; [reflexivity|].
    unfold codec_row. cbn [r_body]. apply forallb_filter.
Qed.


(* send_msg journals before it writes: a send that fails (state gate, TestRequest gate, encoder,
   journal error) leaves nothing on the wire *)
Lemma gates_wire m s r : send_gates m s = r -> wire (match r with Ok s1 => s1 | Exc _ s1 => s1 end) = wire s.
Proof.
  unfold send_gates. intros <-.
  repeat match goal with |- context [if ?c then _ else _] => destruct c end; reflexivity.
Qed.

Lemma failed_send_writes_nothing m s e s' : send_msg m s = Exc e s' -> wire s' = wire s.
Proof.
  unfold send_msg. pose proof (gates_wire m s _ eq_refl) as Hg.
  destruct (send_gates m s) as [s1|e1 s1]; cbn in Hg; [|intros [= _ <-]; exact Hg].
  destruct (testreq_refused m s1); [intros [= _ <-]; exact Hg|].
  destruct (select_seq m s1) as [[n no]|]; [|intros [= _ <-]; exact Hg].
  destruct (is_resend_reply m); [discriminate|].
  unfold persist. cbn [r_seq rows]. destruct (has_key n (rows s1)); [|discriminate].
  intros [= _ <-]. exact Hg.
Qed.

(* ------------------------------------------------------------------ what holds for EVERY request:
   no side effect on the journal or the counters, and which exceptions can leave the handler *)

Definition untouched (s s' : st) : Prop :=
  cstate s' = cstate s /\ rows s' = rows s /\ nout s' = nout s /\ sout s' = sout s.

Lemma loop_general f : forall rs gfb gfe s, sending_ok s ->
  match replay_loop f rs gfb gfe s with
  | LOk g1 g2 s' => untouched s s'
  | LExc e s' => False
  end.
Proof.
  induction rs as [|r rest IH]; intros gfb gfe s Hs; cbn [replay_loop]; [unfold untouched; auto|].
  destruct (is_sess_type (r_type r)) eqn:Hst; [apply IH; exact Hs|].
  set (s0 := note_call (r_seq r) s).
  assert (Hs0 : sending_ok s0) by exact Hs.
  destruct (f r); cbn [negb]; [|exact (IH gfb (r_seq r + 1) s0 Hs0)].
  cbv zeta. set (gfe' := if gfb <? r_seq r then r_seq r else gfe).
  assert (Hstep : forall s1, sending_ok s1 -> untouched s s1 ->
            match (match send_msg (mk_replay r) s1 with
                   | Ok s2 => replay_loop f rest (r_seq r + 1) gfe' s2
                   | Exc e s' => LExc e s'
                   end) with
            | LOk g1 g2 s' => untouched s s'
            | LExc e s' => False
            end).
  { intros s1 Hs1 Hu. rewrite (send_replay_gen r s1 Hs1 Hst).
    match goal with |- context [replay_loop f rest ?a ?b ?s2] =>
      assert (Hs2 : sending_ok s2) by exact Hs1; specialize (IH a b s2 Hs2);
      destruct (replay_loop f rest a b s2) end; [|exact IH].
    unfold untouched in *; cbn [cstate rows nout sout sent] in IH; intuition congruence. }
  destruct (gfb <? gfe').
  - rewrite (send_gap_fill gfb gfe' s0 Hs0). apply Hstep; [exact Hs|unfold untouched; auto].
  - apply Hstep; [exact Hs|unfold untouched; auto].
Qed.

Definition allowed_exc (x : option exc) : Prop :=
  match x with
  | Some EDuplicateSeqNo | Some EConnection | Some EEncoding | Some EDuplicatedTag => False
  | _ => True
  end.

(* For every state, journal, request and filter - no hypothesis at all: the handler never changes the
   outbound journal, next_num_out or the stored counter; the only exceptions that can leave it are
   AssertionError, DuplicatedTagError, TagNotFoundError, ValueError, OverflowError; without an
   exception the state ends ACTIVE (or stays RESENDREQ_AWAITING), with one it is left in
   RESENDREQ_HANDLING (or stays RESENDREQ_AWAITING). *)
Lemma resend_general f s bs es :
  let (s', x) := process_resend f bs es s in
  rows s' = rows s /\ nout s' = nout s /\ sout s' = sout s
  /\ allowed_exc x
  /\ cstate s' = (if cstate s =? ST_AWAITING then ST_AWAITING
                  else match x with None => ST_ACTIVE | Some _ => ST_HANDLING end).
Proof.
  unfold process_resend.
  set (sa := if cstate s =? ST_AWAITING then s else state_set ST_HANDLING s).
  assert (Hsa : sending_ok sa /\ rows sa = rows s /\ nout sa = nout s /\ sout sa = sout s
                /\ cstate sa = (if cstate s =? ST_AWAITING then ST_AWAITING else ST_HANDLING)
                /\ (cstate sa =? ST_AWAITING) = (cstate s =? ST_AWAITING)).
  { unfold sa, sending_ok. destruct (cstate s =? ST_AWAITING) eqn:E; cbn; [|auto 10].
    assert (cstate s = ST_AWAITING) by lia. rewrite E. auto 10. }
  destruct Hsa as (Hs & Er & En & Eso & Ec & Eaw). rewrite <- Er, <- En, <- Eso.
  clearbody sa.
  destruct bs as [bs|]; [|repeat split; auto; exact I].
  destruct (py_int bs) as [b|]; [|repeat split; auto; exact I].
  destruct es as [es|]; [|repeat split; auto; exact I].
  destruct (py_int es) as [e0|]; [|repeat split; auto; exact I].
  generalize (clamp1 b). clear b. intros b.
  unfold resend_body. set (e := if (e0 =? 0) || (sys_maxsize <? e0) then sys_maxsize else e0).
  destruct (fits_int64 b && fits_int64 e); cbn [negb]; [|repeat split; auto; exact I].
  pose proof (loop_general f (recover b e (rows sa)) b b sa Hs) as Hloop.
  destruct (replay_loop f (recover b e (rows sa)) b b sa) as [g1 g2 s2|x s2].
  2:{ destruct Hloop. }
  destruct Hloop as (Hc2 & Hr2 & Hn2 & Hso2).
  destruct (g2 <=? nout sa); cbn [negb].
  2:{ repeat split; auto; try exact I; rewrite Hc2; exact Ec. }
  assert (Hs2 : sending_ok s2) by (unfold sending_ok; rewrite Hc2; exact Hs).
  cbv zeta. set (last := Z.min (nout sa) (e + 1)).
  assert (Htail : exists s3, (if g1 <? last then send_msg (gap_fill_msg g1 last) s2 else Ok s2) = Ok s3
                             /\ untouched s2 s3).
  { destruct (g1 <? last).
    - eexists. split; [apply send_gap_fill; exact Hs2|unfold untouched; auto].
    - exists s2. unfold untouched; auto. }
  destruct Htail as (s3 & -> & (Hc3 & Hr3 & Hn3 & Hso3)).
  assert (Eaw3 : (cstate s3 =? ST_AWAITING) = (cstate s =? ST_AWAITING)) by (rewrite Hc3, Hc2; exact Eaw).
  rewrite Eaw3. destruct (cstate s =? ST_AWAITING) eqn:E; cbn [rows nout sout cstate state_set];
    rewrite ?Hr3, ?Hn3, ?Hso3, ?Hr2, ?Hn2, ?Hso2; repeat split; auto.
  rewrite Hc3, Hc2, Ec. reflexivity.
Qed.

(* ------------------------------------------------------------------ numbers on the wire *)

(* s' has written the frames W after s, all numbered lo or above *)
Definition wext (lo : Z) (s s' : st) : Prop :=
  exists W, wire s' = wire s ++ W /\ Forall (fun fr => lo <= r_seq fr) W.

Lemma wext_refl lo s : wext lo s s.
Proof. exists []. rewrite app_nil_r. auto. Qed.

Lemma wext_trans lo s s1 s2 : wext lo s s1 -> wext lo s1 s2 -> wext lo s s2.
Proof.
  intros (W1 & E1 & F1) (W2 & E2 & F2). exists (W1 ++ W2). rewrite E2, E1, app_assoc.
  split; [reflexivity|]. apply Forall_app; auto.
Qed.

Lemma wext_sent lo fr s : lo <= r_seq fr -> wext lo s (sent fr s).
Proof. intros H. exists [fr]. split; [reflexivity|]. constructor; auto. Qed.

Lemma loop_wire f lo : forall rs gfb gfe s, sending_ok s -> lo <= gfb -> (forall r, In r rs -> lo <= r_seq r) ->
  match replay_loop f rs gfb gfe s with
  | LOk g1 g2 s' => lo <= g1 /\ wext lo s s'
  | LExc e s' => wext lo s s'
  end.
Proof.
  induction rs as [|r rest IH]; intros gfb gfe s Hs Hlo Hrs; cbn [replay_loop]; [split; [exact Hlo|apply wext_refl]|].
  assert (Hrest : forall x, In x rest -> lo <= r_seq x) by (intros x Hx; apply Hrs; right; exact Hx).
  pose proof (Hrs r (or_introl eq_refl)) as Hr.
  destruct (is_sess_type (r_type r)) eqn:Hst; [apply IH; assumption|].
  set (s0 := note_call (r_seq r) s).
  assert (Hs0 : sending_ok s0) by exact Hs.
  assert (Hw0 : wext lo s s0) by (exists []; cbn; rewrite app_nil_r; auto).
  destruct (f r); cbn [negb].
  2:{ specialize (IH gfb (r_seq r + 1) s0 Hs0 Hlo Hrest).
      destruct (replay_loop f rest gfb (r_seq r + 1) s0); [destruct IH as [? IH]; split; [assumption|]|];
        exact (wext_trans _ _ _ _ Hw0 IH). }
  cbv zeta. set (gfe' := if gfb <? r_seq r then r_seq r else gfe).
  assert (Hstep : forall s1, sending_ok s1 -> wext lo s s1 ->
            match (match send_msg (mk_replay r) s1 with
                   | Ok s2 => replay_loop f rest (r_seq r + 1) gfe' s2
                   | Exc e s' => LExc e s'
                   end) with
            | LOk g1 g2 s' => lo <= g1 /\ wext lo s s'
            | LExc e s' => wext lo s s'
            end).
  { intros s1 Hs1 Hw1. rewrite (send_replay_gen r s1 Hs1 Hst).
    match goal with |- context [replay_loop f rest ?a ?b (sent ?fr s1)] =>
      assert (Hs2 : sending_ok (sent fr s1)) by exact Hs1;
      assert (Hw2 : wext lo s (sent fr s1)) by (apply (wext_trans _ _ _ _ Hw1); apply wext_sent; exact Hr);
      specialize (IH a b (sent fr s1) Hs2 ltac:(lia) Hrest);
      destruct (replay_loop f rest a b (sent fr s1)) end;
      [destruct IH as [? IH]; split; [assumption|]|]; exact (wext_trans _ _ _ _ Hw2 IH). }
  destruct (gfb <? gfe').
  - rewrite (send_gap_fill gfb gfe' s0 Hs0). apply Hstep; [exact Hs|].
    apply (wext_trans _ _ _ _ Hw0). apply wext_sent. exact Hlo.
  - apply Hstep; [exact Hs|exact Hw0].
Qed.

(* every frame the handler writes - whatever the request - carries a MsgSeqNum of at least 1 *)
Lemma resend_wire_positive f s bs es : wext 1 s (fst (process_resend f bs es s)).
Proof.
  unfold process_resend.
  set (sa := if cstate s =? ST_AWAITING then s else state_set ST_HANDLING s).
  assert (Hsa : sending_ok sa /\ wire sa = wire s).
  { unfold sa, sending_ok. destruct (cstate s =? ST_AWAITING) eqn:E; cbn; [|auto].
    assert (cstate s = ST_AWAITING) by lia. auto. }
  destruct Hsa as (Hs & Ew).
  assert (Hw : wext 1 s sa) by (exists []; rewrite app_nil_r; auto).
  clearbody sa.
  destruct bs as [bs|]; [|exact Hw]. destruct (py_int bs) as [b0|]; [|exact Hw].
  destruct es as [es|]; [|exact Hw]. destruct (py_int es) as [e0|]; [|exact Hw].
  assert (Hb1 : 1 <= clamp1 b0) by (unfold clamp1; destruct (b0 <? 1) eqn:E; lia).
  revert Hb1. generalize (clamp1 b0). intros b Hb1.
  unfold resend_body. set (e := if (e0 =? 0) || (sys_maxsize <? e0) then sys_maxsize else e0).
  destruct (fits_int64 b && fits_int64 e); cbn [negb fst]; [|exact Hw].
  assert (Hrs : forall r, In r (recover b e (rows sa)) -> 1 <= r_seq r).
  { intros r Hr. apply in_recover in Hr. lia. }
  pose proof (loop_wire f 1 _ b b sa Hs Hb1 Hrs) as Hloop.
  pose proof (loop_general f (recover b e (rows sa)) b b sa Hs) as Hgen.
  destruct (replay_loop f (recover b e (rows sa)) b b sa) as [g1 g2 s2|x s2]; cbn [fst].
  2:{ exact (wext_trans _ _ _ _ Hw Hloop). }
  destruct Hloop as [Hg1 Hw2]. destruct Hgen as (Hc2 & _).
  destruct (g2 <=? nout sa); cbn [negb fst]; [|exact (wext_trans _ _ _ _ Hw Hw2)].
  assert (Hs2 : sending_ok s2) by (unfold sending_ok; rewrite Hc2; exact Hs).
  cbv zeta. set (last := Z.min (nout sa) (e + 1)).
  assert (Htail : exists s3, (if g1 <? last then send_msg (gap_fill_msg g1 last) s2 else Ok s2) = Ok s3
                             /\ wext 1 s2 s3).
  { destruct (g1 <? last).
    - eexists. split; [apply send_gap_fill; exact Hs2|apply wext_sent; exact Hg1].
    - exists s2. split; [reflexivity|apply wext_refl]. }
  destruct Htail as (s3 & -> & Hw3). cbn [fst].
  assert (Hw03 : wext 1 s s3) by exact (wext_trans _ _ _ _ Hw (wext_trans _ _ _ _ Hw2 Hw3)).
  destruct (cstate s3 =? ST_AWAITING); [exact Hw03|].
  destruct Hw03 as (W & E & F). exists W. split; [exact E|exact F].
Qed.


(* ------------------------------------------------------------------ the call site (serve_resend) *)

(* C06 for one request in one state, as the dispatcher serves it: the frames written form the chain
   over the requested range of already-sent numbers (nothing is written for a request that must not
   be answered or that asks for nothing that was sent); the whole outbound journal - inside and
   outside the range -, the next outbound number (live and stored) and the connection state are what
   they were. *)
Definition resend_correct (f : row -> bool) (s : st) (bs es : option str) : Prop :=
  let s' := fst (serve_resend f bs es s) in
  exists W, wire s' = wire s ++ W
    /\ match requested_range s bs es with
       | Some (lo, hi) => chain (rows s) f hi lo hi W
       | None => W = []
       end
    /\ rows s' = rows s /\ nout s' = nout s /\ sout s' = sout s /\ cstate s' = cstate s.

Lemma serve_fields f bs es s :
  let s0 := fst (process_resend f bs es s) in
  let s' := fst (serve_resend f bs es s) in
  wire s' = wire s0 /\ rows s' = rows s0 /\ nout s' = nout s0 /\ sout s' = sout s0
  /\ cstate s' = (if cstate s0 =? ST_HANDLING then ST_ACTIVE else cstate s0)
  /\ snd (serve_resend f bs es s) = snd (process_resend f bs es s).
Proof.
  unfold serve_resend. destruct (process_resend f bs es s) as [s0 x]. cbn [fst snd].
  destruct (cstate s0 =? ST_HANDLING); cbn; auto 10.
Qed.

Lemma serve_id f bs es s :
  cstate (fst (process_resend f bs es s)) <> ST_HANDLING -> serve_resend f bs es s = process_resend f bs es s.
Proof.
  unfold serve_resend. destruct (process_resend f bs es s) as [s0 x]. cbn [fst]. intros H.
  destruct (cstate s0 =? ST_HANDLING) eqn:E; [lia|reflexivity].
Qed.

(* when the handler alone already satisfies the property, so does the call site (which then does nothing) *)
Lemma handler_correct_lift f s bs es :
  (cstate s = ST_ACTIVE \/ cstate s = ST_AWAITING) -> handler_correct f s bs es ->
  resend_correct f s bs es /\ serve_resend f bs es s = process_resend f bs es s.
Proof.
  intros Hst H.
  assert (Hne : cstate (fst (process_resend f bs es s)) <> ST_HANDLING).
  { destruct H as (W & _ & _ & _ & _ & _ & Hc). rewrite Hc. destruct Hst as [-> | ->]; discriminate. }
  pose proof (serve_id f bs es s Hne) as E. split; [|exact E].
  unfold resend_correct. rewrite E. exact H.
Qed.

(* a request for which the handler sends nothing and aborts before / right after the range query *)
Definition range_trivial (s : st) (bs es : option str) : Prop :=
  requested_range s bs es = None \/ exists b, requested_range s bs es = Some (b, b).

Lemma nothing_sent_correct f s bs es x :
  (cstate s = ST_ACTIVE \/ cstate s = ST_AWAITING) ->
  process_resend f bs es s = (if cstate s =? ST_AWAITING then s else state_set ST_HANDLING s, x) ->
  range_trivial s bs es -> resend_correct f s bs es.
Proof.
  intros Hst E Hrng. unfold resend_correct, serve_resend. rewrite E.
  exists []. rewrite app_nil_r.
  assert (Hr : match requested_range s bs es with
               | Some (lo, hi) => chain (rows s) f hi lo hi []
               | None => @nil row = []
               end).
  { destruct Hrng as [-> | (b & ->)]; [reflexivity|constructor]. }
  destruct Hst as [H|H]; rewrite H; cbn; rewrite ?H; auto 10.
Qed.

Lemma recover_none lo hi l : (forall r, In r l -> r_seq r < lo) -> recover lo hi l = [].
Proof.
  intros H. unfold recover. replace (filter _ l) with (@nil row); [reflexivity|].
  symmetry. induction l as [|x l IH]; [reflexivity|]. cbn.
  pose proof (H x (or_introl eq_refl)). destruct ((lo <=? r_seq x) && (r_seq x <=? hi)) eqn:E; [lia|].
  apply IH. intros r Hr. apply H. right; exact Hr.
Qed.

(* the request as the handler reads it: (max(1, int(tag 7)), int(tag 16)); None when unreadable *)
Definition parse_req (bs es : option str) : option (Z * Z) :=
  match bs, es with
  | Some bs, Some es =>
      match py_int bs, py_int es with
      | Some b0, Some e0 => Some (clamp1 b0, e0)
      | _, _ => None
      end
  | _, _ => None
  end.

(* an unreadable request (tag 7 / 16 absent or not an int() literal): nothing is sent, everything is
   as before - the right outcome for an invalid request *)
Lemma unreadable_correct f s bs es :
  (cstate s = ST_ACTIVE \/ cstate s = ST_AWAITING) -> parse_req bs es = None -> resend_correct f s bs es.
Proof.
  intros Hst Hp.
  assert (Hrng : range_trivial s bs es).
  { left. unfold requested_range. unfold parse_req in Hp.
    destruct bs as [bs|]; [|reflexivity]. destruct es as [es|]; [|reflexivity].
    destruct (py_int bs); [|reflexivity]. destruct (py_int es); [discriminate|reflexivity]. }
  unfold parse_req in Hp.
  destruct bs as [bs|].
  2:{ eapply nothing_sent_correct; [exact Hst|reflexivity|exact Hrng]. }
  destruct (py_int bs) as [b0|] eqn:Eb.
  2:{ eapply nothing_sent_correct; [exact Hst|unfold process_resend; rewrite Eb; reflexivity|exact Hrng]. }
  destruct es as [es|].
  2:{ eapply nothing_sent_correct; [exact Hst|unfold process_resend; rewrite Eb; reflexivity|exact Hrng]. }
  destruct (py_int es) as [e0|] eqn:Ee; [discriminate|].
  eapply nothing_sent_correct; [exact Hst|unfold process_resend; rewrite Eb, Ee; reflexivity|exact Hrng].
Qed.

(* THE theorem: every request - readable or not, any BeginSeqNo (below 1, beyond the last sent
   number, beyond 64 bits), any EndSeqNo (0, bounded, below BeginSeqNo, beyond 64 bits) -, every
   journal with unique keys below the counter (holes anywhere, rows that carry tag 43 / 122
   themselves), every filter, both start states: no class hypothesis is left *)
Lemma resend_total f s bs es :
  (cstate s = ST_ACTIVE \/ cstate s = ST_AWAITING) ->
  journal_ok s -> NoDup (map r_seq (rows s)) ->
  resend_correct f s bs es.
Proof.
  intros Hst Hj Hnd.
  destruct (parse_req bs es) as [[b e0]|] eqn:Hp; [|exact (unreadable_correct f s bs es Hst Hp)].
  unfold parse_req in Hp.
  destruct bs as [bs|]; [|discriminate]. destruct es as [es|]; [|discriminate].
  destruct (py_int bs) as [b0|] eqn:Eb; [|discriminate]. destruct (py_int es) as [e1|] eqn:Ee; [|discriminate].
  injection Hp as Hb <-.
  assert (H1 : 1 <= b) by (subst b; unfold clamp1; destruct (b0 <? 1) eqn:E; lia).
  pose proof Hj as (HJ & Hmax). rewrite Forall_forall in HJ.
  (* what the property asks when nothing that was sent is requested *)
  assert (Htriv : nout s <= b \/ (e1 <> 0 /\ e1 < b) -> range_trivial s (Some bs) (Some es)).
  { intros Hc. unfold range_trivial, requested_range. rewrite Eb, Ee. cbv zeta. rewrite Hb.
    destruct ((1 <=? b) && ((e1 =? 0) || (b <=? e1))) eqn:Hv; [|left; reflexivity].
    right. exists b. f_equal. f_equal. destruct (e1 =? 0) eqn:E0; lia. }
  assert (Hsa : forall x, process_resend f (Some bs) (Some es) s
                          = (if cstate s =? ST_AWAITING then s else state_set ST_HANDLING s, x)
                          -> nout s <= b \/ (e1 <> 0 /\ e1 < b) -> resend_correct f s (Some bs) (Some es)).
  { intros x E Hc. exact (nothing_sent_correct f s _ _ x Hst E (Htriv Hc)). }
  destruct (fits_int64 b && fits_int64 (eff_end e1)) eqn:Hfit.
  - apply andb_true_iff in Hfit as [Hfb Hfe].
    assert (Hmin : INT64_MIN <= e1).
    { unfold eff_end, fits_int64 in Hfe. assert (Hsm : sys_maxsize = INT64_MAX) by reflexivity. rewrite Hsm in Hfe.
      destruct (e1 =? 0) eqn:E0; cbn [orb] in Hfe; [unfold INT64_MIN; lia|].
      destruct (INT64_MAX <? e1) eqn:E1; unfold INT64_MIN, INT64_MAX in *; lia. }
    destruct (Z.leb_spec b (nout s)) as [Hle|Hgt].
    + (* the handler serves it *)
      apply (handler_correct_lift f s _ _ Hst).
      apply (resend_partial f s bs es b0 b e1 Eb Hb Ee Hst Hj Hle Hmin).
      exact (recover_rows_ok f s b (eff_end e1) Hnd).
    + (* BeginSeqNo beyond next_num_out: the range query is empty, the assertion aborts *)
      apply (Hsa (Some EAssertion)); [|left; lia].
      unfold process_resend. rewrite Eb, Ee, Hb.
      set (sa := if cstate s =? ST_AWAITING then s else state_set ST_HANDLING s).
      assert (Er : rows sa = rows s /\ nout sa = nout s) by (unfold sa; destruct (cstate s =? ST_AWAITING); auto).
      destruct Er as [Er En].
      unfold resend_body. fold (eff_end e1). rewrite Hfb, Hfe. cbn [andb negb].
      rewrite recover_none by (rewrite Er; intros r Hr; destruct (HJ _ Hr); lia).
      cbn [replay_loop]. rewrite En. destruct (b <=? nout s) eqn:E; [lia|]. reflexivity.
  - (* BeginSeqNo above 2^63-1 or EndSeqNo below -2^63: OverflowError before anything happens;
       nothing that was sent is asked for *)
    apply (Hsa (Some EOverflow)).
    + unfold process_resend. rewrite Eb, Ee, Hb. unfold resend_body. fold (eff_end e1). rewrite Hfit. reflexivity.
    + apply andb_false_iff in Hfit. unfold fits_int64, eff_end in Hfit.
      assert (Hsm : sys_maxsize = INT64_MAX) by reflexivity. rewrite Hsm in Hfit.
      destruct (e1 =? 0) eqn:E0; cbn [orb] in Hfit; [unfold INT64_MIN, INT64_MAX in *; left; lia|].
      destruct (INT64_MAX <? e1) eqn:E1; unfold INT64_MIN, INT64_MAX in *; lia.
Qed.

(* For every state, journal, request and filter - no hypothesis at all: serving a ResendRequest never
   changes the outbound journal, next_num_out or the stored counter; the only exceptions that can
   reach the dispatcher are AssertionError, DuplicatedTagError, TagNotFoundError, ValueError,
   OverflowError; the state afterwards is ACTIVE (RESENDREQ_AWAITING if it was), with or without an
   exception; every frame written carries a MsgSeqNum of at least 1. *)
Lemma serve_general f s bs es :
  let (s', x) := serve_resend f bs es s in
  rows s' = rows s /\ nout s' = nout s /\ sout s' = sout s
  /\ allowed_exc x
  /\ cstate s' = (if cstate s =? ST_AWAITING then ST_AWAITING else ST_ACTIVE)
  /\ exists W, wire s' = wire s ++ W /\ Forall (fun fr => 1 <= r_seq fr) W.
Proof.
  pose proof (resend_general f s bs es) as H. pose proof (resend_wire_positive f s bs es) as Hw.
  pose proof (serve_fields f bs es s) as Hf. cbv zeta in Hf.
  destruct (serve_resend f bs es s) as [s' x']. destruct (process_resend f bs es s) as [s0 x].
  cbn [fst snd] in *. destruct H as (Hr & Hn & Hso & Ha & Hc). destruct Hf as (Fw & Fr & Fn & Fso & Fc & Fx).
  subst x'. rewrite Fr, Fn, Fso, Fw. repeat split; try assumption.
  rewrite Fc, Hc. destruct (cstate s =? ST_AWAITING); [reflexivity|]. destruct x; reflexivity.
Qed.

(* in the two states in which a ResendRequest is served the state afterwards is the state before *)
Lemma serve_state_restored f s bs es :
  (cstate s = ST_ACTIVE \/ cstate s = ST_AWAITING) -> cstate (fst (serve_resend f bs es s)) = cstate s.
Proof.
  intros Hst. pose proof (serve_general f s bs es) as H.
  destruct (serve_resend f bs es s) as [s' x]. cbn [fst]. destruct H as (_ & _ & _ & _ & Hc & _).
  rewrite Hc. destruct Hst as [-> | ->]; reflexivity.
Qed.

(* answering a request leaves a state in which the hypotheses still hold *)
Lemma serve_repeatable f s bs es f2 bs2 es2 :
  (cstate s = ST_ACTIVE \/ cstate s = ST_AWAITING) ->
  journal_ok s -> NoDup (map r_seq (rows s)) ->
  resend_correct f2 (fst (serve_resend f bs es s)) bs2 es2.
Proof.
  intros Hst Hj Hnd.
  pose proof (serve_general f s bs es) as H. pose proof (serve_state_restored f s bs es Hst) as Hc.
  destruct (serve_resend f bs es s) as [s' x] eqn:E. cbn [fst] in *.
  destruct H as (Hr & Hn & _).
  apply resend_total.
  - rewrite Hc. exact Hst.
  - unfold journal_ok. rewrite Hr, Hn. exact Hj.
  - rewrite Hr. exact Hnd.
Qed.

(* pristine journals satisfy the hypotheses *)
Lemma pristine_total f s bs es :
  (cstate s = ST_ACTIVE \/ cstate s = ST_AWAITING) -> pristine s -> resend_correct f s bs es.
Proof.
  intros Hst (Hc & Hcl & Hlen & Hmax). rewrite Forall_forall in Hcl.
  pose proof (contig_seqs _ _ Hc) as Hseqs.
  apply resend_total; [exact Hst| |exact (contig_nodup _ _ Hc)].
  split; [|assumption]. apply Forall_forall. intros r Hr.
  specialize (Hseqs _ Hr). destruct (Hcl _ Hr). split; [lia|assumption].
Qed.

(* BeginSeqNo <= 0 is served exactly like BeginSeqNo = 1 *)
Definition dec (z : Z) : option str := Some (z_to_dec z).

Lemma begin_nonpositive_as_one f s bs es b :
  py_int bs = Some b -> b < 1 ->
  serve_resend f (Some bs) es s = serve_resend f (dec 1) es s
  /\ requested_range s (Some bs) es = requested_range s (dec 1) es
  /\ (resend_correct f s (Some bs) es <-> resend_correct f s (dec 1) es).
Proof.
  intros Hpb Hb.
  assert (E0 : process_resend f (Some bs) es s = process_resend f (dec 1) es s).
  { unfold process_resend, dec. rewrite Hpb. change (py_int (z_to_dec 1)) with (Some 1).
    replace (clamp1 b) with (clamp1 1); [reflexivity|]. unfold clamp1. destruct (b <? 1) eqn:E; [reflexivity|lia]. }
  assert (E1 : serve_resend f (Some bs) es s = serve_resend f (dec 1) es s) by (unfold serve_resend; rewrite E0; reflexivity).
  assert (E2 : requested_range s (Some bs) es = requested_range s (dec 1) es).
  { unfold requested_range, dec. rewrite Hpb. change (py_int (z_to_dec 1)) with (Some 1).
    replace (clamp1 b) with (clamp1 1); [reflexivity|]. unfold clamp1. destruct (b <? 1) eqn:E; [reflexivity|lia]. }
  split; [exact E1|]. split; [exact E2|]. unfold resend_correct. rewrite E1, E2. tauto.
Qed.

(* ------------------------------------------------------------------ concrete instances *)

Definition w_logon : row := mkRow 1 [65%N] (time_str 1) [([57; 56]%N, [48%N]); ([49; 48; 56]%N, [51; 48]%N)].
Definition w_app (n : Z) : row := mkRow n [68%N] (time_str n) [([49; 49]%N, 99%N :: z_to_dec n); ([53; 53]%N, [83; 89; 77]%N)].
Definition w_hb (n : Z) : row := mkRow n [48%N] (time_str n) [].
Definition w_state (st0 nxt : Z) (rs : list row) : st := mkSt st0 false None nxt (nxt - 1) (nxt - 1) rs [] [] [].
Definition w_all (r : row) : bool := true.

Ltac prove_pristine := unfold pristine; repeat split; try (vm_compute; congruence); repeat constructor.
Ltac prove_journal_ok := unfold journal_ok; repeat split; try (vm_compute; congruence); repeat constructor; vm_compute; congruence.
Ltac prove_nodup := vm_compute; repeat constructor; cbn; intuition congruence.
Ltac by_total := apply resend_total; [left; reflexivity|prove_journal_ok|prove_nodup].

(* bounded EndSeqNo: [Logon, D2, D3, D4], next 5, ResendRequest(2, 2) -> D2 only;
   ResendRequest(2, 3) over [Logon, D2, HB3, D4] -> D2, GapFill(3 -> 4) *)
Definition w_bounded := w_state ST_ACTIVE 5 [w_logon; w_app 2; w_app 3; w_app 4].
Definition w_bounded2 := w_state ST_ACTIVE 5 [w_logon; w_app 2; w_hb 3; w_app 4].
Lemma bounded_end_ok :
  resend_correct w_all w_bounded (dec 2) (dec 2) /\ resend_correct w_all w_bounded2 (dec 2) (dec 3)
  /\ map r_seq (wire (fst (serve_resend w_all (dec 2) (dec 2) w_bounded))) = [2]
  /\ (let s' := fst (serve_resend w_all (dec 2) (dec 3) w_bounded2) in
      map r_seq (wire s') = [2; 3] /\ map (fun r => get_tag T_NewSeqNo (r_body r)) (wire s') = [None; Some [52%N]]).
Proof. split; [by_total|]. split; [by_total|]. vm_compute. repeat split; reflexivity. Qed.

(* holes (D21): rows {1, 2, 4, 5}, next 6, ResendRequest(2, 0) -> D2, GapFill(3 -> 4), D4, D5 *)
Definition w_hole := w_state ST_ACTIVE 6 [w_logon; w_app 2; w_app 4; w_app 5].
Lemma hole_ok :
  resend_correct w_all w_hole (dec 2) (dec 0)
  /\ (let s' := fst (serve_resend w_all (dec 2) (dec 0) w_hole) in
      map r_seq (wire s') = [2; 3; 4; 5]
      /\ map (fun r => get_tag T_NewSeqNo (r_body r)) (wire s') = [None; Some [52%N]; None; None]).
Proof. split; [by_total|vm_compute; repeat split; reflexivity]. Qed.

(* holes, session rows, a declining filter and a bounded EndSeqNo together *)
Definition w_filter9 (r : row) : bool := negb (r_seq r =? 9).
Definition w_gappy := w_state ST_ACTIVE 13 [w_logon; w_app 2; w_app 5; w_hb 6; w_app 9; w_app 10].
Lemma holes_and_bounded_end_ok :
  resend_correct w_filter9 w_gappy (dec 2) (dec 10) /\ resend_correct w_filter9 w_gappy (dec 3) (dec 8)
  /\ (let s' := fst (serve_resend w_filter9 (dec 2) (dec 10) w_gappy) in
      map r_seq (wire s') = [2; 3; 5; 6; 10]
      /\ map (fun r => get_tag T_NewSeqNo (r_body r)) (wire s') = [None; Some [53%N]; None; Some [49; 48]%N; None])
  /\ (let s' := fst (serve_resend w_filter9 (dec 3) (dec 8) w_gappy) in
      map r_seq (wire s') = [3; 5; 6]
      /\ map (fun r => get_tag T_NewSeqNo (r_body r)) (wire s') = [Some [53%N]; None; Some [57%N]]).
Proof. split; [by_total|]. split; [by_total|]. vm_compute. repeat split; reflexivity. Qed.

(* a second request over an already replayed range is answered like the first *)
Definition w_first := w_state ST_ACTIVE 4 [w_logon; w_app 2; w_app 3].
Definition w_second := fst (serve_resend w_all (dec 2) (dec 0) w_first).
Lemma second_request_ok :
  resend_correct w_all w_first (dec 2) (dec 0)
  /\ rows w_second = rows w_first /\ nout w_second = 4
  /\ resend_correct w_all w_second (dec 2) (dec 0)
  /\ map r_seq (wire (fst (serve_resend w_all (dec 2) (dec 0) w_second))) = [2; 3; 2; 3].
Proof.
  split; [by_total|]. split; [reflexivity|]. split; [reflexivity|]. split; [|vm_compute; reflexivity].
  apply serve_repeatable; [left; reflexivity|prove_journal_ok|prove_nodup].
Qed.

(* requests that ask for nothing that was sent, or cannot be read: nothing is written, nothing changes,
   the state is ACTIVE again although the handler aborted *)
Definition w_small := w_state ST_ACTIVE 3 [w_logon; w_app 2].
Lemma unanswerable_requests_ok :
  resend_correct w_all w_small (dec 5) (dec 0)
  /\ resend_correct w_all w_small (Some [120%N]) (dec 0)
  /\ resend_correct w_all w_small None (dec 0)
  /\ serve_resend w_all (dec 5) (dec 0) w_small
     = (mkSt ST_ACTIVE false None 3 2 2 (rows w_small) [] [] [ST_HANDLING; ST_ACTIVE], Some EAssertion)
  /\ serve_resend w_all (Some [120%N]) (dec 0) w_small
     = (mkSt ST_ACTIVE false None 3 2 2 (rows w_small) [] [] [ST_HANDLING; ST_ACTIVE], Some EValue).
Proof. split; [by_total|]. split; [by_total|]. split; [by_total|]. split; vm_compute; reflexivity. Qed.

(* BeginSeqNo <= 0, concretely *)
Lemma begin_nonpositive_example :
  resend_correct w_all w_small (dec 0) (dec 0) /\ resend_correct w_all w_small (dec (-3)) (dec 0)
  /\ (let (s', x) := serve_resend w_all (dec (-3)) (dec 0) w_small in
      x = None /\ map r_seq (wire s') = [1; 2] /\ map r_type (wire s') = [MT_SEQUENCERESET; [68%N]]
      /\ cstate s' = ST_ACTIVE /\ nout s' = 3).
Proof. split; [by_total|]. split; [by_total|]. vm_compute. repeat split; reflexivity. Qed.

(* EndSeqNo = 2^63 (was C06-end-beyond-64-bits): answered like EndSeqNo = 0 *)
Definition two63 : Z := 9223372036854775808.
Lemma end_beyond_64_ok :
  resend_correct w_all w_small (dec 2) (dec two63)
  /\ (let (s', x) := serve_resend w_all (dec 2) (dec two63) w_small in
      x = None /\ map r_seq (wire s') = [2] /\ map r_type (wire s') = [[68%N]] /\ cstate s' = ST_ACTIVE).
Proof. split; [by_total|vm_compute; repeat split; reflexivity]. Qed.

(* journaled application messages that themselves carry tag 43 / 122 (was C06-row-carries-possdup-tags):
   row 2 = [11=c2; 43=N; 55=SYM] is retransmitted as [11=c2; 43=Y; 55=SYM; 122=T2] (43 overwritten in
   place, 122 appended); row 3 = [122=X; 11=c3] as [122=T3; 11=c3; 43=Y] (122 overwritten in place with
   the journaled SendingTime, 43 appended) *)
Definition w_tagged := w_state ST_ACTIVE 4
  [w_logon;
   mkRow 2 [68%N] (time_str 2) [([49; 49]%N, [99; 50]%N); (T_PossDupFlag, V_N); ([53; 53]%N, [83; 89; 77]%N)];
   mkRow 3 [68%N] (time_str 3) [(T_OrigSendingTime, [88%N]); ([49; 49]%N, [99; 51]%N)]].
Lemma possdup_tags_ok :
  resend_correct w_all w_tagged (dec 2) (dec 0)
  /\ (let (s', x) := serve_resend w_all (dec 2) (dec 0) w_tagged in
      x = None /\ map r_seq (wire s') = [2; 3]
      /\ map r_body (wire s')
         = [[([49; 49]%N, [99; 50]%N); (T_PossDupFlag, V_Y); ([53; 53]%N, [83; 89; 77]%N); (T_OrigSendingTime, time_str 2)];
            [(T_OrigSendingTime, time_str 3); ([49; 49]%N, [99; 51]%N); (T_PossDupFlag, V_Y)]]
      /\ rows s' = rows w_tagged /\ cstate s' = ST_ACTIVE).
Proof. split; [by_total|vm_compute; repeat split; reflexivity]. Qed.

(* non-vacuity of the theorem's hypotheses: a journal with every kind of row in RESENDREQ_AWAITING *)
Definition w_filter (r : row) : bool := negb (r_seq r =? 6).
Definition w_rich := w_state ST_AWAITING 9 [w_logon; w_app 2; w_hb 3; mkRow 4 MT_SEQUENCERESET (time_str 4) [(T_NewSeqNo, [53%N])]; w_app 5; w_app 6; w_hb 7].
Lemma nonvacuous :
  journal_ok w_rich /\ NoDup (map r_seq (rows w_rich)) /\ cstate w_rich = ST_AWAITING
  /\ (let s' := fst (serve_resend w_filter (dec 2) (dec 0) w_rich) in
      map r_seq (wire s') = [2; 3; 5; 6] /\ map r_type (wire s') = [[68%N]; MT_SEQUENCERESET; [68%N]; MT_SEQUENCERESET]
      /\ map (fun r => get_tag T_NewSeqNo (r_body r)) (wire s') = [None; Some [53%N]; None; Some [57%N]]
      /\ rows s' = rows w_rich /\ nout s' = 9 /\ cstate s' = ST_AWAITING).
Proof.
  split; [prove_journal_ok|]. split; [prove_nodup|]. split; [reflexivity|]. vm_compute. repeat split; reflexivity.
Qed.

(* the session-level test compares the WHOLE MsgType value: application types of which a
   session-level value is a proper prefix (AE, AB, A1, 0Q, 1A, 2Z, 4B, 5X) are not session level,
   and a type is session level exactly when it equals one of the six values *)
Lemma is_sess_type_equality t : is_sess_type t = true <-> In t noreply_msgs.
Proof.
  unfold is_sess_type, mem_str. rewrite existsb_exists. split.
  - intros (x & Hin & E). apply str_eqb_eq in E. subst x. exact Hin.
  - intros Hin. exists t. split; [exact Hin|apply str_eqb_refl].
Qed.

Definition w_prefix_types : list str :=
  [[65; 69]; [65; 66]; [65; 49]; [48; 81]; [49; 65]; [50; 90]; [52; 66]; [53; 88]]%N.
Definition w_typed (n : Z) (t : str) : row := mkRow n t (time_str n) [([49; 49]%N, 99%N :: z_to_dec n)].
Definition w_prefixed := w_state ST_ACTIVE 6
  [w_logon; w_typed 2 [65; 69]%N; w_typed 3 [53; 88]%N; w_hb 4; w_typed 5 [49; 65]%N].
Lemma prefix_types_ok :
  forallb (fun t => negb (is_sess_type t)) w_prefix_types = true
  /\ resend_correct w_all w_prefixed (dec 1) (dec 0)
  /\ (let s' := fst (serve_resend w_all (dec 1) (dec 0) w_prefixed) in
      map r_seq (wire s') = [1; 2; 3; 4; 5]
      /\ map r_type (wire s') = [MT_SEQUENCERESET; [65; 69]%N; [53; 88]%N; MT_SEQUENCERESET; [49; 65]%N]).
Proof. split; [vm_compute; reflexivity|]. split; [by_total|vm_compute; repeat split; reflexivity]. Qed.
