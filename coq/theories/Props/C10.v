(* C10 - the decoder is total, makes progress and never accepts a corrupted frame.
   Theorems only (proofs in AF.Lemmas.DecodeTotalL / StrA).  All statements are about the
   validated model `decode G bs raw true` (Codec.decode in silent mode) on ARBITRARY text `raw`,
   for every group table G and expected BeginString bs; witnesses use the table and BeginString
   regenerated from /repo (TBL, BS) and are replayable byte strings.
   The property as written is false in four independent ways (D7, D8); each part is stated in
   full, the true part is proved as `_partial` / exact characterisation, and the false part is
   refuted by a concrete witness. *)
From Coq Require Import ZArith NArith List Bool.
From AF Require Import Base.Sx Py.Str Fix.Codec Fix.Framing Lemmas.StrA Lemmas.DecodeTotalL.
Import ListNotations.
Open Scope N_scope.

(* ---------------------------------------------------------------- (a) exceptions *)

(* the only exceptions silent decode can raise: ValueError (int() of BodyLength or of a
   CheckSum value), FIXMessageError (a tag int() rejects), AttributeError (a tag already stored at
   the root arrives after all open groups were closed).  In particular never AssertionError,
   DuplicatedTagError, RepeatingTagError, TagNotFoundError, EncodingError. *)
Theorem C10_exception_kinds : forall G bs raw e,
  decode G bs raw true = Exc e -> e = EValue \/ e = EFIXMessage \/ e = EAttribute.
Proof. exact decode_exc_kinds. Qed.
Print Assumptions C10_exception_kinds.

(* "never raises" is false (D7): one witness per site *)
Theorem C10_no_raise_refuted :
  dec w_blen = Exc EValue /\ dec w_cks = Exc EValue /\ dec w_tag = Exc EFIXMessage /\ dec w_dup = Exc EAttribute.
Proof. exact raise_witnesses. Qed.
Print Assumptions C10_no_raise_refuted.

(* it holds under four computable conditions on the field list of the frame text ... *)
Theorem C10_no_raise_partial : forall G bs raw,
  tags_int (frame_fields raw) = true -> blen_int (frame_fields raw) = true ->
  cks_int (frame_fields raw) = true -> no_dup_after_group G (frame_fields raw) = true ->
  exists m n r, decode G bs raw true = Ok (m, n, r).
Proof. exact decode_no_raise. Qed.
Print Assumptions C10_no_raise_partial.

(* ... each of which is necessary (every witness above violates exactly one of them) ... *)
Theorem C10_no_raise_hypotheses_tight :
  (tags_int (frame_fields w_blen), blen_int (frame_fields w_blen), cks_int (frame_fields w_blen),
   no_dup_after_group TBL (frame_fields w_blen)) = (true, false, true, true)
  /\ (tags_int (frame_fields w_cks), blen_int (frame_fields w_cks), cks_int (frame_fields w_cks),
      no_dup_after_group TBL (frame_fields w_cks)) = (true, true, false, true)
  /\ (tags_int (frame_fields w_tag), blen_int (frame_fields w_tag), cks_int (frame_fields w_tag),
      no_dup_after_group TBL (frame_fields w_tag)) = (false, true, true, true)
  /\ (tags_int (frame_fields w_dup), blen_int (frame_fields w_dup), cks_int (frame_fields w_dup),
      no_dup_after_group TBL (frame_fields w_dup)) = (true, true, true, false).
Proof. exact raise_witnesses_hyps. Qed.
Print Assumptions C10_no_raise_hypotheses_tight.

(* ... and which a three-level nested-group frame satisfies (non-vacuity) *)
Theorem C10_no_raise_nonvacuous :
  tags_int (frame_fields w_nested) = true /\ blen_int (frame_fields w_nested) = true
  /\ cks_int (frame_fields w_nested) = true /\ no_dup_after_group TBL (frame_fields w_nested) = true
  /\ dec_summary w_nested = Some (true, 130%Z, true).
Proof. exact no_raise_nonvacuous. Qed.
Print Assumptions C10_no_raise_nonvacuous.

(* ---------------------------------------------------------------- (b) consumed length *)

(* the consumed length is the buffer length, the marker offset, or the marker offset plus
   len(field 0) + len(field 1) + 9 + the BodyLength that was read *)
Theorem C10_consumed_shape : forall G bs raw m n r,
  decode G bs raw true = Ok (m, n, r) ->
  n = zlen raw \/
  exists i, find_sub MARK raw = Some i /\
    (n = Z.of_nat i \/
     exists f0 f1 rest bl,
       frame_fields raw = f0 :: f1 :: rest /\ frame_blen raw = Some bl
       /\ n = (Z.of_nat i + (zlen f0 + zlen f1 + 9 + bl))%Z
       /\ (zlen f0 + zlen f1 + 9 + bl <= zlen raw)%Z).
Proof. exact decode_consumed_shape. Qed.
Print Assumptions C10_consumed_shape.

(* 0 <= n when the BodyLength read is not negative; n exceeds the buffer by at most the junk
   before the marker, hence n <= len when the frame starts the buffer *)
Theorem C10_consumed_bounds_partial : forall G bs raw m n r,
  decode G bs raw true = Ok (m, n, r) ->
  ((forall bl, frame_blen raw = Some bl -> (0 <= bl)%Z) -> (0 <= n)%Z)
  /\ (n <= zlen raw + marker_offset raw)%Z
  /\ (marker_offset raw = 0%Z -> (n <= zlen raw)%Z).
Proof. exact decode_consumed_bounds. Qed.
Print Assumptions C10_consumed_bounds_partial.

Theorem C10_consumed_negative_refuted :
  exists raw m n r, decode TBL BS raw true = Ok (m, n, r) /\ (n < 0)%Z.
Proof. exact consumed_negative_refuted. Qed.
Print Assumptions C10_consumed_negative_refuted.

Theorem C10_consumed_negative_values :
  dec_summary w_neg = Some (true, (-975)%Z, true) /\ dec_summary w_negbad = Some (false, (-975)%Z, false).
Proof. exact consumed_negative_values. Qed.
Print Assumptions C10_consumed_negative_values.

Theorem C10_consumed_overlong_refuted :
  exists raw m n r, decode TBL BS raw true = Ok (m, n, r) /\ (zlen raw < n)%Z.
Proof. exact consumed_overlong_refuted. Qed.
Print Assumptions C10_consumed_overlong_refuted.

Theorem C10_consumed_overlong_values : dec_summary w_over = Some (true, 47%Z, true) /\ zlen w_over = 37%Z.
Proof. exact consumed_overlong_values. Qed.
Print Assumptions C10_consumed_overlong_values.

(* ---------------------------------------------------------------- (c) acceptance *)

(* a returned message: the raw text is the slice of the input from the marker to the next marker
   (or the end); it has at least three fields; it reads X SOH <last field> [SOH]; BeginString is
   the expected one; BodyLength parses; and some field "10=v" has int(v) = (sum(X) + 1) mod 256 *)
Theorem C10_accept_sound : forall G bs raw m n r,
  decode G bs raw true = Ok (Some m, n, r) ->
  exists i, find_sub MARK raw = Some i /\ r = Some (dec_encoded i raw) /\
    let fs := dec_fields i raw in
    let X := join SOHs (removelast fs) in
    (3 <= length fs)%nat
    /\ (exists tail, (tail = [] \/ tail = SOHs) /\ dec_encoded i raw = X ++ SOHs ++ last fs [] ++ tail)
    /\ (exists t0 v1 bl, nth 0 fs [] = field t0 bs /\ nth 1 fs [] = field T9 v1 /\ py_int v1 = Some bl)
    /\ exists v, In (field T10 v) fs /\ py_int v = Some (Z.of_N ((sum_codes X + 1) mod 256)).
Proof. exact decode_accept_sound. Qed.
Print Assumptions C10_accept_sound.

(* "BodyLength consistent with the bytes" is false (D8) *)
Theorem C10_bodylength_unchecked_refuted :
  exists raw m n, decode TBL BS raw true = Ok (Some m, n, Some raw)
    /\ frame_blen raw = Some 2%Z /\ well_framedb raw = false /\ (n < zlen raw)%Z.
Proof. exact bodylength_unchecked_refuted. Qed.
Print Assumptions C10_bodylength_unchecked_refuted.

(* "no single-byte corruption is returned as a message" is false (D8): '0' -> ' ' in a CheckSum
   with a leading zero gives the same message *)
Theorem C10_checksum_lenient_refuted :
  exists raw m n, decode TBL BS raw true = Ok (Some m, n, Some raw) /\ well_framedb raw = false
    /\ exists raw', well_framedb raw' = true /\ length raw' = length raw
         /\ decode TBL BS raw' true = Ok (Some (mkMsg (msg_type m)
               (ct_put T10 (VStr [48; 51; 50]) (msg_tags m))), n, Some raw').
Proof. exact checksum_lenient_refuted. Qed.
Print Assumptions C10_checksum_lenient_refuted.

Theorem C10_checksum_lenient_values :
  dec_summary w_lenient = Some (true, 34%Z, true) /\ dec_summary w_lenient_plus = Some (true, 34%Z, true)
  /\ dec_summary w_lz = Some (true, 34%Z, true).
Proof. exact checksum_lenient_values. Qed.
Print Assumptions C10_checksum_lenient_values.

(* the CheckSum field need not be last: a field after it is outside the sum and is returned *)
Theorem C10_fields_after_checksum_refuted :
  exists raw m n, decode TBL BS raw true = Ok (Some m, n, Some raw)
    /\ ct_get [49] (msg_tags m) = Some (VStr [101; 118; 105; 108])
    /\ last (frame_fields raw) [] = field [49] [101; 118; 105; 108]
    /\ well_framedb raw = false.
Proof. exact trailing_field_unchecked_refuted. Qed.
Print Assumptions C10_fields_after_checksum_refuted.

(* the part of "no single-byte corruption is returned" that holds: one byte replaced inside the
   value of a field that is neither a CheckSum field nor the last field, the field structure
   otherwise unchanged (no SOH / marker introduced or destroyed), is never returned as a message:
   the expected sum moves by a non-zero amount below 256 while the CheckSum field stays *)
Theorem C10_subst_detected_partial : forall G bs raw raw' pre t a x y c post,
  frame_fields raw = pre ++ field t (a ++ x :: c) :: post ->
  frame_fields raw' = pre ++ field t (a ++ y :: c) :: post ->
  post <> [] -> t <> T10 -> ~ In 61 t -> x <> y -> x < 256 -> y < 256 ->
  (exists m n r, decode G bs raw true = Ok (Some m, n, r)) ->
  forall m' n' r', decode G bs raw' true <> Ok (Some m', n', r').
Proof. exact decode_subst_detected. Qed.
Print Assumptions C10_subst_detected_partial.

Theorem C10_subst_nonvacuous :
  let pre := [field T8 BS; field T9 [49; 50]; field T35 [48]] in
  let post := [field T10 [48; 51; 50]] in
  frame_fields w_lz = pre ++ field [53; 56] ([50; 57] ++ 57 :: []) :: post
  /\ frame_fields w_lz_subst = pre ++ field [53; 56] ([50; 57] ++ 56 :: []) :: post
  /\ dec_summary w_lz = Some (true, 34%Z, true)
  /\ dec_summary w_lz_subst = Some (false, 34%Z, false).
Proof. exact subst_example. Qed.
Print Assumptions C10_subst_nonvacuous.

(* ---------------------------------------------------------------- (d) progress *)

(* the inner loop of socket_read_task ends within len(buffer) + 1 iterations provided every
   message returned for a suffix of the buffer comes with a positive length ... *)
Theorem C10_reader_terminates : forall G bs buf chunk,
  suffix_progress G bs (buf ++ chunk) -> status (reader_step G bs buf chunk) <> 2.
Proof. exact reader_step_terminates. Qed.
Print Assumptions C10_reader_terminates.

(* ... because each such iteration strictly shortens the buffer ... *)
Theorem C10_reader_iteration_shrinks : forall G bs buf m n r,
  decode G bs buf true = Ok (Some m, n, r) -> (0 < n)%Z ->
  (length (skipn (Z.to_nat n) buf) < length buf)%nat.
Proof. exact reader_iteration_shrinks. Qed.
Print Assumptions C10_reader_iteration_shrinks.

(* ... which is the case when no suffix of the buffer carries a negative BodyLength *)
Theorem C10_progress_partial : forall G bs buf,
  (forall k bl, frame_blen (skipn k buf) = Some bl -> (0 <= bl)%Z) -> suffix_progress G bs buf.
Proof. exact nonneg_blen_progress. Qed.
Print Assumptions C10_progress_partial.

(* "one malformed frame can never block the frames that follow it" is false (D7, D8) *)
Theorem C10_stall_refuted :
  exists first, delivered (run2 first) = [] /\ residual (run2 first) = first ++ w_good ++ w_good
    /\ length (delivered (reader_run TBL BS [] [w_good; w_good])) = 2%nat.
Proof. exact stall_refuted. Qed.
Print Assumptions C10_stall_refuted.

Theorem C10_stall_negative_bodylength : run2 w_negbad = (w_negbad ++ w_good ++ w_good, [], [0; 0]).
Proof. exact stall_negative_refuted. Qed.
Print Assumptions C10_stall_negative_bodylength.

Theorem C10_stall_raising_frame : run2 w_blen = (w_blen ++ w_good ++ w_good, [], [1; 1]).
Proof. exact stall_raising_refuted. Qed.
Print Assumptions C10_stall_raising_frame.

Theorem C10_stall_fragment :
  dec_summary (w_frag ++ w_good) = Some (false, 0%Z, false)
  /\ run2 w_frag = (w_frag ++ w_good ++ w_good, [], [0; 0]).
Proof. exact stall_fragment_refuted. Qed.
Print Assumptions C10_stall_fragment.

(* the opposite failure: a frame with a wrong BeginString makes decode report the whole buffer
   as consumed, so a good frame received in the same read is discarded with it *)
Theorem C10_drop_buffer_refuted :
  dec_summary (w_badbs ++ w_good) = Some (false, zlen (w_badbs ++ w_good), false)
  /\ reader_run TBL BS [] [w_badbs ++ w_good] = ([], [], [0])
  /\ length (delivered (reader_run TBL BS [] [w_badbs; w_good])) = 1%nat.
Proof. exact drop_buffer_refuted. Qed.
Print Assumptions C10_drop_buffer_refuted.

(* "repeated decoding of any buffer terminates" is false (D8): a negative BodyLength with a
   correct checksum is handed to the session for ever *)
Theorem C10_livelock_refuted :
  status (reader_step TBL BS [] (w_neg ++ w_good)) = 2
  /\ residual (reader_step TBL BS [] (w_neg ++ w_good)) = w_neg ++ w_good
  /\ length (delivered (reader_step TBL BS [] (w_neg ++ w_good))) = S (length (w_neg ++ w_good)).
Proof. exact spin_negative_refuted. Qed.
Print Assumptions C10_livelock_refuted.
