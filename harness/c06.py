"""C06 - a ResendRequest is answered completely, in order and without side effects.

Theorems (Props/C06.v) are about coq/theories/Fix/Resend.v, a message-level model of
AsyncFIXConnection._process_resend with what it calls (Journaler.recover_messages / set_seq_num /
persist_msg, send_msg, the codec's sequence-number selection).  This harness ties the model to the
code: a real AsyncFIXDummyServer over a real SQLite Journaler (no sockets: fake writer, dummy
reader) sends a journal of messages, optionally answers earlier ResendRequests (leftovers) and
loses rows (holes), then receives one ResendRequest frame.  The extracted model is run on the
observed pre-state and must reproduce the reply frames, the journal, the counters, the state and
the swallowed exception class; an independent oracle written from the property text decides the
property on the implementation's behaviour.

A case (JSON):
  {"slots": [...], "begin": "2" | null, "end": "0" | null, "state": "ACTIVE" | "AWAITING"}
slot k (1-based) describes outbound number k:  <type><flags>
  type  A Logon (slot 1 is always the real Logon reply)  0 Heartbeat  1 TestRequest  2 ResendRequest
        4 SequenceReset  5 Logout  D NewOrderSingle  J AllocationInstruction (repeating group)
        8 ExecutionReport
  flags d  the application's replay filter declines this number
        l  leftover: the number was already covered by an earlier, complete ResendRequest
           (maximal runs of l-slots are re-requested right after their last message was sent)
        h  the row is missing from the journal (deleted after everything else)
state AWAITING: the connection itself awaits a resend (a too-high inbound message made it send a
ResendRequest, which occupies one more outbound number after the slots).
"""
import asyncio
import faulthandler
import json
import logging
import os
import sys
import time

from vlib.core import sx

META = {
    "level": "proof",
    "tables": ["GenEnums"],
    "files": ["asyncfix/connection.py", "asyncfix/journaler.py", "asyncfix/codec.py", "asyncfix/session.py"],
    "rule": "exhaustive journals up to length 2 over the slot alphabet, random journals up to length 8 (thorough 12) with "
            "slots in {3 application types, 6 session types, declined, hole, leftover of an earlier resend} x ALL (Begin, End) "
            "in [-1, len+2]^2 incl. End=0 x {ACTIVE, RESENDREQ_AWAITING}, plus a malformed stream (missing / non-numeric / "
            "lenient / 64-bit-overflowing BeginSeqNo, EndSeqNo); a case is one (journal, request, start state); non-trivial "
            "when the request is well formed with 1 <= Begin < next_num_out (something is replayed or gap-filled); distinct by "
            "canonical case",
    "trusted_base": [
        "message-level abstraction of Fix/Resend.v: a journal row is (number, MsgType, SendingTime, flat body fields); "
        "Codec.decode/encode of codec-produced frames is taken to be the identity on that view (validated on every case here; C01)",
        "noreply_msgs literal and the state numbers are hand-copied / taken from GenEnums; every session type is a journal slot here",
        "SQLite journal modelled as a keyed row list with a stored counter (C13 validates the byte-level journal)",
    ],
    "assumptions": [
        "journal rows are frames produced by this codec (canonical 34, body tags canonical decimal and distinct from the header tags)",
        "single task: nothing else sends while the request is handled (C14 covers interleavings)",
        "acceptor role (AsyncFIXDummyServer); the send gates of an initiator are not reachable from the resend handler",
    ],
}

SESSION_TYPES = ["A", "0", "1", "2", "4", "5"]
APP_TYPES = ["D", "J", "8"]
ST = {"ACTIVE": 17, "AWAITING": 12, "HANDLING": 10}
EXC_CODES = {
    None: 0, "AssertionError": 1, "DuplicatedTagError": 2, "TagNotFoundError": 3, "ValueError": 4,
    "DuplicateSeqNoError": 5, "FIXConnectionError": 6, "OverflowError": 7, "EncodingError": 8,
}
INT64_MAX = 2 ** 63 - 1


# =========================================================================================
# Implementation driver.  All private-name access of asyncfix lives in class Adapter.
# =========================================================================================

class Adapter:
    """The only place that touches private names of asyncfix."""

    @staticmethod
    async def accept(conn, reader, writer):
        await conn._handle_accept(reader, writer)

    @staticmethod
    async def deliver(conn, msg, raw):
        await conn._process_message(msg, raw)

    @staticmethod
    def session(conn):
        return conn._session

    @staticmethod
    def codec(conn):
        return conn._codec


class FakeWriter:
    def __init__(self):
        self.frames = []
        self.closed = False

    def write(self, data):
        self.frames.append(bytes(data))

    async def drain(self):
        return None

    def close(self):
        self.closed = True

    async def wait_closed(self):
        return None

    def get_extra_info(self, name, default=None):
        return ("harness", 0)


class DummyReader:
    def __bool__(self):
        return True

    async def read(self, n=-1):
        await asyncio.sleep(3600)
        return b""


class ExcCatcher(logging.Handler):
    """Records the class of exceptions the library swallows and logs with log.exception."""

    def __init__(self):
        super().__init__(level=logging.ERROR)
        self.classes = []

    def emit(self, record):
        if record.exc_info and record.exc_info[0] is not None:
            self.classes.append(record.exc_info[0].__name__)


class Clock:
    """Codec.current_datetime replacement: T<k>, one tick per encoded frame of the connection under test."""

    def __init__(self):
        self.t = 0

    def __call__(self):
        self.t += 1
        return "T%d" % self.t


def split_frame(raw):
    """Flat (tag, value) list of a frame, independent of the codec."""
    parts = raw.decode("latin-1").split("\x01")
    assert parts[-1] == "", raw
    out = []
    for p in parts[:-1]:
        t, _, v = p.partition("=")
        out.append((t, v))
    return out


def row_of_frame(raw, key=None):
    """(seq, type, time, body) view of a codec-produced frame; body = fields after 52 up to 10."""
    f = split_frame(raw)
    tags = [t for t, _ in f[:7]]
    if tags != ["8", "9", "35", "49", "56", "34", "52"] or f[-1][0] != "10":
        raise ValueError("unexpected frame layout %r" % (raw,))
    seq = int(f[5][1])
    if key is not None and key != seq:
        raise ValueError("row key %r differs from its MsgSeqNum %r" % (key, seq))
    return [seq, f[2][1], f[6][1], [[t, v] for t, v in f[7:-1]]]


class Env:
    """One real connection + journal + peer."""

    def __init__(self, declined=()):
        from asyncfix import FIXMessage, FMsg, FTag  # noqa: F401
        from asyncfix.codec import Codec
        from asyncfix.connection_server import AsyncFIXDummyServer
        from asyncfix.journaler import Journaler
        from asyncfix.protocol import FIXProtocol44
        from asyncfix.session import FIXSession

        self.declined = set(declined)
        self.replay_calls = []
        env = self

        class Server(AsyncFIXDummyServer):
            async def should_replay(self, historical_replay_msg):
                n = int(historical_replay_msg[FTag.MsgSeqNum])
                env.replay_calls.append(n)
                return n not in env.declined

        class PeerCodec(Codec):
            @staticmethod
            def current_datetime():
                return "P"

        self.clock = Clock()
        self._orig_dt = Codec.current_datetime
        Codec.current_datetime = staticmethod(self.clock)
        self.Codec = Codec
        self.catcher = ExcCatcher()
        self.log = logging.getLogger("c06.%d" % id(self))
        self.log.propagate = False
        self.log.setLevel(logging.ERROR)
        self.log.addHandler(self.catcher)
        self.journaler = Journaler(None)
        self.conn = Server(FIXProtocol44(), "SRV", "CLI", self.journaler, "localhost", 0, 30, self.log)
        self.peer_codec = PeerCodec(FIXProtocol44())
        self.peer = FIXSession(99, "SRV", "CLI")   # the peer sends 49=CLI 56=SRV
        self.peer.next_num_out = 1
        self.peer.next_num_in = 1
        self.writer = FakeWriter()

    def close(self):
        self.Codec.current_datetime = self._orig_dt
        self.log.removeHandler(self.catcher)

    # ---- peer side
    async def peer_send(self, msg, seq=None):
        """Encode a real frame on the peer's session and hand it to the dispatcher."""
        from asyncfix import FTag
        if seq is not None:
            self.peer.next_num_out = seq
        raw = self.peer_codec.encode(msg, self.peer).encode("latin-1")
        dec, n, rawmsg = self.peer_codec.decode(raw, silent=False)
        assert n == len(raw)
        await Adapter.deliver(self.conn, dec, rawmsg)

    # ---- observation
    def sess(self):
        return Adapter.session(self.conn)

    def rows(self):
        out = []
        for seq, raw, direction, sid in self.journaler.get_all_msgs(direction=__import__("asyncfix").message.MessageDirection.OUTBOUND):
            out.append(row_of_frame(raw, seq))
        out.sort(key=lambda r: r[0])
        return out

    def inbound_keys(self):
        from asyncfix.message import MessageDirection
        return sorted(r[0] for r in self.journaler.get_all_msgs(direction=MessageDirection.INBOUND))

    def stored(self):
        s = list(self.journaler.sessions().values())
        assert len(s) == 1
        return s[0].next_num_out - 1, s[0].next_num_in - 1

    def snapshot(self):
        so, si = self.stored()
        return {"state": int(self.conn.connection_state), "nout": self.sess().next_num_out, "sout": so,
                "nin": self.sess().next_num_in, "sin": si, "clock": self.clock.t, "rows": self.rows(),
                "inbound": self.inbound_keys()}


def parse_slot(s):
    return s[0], set(s[1:])


async def build(env, slots, state):
    """Send the journal of a case for real; returns the number of outbound numbers used."""
    from asyncfix import FIXMessage, FMsg, FTag
    from asyncfix.connection import ConnectionState
    from asyncfix.message import MessageDirection

    conn, j = env.conn, env.journaler
    await Adapter.accept(conn, DummyReader(), env.writer)
    # real logon: the peer's Logon makes the acceptor reply (outbound number 1) and go ACTIVE
    await env.peer_send(FIXMessage(FMsg.LOGON, {FTag.EncryptMethod: 0, FTag.HeartBtInt: 30}))
    assert conn.connection_state == ConnectionState.ACTIVE, conn.connection_state
    assert parse_slot(slots[0])[0] == "A"
    run_start = None
    for k, s in enumerate(slots, start=1):
        typ, flags = parse_slot(s)
        sess = env.sess()
        assert sess.next_num_out == (k if k > 1 else 2), (k, sess.next_num_out)
        if k == 1:
            pass
        elif typ == "D":
            await conn.send_msg(FIXMessage(FMsg.NEWORDERSINGLE, {11: "c%d" % k, 55: "SYM", 54: 1, 38: 10 * k}))
        elif typ == "J":
            await conn.send_msg(FIXMessage("J", {70: "a%d" % k, 78: [{79: "x", 80: 1}, {79: "y", 80: 2, 467: "i"}], 58: "t=%d" % k}))
        elif typ == "8":
            await conn.send_msg(FIXMessage(FMsg.EXECUTIONREPORT, {37: "o%d" % k, 17: "e%d" % k, 150: "0", 39: "0"}))
        elif typ == "A":
            await conn.send_msg(FIXMessage(FMsg.LOGON, {FTag.EncryptMethod: 0, FTag.HeartBtInt: 30}))
        elif typ == "0":
            await conn.send_msg(FIXMessage(FMsg.HEARTBEAT))
        elif typ == "1":
            await conn.send_test_req()
            # the peer answers, which clears the pending TestReqID
            req_id = split_dict(env.writer.frames[-1])["112"]
            await env.peer_send(FIXMessage(FMsg.HEARTBEAT, {FTag.TestReqID: req_id}))
        elif typ == "2":
            await conn.send_msg(FIXMessage(FMsg.RESENDREQUEST, {FTag.BeginSeqNo: 1, FTag.EndSeqNo: 0}))
        elif typ == "4":
            await conn.send_msg(FIXMessage(FMsg.SEQUENCERESET, {FTag.MsgSeqNum: k, FTag.NewSeqNo: k + 1}))
            j.set_seq_num(sess, next_num_out=k + 1)     # the application moves its own counter past the reset
        elif typ == "5":
            # Logout through send_msg would be fine in ACTIVE, but disconnect() is the only sender of it
            # and closes the session: journal an encoded Logout directly.
            raw = Adapter.codec(conn).encode(FIXMessage(FMsg.LOGOUT, {58: "bye"}), sess).encode("utf-8")
            j.persist_msg(raw, sess, MessageDirection.OUTBOUND)
        else:
            raise ValueError("slot %r" % s)
        assert env.sess().next_num_out == k + 1, (s, env.sess().next_num_out)
        if "l" in flags and run_start is None:
            run_start = k
        nxt_l = k < len(slots) and "l" in parse_slot(slots[k])[1]
        if run_start is not None and not nxt_l:
            await env.peer_send(FIXMessage(FMsg.RESENDREQUEST, {FTag.BeginSeqNo: run_start, FTag.EndSeqNo: 0}))
            assert conn.connection_state == ConnectionState.ACTIVE and env.sess().next_num_out == k + 1, \
                "earlier resend did not complete: %r" % (slots,)
            run_start = None
    for k, s in enumerate(slots, start=1):
        if "h" in parse_slot(s)[1]:
            j.conn.execute("DELETE FROM message WHERE seqNo = ? AND direction = ?", (k, MessageDirection.OUTBOUND.value))
            j.conn.commit()
    n = len(slots)
    if state == "AWAITING":
        # a too-high application message: the connection sends its own ResendRequest and awaits
        await env.peer_send(FIXMessage(FMsg.NEWORDERSINGLE, {11: "gap"}), seq=env.peer.next_num_out + 2)
        assert conn.connection_state == ConnectionState.RESENDREQ_AWAITING
        n += 1
    env.writer.frames.clear()
    env.replay_calls.clear()
    env.catcher.classes.clear()
    return n


def split_dict(raw):
    return dict(split_frame(raw))


def declined_of(slots):
    return [k for k, s in enumerate(slots, start=1) if "d" in parse_slot(s)[1]]


async def run_case_async(case):
    from asyncfix import FIXMessage, FMsg
    env = Env(declined_of(case["slots"]))
    try:
        await build(env, case["slots"], case["state"])
        pre = env.snapshot()
        tags = {}
        if case["begin"] is not None:
            tags[7] = case["begin"]
        if case["end"] is not None:
            tags[16] = case["end"]
        escaped = None
        try:
            await env.peer_send(FIXMessage(FMsg.RESENDREQUEST, tags))
        except Exception as e:       # nothing may escape the dispatcher
            escaped = type(e).__name__
        post = env.snapshot()
        wire = []
        codec = Adapter.codec(env.conn)
        for fr in env.writer.frames:
            dec, used, raw = codec.decode(fr, silent=True)
            ok = dec is not None and used == len(fr)
            wire.append(row_of_frame(fr) + [1 if ok else 0])
        swallowed = env.catcher.classes[:]
        return {"pre": pre, "post": post, "wire": wire, "calls": env.replay_calls[:],
                "swallowed": swallowed, "escaped": escaped, "declined": declined_of(case["slots"])}
    finally:
        env.close()


def run_case(case, timeout=20):
    return asyncio.run(asyncio.wait_for(run_case_async(case), timeout))
