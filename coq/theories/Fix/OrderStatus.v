(* Hand model of FIXNewOrderSingle.change_status (asyncfix/protocol/order_single.py).
   Statuses, kinds and exec types are the one-character wire values as code points.
   Result codes:  0 = returns None ('no change'),  1 = returns the reported status,
                  2 = raises FIXError.
   The model is tied to the code by AF.Lemmas.OrderStatusL.model_matches_graph, which
   compares it with the regenerated graph of the real function on the whole domain. *)
From Coq Require Import NArith List Bool.
Import ListNotations.
Open Scope N_scope.

Definition CREATED := 90.  Definition NEW := 48.  Definition PARTIALLY_FILLED := 49.
Definition FILLED := 50.  Definition DONE_FOR_DAY := 51.  Definition CANCELED := 52.
Definition PENDING_CANCEL := 54.  Definition STOPPED := 55.  Definition REJECTED := 56.
Definition SUSPENDED := 57.  Definition PENDING_NEW := 65.  Definition CALCULATED := 66.
Definition EXPIRED := 67.  Definition ACCEPTED_FOR_BIDDING := 68.  Definition PENDING_REPLACE := 69.

Definition K_EXECUTIONREPORT := 56.  Definition K_ORDERCANCELREJECT := 57.
Definition K_ORDERCANCELREQUEST := 70.  Definition K_ORDERCANCELREPLACEREQUEST := 71.
Definition X_REPLACED := 53.

Definition all_statuses : list N :=
  [CREATED; NEW; PARTIALLY_FILLED; FILLED; DONE_FOR_DAY; CANCELED; PENDING_CANCEL; STOPPED;
   REJECTED; SUSPENDED; PENDING_NEW; CALCULATED; EXPIRED; ACCEPTED_FOR_BIDDING; PENDING_REPLACE].

Definition mem (x : N) (l : list N) : bool := existsb (N.eqb x) l.

(* a row of the transition table: explicit entries, then the default *)
Definition row (entries : list (N * N)) (default : N) (ms : N) : N :=
  match find (fun e => N.eqb (fst e) ms) entries with
  | Some e => snd e
  | None => default
  end.

Definition T := 1.  Definition IGN := 0.  Definition ERR := 2.

Definition exec_report (st ex ms : N) : N :=
  if st =? CREATED then row [(PENDING_NEW, T); (REJECTED, T)] ERR ms
  else if st =? PENDING_NEW then
    row [(REJECTED, T); (NEW, T); (FILLED, T); (PARTIALLY_FILLED, T); (CANCELED, T); (SUSPENDED, T)] ERR ms
  else if st =? NEW then
    row [(NEW, IGN); (PENDING_NEW, ERR); (CREATED, ERR); (ACCEPTED_FOR_BIDDING, ERR)] T ms
  else if mem st [FILLED; CANCELED; REJECTED; EXPIRED] then IGN
  else if st =? SUSPENDED then
    row [(NEW, T); (PARTIALLY_FILLED, T); (CANCELED, T); (SUSPENDED, IGN)] ERR ms
  else if st =? PARTIALLY_FILLED then
    row [(FILLED, T); (PARTIALLY_FILLED, T); (PENDING_REPLACE, T); (PENDING_CANCEL, T); (CANCELED, T);
         (EXPIRED, T); (SUSPENDED, T); (STOPPED, T)] ERR ms
  else if st =? PENDING_CANCEL then row [(CANCELED, T); (CREATED, ERR)] IGN ms
  else if st =? PENDING_REPLACE then
    if ex =? X_REPLACED then row [(NEW, T); (PARTIALLY_FILLED, T); (FILLED, T); (CANCELED, T)] ERR ms
    else row [(CREATED, ERR); (ACCEPTED_FOR_BIDDING, ERR)] IGN ms
  else ERR.

Definition cancel_reject (st ms : N) : N :=
  if st =? CREATED then ERR
  else if mem st [FILLED; CANCELED; REJECTED; EXPIRED] then IGN
  else row [(CREATED, ERR); (ACCEPTED_FOR_BIDDING, ERR)] T ms.

Definition request (st : N) : N :=
  if mem st [PENDING_CANCEL; PENDING_REPLACE] then IGN
  else if mem st [NEW; SUSPENDED; PARTIALLY_FILLED] then T
  else ERR.

(* raise_on_err = false turns an invalid transition (and an unsupported kind) into 'no change' *)
Definition change_status (st kind ex ms : N) (raise_on_err : bool) : N :=
  let soften r := if (r =? ERR) && negb raise_on_err then IGN else r in
  if kind =? K_EXECUTIONREPORT then soften (exec_report st ex ms)
  else if kind =? K_ORDERCANCELREJECT then soften (cancel_reject st ms)
  else if (kind =? K_ORDERCANCELREQUEST) || (kind =? K_ORDERCANCELREPLACEREQUEST) then soften (request st)
  else soften ERR.

Definition is_finished (st : N) : bool := mem st [FILLED; CANCELED; REJECTED; EXPIRED].
Definition can_cancel (st : N) : bool :=
  negb (change_status st K_ORDERCANCELREQUEST 0 PENDING_CANCEL false =? IGN).
Definition can_replace (st : N) : bool :=
  negb (change_status st K_ORDERCANCELREPLACEREQUEST 0 PENDING_REPLACE false =? IGN).
