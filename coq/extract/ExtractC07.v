(* Extraction of the two-endpoint network model (C07).  ExtrOcamlBasic only; Z/N/positive/nat stay
   Coq datatypes.  The path is relative to coq/, where make and coqc are run. *)
From Coq Require Extraction.
From Coq Require Import ExtrOcamlBasic.
From AF Require Import Fix.NetRun.
Extraction Language OCaml.
Extraction "../ocaml/build/C07/model.ml" entry.
