(* C14 - interleaving semantics of the outbound path of asyncfix/connection.py.

   asyncio's scheduling rule made explicit.  A configuration is the shared world (live counter
   next_num_out, stored outbound counter, outbound journal rows keyed by number, wire trace,
   connection state / role / pending TestReqID) plus a list of tasks.  A task is a small program
   over ATOMIC steps separated by the library's suspension points:

     * `await self._socket_writer.drain()` in send_msg           (wait = WDrain frame ticket)
     * the awaited application hooks on_state_change (inside _state_set), should_replay,
       on_message, on_logon                                       (wait = WHook)

   `sched_step c i` resumes task i and runs it up to its next suspension: run-to-next-suspension,
   no preemption, one task at a time - what the event loop does with coroutines.  Drain waiters
   carry a ticket (order of arrival in StreamWriter's FlowControlMixin._drain_waiters);
   `fifo_ok` is the wake-up rule "the drain waiter that suspended first resumes first".

   send_msg(m) =  ONE atomic segment: state gates, Codec.encode numbering (SequenceReset / PossDupFlag=Y
                  keep their own MsgSeqNum, everything else allocates next_num_out), then - unless the
                  message is a reply to a ResendRequest (PossDupFlag=Y, or SequenceReset with GapFillFlag=Y:
                  the journal keeps the original messages) - Journaler.persist_msg under the frame's
                  number (DuplicateSeqNoError if the row exists, nothing is written then; else row n :=
                  frame and stored counter := n), then writer.write ; suspension in drain ; return.

   The reader task servicing a ResendRequest (_process_resend) is a task too: IStateHook
   (HANDLING) ; IResend = recover_messages + remember next_num_out, then per recovered row
   [should_replay hook] ; gap fill / PossDup send ... ; tail gap fill ; IStateHook ACTIVE.
   It neither rewinds next_num_out nor touches the journal (repair of D12).

   Faithful to the code.  No proofs here (Lemmas/SchedL.v).
   Inbound bookkeeping (next_num_in, inbound journal rows, _finalize_message) is not modelled:
   it does not touch any outbound variable.  Constants are the ConnectionState / ConnectionRole
   numbers and the MsgType characters of the code; harness/c14.py compares them on every run. *)
From Coq Require Import ZArith List Bool.
Import ListNotations.
Open Scope Z_scope.

(* MsgType as the code of its character *)
Definition T_HEARTBEAT := 48.
Definition T_TESTREQ := 49.
Definition T_RESENDREQ := 50.
Definition T_SEQRESET := 52.
Definition T_LOGOUT := 53.
Definition T_LOGON := 65.

(* ConnectionState / ConnectionRole numbers *)
Definition S_NCE := 6.
Definition S_LOGON_SENT := 7.
Definition S_LOGON_RECV := 8.
Definition S_HANDLING := 10.
Definition S_AWAITING := 12.
Definition S_ACTIVE := 17.
Definition R_INITIATOR := 1.
Definition R_ACCEPTOR := 2.

Definition MAXSIZE := 9223372036854775807.

(* a message handed to send_msg: type, an identity (Text(58), or NewSeqNo(36) of a SequenceReset),
   its own MsgSeqNum(34) if it carries one, PossDupFlag(43)=Y, GapFillFlag(123)=Y *)
Record msg := mkMsg { m_ty : Z; m_id : Z; m_own : option Z; m_pd : bool; m_gf : bool }.

(* a frame on the wire / in the journal *)
Record frame := mkF { f_seq : Z; f_ty : Z; f_pd : bool; f_id : Z; f_gf : bool }.

(* send_msg does not journal the replies to a ResendRequest *)
Definition nojournal (f : frame) : bool := f_pd f || ((f_ty f =? T_SEQRESET) && f_gf f).

Inductive err := EConn | EEncoding | EDupSeq | EAssert | EDupTag.
Inductive outcome := OOk | OExc (e : err).

Record world := mkW {
  nout : Z;                      (* session.next_num_out *)
  sout : Z;                      (* stored outboundSeqNo *)
  rows : list (Z * frame);       (* outbound journal, ascending by number *)
  rwire : list frame;            (* wire trace, newest first *)
  st : Z;                        (* _connection_state *)
  role : Z;                      (* _connection_role *)
  treq : bool;                   (* _test_req_id is not None *)
  tick : Z                       (* next drain ticket *)
}.

Definition wire_of (w : world) : list frame := rev (rwire w).

Inductive instr :=
| ISend (m : msg)                        (* await self.send_msg(m) *)
| ISendRest (m : msg)                    (* send_msg resumed after the on_state_change hook of the first initiator message *)
| ITestReq                               (* await self.send_test_req() *)
| IStateHook (s : Z) (unless_awaiting : bool)   (* [if state != RESENDREQ_AWAITING:] await self._state_set(s) *)
| IHook                                  (* an awaited application hook *)
| ISetRole (r : Z)
| IResend (b e : Z) (declined : list Z)  (* _process_resend: recover_messages, then the replay loop *)
| IRaise (e : err)                       (* a failing assert / DuplicatedTagError inside the handler; re-raise after IFinally's hook *)
| IFinally.                              (* end of `try: await self._process_resend(msg)`; its finally clause:
                                            if state == RESENDREQ_HANDLING: await self._state_set(ACTIVE) *)

Inductive wait := WStart | WHook | WDrain (f : frame) (ticket : Z) | WDone.

(* t_abort: an exception ends the whole task (the reader: _process_message catches and logs it,
   t_exc is what it caught); otherwise only the current call (an application task that goes on
   with its next message).  t_out: outcome of each send call, newest first. *)
Record task := mkT { t_code : list instr; t_wait : wait; t_out : list outcome; t_exc : option err; t_abort : bool }.

Definition res : Type := task * world.

(* ---------------------------------------------------------------- journal *)

Fixpoint row_at (k : Z) (l : list (Z * frame)) : option frame :=
  match l with
  | [] => None
  | (n, f) :: r => if n =? k then Some f else row_at k r
  end.

Fixpoint insert_row (n : Z) (f : frame) (l : list (Z * frame)) : list (Z * frame) :=
  match l with
  | [] => [(n, f)]
  | (k, g) :: r => if n <? k then (n, f) :: (k, g) :: r else (k, g) :: insert_row n f r
  end.

(* Journaler.persist_msg(OUTBOUND): None = DuplicateSeqNoError (nothing changes) *)
Definition persist (f : frame) (w : world) : option world :=
  match row_at (f_seq f) (rows w) with
  | Some _ => None
  | None => Some (mkW (nout w) (f_seq f) (insert_row (f_seq f) f (rows w)) (rwire w) (st w) (role w) (treq w) (tick w))
  end.

Definition set_st (s : Z) (w : world) : world := mkW (nout w) (sout w) (rows w) (rwire w) s (role w) (treq w) (tick w).
Definition set_role (r : Z) (w : world) : world := mkW (nout w) (sout w) (rows w) (rwire w) (st w) r (treq w) (tick w).
Definition set_treq (b : bool) (w : world) : world := mkW (nout w) (sout w) (rows w) (rwire w) (st w) (role w) b (tick w).

(* ---------------------------------------------------------------- send_msg *)

Inductive gate_res := GErr (e : err) | GHook | GGo.

Definition gate (m : msg) (w : world) : gate_res :=
  if st w <? S_NCE then GErr EConn
  else if st w =? S_NCE then
    (if (m_ty m =? T_LOGON) || (m_ty m =? T_LOGOUT) then GHook else GErr EConn)
  else if role w =? R_INITIATOR then
    (if (st w =? S_LOGON_SENT) && negb (m_ty m =? T_LOGOUT) then GErr EConn else GGo)
  else if (st w =? S_LOGON_RECV) && negb ((m_ty m =? T_LOGON) || (m_ty m =? T_LOGOUT)) then GErr EConn
  else GGo.

(* Codec.encode: which MsgSeqNum goes into the frame *)
Definition number (m : msg) (w : world) : err + (Z * world) :=
  if m_ty m =? T_SEQRESET then
    match m_own m with Some n => inr (n, w) | None => inl EEncoding end
  else if m_pd m then
    match m_own m with Some n => inr (n, w) | None => inl EEncoding end
  else inr (nout w, mkW (nout w + 1) (sout w) (rows w) (rwire w) (st w) (role w) (treq w) (tick w)).

Definition push_wire (f : frame) (w : world) : world :=
  mkW (nout w) (sout w) (rows w) (f :: rwire w) (st w) (role w) (treq w) (tick w + 1).

Definition is_finally (i : instr) : bool := match i with IFinally => true | _ => false end.

(* an exception with `after` = the code that would have followed.  In a task that catches per call the next
   call goes on.  In the reader task it ends the handler - but if it is raised inside the try of the
   ResendRequest service (an IFinally follows) while the state is RESENDREQ_HANDLING, the finally clause first
   sets the state back to ACTIVE and awaits the on_state_change hook; the exception propagates afterwards. *)
Definition raise_ (abort : bool) (e : err) (is_send : bool) (out : list outcome) (w : world)
           (after : list instr) (k : list outcome -> world -> res) : res :=
  if abort then
    let out' := if is_send then OExc e :: out else out in
    if existsb is_finally after && (st w =? S_HANDLING)
    then (mkT [IRaise e] WHook out' None abort, set_st S_ACTIVE w)
    else (mkT [] WDone out' (Some e) abort, w)
  else k (OExc e :: out) w.

(* TestRequest gate, numbering, journal write (unless it is a reply to a ResendRequest), transport write,
   suspension in drain - one stretch without an await; rest = the code after this call.  A journal error
   leaves nothing on the wire (the number is already allocated). *)
Definition send_tail (abort : bool) (m : msg) (rest : list instr) (out : list outcome) (w : world)
           (k : list outcome -> world -> res) : res :=
  if (m_ty m =? T_TESTREQ) && (negb (treq w) || negb (m_id m =? 0)) then raise_ abort EConn true out w rest k
  else match number m w with
       | inl e => raise_ abort e true out w rest k
       | inr (n, w1) =>
           let f := mkF n (m_ty m) (m_pd m) (m_id m) (m_gf m) in
           if nojournal f then (mkT rest (WDrain f (tick w1)) out None abort, push_wire f w1)
           else match persist f w1 with
                | None => raise_ abort EDupSeq true out w1 rest k
                | Some w2 => (mkT rest (WDrain f (tick w2)) out None abort, push_wire f w2)
                end
       end.

Definition send_head (abort : bool) (m : msg) (rest : list instr) (out : list outcome) (w : world)
           (k : list outcome -> world -> res) : res :=
  match gate m w with
  | GErr e => raise_ abort e true out w rest k
  | GHook => (mkT (ISendRest m :: rest) WHook out None abort, set_st S_LOGON_SENT w)
  | GGo => send_tail abort m rest out w k
  end.

(* For a TestRequest m_id stands for its TestReqID(112) RELATIVE to the probe send_test_req() registered:
   0 = that id, anything else = a different or absent id.  send_msg lets a TestRequest through only while a probe
   is pending and only with the registered id; otherwise FIXConnectionError, nothing allocated, nothing written. *)
Definition testreq_msg : msg := mkMsg T_TESTREQ 0 None false false.

(* run `code` up to the next suspension; `tail` is the code that follows it in the task, `k` runs that
   tail when `code` ends without suspending.  IResend is handled by exec below. *)
Fixpoint execf (abort : bool) (code tail : list instr) (k : list outcome -> world -> res)
         (out : list outcome) (w : world) : res :=
  match code with
  | [] => k out w
  | i :: rest =>
      let k' := execf abort rest tail k in
      let after := rest ++ tail in
      match i with
      | ISend m => send_head abort m after out w k'
      | ISendRest m => send_tail abort m after out (set_role R_INITIATOR w) k'
      | ITestReq =>
          if treq w then raise_ abort EConn true out w after k'
          else send_head abort testreq_msg after out (set_treq true w) k'
      | IStateHook s ua =>
          if ua && (st w =? S_AWAITING) then k' out w
          else (mkT after WHook out None abort, set_st s w)
      | IHook => (mkT after WHook out None abort, w)
      | ISetRole r => k' out (set_role r w)
      | IResend _ _ _ => k' out w
      | IRaise e => raise_ abort e false out w after k'
      | IFinally =>
          if st w =? S_HANDLING then (mkT after WHook out None abort, set_st S_ACTIVE w) else k' out w
      end
  end.

(* ---------------------------------------------------------------- _process_resend *)

Definition is_sess (ty : Z) : bool :=
  (ty =? T_LOGON) || (ty =? T_LOGOUT) || (ty =? T_RESENDREQ) || (ty =? T_HEARTBEAT) || (ty =? T_TESTREQ) || (ty =? T_SEQRESET).

Definition gapfill_msg (b newseq : Z) : msg := mkMsg T_SEQRESET newseq (Some b) false true.
(* the replayed copy: PossDupFlag / OrigSendingTime are set with replace=True, whatever the journaled row carries *)
Definition replay_msg (f : frame) : msg := mkMsg (f_ty f) (f_id f) (Some (f_seq f)) true false.

Definition mem_z (x : Z) (l : list Z) : bool := existsb (Z.eqb x) l.

(* the loop over the recovered rows and what follows it, as code; gfb / gfe = gap_fill_begin / _end,
   saved = next_num_out when the request arrived, e' = EndSeqNo (0 mapped to maxsize).
   Numbers missing in the journal before a replayed row are gap filled too; the tail gap fill runs up to
   min(saved, e' + 1). *)
Fixpoint replay_code (rs : list (Z * frame)) (d : list Z) (gfb gfe saved e' : Z) : list instr :=
  match rs with
  | [] =>
      let last := Z.min saved (e' + 1) in
      if saved <? gfe then [IRaise EAssert]
      else (if gfb <? last then [ISend (gapfill_msg gfb last)] else [])
           ++ [IStateHook S_ACTIVE true]
  | (_, f) :: rs' =>
      let n := f_seq f in
      if is_sess (f_ty f) then replay_code rs' d gfb (n + 1) saved e'
      else IHook ::
           (if mem_z n d then replay_code rs' d gfb (n + 1) saved e'
            else let gfe' := if gfb <? n then n else gfe in
                 (if gfb <? gfe' then [ISend (gapfill_msg gfb gfe')] else [])
                 ++ [ISend (replay_msg f)]
                 ++ replay_code rs' d (n + 1) gfe' saved e')
  end.

Definition recover (b e : Z) (l : list (Z * frame)) : list (Z * frame) :=
  filter (fun r => (b <=? fst r) && (fst r <=? e)) l.

(* BeginSeqNo below 1 is clamped to 1, EndSeqNo 0 or beyond sys.maxsize means everything; recover_messages(begin, end or maxsize), remember next_num_out, the loop *)
Definition resend_code (b0 e : Z) (d : list Z) (w : world) : list instr :=
  let b := Z.max b0 1 in
  let e' := if (e =? 0) || (MAXSIZE <? e) then MAXSIZE else e in
  replay_code (recover b e' (rows w)) d b b (nout w) e'.

Definition finish (abort : bool) (out : list outcome) (w : world) : res := (mkT [] WDone out None abort, w).

(* run the code of one task up to its next suspension *)
Fixpoint exec (abort : bool) (code : list instr) (out : list outcome) (w : world) : res :=
  match code with
  | [] => finish abort out w
  | IResend b e d :: rest => execf abort (resend_code b e d w) rest (exec abort rest) out w
  | i :: rest => execf abort [i] rest (exec abort rest) out w
  end.

(* ---------------------------------------------------------------- scheduler *)

Definition resume (t : task) (w : world) : task * world :=
  match t_wait t with
  | WDone => (t, w)
  | WStart | WHook => exec (t_abort t) (t_code t) (t_out t) w
  | WDrain _ _ => exec (t_abort t) (t_code t) (OOk :: t_out t) w     (* drain returned: send_msg returns *)
  end.

Record config := mkC { c_w : world; c_ts : list task }.

Fixpoint upd {A} (i : nat) (x : A) (l : list A) : list A :=
  match i, l with
  | O, _ :: l' => x :: l'
  | S i', y :: l' => y :: upd i' x l'
  | _, [] => []
  end.

Definition sched_step (c : config) (i : nat) : config :=
  match nth_error (c_ts c) i with
  | None => c
  | Some t => let (t', w') := resume t (c_w c) in mkC w' (upd i t' (c_ts c))
  end.

Definition run_sched (c : config) (sched : list nat) : config := fold_left sched_step sched c.

Definition is_done (t : task) : bool := match t_wait t with WDone => true | _ => false end.
Definition all_done (c : config) : bool := forallb is_done (c_ts c).

(* the choice resumes a task that exists and has not finished *)
Definition runnable (c : config) (i : nat) : bool :=
  match nth_error (c_ts c) i with Some t => negb (is_done t) | None => false end.

(* wake-up rule: a task suspended in drain may resume only if no other drain waiter arrived earlier *)
Definition ticket_le (tk : Z) (t : task) : bool :=
  match t_wait t with WDrain _ tk' => tk <=? tk' | _ => true end.

Definition fifo_ok (c : config) (i : nat) : bool :=
  match nth_error (c_ts c) i with
  | Some t => match t_wait t with WDrain _ tk => forallb (ticket_le tk) (c_ts c) | _ => true end
  | None => true
  end.

Fixpoint fifo_sched (c : config) (sched : list nat) : bool :=
  match sched with
  | [] => true
  | i :: s => fifo_ok c i && fifo_sched (sched_step c i) s
  end.

Fixpoint valid_sched (c : config) (sched : list nat) : bool :=
  match sched with
  | [] => true
  | i :: s => runnable c i && valid_sched (sched_step c i) s
  end.

(* ---------------------------------------------------------------- the task shapes of the library *)

(* an application task: for m in ms: try: await conn.send_msg(m) except Exception: record *)
Definition sender_task (ms : list msg) : task := mkT (map ISend ms) WStart [] None false.
(* the heartbeat task's probe *)
Definition heartbeat_task : task := mkT [ITestReq] WStart [] None false.
(* the reader task inside _process_message for: *)
Definition reader (code : list instr) : task := mkT code WStart [] None true.
Definition logon_msg : msg := mkMsg T_LOGON 0 None false false.
(*   a Logon on a fresh acceptor connection *)
Definition reader_logon : task :=
  reader [IStateHook S_LOGON_RECV false; ISetRole R_ACCEPTOR; ISend logon_msg; IStateHook S_ACTIVE false; IHook].
(*   a TestRequest *)
Definition reader_testreq : task := reader [ISend (mkMsg T_HEARTBEAT 0 None false false)].
(*   a message numbered above the expected number (gap): ResendRequest + state change *)
Definition reader_gap : task := reader [ISend (mkMsg T_RESENDREQ 0 None false false); IStateHook S_AWAITING false].
(*   an application message in order *)
Definition reader_app : task := reader [IHook].
(*   a ResendRequest(BeginSeqNo = b, EndSeqNo = e); d = numbers for which should_replay says no *)
Definition reader_resend (b e : Z) (d : list Z) : task := reader [IStateHook S_HANDLING true; IResend b e d; IFinally].
