"""C10 - the decoder is total, makes progress and never accepts a corrupted frame.

Correspondence: Codec.decode (silent mode) vs the extracted model on arbitrary bytes,
grammar-aware malformed frames and every kind of single-byte corruption of a corpus of valid
frames; the real reader task on a corrupted frame followed by valid traffic vs the model's
reader_run.  Oracle (from the property text): never raises; 0 <= consumed <= len; a corrupted
frame never blocks or destroys the valid frames that follow it; no single-byte corruption of a
valid frame is returned as a message."""
import json
import logging
import re

from harness import codec_common as cc

META = {
    "level": "proof",
    "tables": ["GenGroups", "GenEnums"],
    "files": ["asyncfix/codec.py", "asyncfix/connection.py"],
    "rule": "arbitrary byte strings; grammar-aware malformed frames (non-numeric / negative / oversize BodyLength, non-numeric CheckSum, non-numeric tags, "
            "missing '=', empty fields, wrong order, truncation, wrong BeginString); single-byte substitution (all 256 values at sampled positions; thorough: every position), "
            "deletion and insertion at every position of a corpus of valid frames; a sample of them followed by valid frames on the live reader; "
            "non-trivial = input containing a frame-start marker; distinct by input bytes",
    "trusted_base": [],
    "assumptions": ["bytes < 256 (the reader decodes latin-1)"],
}


# witnesses of the listed findings (from Props/C10.v), re-confirmed on the implementation on every run
WITNESSES = [
    b"xxxxxxxxxx8=FIX.4.4\x019=15\x0135=0\x0110=212\x01",                 # consumed 47 of 37
    b"8=FIX.4.4\x019=5\x0135=0\x0158=7\x0110=190\x011=evil\x01",           # field after CheckSum accepted
    b"8=FIX.4.4\x019=-1000\x0135=0\x0110=092\x01",                        # negative consumed length, message returned
    b"8=FIX.4.4\x019=2\x0135=0\x0158=hello\x0110=095\x01",                # BodyLength 2 for a 14-byte body accepted
    b"8=FIX.4.4\x019=12\x0135=0\x0158=299\x0110= 32\x01",                 # lenient CheckSum spelling
    b"8=FIX.4.4\x019=abc\x0135=0\x0110=000\x01",
    b"8=FIX.4.4\x019=5\x0135=0\x01abc=1\x0110=000\x01",
    b"8=FIX.4.4\x019=5\x0135=J\x0170=a\x0178=1\x0179=A\x0170=b\x0110=000\x01",
]


def mutations(rng, f, thorough):
    out = []
    positions = range(len(f)) if thorough else sorted(rng.sample(range(len(f)), min(len(f), 24)))
    for i in positions:
        vals = range(256) if (thorough or rng.random() < 0.08) else [rng.randrange(256) for _ in range(3)] + [0, 1, 32, 48, 61]
        for b in vals:
            if b != f[i]:
                out.append(("sub", i, f[:i] + bytes([b]) + f[i + 1:]))
    for i in range(len(f)):
        out.append(("del", i, f[:i] + f[i + 1:]))
    for i in range(1, len(f)):      # position 0 / len(f) would be junk outside an intact frame, not a corruption of it
        for b in ([0, 1, 32, 61] + [rng.randrange(256)]):
            out.append(("ins", i, f[:i] + bytes([b]) + f[i:]))
    return out


def grammar_cases(rng, f):
    s = f.decode("latin-1")
    sub = lambda pat, rep: re.sub(pat, rep, s, count=1).encode("latin-1")
    return [
        sub(r"\x019=\d+", "\x019=-5"), sub(r"\x019=\d+", "\x019=-9999"), sub(r"\x019=\d+", "\x019=abc"), sub(r"\x019=\d+", "\x019="),
        sub(r"\x019=\d+", "\x019=999999"), sub(r"\x019=(\d+)", lambda m: "\x019=" + str(int(m.group(1)) + 1)),
        sub(r"\x019=(\d+)", lambda m: "\x019=" + str(max(0, int(m.group(1)) - 3))), sub(r"\x019=(\d+)", "\x019= \\1"), sub(r"\x019=(\d+)", "\x019=+\\1"),
        sub(r"\x0110=(\d+)", "\x0110=x\\1"), sub(r"\x0110=0(\d+)", "\x0110= \\1"), sub(r"\x0110=(\d+)", "\x0110=+\\1"), sub(r"\x0110=(\d+)", "\x0110=\\1 "),
        sub(r"\x0110=", "\x0111="), sub(r"\x0135=", "\x01xx="), sub(r"\x0135=", "\x01=35"), sub(r"\x0149=", "\x0149"), sub(r"\x0149=[^\x01]*", "\x01"),
        s.replace("8=FIX.4.4", "8=FIX.4.2").encode("latin-1"), s.replace("8=FIX.4.4\x01", "8=FIX.4.4").encode("latin-1"),
        sub(r"^8=FIX.4.4\x01(9=\d+)\x01(35=[^\x01]+)", "8=FIX.4.4\x01\\2\x01\\1"),
        f[: len(f) // 2], f[:-1], f[:-4], f[:7], b"junk\x01" + f, b"9=3\x01" + f, f + f[:9],
        s.replace("\x0156=", "\x0155=A\x0155=B\x0156=").encode("latin-1"),
        s.replace("\x0156=", "\x0178=1\x0179=a\x0149=Z\x0156=").encode("latin-1"),
        f + b"1=evil\x01", f[:-1] + b"\x011=evil\x01",
        # CPython refuses to convert more than 4300 digits (ValueError): a BodyLength / a tag of 4301 digits is just
        # another malformed field for decode(silent=True), whatever test guards the int() call
        sub(r"\x019=\d+", "\x019=" + "1" * 4301), sub(r"\x019=(\d+)", lambda m: "\x019=" + "0" * 4300 + m.group(1)),
        sub(r"\x0149=", "\x01" + "7" * 4301 + "=x\x0149="),
    ] + early_checksum_cases(f)


def early_checksum_cases(f):
    """a body tag replaced by 10: the candidate ends early (and is rejected), the rest of the frame is junk in front of
    whatever follows (added after seeded change C10-9, a reader that went on only when the buffer started with the marker)"""
    idx = [m.start() for m in re.finditer(rb"\x01\d+=", f)]
    out = []
    for k in (3, len(idx) // 2, len(idx) - 2):
        if 2 < k < len(idx) - 1:
            i = idx[k]
            j = f.index(b"=", i)
            out.append(f[:i] + b"\x0110" + f[j:])
    return out


def dup_checksum_cases(f):
    """frames with TWO CheckSum fields: the earlier one consistent with the bytes before the last field,
    the trailing one wrong (and the mirror image)"""
    out = []
    base = f[:-7]
    for x in range(256):
        cand = base + b"10=%03d" % x
        if (sum(cand) + 1) % 256 == x:
            out.append(cand + b"\x0110=%03d\x01" % ((x + 7) % 256))
            break
    out.append(base + b"10=999\x01" + f[-7:])
    return out


def int_ok(text):
    try:
        int(text)
        return True
    except ValueError:
        return False


def frame_fields(raw):
    """(tag, value) text pairs of the first frame region of raw (marker .. next marker), as the decoder splits them"""
    i = raw.find(b"8=FIX.")
    if i < 0:
        return []
    msg = raw[i:].decode("latin-1")
    j = msg[5:].find("8=FIX.")
    msg = msg[: j + 5] if j != -1 else msg
    out = []
    for f in msg.split("\x01"):
        if "=" in f:
            t, v = f.split("=", 1)
            out.append((t, v))
    return out


def bodylength_value(raw):
    m = re.match(rb"8=FIX\.[^\x01]*\x019=([^\x01]*)\x01", raw[raw.find(b"8=FIX."):] if b"8=FIX." in raw else b"")
    return m.group(1) if m else None


def classify_decode(raw, res):
    """known-finding class of an oracle breach of decode(raw) = res: none is left - since the repairs of rounds 9 and 10
    decode(silent=True) never raises and its consumed length is within 0..len(raw) (C10_no_raise, C10_consumed_bounds);
    a raise or an out-of-range length is a plain violation"""
    return None


def accept_unsound(res):
    """a returned message must come from a frame whose LAST field is a CheckSum consistent with all bytes before it"""
    if res[0] != 0 or not res[1] or not res[3]:
        return None
    r = bytes(res[3][0])
    body = r[:-1] if r.endswith(b"\x01") else r
    i = body.rfind(b"\x01")
    last = body[i + 1:]
    if not last.startswith(b"10="):
        # was class D8-fields-after-checksum until the frame was made to end at its CheckSum field: now a plain violation
        return ("a field follows the CheckSum field and is outside the sum", None)
    v = last[3:]
    try:
        ok = int(v.decode("latin-1")) == sum(r[:i + 1]) % 256     # the decoder reads the value as latin-1 TEXT
    except ValueError:
        ok = False
    if not ok:
        return ("returned frame's trailing CheckSum %r does not match its bytes" % v, None)
    if not (len(v) == 3 and v.isdigit()):
        return ("CheckSum value %r is not three digits" % v, None)     # was class D8-checksum-field-lenient (repaired)
    return None


def oracle_decode(ctx, raw, res, what):
    bad = accept_unsound(res)
    if bad:
        ctx.fail({"bytes": raw.hex(), "kind": what}, "accepted: " + bad[0], bad[1])
    if res[0] == 1:
        ctx.fail({"bytes": raw.hex(), "kind": what}, "decode(silent) raised exception class %s" % res[1], classify_decode(raw, res))
    elif not (0 <= res[2] <= len(raw)):
        ctx.fail({"bytes": raw.hex(), "kind": what}, "consumed length %d outside [0, %d]" % (res[2], len(raw)), classify_decode(raw, res))


def classify_accept(orig, kind, pos, mutated):
    """single-byte corruption returned as a message: the one leniency left is that BodyLength is not verified, so a NUL
    byte inserted or deleted inside a frame (which keeps the byte sum) goes unnoticed (pinned by test_decode_custom_msg_type)"""
    if kind == "ins" and mutated[pos] == 0 or kind == "del" and orig[pos] == 0:
        return "D8-nul-keeps-checksum"
    return None


def classify_followup(b, tail=(), missing=(), statuses=()):
    """why a malformed piece b keeps later valid frames from being delivered: the one known cause left is a candidate that
    declares more bytes than are available (the reader waits for them); raises, fragments, whole-buffer drops, length
    mismatches and one-rejection-per-read were repaired (rounds 9 and 10) and are plain violations now"""
    if 1 in statuses or 2 in statuses:
        return None
    i = b.find(b"8=FIX.")
    if i < 0:
        return None
    # skip frames at the front that decode fine or are rejected with progress
    for _ in range(16):
        d = cc.impl_decode(b)
        if d[0] == 0 and 0 < d[2] <= len(b):
            b = b[d[2]:]
        else:
            break
    i = b.find(b"8=FIX.")
    if i < 0:
        return None
    seg = b[i:]
    fields = seg.split(b"\x01")
    if len(fields) >= 3 and fields[0] == b"8=FIX.4.4" and fields[1].startswith(b"9="):
        try:
            declared = len(fields[0]) + len(fields[1]) + 9 + int(fields[1][2:])
        except ValueError:
            return None
        avail = len(b) - i + sum(len(t) for t in tail)
        if declared > avail:
            return "D8-oversize-bodylength-waits"
    return None


def run(ctx):
    logging.disable(logging.CRITICAL)
    rng = ctx.rng
    thorough = ctx.tier == "thorough"
    corpus_frames = []
    while len(corpus_frames) < ctx.scale(12, 30):
        f = cc.encode_frame(rng, cc.gen_wf_message(rng, max_groups=1))
        if f and len(f) < 400 and not cc.marker_beyond_start(f):
            corpus_frames.append(f)
    cases = []   # (what, origin frame or None, kind, pos, bytes)
    for w in WITNESSES:
        cases.append(("witness", None, None, None, w))
    for _ in range(ctx.scale(1500, 20000)):
        cases.append(("random", None, None, None, bytes(rng.randrange(256) for _ in range(rng.randrange(0, 60)))))
    for _ in range(ctx.scale(300, 3000)):
        b = bytearray(rng.choice(corpus_frames))
        for _ in range(rng.randrange(2, 6)):
            b[rng.randrange(len(b))] = rng.randrange(256)
        cases.append(("multi-corrupt", None, None, None, bytes(b)))
    for f in corpus_frames:
        for g in grammar_cases(rng, f) + dup_checksum_cases(f):
            cases.append(("grammar", None, None, None, g))
        for (kind, pos, b) in mutations(rng, f, thorough and len(cases) < 400000):
            cases.append(("single-" + kind, f, kind, pos, b))
    impl = [cc.impl_decode(c[4]) for c in cases]
    for c, r in zip(cases, impl):
        what, orig, kind, pos, raw = c
        ctx.case(raw, b"8=FIX." in raw, sample={"kind": what, "bytes": raw.decode("latin-1"), "result": str(r)[:120]} if (len(ctx.samples) < 4 and what == "grammar") else None)
        ctx.count(what)
        ctx.count("res-" + ("exc%s" % r[1] if r[0] == 1 else "msg" if r[1] else "none"))
        oracle_decode(ctx, raw, r, what)
        if orig is not None and r[0] == 0 and r[1] and not (r[3] and bytes(r[3][0]) == orig):
            # (a result whose raw frame IS the intact original means the mutated byte lay outside the frame: junk after it)
            ctx.fail({"bytes": raw.hex(), "kind": what, "pos": pos, "original": orig.hex()},
                     "single-byte corruption (%s at %d) of a valid frame was returned as a message" % (kind, pos),
                     classify_accept(orig, kind, pos, raw))
    if ctx.model:
        out = ctx.model.batch([cc.req_decode(c[4]) for c in cases])
        for c, r, mo in zip(cases, impl, out):
            if r != mo:
                ctx.disagree({"bytes": c[4].hex(), "kind": c[0]}, str(r)[:300], str(mo)[:300], "decode")
    # live reader: corrupted / malformed frame followed by valid traffic
    follow = []
    pool = [c for c in cases if c[0] in ("grammar", "multi-corrupt") or c[0].startswith("single")]
    def layouts(b, tail):
        return [[b] + tail, [b + tail[0], tail[1]], [b + tail[0] + tail[1]]]      # later reads / one later read / a single read
    for c in rng.sample(pool, min(len(pool), ctx.scale(500, 6000))):
        tail = [rng.choice(corpus_frames) for _ in range(2)]
        follow.append((c, tail, rng.choice(layouts(c[4], tail))))
    for c in [c for c in cases if c[0] == "grammar"][:ctx.scale(600, 6000)]:
        tail = [rng.choice(corpus_frames) for _ in range(2)]
        follow.append((c, tail, layouts(c[4], tail)[2]))                         # every grammar case also in a single read
    mouts = ctx.model.batch([cc.req_reader(ch) for _, _, ch in follow]) if ctx.model else [None] * len(follow)
    for (c, tail, chunks), mo in zip(follow, mouts):
        r = cc.impl_reader(chunks)
        ctx.traces += 1
        got = [bytes(x) for _, x in r[1]]
        ctx.count("follow-delivered-%d" % min(len([g for g in got if g in tail]), 2))
        missing = [t for t in tail if t not in got]
        if missing or 2 in r[2]:
            ctx.fail({"chunks": [x.hex() for x in chunks], "kind": c[0]},
                     "a malformed frame kept %d of the 2 following valid frames from being delivered (statuses %s)" % (len(missing), r[2]),
                     classify_followup(c[4], tail, missing, r[2]))
        if mo is not None and r != mo:
            ctx.disagree({"chunks": [x.hex() for x in chunks]}, [len(r[0]), len(r[1]), r[2]], [len(mo[0]), len(mo[1]), mo[2]], "reader-after-corruption")


def search(ctx, cases):
    import random
    logging.disable(logging.CRITICAL)
    rng = random.Random(ctx.seed + 7)
    for c in cases:
        if "bytes" in c:
            raw = bytes.fromhex(c["bytes"])
            oracle_decode(ctx, raw, cc.impl_decode(raw), c.get("kind", "case"))
    frames = [f for f in (cc.encode_frame(rng, cc.gen_wf_message(rng, max_groups=1)) for _ in range(20)) if f and not cc.marker_beyond_start(f)]
    for f in frames:
        for (kind, pos, b) in mutations(rng, f, False):
            r = cc.impl_decode(b)
            oracle_decode(ctx, b, r, "single-" + kind)
            if r[0] == 0 and r[1] and not (r[3] and bytes(r[3][0]) == f):
                ctx.fail({"bytes": b.hex(), "kind": "single-" + kind, "pos": pos, "original": f.hex()},
                         "single-byte corruption returned as a message", classify_accept(f, kind, pos, b))
        if ctx.failures:
            return


def replay(path):
    logging.disable(logging.CRITICAL)
    rec = json.load(open(path))
    c = rec.get("input")
    if not c:
        print("replay: no concrete input; broken:", rec.get("broken"))
        return 1
    if "chunks" in c:
        chunks = [bytes.fromhex(x) for x in c["chunks"]]
        r = cc.impl_reader(chunks)
        print("reader delivered %d frames, residual %d, statuses %s" % (len(r[1]), len(r[0]), r[2]))
        return 1
    raw = bytes.fromhex(c["bytes"])
    r = cc.impl_decode(raw)
    print("decode(%r) -> %s" % (raw, str(r)[:300]))
    bad = r[0] == 1 or not (0 <= r[2] <= len(raw)) or ("original" in c and r[0] == 0 and r[1])
    return 1 if bad else 0
