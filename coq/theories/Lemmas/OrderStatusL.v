(* Laws of the order status transition function, decided on the regenerated graph of the
   real change_status (AFGen.GenChangeStatus.graph) by computation inside the kernel, and the
   tie between that graph and the hand model AF.Fix.OrderStatus.change_status. *)
From Coq Require Import NArith List Bool.
From AF Require Import Fix.OrderStatus.
From AFGen Require Import GenChangeStatus GenEnums.
Import ListNotations.
Open Scope N_scope.

(* one cell of the graph: status, kind, exec type, reported status, result with and without raising *)
Record cell := mkCell { c_st : N; c_kind : N; c_ex : N; c_ms : N; c_raise : N; c_soft : N }.

Fixpoint zip3 (ms a b : list N) (st kind ex : N) : list cell :=
  match ms, a, b with
  | m :: ms', x :: a', y :: b' => mkCell st kind ex m x y :: zip3 ms' a' b' st kind ex
  | _, _, _ => []
  end.

Definition cells_of_row (r : N * N * N * list N * list N) : list cell :=
  let '(st, kind, ex, a, b) := r in zip3 reported a b st kind ex.

Definition cells : list cell := flat_map cells_of_row graph.

(* the domain really is the one the property names *)
Definition domain_ok : bool :=
  Nat.eqb (length graph) (length statuses * length kinds * length execs)
  && Nat.eqb (length cells) (length graph * length reported)
  && Nat.eqb (length reported) 15 && Nat.eqb (length statuses) 16
  && Nat.eqb (length kinds) 5 && Nat.eqb (length execs) 18
  && forallb (fun s => mem s statuses) all_statuses
  && forallb (fun s => mem s reported) all_statuses.

(* enum values in the code are the ones the model's constants name *)
Definition str1 (c : N) : list N := [c].
Definition enum_ok : bool :=
  forallb (fun p => existsb (fun q => (Nat.eqb (length (snd q)) 1) && N.eqb (hd 0 (snd q)) p) ord_status)
          all_statuses
  && Nat.eqb (length ord_status) 15.

Definition supported (k : N) : bool :=
  mem k [K_EXECUTIONREPORT; K_ORDERCANCELREJECT; K_ORDERCANCELREQUEST; K_ORDERCANCELREPLACEREQUEST].

(* known-finding class D16 (what is left of it after the repair of the cancel-reject table): a cancel reject
   reporting PENDING_NEW moves an acknowledged, unfinished order back to PENDING_NEW (pinned by the test suite) *)
Definition kf_cancel_reject (c : cell) : bool :=
  (c_kind c =? K_ORDERCANCELREJECT) && (c_ms c =? PENDING_NEW)
  && negb (mem (c_st c) [CREATED; PENDING_NEW]) && negb (is_finished (c_st c)).

(* L1  total and closed *)
Definition law_closed (c : cell) : bool :=
  mem (c_raise c) [0; 1; 2] && mem (c_soft c) [0; 1]
  && (c_soft c =? (if c_raise c =? 2 then 0 else c_raise c)).
(* L2  finished statuses are absorbing *)
Definition law_absorbing (c : cell) : bool :=
  if is_finished (c_st c) then negb (c_raise c =? 1) && negb (c_soft c =? 1) else true.
(* L3-L5 speak about reports (ExecutionReport, OrderCancelReject); for the two request kinds the
   "reported status" argument is the status the caller asks permission for (L6). *)
Definition is_report (c : cell) : bool := mem (c_kind c) [K_EXECUTIONREPORT; K_ORDERCANCELREJECT].
(* L3  no report moves an order back to CREATED *)
Definition law_no_created (c : cell) : bool :=
  if is_report c && (c_ms c =? CREATED) then negb (c_raise c =? 1) else true.
(* L4  never from an acknowledged status back to PENDING_NEW *)
Definition law_no_pending_new (c : cell) : bool :=
  if is_report c && (c_ms c =? PENDING_NEW) && negb (mem (c_st c) [CREATED; PENDING_NEW]) then negb (c_raise c =? 1) else true.
(* L5  a just-created order accepts only PENDING_NEW or REJECTED *)
Definition law_created_accepts (c : cell) : bool :=
  if is_report c && (c_st c =? CREATED) && (c_raise c =? 1) then mem (c_ms c) [PENDING_NEW; REJECTED] else true.
(* L6  cancel / replace requests *)
Definition law_requests (c : cell) : bool :=
  if mem (c_kind c) [K_ORDERCANCELREQUEST; K_ORDERCANCELREPLACEREQUEST] then
    c_raise c =? (if mem (c_st c) [NEW; PARTIALLY_FILLED; SUSPENDED] then 1
                  else if mem (c_st c) [PENDING_CANCEL; PENDING_REPLACE] then 0 else 2)
  else true.

Definition all_laws (c : cell) : bool :=
  law_closed c && law_absorbing c && law_no_created c && law_no_pending_new c
  && law_created_accepts c && law_requests c.

Definition model_agrees (c : cell) : bool :=
  (change_status (c_st c) (c_kind c) (c_ex c) (c_ms c) true =? c_raise c)
  && (change_status (c_st c) (c_kind c) (c_ex c) (c_ms c) false =? c_soft c).

Lemma domain_is_full : domain_ok = true.
Proof. vm_compute. reflexivity. Qed.

Lemma enums_match : enum_ok = true.
Proof. vm_compute. reflexivity. Qed.

Lemma model_matches_graph : forall c, In c cells -> model_agrees c = true.
Proof. apply forallb_forall. vm_compute. reflexivity. Qed.

Lemma closed_everywhere : forall c, In c cells -> law_closed c = true.
Proof. apply forallb_forall. vm_compute. reflexivity. Qed.

Lemma requests_everywhere : forall c, In c cells -> law_requests c = true.
Proof. apply forallb_forall. vm_compute. reflexivity. Qed.

Lemma no_created_everywhere : forall c, In c cells -> law_no_created c = true.
Proof. apply forallb_forall. vm_compute. reflexivity. Qed.

(* lifecycle laws hold outside the known class ... *)
Lemma lifecycle_partial : forall c, In c cells -> kf_cancel_reject c = false -> all_laws c = true.
Proof.
  intros c Hin Hk.
  assert (H : forallb (fun c => kf_cancel_reject c || all_laws c) cells = true) by (vm_compute; reflexivity).
  rewrite forallb_forall in H. specialize (H c Hin). rewrite Hk in H. exact H.
Qed.

(* finished statuses are absorbing and a just-created order accepts only PENDING_NEW / REJECTED: everywhere,
   the OrderCancelReject kind included (repaired) *)
Lemma absorbing_everywhere : forall c, In c cells -> law_absorbing c = true.
Proof. apply forallb_forall. vm_compute. reflexivity. Qed.

Lemma created_accepts_everywhere : forall c, In c cells -> law_created_accepts c = true.
Proof. apply forallb_forall. vm_compute. reflexivity. Qed.

(* ... the remaining failure inside the class: a cancel reject moves a NEW order back to PENDING_NEW *)
Lemma pending_new_refuted : exists c, In c cells /\ kf_cancel_reject c = true /\ law_no_pending_new c = false.
Proof.
  assert (H : existsb (fun c => kf_cancel_reject c && negb (law_no_pending_new c)) cells = true) by (vm_compute; reflexivity).
  apply existsb_exists in H. destruct H as [c [Hin Hc]]. exists c. split; [exact Hin|].
  apply andb_prop in Hc. destruct Hc as [Hk Hl]. split; [exact Hk|].
  destruct (law_no_pending_new c); [discriminate | reflexivity].
Qed.

(* the class is exactly where a law fails: every cell of the class violates L4 *)
Lemma class_is_exact : forall c, In c cells -> kf_cancel_reject c = true -> law_no_pending_new c = false.
Proof.
  intros c Hin Hk.
  assert (H : forallb (fun c => negb (kf_cancel_reject c) || negb (law_no_pending_new c)) cells = true) by (vm_compute; reflexivity).
  rewrite forallb_forall in H. specialize (H c Hin). rewrite Hk in H. cbn in H.
  destruct (law_no_pending_new c); [discriminate | reflexivity].
Qed.

(* non-vacuity: the complement of the known class is most of the domain *)
Lemma partial_nonvacuous : N.eqb (N.of_nat (length (filter (fun c => negb (kf_cancel_reject c)) cells))) 21420 = true.
Proof. vm_compute. reflexivity. Qed.
