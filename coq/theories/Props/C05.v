(* C05 - outbound messages are numbered consecutively and journaled under that number.
   Theorems only (proofs in AF.Lemmas.SessionC05L) about send_msg and everything that sends through it
   in the model Fix/Session.v (asyncfix/connection.py:send_msg, Codec.encode's number selection,
   Journaler.persist_msg / set_seq_num as the abstract journal of the model).

   Out_inv w      stored outbound counter + 1 = next_num_out, every journaled outbound number is below
                  next_num_out, a connection that is up has its writer.
   OutStep w r    what a computation started in w did: the NEW frames it wrote (`news`: everything but
                  PossDupFlag=Y retransmissions and SequenceReset-GapFill, which are never journaled) carry
                  next_num_out, +1, +2, ... (their MsgSeqNum field says so), exactly these (number, frame) pairs
                  were appended to the journal, next_num_out advanced by their count, Out_inv holds again.
   `new` message  raw_seq m = false: not a SequenceReset and without PossDupFlag=Y (the codec allocates).

   D12 (ResendRequest servicing rewound / truncated the outbound journal) is repaired in the code: servicing a
   ResendRequest now preserves Out_inv, consumes no number and journals nothing (C05_history_partial has no D12
   hypothesis any more; C05_resend_twice_ok is the former witness).
   Known-finding class excluded by the `_partial` theorem:
     D20_step  an application send of a SequenceReset that is not a gap fill (raw_seq m = true and
               skip_journal m = false): numbered by its own MsgSeqNum field and journaled under it
               (since R8a the follow-up damage is a failed send that writes nothing, not a duplicate
               number on the wire: C05_journal_before_write, C05_app_seqreset_refuted)
   Numbers are assumed inside SQLite's INTEGER range (in_i64 / in_range hypotheses). *)
From Coq Require Import ZArith NArith List Bool.
From AF Require Import Base.Sx Py.Str Fix.Session Lemmas.SessionL Lemmas.SessionC04L Lemmas.SessionC11L Lemmas.SessionC05L.
From Coq Require String.
Import String.StringSyntax.
Import ListNotations.
Open Scope Z_scope.

Example C05_enums_tied : enums_ok = true.
Proof. exact enums_tied. Qed.
Print Assumptions C05_enums_tied.

(* send_msg of a new message preserves the invariant, whether accepted or refused *)
Theorem C05_send_preserves : forall c m,
  raw_seq m = false -> forall w, Out_inv w -> in_range w (send_msg c m w) -> OutStep w (send_msg c m w).
Proof. exact send_msg_new_outok. Qed.
Print Assumptions C05_send_preserves.

(* ... and there are exactly two outcomes: refused with FIXConnectionError and nothing changed; or written
   once with MsgSeqNum = next_num_out, that number consumed, the frame readable from the journal under that
   number, stored counter = that number *)
Theorem C05_send_new_cases : forall c m w,
  raw_seq m = false -> Out_inv w -> in_i64 (nout w) = true ->
  send_msg c m w = mkR (inr XConn) w []
  \/ exists w' pre,
       let wm := mkMsg (mtype m) (wire_tags c (nout w) m) in
       send_msg c m w = mkR (inl tt) w' (pre ++ [Wire wm]) /\ wires pre = []
       /\ get T34 (mtags wm) = Some (z_to_dec (nout w))
       /\ nout w' = nout w + 1 /\ j_sout (jr w') = nout w
       /\ lookup (nout w) (j_out (jr w')) = Some wm
       /\ j_out (jr w') = j_out (jr w) ++ [(nout w, wm)] /\ Out_inv w'.
Proof. exact send_msg_new_cases. Qed.
Print Assumptions C05_send_new_cases.

(* a send refused with FIXConnectionError (any message, any state): no number, no journal row, no frame *)
Theorem C05_refused_is_free : forall c m w,
  rv (send_msg c m w) = inr XConn -> send_msg c m w = mkR (inr XConn) w [].
Proof. exact send_msg_conn_free. Qed.
Print Assumptions C05_refused_is_free.

(* every history of inbound messages (ResendRequests included), sends, probes and disconnects outside D20: each
   step is an OutStep (new frames numbered consecutively from next_num_out and journaled under those numbers,
   retransmissions and gap fills not journaled) and the invariant holds at the end *)
Theorem C05_history_partial : forall c h w,
  Out_inv w -> I64MIN <= nout w -> nout (final c w h) <= I64MAX + 1 ->
  Forall (fun s => ~ D20_step s) (run c w h) ->
  Forall (fun s => OutStep (s_before s) (s_res s)) (run c w h) /\ Out_inv (final c w h).
Proof. exact run_out_inv. Qed.
Print Assumptions C05_history_partial.

(* _process_message alone, any inbound message (no class excluded): keeps the invariant *)
Theorem C05_inbound_preserves : forall c m now w,
  Out_inv w -> in_range w (process_message c m now w) -> OutStep w (process_message c m now w).
Proof. exact process_message_outok. Qed.
Print Assumptions C05_inbound_preserves.

(* the former D12 witness: two ResendRequests over the same range: answered twice from the untouched journal
   (8 frames written in all), new numbers 1 2 3 4, journal rows 1 2 3 4, ACTIVE *)
Example C05_resend_twice_ok :
  Out_inv w_acceptor /\ Forall (fun s => ~ D20_step s) (run cfgS w_acceptor h_resend_twice)
  /\ new_numbers (trace (run cfgS w_acceptor h_resend_twice)) = [S "1"; S "2"; S "3"; S "4"]
  /\ map fst (j_out (jr (final cfgS w_acceptor h_resend_twice))) = [1; 2; 3; 4]
  /\ length (wires (trace (run cfgS w_acceptor h_resend_twice))) = 8%nat
  /\ st (final cfgS w_acceptor h_resend_twice) = ST_ACTIVE.
Proof. exact resend_twice_ok. Qed.
Print Assumptions C05_resend_twice_ok.

(* application-sent SequenceReset-GapFill / PossDupFlag=Y messages: written, not journaled, no number consumed:
   inside the scope of C05_history_partial *)
Example C05_app_gapfill_in_scope :
  Forall (fun s => ~ D20_step s) (run cfgS w_acceptor h_app_gapfill)
  /\ new_numbers (trace (run cfgS w_acceptor h_app_gapfill)) = [S "1"; S "2"]
  /\ length (wires (trace (run cfgS w_acceptor h_app_gapfill))) = 4%nat
  /\ map fst (j_out (jr (final cfgS w_acceptor h_app_gapfill))) = [1; 2].
Proof. exact app_gapfill_in_scope. Qed.
Print Assumptions C05_app_gapfill_in_scope.

(* R8a - journal first, then write - for EVERY world (inside or outside the invariant, D20 included):
   a send_msg that raises (refusal, encoding error, journal error, closed writer) has written nothing;
   a send_msg that returns has written exactly one frame, and unless it is one of the never-journaled kinds
   (PossDupFlag=Y / SequenceReset-GapFill) that frame is in the outbound journal under its own number *)
Theorem C05_journal_before_write : forall c m w,
  match rv (send_msg c m w) with
  | inr _ => wires (re (send_msg c m w)) = []
  | inl _ => exists n, wires (re (send_msg c m w)) = [mkMsg (mtype m) (wire_tags c n m)]
                       /\ (skip_journal m = false ->
                           In (n, mkMsg (mtype m) (wire_tags c n m)) (j_out (jr (rw (send_msg c m w)))))
  end.
Proof. exact send_msg_journal_first. Qed.
Print Assumptions C05_journal_before_write.

(* D20: an application-sent plain SequenceReset(34 = next_num_out, no GapFillFlag) is written and journaled under
   that number without consuming it (Out_inv breaks: next_num_out is already a journal key).  Since R8a the
   duplicate number no longer reaches the wire: the next new message fails in the journal BEFORE the write -
   DuplicateSeqNoError, no frame, no journal row, the application message is lost and its number is burnt *)
Theorem C05_app_seqreset_refuted :
  exists c w h,
    Out_inv w
    /\ map (fun wm => get T34 (mtags wm)) (wires (trace (run c w h))) = [Some (S "1"); Some (S "2")]
    /\ (exists s, In s (run c w h) /\ Out_inv (s_before s) /\ ~ Out_inv (s_after s)
                  /\ nout (s_after s) = nout (s_before s) /\ has_key (nout (s_after s)) (j_out (jr (s_after s))) = true)
    /\ (exists s, In s (run c w h) /\ rv (s_res s) = inr XDupSeq /\ s_events s = []
                  /\ nout (s_after s) = nout (s_before s) + 1
                  /\ j_out (jr (s_after s)) = j_out (jr (s_before s))).
Proof. exact app_seqreset_refuted. Qed.
Print Assumptions C05_app_seqreset_refuted.

(* PossResend(97)=Y, PossDupFlag=N, GapFillFlag on a non-SequenceReset: NEW messages - numbered by the codec, journaled,
   counted, and replayed (with PossDupFlag=Y) on a ResendRequest *)
Example C05_possresend_is_new :
  raw_seq m_possresend = false /\ skip_journal m_possresend = false
  /\ skip_journal (mkMsg (S "D") [(S "11", S "X"); (T43, S "N")]) = false
  /\ skip_journal (mkMsg (S "D") [(S "11", S "X"); (T123, S "Y")]) = false
  /\ (let l := run cfgS w_acceptor [i_logon 1; OSend m_possresend; i_resend 2 2 0] in
      new_numbers (trace l) = [S "1"; S "2"]
      /\ map fst (j_out (jr (final cfgS w_acceptor [i_logon 1; OSend m_possresend; i_resend 2 2 0]))) = [1; 2]
      /\ j_sout (jr (final cfgS w_acceptor [i_logon 1; OSend m_possresend; i_resend 2 2 0])) = 2
      /\ map (fun wm => (get T34 (mtags wm), get T43 (mtags wm), get (S "97") (mtags wm))) (wires (trace l))
         = [(Some (S "1"), None, None); (Some (S "2"), None, Some (S "Y")); (Some (S "2"), Some (S "Y"), Some (S "Y"))]).
Proof. exact possresend_is_new. Qed.
Print Assumptions C05_possresend_is_new.

Example C05_nonvacuous :
  Out_inv w_acceptor /\ I64MIN <= nout w_acceptor /\ nout (final cfgS w_acceptor h_c05_good) <= I64MAX + 1
  /\ Forall (fun s => ~ D20_step s) (run cfgS w_acceptor h_c05_good)
  /\ new_numbers (trace (run cfgS w_acceptor h_c05_good)) = [S "1"; S "2"; S "3"; S "4"; S "5"; S "6"]
  /\ j_sout (jr (final cfgS w_acceptor h_c05_good)) = 6.
Proof. exact c05_good_in_scope. Qed.
Print Assumptions C05_nonvacuous.

(* R6a: a journaled application message carrying 43=N / 122 is replayed with 43=Y and 122 = its original SendingTime *)
Example C05_replay_overwrites_possdup :
  let l := run cfgS w_acceptor [i_logon 1; o_app_pdn; i_resend 2 2 0] in
  map (fun wm => (get T34 (mtags wm), get T43 (mtags wm), get T122 (mtags wm))) (wires (trace l))
  = [(Some (S "1"), None, None); (Some (S "2"), Some (S "N"), Some (S "OLD"));
     (Some (S "2"), Some (S "Y"), Some (c_time cfgS))]
  /\ st (final cfgS w_acceptor [i_logon 1; o_app_pdn; i_resend 2 2 0]) = ST_ACTIVE
  /\ new_numbers (trace l) = [S "1"; S "2"].
Proof. exact replay_overwrites_possdup. Qed.
Print Assumptions C05_replay_overwrites_possdup.
