"""Literals that live inside function bodies, found with Python `ast` BY NAME at any scope:
  noreply_msgs  (set literal assigned in / near AsyncFIXConnection._process_resend)
  the header skip-set of Codec.encode (set literal that is the right operand of `in` inside encode)
  ignore_tags   (set literal assigned in FIXContainer.__eq__)
Fail-soft (DESIGN.md 3.1): a literal that is not found is reported in MISSES and the committed default is
emitted, so no theorem breaks by itself; the property's correspondence covers a changed value."""
import ast
import os

from vlib import core
from .coqfmt import HEADER, clist, cstr

NAME = "GenConst"
SOURCES = ["asyncfix/connection.py", "asyncfix/codec.py", "asyncfix/message.py"]
MISSES = []

DEFAULTS = {
    "noreply_msgs": ["LOGON", "LOGOUT", "RESENDREQUEST", "HEARTBEAT", "TESTREQUEST", "SEQUENCERESET"],
    "encode_skip": ["MsgSeqNum", "SendingTime", "SenderCompID", "TargetCompID"],
    "ignore_tags": ["BeginString", "BodyLength", "CheckSum", "MsgType"],
}


def attr_names(node):
    """names X of elements written `Something.X` in a set/list/tuple literal"""
    if isinstance(node, (ast.Set, ast.List, ast.Tuple)) and node.elts and all(isinstance(e, ast.Attribute) for e in node.elts):
        return [e.attr for e in node.elts]
    return None


def find_assigned(tree, name):
    for n in ast.walk(tree):
        if isinstance(n, ast.Assign) and any(isinstance(t, ast.Name) and t.id == name for t in n.targets):
            r = attr_names(n.value)
            if r:
                return r
        if isinstance(n, ast.AnnAssign) and isinstance(n.target, ast.Name) and n.target.id == name and n.value is not None:
            r = attr_names(n.value)
            if r:
                return r
    return None


def find_in_operand(tree, func):
    for f in ast.walk(tree):
        if isinstance(f, (ast.FunctionDef, ast.AsyncFunctionDef)) and f.name == func:
            for n in ast.walk(f):
                if isinstance(n, ast.Compare) and len(n.ops) == 1 and isinstance(n.ops[0], ast.In):
                    r = attr_names(n.comparators[0])
                    if r:
                        return r
    return None


def generate():
    from asyncfix import FMsg, FTag

    del MISSES[:]
    src = {s: ast.parse(open(os.path.join(core.REPO, s)).read()) for s in SOURCES}
    found = {
        "noreply_msgs": find_assigned(src["asyncfix/connection.py"], "noreply_msgs"),
        "encode_skip": find_in_operand(src["asyncfix/codec.py"], "encode") or find_assigned(src["asyncfix/codec.py"], "skip_tags"),
        "ignore_tags": find_assigned(src["asyncfix/message.py"], "ignore_tags"),
    }
    for k, v in found.items():
        if v is None:
            MISSES.append(k)
            found[k] = DEFAULTS[k]
    t = HEADER
    t += "Definition noreply_values : list (list N) := %s.\n" % clist([cstr(FMsg[n].value) for n in found["noreply_msgs"]])
    t += "Definition encode_skip_values : list (list N) := %s.\n" % clist([cstr(FTag[n].value) for n in found["encode_skip"]])
    t += "Definition ignore_tag_values : list (list N) := %s.\n" % clist([cstr(FTag[n].value) for n in found["ignore_tags"]])
    t += "Definition translator_misses : nat := %d.\n" % len(MISSES)
    return t
