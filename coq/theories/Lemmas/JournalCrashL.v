(* Crash safety of the journal model (C08): what a fresh connection sees after the process died
   at an arbitrary primitive SQL statement / commit of an arbitrary operation sequence. *)
From Coq Require Import ZArith NArith List Bool Lia.
From AF Require Import Base.Sx Py.Str Fix.Journal Fix.JournalRun Lemmas.JournalL Lemmas.JournalRunL.
Import ListNotations.
Open Scope Z_scope.

(* ------------------------------------------------------------------ vocabulary *)

(* nothing is pending on the connection (an implicit transaction may still be open) *)
Definition clean (d : db) : Prop := cur d = committed d.

Definition stepf (st : rstate) (o : op) : rstate := fst (step st o).
Definition run_from (st : rstate) (ops : list op) : rstate := fold_left stepf ops st.

(* number of primitives (data-modifying statements incl. a failing INSERT, and commits) that
   operation o executes when started in state st *)
Definition cost (st : rstate) (o : op) : nat := count_exec (prims_of (r_hs st) o) (r_db st).

(* primitives executed by the first j operations of ops *)
Fixpoint prefix_cost (st : rstate) (ops : list op) (j : nat) : nat :=
  match j with
  | O => O
  | S j' => match ops with
            | [] => O
            | o :: ops' => (cost st o + prefix_cost (stepf st o) ops' j')%nat
            end
  end.

Lemma run_state_from ops : run_state ops = run_from init ops.
Proof. reflexivity. Qed.

Lemma run_from_app st a b : run_from st (a ++ b) = run_from (run_from st a) b.
Proof. unfold run_from. apply fold_left_app. Qed.

Lemma run_state_snoc ops o : run_state (ops ++ [o]) = stepf (run_state ops) o.
Proof. rewrite !run_state_from, run_from_app. reflexivity. Qed.

(* ------------------------------------------------------------------ primitives *)

Definition is_commit (p : prim) : bool := match p with PCommit => true | _ => false end.

Fixpoint commit_only_last (ps : list prim) : bool :=
  match ps with
  | [] => true
  | p :: ps' => match ps' with
                | [] => true
                | _ => negb (is_commit p) && commit_only_last ps'
                end
  end.

Lemma exec_prim_noncommit p d : is_commit p = false -> committed (fst (exec_prim p d)) = committed d.
Proof.
  destruct p; cbn [is_commit]; intros H; try discriminate; cbn [exec_prim];
    destruct (apply_stmt _ _); reflexivity.
Qed.

(* dying strictly inside a statement list whose only commit is its last element leaves the
   committed tables untouched *)
Lemma budget_keeps_committed ps : forall d b,
  commit_only_last ps = true -> (b < count_exec ps d)%nat ->
  committed (fst (exec_budget ps d b)) = committed d.
Proof.
  induction ps as [|p ps IH]; intros d b C L; [cbn in L; lia|].
  destruct b as [|b]; [reflexivity|].
  cbn [exec_budget count_exec] in *.
  destruct (exec_prim p d) as [d' ok] eqn:E.
  destruct ok; [|lia].
  destruct ps as [|q ps]; [cbn in L; lia|].
  apply andb_prop in C. destruct C as [C1 C2]. apply negb_true_iff in C1.
  rewrite IH; [|exact C2|lia].
  pose proof (exec_prim_noncommit p d C1) as H. rewrite E in H. exact H.
Qed.

(* running out the budget after the statement list has finished is the same as running it *)
Lemma budget_enough ps : forall d b,
  (count_exec ps d <= b)%nat -> fst (exec_budget ps d b) = fst (exec_prims ps d).
Proof.
  induction ps as [|p ps IH]; intros d b L; [destruct b; reflexivity|].
  cbn [exec_budget count_exec exec_prims] in *.
  destruct b as [|b]; [destruct (exec_prim p d) as [d' ok]; destruct ok; lia|].
  destruct (exec_prim p d) as [d' ok]. destruct ok; [apply IH; lia|reflexivity].
Qed.

Lemma prims_commit_only_last hs o : commit_only_last (prims_of hs o) = true.
Proof.
  destruct o as [tg sd|h dir msg|h o i|h dir lo hi|h dir n| |hs' dir|msg|]; cbn [prims_of]; try reflexivity.
  - destruct (find_seq_no msg); [|reflexivity]. unfold persist_prims. destruct (dir =? OUTBOUND); reflexivity.
  - destruct (_ || _); reflexivity.
Qed.

(* the three ways the write part of an operation can end *)
Lemma op_exec_cases hs o d :
  prims_of hs o = []
  \/ exec_prims (prims_of hs o) d = (mkDb (committed d) (cur d) true, false)
  \/ exists t, exec_prims (prims_of hs o) d = (mkDb t t false, true).
Proof.
  destruct o as [tg sd|h dir msg|h o i|h dir lo hi|h dir n| |hs' dir|msg|]; cbn [prims_of]; try (left; reflexivity).
  - right. unfold create_or_load_prims. cbn [exec_prims exec_prim apply_stmt].
    destruct (has_session (cur d) tg sd); [left; reflexivity|right; eexists; reflexivity].
  - destruct (find_seq_no msg) as [seq|]; [|left; reflexivity]. right.
    unfold persist_prims. cbn [exec_prims exec_prim apply_stmt].
    destruct (has_msg (cur d) seq (key (handle hs h)) dir); [left; reflexivity|].
    right. destruct (dir =? OUTBOUND); eexists; reflexivity.
  - destruct (_ || _); [left; reflexivity|]. right. right. eexists. apply exec_set_prims.
Qed.

(* ------------------------------------------------------------------ one operation *)

Definition set_args (s : session) (o i : option Z) : option (Z * Z) :=
  let bad_o := match o with Some v => v <=? 0 | None => false end in
  let bad_i := match i with Some v => v <=? 0 | None => false end in
  if bad_o || bad_i then None
  else Some (match o with Some v => v | None => next_out s end,
             match i with Some v => v | None => next_in s end).

Lemma set_seq_num_db s o i d :
  fst (fst (set_seq_num s o i d)) =
  match set_args s o i with
  | None => d
  | Some (no, ni) => mkDb (set_tables (cur d) (key s) no ni) (set_tables (cur d) (key s) no ni) false
  end.
Proof.
  unfold set_seq_num, set_args.
  destruct o as [v|], i as [w|]; cbn [orb];
    repeat match goal with |- context [?a <=? 0] => destruct (a <=? 0) end; cbn [orb fst]; reflexivity.
Qed.

Lemma set_seq_num_err s o i d :
  snd (set_seq_num s o i d) = match set_args s o i with None => Some EAssertion | Some _ => None end.
Proof.
  unfold set_seq_num, set_args.
  destruct o as [v|], i as [w|]; cbn [orb];
    repeat match goal with |- context [?a <=? 0] => destruct (a <=? 0) end; cbn [orb snd]; reflexivity.
Qed.

(* the database effect of an operation is the effect of its primitive list (this is what makes
   run_crash, which counts primitives of prims_of, a statement about step) *)
Lemma step_db st o :
  r_db (stepf st o) = match o with
                      | OReopen => reopen (r_db st)
                      | _ => fst (exec_prims (prims_of (r_hs st) o) (r_db st))
                      end.
Proof.
  unfold stepf.
  destruct o as [tg sd|h dir msg|h o i|h dir lo hi|h dir n| |hs' dir|msg|]; cbn [step prims_of]; try reflexivity.
  - unfold create_or_load.
    destruct (exec_prims (create_or_load_prims tg sd) (r_db st)) as [d' ok].
    destruct ok; [reflexivity|]. destruct (lookup_session _ _ _); reflexivity.
  - unfold persist_msg. destruct (find_seq_no msg) as [seq|]; [|reflexivity].
    destruct (exec_prims _ _) as [d' ok]. reflexivity.
  - pose proof (set_seq_num_db (handle (r_hs st) h) o i (r_db st)) as H.
    destruct (set_seq_num _ _ _ _) as [[d' s'] e]. cbn [fst r_db] in *. rewrite H.
    unfold set_args. destruct (_ || _); [reflexivity|]. rewrite exec_set_prims. reflexivity.
Qed.

Lemma step_clean st o : clean (r_db st) -> clean (r_db (stepf st o)).
Proof.
  intros C. rewrite step_db.
  assert (G : clean (fst (exec_prims (prims_of (r_hs st) o) (r_db st)))).
  { destruct (op_exec_cases (r_hs st) o (r_db st)) as [E|[E|[t E]]]; rewrite E; cbn; [exact C|exact C|reflexivity]. }
  destruct o; try exact G. unfold clean, reopen, crash. reflexivity.
Qed.

Lemma run_from_clean ops : forall st, clean (r_db st) -> clean (r_db (run_from st ops)).
Proof. induction ops as [|o ops IH]; intros st C; [exact C|]. apply IH. now apply step_clean. Qed.

Lemma reachable_clean ops : clean (r_db (run_state ops)).
Proof. rewrite run_state_from. apply run_from_clean. reflexivity. Qed.

Lemma run_from_wf ops : forall st, db_wf (r_db st) -> db_wf (r_db (run_from st ops)).
Proof. induction ops as [|o ops IH]; intros st W; [exact W|]. apply IH. now apply step_wf. Qed.

(* all-or-nothing for one operation started with nothing pending: whatever the budget, the
   committed tables are those before the operation or those after it *)
Lemma op_all_or_nothing st o b :
  clean (r_db st) ->
  let d' := fst (exec_budget (prims_of (r_hs st) o) (r_db st) b) in
  ((b < cost st o)%nat -> committed d' = cur (r_db st))
  /\ ((cost st o <= b)%nat -> committed d' = cur (r_db (stepf st o))).
Proof.
  intros C d'. split.
  - intros L. unfold d'. rewrite budget_keeps_committed; [symmetry; exact C|apply prims_commit_only_last|exact L].
  - intros L. unfold d'. rewrite budget_enough by exact L.
    pose proof (step_clean st o C) as C'. unfold clean in C'. rewrite C'. rewrite step_db. destruct o; reflexivity.
Qed.

(* ------------------------------------------------------------------ atomicity over histories *)

Lemma run_crash_spec ops : forall st b done0,
  clean (r_db st) ->
  let '(d, done, died) := run_crash st ops b done0 in
  exists j, done = (done0 + j)%nat /\ (j <= length ops)%nat
    /\ committed d = cur (r_db (run_from st (firstn j ops)))
    /\ (died = false -> j = length ops)
    /\ (died = true -> (j < length ops)%nat)
    /\ (prefix_cost st ops j <= b)%nat
    /\ (died = true -> (b < prefix_cost st ops (S j))%nat).
Proof.
  induction ops as [|o ops IH]; intros st b done0 C.
  - cbn. exists O. repeat split; try lia; try discriminate. symmetry. exact C.
  - cbn [run_crash].
    destruct (Nat.ltb b (count_exec (prims_of (r_hs st) o) (r_db st))) eqn:LT.
    + apply Nat.ltb_lt in LT. exists O. cbn [firstn run_from fold_left length prefix_cost].
      repeat split; try lia; try discriminate.
      * rewrite budget_keeps_committed; [symmetry; exact C|apply prims_commit_only_last|exact LT].
      * intros _. unfold cost. lia.
    + apply Nat.ltb_ge in LT.
      destruct (step st o) as [st' r] eqn:St.
      assert (E : st' = stepf st o) by (unfold stepf; now rewrite St). subst st'.
      specialize (IH (stepf st o) (b - count_exec (prims_of (r_hs st) o) (r_db st))%nat (S done0) (step_clean st o C)).
      destruct (run_crash _ ops _ _) as [[d done] died].
      destruct IH as [j [D [Lj [Eq [F [T [P1 P2]]]]]]].
      exists (S j). cbn [firstn length prefix_cost]. unfold cost at 1.
      repeat split; try lia.
      * exact Eq.
      * intros H. specialize (F H). lia.
      * intros H. specialize (T H). lia.
      * intros H. specialize (P2 H). cbn [prefix_cost] in P2. unfold cost. lia.
Qed.

Lemma observe_cur d1 d2 : cur d1 = cur d2 -> observe d1 = observe d2.
Proof. intros E. unfold observe, sessions, get_all_msgs. now rewrite E. Qed.

Lemma cur_reopen d : cur (reopen d) = committed d.
Proof. reflexivity. Qed.

(* C08 atomicity: after death at ANY primitive boundary of ANY operation sequence, a fresh
   connection sees exactly the state after the operations that had completed: the operation in
   flight left no trace, and no completed operation is missing. *)
Lemma crash_atomic ops k :
  let '(d, done, died) := run_crash init ops k 0 in
  (done <= length ops)%nat
  /\ cur (reopen d) = cur (r_db (run_state (firstn done ops)))
  /\ observe (reopen d) = observe (r_db (run_state (firstn done ops)))
  /\ (died = false -> done = length ops)
  /\ (died = true -> (done < length ops)%nat).
Proof.
  pose proof (run_crash_spec ops init k 0 eq_refl) as H.
  destruct (run_crash init ops k 0) as [[d done] died].
  destruct H as [j [D [Lj [Eq [F [T _]]]]]]. cbn in D. subst j.
  repeat split; auto.
  apply observe_cur. exact Eq.
Qed.

(* which operations had completed: exactly those whose primitives fit into the budget *)
Lemma crash_point ops k :
  let '(d, done, died) := run_crash init ops k 0 in
  (prefix_cost init ops done <= k)%nat
  /\ (died = true -> (k < prefix_cost init ops (S done))%nat)
  /\ (died = false -> (prefix_cost init ops (length ops) <= k)%nat).
Proof.
  pose proof (run_crash_spec ops init k 0 eq_refl) as H.
  destruct (run_crash init ops k 0) as [[d done] died].
  destruct H as [j [D [Lj [Eq [F [T [P1 P2]]]]]]]. cbn in D. subst j.
  repeat split; auto. intros H. rewrite <- (F H). exact P1.
Qed.

(* the two-alternative form of the property text, per operation: dying inside operation o
   (started at an operation boundary) leaves the state before it, dying after its last
   primitive leaves the state after it - nothing in between *)
Lemma crash_in_flight ops o b :
  let st := run_state ops in
  let d' := fst (exec_budget (prims_of (r_hs st) o) (r_db st) b) in
  (cur (reopen d') = cur (r_db st) /\ (b < cost st o)%nat)
  \/ (cur (reopen d') = cur (r_db (run_state (ops ++ [o]))) /\ (cost st o <= b)%nat).
Proof.
  intros st d'. pose proof (op_all_or_nothing st o b (reachable_clean ops)) as [A B].
  rewrite run_state_snoc. rewrite !cur_reopen.
  destruct (Nat.lt_ge_cases b (cost st o)) as [L|L]; [left|right]; split; auto.
Qed.

(* ------------------------------------------------------------------ normal close *)

(* at every operation boundary nothing is pending, so close() (which rolls back the open
   transaction, exactly like process death) loses nothing *)
Lemma close_loses_nothing ops :
  let d := r_db (run_state ops) in
  cur (reopen (crash d)) = cur d /\ observe (reopen (crash d)) = observe d.
Proof.
  intros d. assert (E : cur (reopen (crash d)) = cur d).
  { unfold reopen, crash. cbn. symmetry. apply reachable_clean. }
  split; [exact E|now apply observe_cur].
Qed.

(* ------------------------------------------------------------------ effect of one step on the abstract view *)

Lemma stepf_persist_db st h dir msg :
  r_db (stepf st (OPersist h dir msg)) = fst (persist_msg msg (handle (r_hs st) h) dir (r_db st)).
Proof. unfold stepf. cbn [step]. destruct (persist_msg _ _ _ _). reflexivity. Qed.

Lemma stepf_set_db st h o i :
  r_db (stepf st (OSetSeq h o i)) = fst (fst (set_seq_num (handle (r_hs st) h) o i (r_db st))).
Proof. unfold stepf. cbn [step]. destruct (set_seq_num _ _ _ _) as [[d' s'] e]. reflexivity. Qed.

Lemma stepf_create_db st tg sd :
  r_db (stepf st (OCreate tg sd)) = fst (exec_prims (create_or_load_prims tg sd) (r_db st)).
Proof. rewrite step_db. reflexivity. Qed.

Lemma stepf_reopen_db st : r_db (stepf st OReopen) = reopen (r_db st).
Proof. rewrite step_db. reflexivity. Qed.

Lemma create_cur tg sd d :
  let d' := fst (exec_prims (create_or_load_prims tg sd) d) in
  t_messages (cur d') = t_messages (cur d)
  /\ (forall sid c, counter (cur d) sid = Some c -> counter (cur d') sid = Some c).
Proof.
  unfold create_or_load_prims. cbn [exec_prims exec_prim apply_stmt].
  destruct (has_session (cur d) tg sd); cbn; split; auto.
  intros sid c. unfold counter. cbn [t_sessions]. rewrite find_app.
  destruct (find _ (t_sessions (cur d))); cbn; [auto|discriminate].
Qed.

Lemma persist_cases msg s dir d :
  (cur (fst (persist_msg msg s dir d)) = cur d /\ snd (persist_msg msg s dir d) <> None)
  \/ exists n, find_seq_no msg = Some n /\ lookup (cur d) (key s) dir n = None
               /\ cur (fst (persist_msg msg s dir d)) = persist_tables (cur d) n (key s) dir msg
               /\ snd (persist_msg msg s dir d) = None.
Proof.
  destruct (find_seq_no msg) as [n|] eqn:F.
  - destruct (lookup (cur d) (key s) dir n) as [old|] eqn:L.
    + left. rewrite (persist_dup d msg s dir n old F L). cbn. split; [reflexivity|discriminate].
    + right. exists n. rewrite (persist_new d msg s dir n F L). cbn. auto.
  - left. rewrite (persist_malformed d msg s dir F). cbn. split; [reflexivity|discriminate].
Qed.

(* set_seq_num that removes entry (sid, dir, n) *)
Definition removes (hs : list session) (o : op) (sid dir n : Z) : bool :=
  match o with
  | OSetSeq h o' i' =>
      match set_args (handle hs h) o' i' with
      | Some (no, ni) =>
          (sid =? key (handle hs h)) && (((dir =? INBOUND) && (ni <=? n)) || ((dir =? OUTBOUND) && (no <=? n)))
      | None => false
      end
  | _ => false
  end.

Lemma lookup_messages_eq t1 t2 sid dir n : t_messages t1 = t_messages t2 -> lookup t1 sid dir n = lookup t2 sid dir n.
Proof. intros E. unfold lookup. now rewrite E. Qed.

(* a stored entry survives every operation except a set_seq_num that removes it *)
Lemma step_keeps_row st o sid dir n m :
  db_wf (r_db st) -> clean (r_db st) ->
  lookup (cur (r_db st)) sid dir n = Some m ->
  removes (r_hs st) o sid dir n = false ->
  lookup (cur (r_db (stepf st o))) sid dir n = Some m.
Proof.
  intros [W _] C L R.
  destruct o as [tg sd|h dir' msg|h o i|h dir' lo hi|h dir' n'| |hs' dir'|msg|]; try exact L.
  - rewrite stepf_create_db. destruct (create_cur tg sd (r_db st)) as [E _].
    rewrite (lookup_messages_eq _ _ sid dir n E). exact L.
  - rewrite stepf_persist_db.
    destruct (persist_cases msg (handle (r_hs st) h) dir' (r_db st)) as [[E _]|[n' [F [L' [E _]]]]]; rewrite E; [exact L|].
    rewrite lookup_persist_tables by exact L'.
    destruct ((n =? n') && (sid =? key (handle (r_hs st) h)) && (dir =? dir')) eqn:K; [|exact L].
    apply andb_prop in K. destruct K as [K K3]. apply andb_prop in K. destruct K as [K1 K2].
    apply Z.eqb_eq in K1, K2, K3. subst. congruence.
  - rewrite stepf_set_db, set_seq_num_db. cbn [removes] in R.
    destruct (set_args (handle (r_hs st) h) o i) as [[no ni]|]; [|exact L].
    cbn [cur]. rewrite lookup_set_tables by exact W. rewrite R. exact L.
  - rewrite stepf_reopen_db, cur_reopen, <- C. exact L.
Qed.

Fixpoint never_removed (st : rstate) (ops : list op) (sid dir n : Z) : bool :=
  match ops with
  | [] => true
  | o :: ops' => negb (removes (r_hs st) o sid dir n) && never_removed (stepf st o) ops' sid dir n
  end.

Lemma run_keeps_row ops : forall st sid dir n m,
  db_wf (r_db st) -> clean (r_db st) ->
  lookup (cur (r_db st)) sid dir n = Some m ->
  never_removed st ops sid dir n = true ->
  lookup (cur (r_db (run_from st ops))) sid dir n = Some m.
Proof.
  induction ops as [|o ops IH]; intros st sid dir n m W C L N; [exact L|].
  cbn [never_removed] in N. apply andb_prop in N. destruct N as [N1 N2]. apply negb_true_iff in N1.
  cbn [run_from fold_left]. apply IH; [now apply step_wf|now apply step_clean| |exact N2].
  now apply step_keeps_row.
Qed.

(* the completed prefix of  pre ++ o :: post  once o has completed *)
Lemma firstn_past {A} (pre : list A) o post done :
  (length pre < done)%nat ->
  firstn done (pre ++ o :: post) = (pre ++ [o]) ++ firstn (done - S (length pre)) post.
Proof.
  intros L. rewrite firstn_app. rewrite firstn_all2 by lia.
  replace (done - length pre)%nat with (S (done - S (length pre))) by lia.
  cbn [firstn]. rewrite <- app_assoc. reflexivity.
Qed.

(* C08 durability: a persist_msg that returned stays retrievable byte-for-byte after a crash at
   any later point, unless a set_seq_num that had completed by then removed it *)
Lemma persist_durable pre h dir msg post k n :
  let st := run_state pre in
  let s := handle (r_hs st) h in
  let p := OPersist h dir msg in
  find_seq_no msg = Some n ->
  snd (persist_msg msg s dir (r_db st)) = None ->
  let '(d, done, died) := run_crash init (pre ++ p :: post) k 0 in
  (length pre < done)%nat ->
  never_removed (stepf st p) (firstn (done - S (length pre)) post) (key s) dir n = true ->
  lookup (cur (reopen d)) (key s) dir n = Some msg.
Proof.
  intros st s p F OK.
  pose proof (crash_atomic (pre ++ p :: post) k) as A.
  destruct (run_crash init (pre ++ p :: post) k 0) as [[d done] died].
  destruct A as [_ [E _]]. intros L N. rewrite E.
  rewrite firstn_past by exact L. rewrite run_state_from, run_from_app, <- run_state_from.
  rewrite run_state_snoc. fold st.
  apply run_keeps_row; [apply step_wf, reachable_wf|apply step_clean, reachable_clean| |exact N].
  unfold p. rewrite stepf_persist_db. fold s.
  destruct (persist_cases msg s dir (r_db st)) as [[_ Bad]|[n' [F' [L' [E' _]]]]]; [congruence|].
  rewrite E'. assert (n' = n) by congruence. subst n'.
  rewrite lookup_persist_tables by exact L'. now rewrite !Z.eqb_refl.
Qed.

(* ------------------------------------------------------------------ a completed set_seq_num is never lost *)

(* operation o does not write session sid *)
Definition quiet (hs : list session) (o : op) (sid : Z) : bool :=
  match o with
  | OPersist h _ _ => negb (key (handle hs h) =? sid)
  | OSetSeq h _ _ => negb (key (handle hs h) =? sid)
  | _ => true
  end.

Lemma step_quiet st o sid c :
  db_wf (r_db st) -> clean (r_db st) ->
  quiet (r_hs st) o sid = true ->
  counter (cur (r_db st)) sid = Some c ->
  counter (cur (r_db (stepf st o))) sid = Some c
  /\ forall dir n, lookup (cur (r_db (stepf st o))) sid dir n = lookup (cur (r_db st)) sid dir n.
Proof.
  intros [W _] C Q Ct.
  destruct o as [tg sd|h dir' msg|h o i|h dir' lo hi|h dir' n'| |hs' dir'|msg|]; try (split; [exact Ct|reflexivity]).
  - rewrite stepf_create_db. destruct (create_cur tg sd (r_db st)) as [E K]. split; [now apply K|].
    intros dir n. now apply lookup_messages_eq.
  - cbn [quiet] in Q. apply negb_true_iff in Q. rewrite stepf_persist_db.
    destruct (persist_cases msg (handle (r_hs st) h) dir' (r_db st)) as [[E _]|[n' [F [L' [E _]]]]]; rewrite E;
      [split; [exact Ct|reflexivity]|].
    split.
    + rewrite counter_persist_tables, Ct. cbn. rewrite Z.eqb_sym, Q. reflexivity.
    + intros dir n. rewrite lookup_persist_tables by exact L'.
      rewrite (Z.eqb_sym sid), Q. rewrite andb_false_r. reflexivity.
  - cbn [quiet] in Q. apply negb_true_iff in Q. rewrite stepf_set_db, set_seq_num_db.
    destruct (set_args (handle (r_hs st) h) o i) as [[no ni]|]; [|split; [exact Ct|reflexivity]].
    cbn [cur]. split.
    + rewrite counter_set_tables, Ct. cbn. rewrite Z.eqb_sym, Q. reflexivity.
    + intros dir n. rewrite lookup_set_tables by exact W. rewrite (Z.eqb_sym sid), Q. reflexivity.
  - rewrite stepf_reopen_db, cur_reopen, <- C. split; [exact Ct|reflexivity].
Qed.

Fixpoint all_quiet (st : rstate) (ops : list op) (sid : Z) : bool :=
  match ops with
  | [] => true
  | o :: ops' => quiet (r_hs st) o sid && all_quiet (stepf st o) ops' sid
  end.

Lemma run_quiet ops : forall st sid c,
  db_wf (r_db st) -> clean (r_db st) ->
  all_quiet st ops sid = true ->
  counter (cur (r_db st)) sid = Some c ->
  counter (cur (r_db (run_from st ops))) sid = Some c
  /\ forall dir n, lookup (cur (r_db (run_from st ops))) sid dir n = lookup (cur (r_db st)) sid dir n.
Proof.
  induction ops as [|o ops IH]; intros st sid c W C Q Ct; [split; [exact Ct|reflexivity]|].
  cbn [all_quiet] in Q. apply andb_prop in Q. destruct Q as [Q1 Q2].
  destruct (step_quiet st o sid c W C Q1 Ct) as [Ct' Lk].
  destruct (IH (stepf st o) sid c (step_wf st o W) (step_clean st o C) Q2 Ct') as [Ct'' Lk'].
  cbn [run_from fold_left]. split; [exact Ct''|]. intros dir n. rewrite Lk'. apply Lk.
Qed.

(* C08: a set_seq_num that completed is in every later recovered state: the stored counters are
   the new values minus one and nothing at or above them is stored, until a later completed
   operation writes that session again *)
Lemma set_seq_durable pre h o i post k no ni c :
  let st := run_state pre in
  let s := handle (r_hs st) h in
  let p := OSetSeq h o i in
  set_args s o i = Some (no, ni) ->
  counter (cur (r_db st)) (key s) = Some c ->
  let '(d, done, died) := run_crash init (pre ++ p :: post) k 0 in
  (length pre < done)%nat ->
  all_quiet (stepf st p) (firstn (done - S (length pre)) post) (key s) = true ->
  counter (cur (reopen d)) (key s) = Some (no - 1, ni - 1)
  /\ (forall n, ni <= n -> lookup (cur (reopen d)) (key s) INBOUND n = None)
  /\ (forall n, no <= n -> lookup (cur (reopen d)) (key s) OUTBOUND n = None)
  /\ (forall n, n < ni -> lookup (cur (reopen d)) (key s) INBOUND n = lookup (cur (r_db st)) (key s) INBOUND n)
  /\ (forall n, n < no -> lookup (cur (reopen d)) (key s) OUTBOUND n = lookup (cur (r_db st)) (key s) OUTBOUND n).
Proof.
  intros st s p A Ct.
  pose proof (crash_atomic (pre ++ p :: post) k) as At.
  destruct (run_crash init (pre ++ p :: post) k 0) as [[d done] died].
  destruct At as [_ [E _]]. intros L Q. rewrite E.
  rewrite firstn_past by exact L. rewrite run_state_from, run_from_app, <- run_state_from.
  rewrite run_state_snoc. fold st.
  assert (W : wf (cur (r_db st))) by apply reachable_wf.
  assert (Db : cur (r_db (stepf st p)) = set_tables (cur (r_db st)) (key s) no ni).
  { unfold p. rewrite stepf_set_db, set_seq_num_db. fold s. rewrite A. reflexivity. }
  assert (Ct' : counter (cur (r_db (stepf st p))) (key s) = Some (no - 1, ni - 1)).
  { rewrite Db, counter_set_tables, Ct. cbn. now rewrite Z.eqb_refl. }
  destruct (run_quiet _ (stepf st p) (key s) _ (step_wf st p (reachable_wf pre))
              (step_clean st p (reachable_clean pre)) Q Ct') as [Ct'' Lk].
  split; [exact Ct''|].
  unfold INBOUND, OUTBOUND.
  repeat split; intros n Hn; rewrite Lk, Db, lookup_set_tables by exact W; rewrite Z.eqb_refl; unfold INBOUND, OUTBOUND; cbn.
  - apply Z.leb_le in Hn. now rewrite Hn.
  - apply Z.leb_le in Hn. now rewrite Hn.
  - apply Z.leb_gt in Hn. now rewrite Hn.
  - apply Z.leb_gt in Hn. now rewrite Hn.
Qed.

(* ------------------------------------------------------------------ a row never exists without its counter update *)

(* persist_msg at primitive level: whatever the budget, a fresh connection sees the tables before
   the call or the tables with BOTH the row and the counter (only once all three primitives ran) *)
Lemma persist_budget_cases d s dir msg n b :
  clean d ->
  let d' := fst (exec_budget (persist_prims n s dir msg) d b) in
  committed d' = committed d
  \/ (lookup (cur d) (key s) dir n = None /\ (3 <= b)%nat
      /\ committed d' = persist_tables (cur d) n (key s) dir msg).
Proof.
  intros C. unfold persist_prims, persist_tables.
  destruct (has_msg (cur d) n (key s) dir) eqn:H.
  - left. destruct b as [|b]; [reflexivity|]. cbn [exec_budget exec_prim apply_stmt]. rewrite H. reflexivity.
  - destruct b as [|[|[|b]]].
    + left. reflexivity.
    + left. cbn [exec_budget exec_prim apply_stmt]. rewrite H. reflexivity.
    + left. cbn [exec_budget exec_prim apply_stmt]. rewrite H. destruct (dir =? OUTBOUND); reflexivity.
    + right. split; [now apply has_msg_lookup|]. split; [lia|].
      cbn [exec_budget exec_prim apply_stmt]. rewrite H. destruct (dir =? OUTBOUND); reflexivity.
Qed.

Lemma persist_row_with_counter d s dir msg n b :
  clean d ->
  lookup (committed d) (key s) dir n = None ->
  let t' := committed (fst (exec_budget (persist_prims n s dir msg) d b)) in
  lookup t' (key s) dir n <> None ->
  lookup t' (key s) dir n = Some msg
  /\ counter t' (key s) =
     option_map (fun c => if dir =? OUTBOUND then (n, snd c) else (fst c, n)) (counter (committed d) (key s)).
Proof.
  intros C L0 t' L1. unfold t' in *.
  destruct (persist_budget_cases d s dir msg n b C) as [E|[L [_ E]]].
  - rewrite E in L1. congruence.
  - rewrite E. rewrite lookup_persist_tables by exact L. rewrite counter_persist_tables.
    rewrite !Z.eqb_refl. rewrite <- C. split; [reflexivity|].
    destruct (counter (cur d) (key s)); reflexivity.
Qed.

(* the state right after a persist_msg that returned: the row and its counter *)
Lemma persist_commit_state st h dir msg n :
  let s := handle (r_hs st) h in
  find_seq_no msg = Some n ->
  snd (persist_msg msg s dir (r_db st)) = None ->
  let t' := cur (r_db (stepf st (OPersist h dir msg))) in
  lookup t' (key s) dir n = Some msg
  /\ counter t' (key s) =
     option_map (fun c => if dir =? OUTBOUND then (n, snd c) else (fst c, n)) (counter (cur (r_db st)) (key s)).
Proof.
  intros s F OK t'. unfold t'. rewrite stepf_persist_db. fold s.
  destruct (persist_cases msg s dir (r_db st)) as [[_ Bad]|[n' [F' [L' [E' _]]]]]; [congruence|].
  rewrite E'. assert (n' = n) by congruence. subst n'.
  rewrite lookup_persist_tables by exact L'. rewrite counter_persist_tables. rewrite !Z.eqb_refl.
  split; [reflexivity|]. destruct (counter _ _); reflexivity.
Qed.

(* row r was written by a persist_msg of history ops that returned *)
Definition written_by (ops : list op) (r : mrow) : Prop :=
  exists pre h post,
    ops = pre ++ OPersist h (m_dir r) (m_msg r) :: post
    /\ key (handle (r_hs (run_state pre)) h) = m_sid r
    /\ find_seq_no (m_msg r) = Some (m_seq r)
    /\ snd (persist_msg (m_msg r) (handle (r_hs (run_state pre)) h) (m_dir r) (r_db (run_state pre))) = None.

Lemma written_by_snoc ops o r : written_by ops r -> written_by (ops ++ [o]) r.
Proof.
  intros [pre [h [post [E H]]]]. exists pre, h, (post ++ [o]). split; [|exact H].
  rewrite E, <- app_assoc. reflexivity.
Qed.

Lemma persist_tables_messages t n sid dir msg :
  t_messages (persist_tables t n sid dir msg) = t_messages t ++ [mkM n sid dir msg].
Proof. unfold persist_tables. destruct (dir =? OUTBOUND); reflexivity. Qed.

Lemma step_rows st o r :
  clean (r_db st) ->
  In r (t_messages (cur (r_db (stepf st o)))) ->
  In r (t_messages (cur (r_db st)))
  \/ exists h, o = OPersist h (m_dir r) (m_msg r)
               /\ key (handle (r_hs st) h) = m_sid r
               /\ find_seq_no (m_msg r) = Some (m_seq r)
               /\ snd (persist_msg (m_msg r) (handle (r_hs st) h) (m_dir r) (r_db st)) = None.
Proof.
  intros C.
  destruct o as [tg sd|h dir' msg|h o i|h dir' lo hi|h dir' n'| |hs' dir'|msg|]; try (intros H; left; exact H).
  - rewrite stepf_create_db. destruct (create_cur tg sd (r_db st)) as [E _]. rewrite E. auto.
  - rewrite stepf_persist_db.
    destruct (persist_cases msg (handle (r_hs st) h) dir' (r_db st)) as [[E _]|[n' [F [L' [E OK]]]]]; rewrite E; [auto|].
    rewrite persist_tables_messages, in_app_iff. intros [H|[H|[]]]; [auto|]. right. exists h. subst r. cbn. auto.
  - rewrite stepf_set_db, set_seq_num_db.
    destruct (set_args (handle (r_hs st) h) o i) as [[no ni]|]; [|auto].
    cbn [cur set_tables t_messages]. unfold del_from. intros H. left.
    apply filter_In in H. destruct H as [H _]. apply filter_In in H. tauto.
  - rewrite stepf_reopen_db, cur_reopen, <- C. auto.
Qed.

Lemma rows_written ops : forall r, In r (t_messages (cur (r_db (run_state ops)))) -> written_by ops r.
Proof.
  induction ops as [|o ops IH] using rev_ind; intros r H; [destruct H|].
  rewrite run_state_snoc in H.
  destruct (step_rows _ _ _ (reachable_clean ops) H) as [H'|[h [E [K [F OK]]]]].
  - apply written_by_snoc. now apply IH.
  - exists ops, h, []. subst o. auto.
Qed.

(* C08: every message row of every recovered state was written by a persist_msg that had
   returned, and the commit that made the row durable also set the counter of that direction to
   the row's number: in the state right after that call (one commit after the state before it)
   the row is present with counter = its number *)
Lemma recovered_row_has_counter ops k :
  let '(d, done, died) := run_crash init ops k 0 in
  forall r, In r (t_messages (cur (reopen d))) ->
  exists pre h post,
    firstn done ops = pre ++ OPersist h (m_dir r) (m_msg r) :: post
    /\ let st := run_state pre in
       let t' := cur (r_db (run_state (pre ++ [OPersist h (m_dir r) (m_msg r)]))) in
       key (handle (r_hs st) h) = m_sid r
       /\ find_seq_no (m_msg r) = Some (m_seq r)
       /\ lookup t' (m_sid r) (m_dir r) (m_seq r) = Some (m_msg r)
       /\ counter t' (m_sid r) =
          option_map (fun c => if m_dir r =? OUTBOUND then (m_seq r, snd c) else (fst c, m_seq r))
                     (counter (cur (r_db st)) (m_sid r)).
Proof.
  pose proof (crash_atomic ops k) as A.
  destruct (run_crash init ops k 0) as [[d done] died].
  destruct A as [_ [E _]]. intros r H. rewrite E in H.
  destruct (rows_written _ r H) as [pre [h [post [Eo [K [F OK]]]]]].
  exists pre, h, post. split; [exact Eo|]. cbn zeta.
  rewrite run_state_snoc.
  pose proof (persist_commit_state (run_state pre) h (m_dir r) (m_msg r) (m_seq r) F OK) as P.
  cbn zeta in P. rewrite K in P. tauto.
Qed.

(* ------------------------------------------------------------------ rows never exceed the counter (ascending use) *)

(* DESIGN.md's form of "row implies counter": the stored counter of a direction is at least every
   stored number of that direction.  It is an invariant only of histories that store numbers in
   ascending order per session and direction (what the session engine does); C13 allows any order. *)
Definition below (t : tables) : Prop :=
  forall r c, In r (t_messages t) -> counter t (m_sid r) = Some c ->
    (m_dir r = OUTBOUND -> m_seq r <= fst c) /\ (m_dir r = INBOUND -> m_seq r <= snd c).

Definition asc_stepb (st : rstate) (o : op) : bool :=
  match o with
  | OPersist h dir msg =>
      match find_seq_no msg, counter (cur (r_db st)) (key (handle (r_hs st) h)) with
      | Some n, Some c => ctr_dir dir c <=? n
      | _, _ => true
      end
  | _ => true
  end.

Fixpoint ascending (st : rstate) (ops : list op) : bool :=
  match ops with
  | [] => true
  | o :: ops' => asc_stepb st o && ascending (stepf st o) ops'
  end.

Definition sids_known (t : tables) : Prop := forall r, In r (t_messages t) -> m_sid r < next_sid t.
Definition handles_known (st : rstate) : Prop := forall s, In s (r_hs st) -> key s < next_sid (cur (r_db st)).

Record asc_inv (st : rstate) : Prop := mkAI {
  ai_below : below (cur (r_db st));
  ai_sids : sids_known (cur (r_db st));
  ai_hs : handles_known st
}.

Lemma next_sid_pos t : 1 <= next_sid t.
Proof. unfold next_sid. lia. Qed.

Lemma handle_known st h : handles_known st -> key (handle (r_hs st) h) < next_sid (cur (r_db st)).
Proof.
  intros H. unfold handle. destruct (nth_in_or_default h (r_hs st) dummy_session) as [I|E].
  - now apply H.
  - rewrite E. cbn. pose proof (next_sid_pos (cur (r_db st))). lia.
Qed.

Lemma ids_bound l : forall k r, ids_from k l -> In r l -> k <= s_id r < k + Z.of_nat (length l).
Proof.
  induction l as [|x l IH]; intros k r H I; [destruct I|].
  destruct H as [Hx Hl]. cbn [length]. destruct I as [->|I]; [lia|].
  specialize (IH (k + 1) r Hl I). lia.
Qed.

Lemma next_sid_upd f sid t : next_sid (upd_sessions f sid t) = next_sid t.
Proof. unfold next_sid, upd_sessions. cbn. now rewrite map_length. Qed.

Lemma next_sid_persist_tables t n sid dir msg : next_sid (persist_tables t n sid dir msg) = next_sid t.
Proof. unfold persist_tables. destruct (dir =? OUTBOUND); rewrite next_sid_upd; reflexivity. Qed.

Lemma next_sid_set_tables t sid o i : next_sid (set_tables t sid o i) = next_sid t.
Proof. unfold next_sid, set_tables. cbn. now rewrite map_length. Qed.

Lemma set_seq_num_key s o i d : key (snd (fst (set_seq_num s o i d))) = key s.
Proof.
  unfold set_seq_num. destruct o as [v|], i as [w|];
    repeat match goal with |- context [?a <=? 0] => destruct (a <=? 0) end; reflexivity.
Qed.

Lemma in_set_nth {A} (x y : A) l : forall n, In x (set_nth n y l) -> x = y \/ In x l.
Proof.
  induction l as [|a l IH]; intros n H; destruct n; cbn in H; try tauto.
  - destruct H as [<-|H]; [now left|right; now right].
  - destruct H as [<-|H]; [right; now left|]. destruct (IH n H); [now left|right; now right].
Qed.

Lemma stepf_create_hs st tg sd :
  (has_session (cur (r_db st)) tg sd = false
   /\ r_hs (stepf st (OCreate tg sd)) = r_hs st ++ [mkSess (next_sid (cur (r_db st))) tg sd 1 1]
   /\ cur (r_db (stepf st (OCreate tg sd))) =
      mkT (t_sessions (cur (r_db st)) ++ [mkS (next_sid (cur (r_db st))) tg sd 0 0]) (t_messages (cur (r_db st))))
  \/ (exists r, In r (t_sessions (cur (r_db st)))
      /\ r_hs (stepf st (OCreate tg sd)) = r_hs st ++ [session_of_row r]
      /\ cur (r_db (stepf st (OCreate tg sd))) = cur (r_db st)).
Proof.
  unfold stepf. cbn [step]. destruct (has_session (cur (r_db st)) tg sd) eqn:H.
  - right. destruct (create_or_load_existing (r_db st) tg sd H) as [r [I [_ [_ [E _]]]]].
    exists r. rewrite E. cbn. auto.
  - left. destruct (create_or_load_new (r_db st) tg sd H) as [E _]. rewrite E. cbn. auto.
Qed.

Lemma step_asc_inv st o :
  db_wf (r_db st) -> clean (r_db st) -> asc_inv st -> asc_stepb st o = true -> asc_inv (stepf st o).
Proof.
  intros [W _] C [B S H] A.
  destruct o as [tg sd|h dir msg|h o i|h dir lo hi|h dir n| |hs' dir|msg|]; try (constructor; assumption).
  - (* create_or_load *)
    destruct (stepf_create_hs st tg sd) as [[_ [Eh Ec]]|[r0 [Ir [Eh Ec]]]].
    + assert (N : next_sid (cur (r_db (stepf st (OCreate tg sd)))) = next_sid (cur (r_db st)) + 1).
      { rewrite Ec. unfold next_sid. cbn. rewrite app_length. cbn. lia. }
      constructor.
      * intros r c I Ct. rewrite Ec in I, Ct. cbn [t_messages] in I.
        unfold counter in Ct. cbn [t_sessions] in Ct. rewrite find_app in Ct.
        destruct (find (fun r0 => s_id r0 =? m_sid r) (t_sessions (cur (r_db st)))) as [x|] eqn:F.
        -- apply (B r c I). unfold counter. now rewrite F.
        -- cbn [s_id] in Ct. destruct (next_sid (cur (r_db st)) =? m_sid r) eqn:Q; [|discriminate].
           apply Z.eqb_eq in Q. specialize (S r I). lia.
      * intros r I. rewrite N. rewrite Ec in I. cbn [t_messages] in I. specialize (S r I). lia.
      * intros s I. rewrite N. rewrite Eh in I. apply in_app_iff in I. destruct I as [I|[<-|[]]].
        -- specialize (H s I). lia.
        -- cbn. lia.
    + constructor; rewrite ?Ec; auto.
      intros s I. rewrite Ec. rewrite Eh in I. apply in_app_iff in I. destruct I as [I|[<-|[]]]; [now apply H|].
      cbn. destruct W as [_ Ids _]. pose proof (ids_bound _ _ _ Ids Ir) as Bd. unfold next_sid. lia.
  - (* persist_msg *)
    assert (Eh : r_hs (stepf st (OPersist h dir msg)) = r_hs st).
    { unfold stepf. cbn [step]. destruct (persist_msg _ _ _ _). reflexivity. }
    pose proof (handle_known st h H) as Hk.
    pose proof (stepf_persist_db st h dir msg) as Ed.
    destruct (persist_cases msg (handle (r_hs st) h) dir (r_db st)) as [[E _]|[n [F [L [E _]]]]].
    + constructor; unfold handles_known; rewrite ?Eh, Ed, E; assumption.
    + cbn [asc_stepb] in A. rewrite F in A.
      set (sid := key (handle (r_hs st) h)) in *.
      constructor; unfold handles_known; rewrite ?Eh, Ed, E.
      * intros r c I Ct. rewrite persist_tables_messages in I. rewrite counter_persist_tables in Ct.
        destruct (counter (cur (r_db st)) (m_sid r)) as [c0|] eqn:C0; [|discriminate]. cbn in Ct.
        destruct (m_sid r =? sid) eqn:Q.
        -- apply Z.eqb_eq in Q. rewrite Q in C0. rewrite C0 in A. unfold ctr_dir in A.
           apply in_app_iff in I. destruct I as [I|[<-|[]]].
           ++ destruct (B r c0 I) as [B1 B2]; [now rewrite Q|].
              destruct (dir =? OUTBOUND); apply Z.leb_le in A; inversion Ct; subst c; cbn; split; intros D;
                try (specialize (B1 D)); try (specialize (B2 D)); lia.
           ++ cbn [m_dir m_seq]. destruct (dir =? OUTBOUND) eqn:D; inversion Ct; subst c; cbn; split; intros D';
                try lia; unfold INBOUND, OUTBOUND in *; subst dir; discriminate.
        -- inversion Ct. subst c. apply in_app_iff in I. destruct I as [I|[<-|[]]].
           ++ apply (B r c0 I C0).
           ++ cbn in Q. rewrite Z.eqb_refl in Q. discriminate.
      * intros r I. rewrite next_sid_persist_tables. rewrite persist_tables_messages in I.
        apply in_app_iff in I. destruct I as [I|[<-|[]]]; [now apply S|exact Hk].
      * intros s I. rewrite next_sid_persist_tables. now apply H.
  - (* set_seq_num *)
    assert (Eh : forall s, In s (r_hs (stepf st (OSetSeq h o i))) -> key s < next_sid (cur (r_db st))).
    { unfold stepf. cbn [step].
      pose proof (set_seq_num_key (handle (r_hs st) h) o i (r_db st)) as K.
      destruct (set_seq_num _ _ _ _) as [[d' s'] e]. cbn [fst snd r_hs] in *.
      intros s I. apply in_set_nth in I. destruct I as [->|I]; [|now apply H].
      rewrite K. now apply handle_known. }
    pose proof (stepf_set_db st h o i) as Ed. rewrite set_seq_num_db in Ed.
    destruct (set_args (handle (r_hs st) h) o i) as [[no ni]|].
    + set (sid := key (handle (r_hs st) h)) in *.
      constructor; unfold handles_known; rewrite Ed; cbn [cur].
      * intros r c I Ct. rewrite counter_set_tables in Ct. cbn [set_tables t_messages] in I. unfold del_from in I.
        apply filter_In in I. destruct I as [I K2]. apply filter_In in I. destruct I as [I K1].
        destruct (counter (cur (r_db st)) (m_sid r)) as [c0|] eqn:C0; [|discriminate]. cbn in Ct.
        destruct (m_sid r =? sid) eqn:Q; inversion Ct; subst c; [|apply (B r c0 I C0)].
        cbn [fst snd andb] in *. split; intros D; rewrite D, Z.eqb_refl in *; rewrite ?andb_true_r in *;
          apply negb_true_iff, Z.leb_gt in K1 || apply negb_true_iff, Z.leb_gt in K2; lia.
      * intros r I. rewrite next_sid_set_tables. cbn [set_tables t_messages] in I. unfold del_from in I.
        apply filter_In in I. destruct I as [I _]. apply filter_In in I. destruct I as [I _]. now apply S.
      * intros s I. rewrite next_sid_set_tables. now apply Eh.
    + constructor; unfold handles_known; rewrite Ed; assumption.
  - (* reopen *)
    assert (Ec : cur (r_db (stepf st OReopen)) = cur (r_db st)) by (rewrite stepf_reopen_db, cur_reopen; now symmetry).
    constructor; unfold handles_known; rewrite Ec; assumption.
Qed.

Lemma run_asc_inv ops : forall st,
  db_wf (r_db st) -> clean (r_db st) -> asc_inv st -> ascending st ops = true -> asc_inv (run_from st ops).
Proof.
  induction ops as [|o ops IH]; intros st W C I A; [exact I|].
  cbn [ascending] in A. apply andb_prop in A. destruct A as [A1 A2].
  cbn [run_from fold_left]. apply IH; [now apply step_wf|now apply step_clean|now apply step_asc_inv|exact A2].
Qed.

Lemma ascending_firstn ops : forall st j, ascending st ops = true -> ascending st (firstn j ops) = true.
Proof.
  induction ops as [|o ops IH]; intros st j A; destruct j; try reflexivity.
  cbn [ascending firstn] in *. apply andb_prop in A. destruct A as [A1 A2]. rewrite A1. cbn. now apply IH.
Qed.

Lemma asc_inv_init : asc_inv init.
Proof. constructor; [intros r c I|intros r I|intros s I]; cbn in I; destruct I. Qed.

(* C08 (3), DESIGN form, for ascending histories: in every recovered state every stored number is
   at most the stored counter of its session and direction *)
Lemma row_le_counter_partial ops k :
  ascending init ops = true ->
  let '(d, done, died) := run_crash init ops k 0 in below (cur (reopen d)).
Proof.
  intros A. pose proof (crash_atomic ops k) as At.
  destruct (run_crash init ops k 0) as [[d done] died].
  destruct At as [_ [E _]]. rewrite E. rewrite run_state_from.
  apply run_asc_inv; [split; apply wf_empty|reflexivity|apply asc_inv_init|now apply ascending_firstn].
Qed.

(* ... and only of those: store 5, then 3 (outbound, one session) *)
Definition desc_witness : list op :=
  [OCreate [65%N] [66%N]; OPersist 0 1 [1; 51; 52; 61; 53; 1]%N; OPersist 0 1 [1; 51; 52; 61; 51; 1]%N].

Lemma row_le_counter_refuted :
  exists ops, ascending init ops = false /\ ~ below (cur (r_db (run_state ops))).
Proof.
  exists desc_witness. split; [vm_compute; reflexivity|].
  intros B. specialize (B (mkM 5 1 1 [1; 51; 52; 61; 53; 1]%N) (3, 0)). vm_compute in B.
  destruct B as [B _]; [left; reflexivity|reflexivity|]. apply B; reflexivity.
Qed.
